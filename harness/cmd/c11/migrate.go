// Migration stream of the C11 driver: generated templates are pushed through the REAL flow migration 13.2 -> 13.3
// (migrations.MigrateToVersion -> Migrate13_3 -> the generic template walk RewriteTemplates of
// flows/definition/migrations/templates.go -> refactor.Template with ContextRefRename("webhook", "webhook.json")).
//
// A minimal 13.2.0 flow carries one template in every kind of place the walk visits: action text, attachments,
// quick replies, a run result value, webhook url/body/header, the router operand, case arguments, and the
// localization of text, quick replies and case arguments; plus "@webhook" in places that are NOT templates (names).
//
// Oracle M (the rename clause of the statement, evaluated on what the migration returns for each slot):
//
//	M1 exactly the renamed references change: the slot text changes iff it has a free context reference named
//	   webhook in ANY letter case (references bound by a same-named anonymous-function parameter do not count)
//	M2 the rewrite is meaning preserving: the slot evaluates to the same text when `webhook` holds V before and
//	   {json: V} after
//	M3 nothing but the template slots (and spec_version) changes
//	M4 (differential) the slot equals what refactor.Template returns for the same call
//
// and the slot results are also compared with the Coq model of refactor.Template (model/ExRefactorCorr.v).
package main

import (
	"encoding/json"
	"fmt"
	"reflect"
	"strconv"
	"strings"

	"github.com/Masterminds/semver"
	"github.com/nyaruka/goflow/excellent"
	"github.com/nyaruka/goflow/excellent/refactor"
	"github.com/nyaruka/goflow/excellent/types"
	"github.com/nyaruka/goflow/flows/definition/migrations"

	"verifharness/pkg/hx"
)

// the places of the flow that hold a template
var slotNames = []string{"msg.text", "msg.attachment", "msg.quick_reply0", "msg.quick_reply1", "result.value", "hook.url", "hook.body",
	"hook.header", "router.operand", "case0.arg", "case1.arg0", "case1.arg1", "loc.text", "loc.quick_reply", "loc.case_arg"}

const (
	uMsg    = "8eebd020-1af5-431c-b943-aa670fc74da9"
	uRes    = "2f1a7b3c-6d0e-4c55-9a44-0d4f1f1e6a01"
	uHook   = "5b1f3c52-91a1-4f2e-8f0b-3f6e1c2d7a02"
	uCase0  = "e27c3bce-1095-4d08-9164-dc4530a0688a"
	uCase1  = "4a6c3b0b-0658-4a93-ae37-bee68f6a6a87"
	notTmpl = "Ask @webhook and @Webhook.x" // a name: not a template, must never change
)

func buildFlow132(s map[string]string) map[string]any {
	cat := func(u, name, exit string) map[string]any {
		return map[string]any{"uuid": u, "name": name, "exit_uuid": exit}
	}
	return map[string]any{
		"uuid": "76f0a02f-3b75-4b86-9064-e9195e1b3a02", "name": notTmpl, "spec_version": "13.2.0", "language": "eng", "type": "messaging",
		"localization": map[string]any{
			"spa": map[string]any{
				uMsg:   map[string]any{"text": []any{s["loc.text"]}, "quick_replies": []any{s["loc.quick_reply"]}},
				uCase0: map[string]any{"arguments": []any{s["loc.case_arg"]}},
			},
		},
		"nodes": []any{
			map[string]any{
				"uuid": "365293c7-633c-45bd-96b7-0b059766588d",
				"actions": []any{
					map[string]any{"uuid": uMsg, "type": "send_msg", "text": s["msg.text"], "attachments": []any{s["msg.attachment"]},
						"quick_replies": []any{s["msg.quick_reply0"], s["msg.quick_reply1"]}},
					map[string]any{"uuid": uRes, "type": "set_run_result", "name": notTmpl, "value": s["result.value"], "category": "@webhook"},
					map[string]any{"uuid": uHook, "type": "call_webhook", "method": "POST", "url": s["hook.url"], "body": s["hook.body"],
						"headers": map[string]any{"X-Custom": s["hook.header"]}, "result_name": "webhook"},
				},
				"router": map[string]any{
					"type": "switch", "wait": map[string]any{"type": "msg"}, "default_category_uuid": "5ce6c69a-fdfe-4594-ab71-26be534d31c3",
					"result_name": "Webhook", "operand": s["router.operand"],
					"cases": []any{
						map[string]any{"uuid": uCase0, "type": "has_any_word", "arguments": []any{s["case0.arg"]}, "category_uuid": "2ab9b033-77a8-4e56-a558-b568c00c9492"},
						map[string]any{"uuid": uCase1, "type": "has_number_between", "arguments": []any{s["case1.arg0"], s["case1.arg1"]}, "category_uuid": "c7bca181-0cb3-4ec6-8555-f7e5644238ad"},
					},
					"categories": []any{
						cat("2ab9b033-77a8-4e56-a558-b568c00c9492", "@webhook Yes", "3bd19c40-1114-4b83-b12e-f0c38054ba3f"),
						cat("c7bca181-0cb3-4ec6-8555-f7e5644238ad", "No", "9ad71fc4-c2f8-4aab-a193-7bafad172ca0"),
						cat("5ce6c69a-fdfe-4594-ab71-26be534d31c3", "Other", "e80bc037-3b57-45b5-9f19-a8346a475578"),
					},
				},
				"exits": []any{
					map[string]any{"uuid": "3bd19c40-1114-4b83-b12e-f0c38054ba3f"}, map[string]any{"uuid": "9ad71fc4-c2f8-4aab-a193-7bafad172ca0"},
					map[string]any{"uuid": "e80bc037-3b57-45b5-9f19-a8346a475578"},
				},
			},
		},
	}
}

// where each slot lives in a flow document (read and write access on the generic JSON value)
func slotRef(f map[string]any, name string) (get func() (string, bool), set func(string)) {
	dig := func(v any, path ...any) any {
		for _, p := range path {
			switch k := p.(type) {
			case string:
				m, ok := v.(map[string]any)
				if !ok {
					return nil
				}
				v = m[k]
			case int:
				a, ok := v.([]any)
				if !ok || k >= len(a) {
					return nil
				}
				v = a[k]
			}
		}
		return v
	}
	at := func(container any, key any) (func() (string, bool), func(string)) {
		return func() (string, bool) {
				s, ok := dig(container, key).(string)
				return s, ok
			}, func(x string) {
				switch k := key.(type) {
				case string:
					if m, ok := container.(map[string]any); ok {
						m[k] = x
					}
				case int:
					if a, ok := container.([]any); ok && k < len(a) {
						a[k] = x
					}
				}
			}
	}
	node := dig(f, "nodes", 0)
	act := func(i int) any { return dig(node, "actions", i) }
	loc := func(u string) any { return dig(f, "localization", "spa", u) }
	switch name {
	case "msg.text":
		return at(act(0), "text")
	case "msg.attachment":
		return at(dig(act(0), "attachments"), 0)
	case "msg.quick_reply0":
		return at(dig(act(0), "quick_replies"), 0)
	case "msg.quick_reply1":
		return at(dig(act(0), "quick_replies"), 1)
	case "result.value":
		return at(act(1), "value")
	case "hook.url":
		return at(act(2), "url")
	case "hook.body":
		return at(act(2), "body")
	case "hook.header":
		return at(dig(act(2), "headers"), "X-Custom")
	case "router.operand":
		return at(dig(node, "router"), "operand")
	case "case0.arg":
		return at(dig(node, "router", "cases", 0, "arguments"), 0)
	case "case1.arg0":
		return at(dig(node, "router", "cases", 1, "arguments"), 0)
	case "case1.arg1":
		return at(dig(node, "router", "cases", 1, "arguments"), 1)
	case "loc.text":
		return at(dig(loc(uMsg), "text"), 0)
	case "loc.quick_reply":
		return at(dig(loc(uMsg), "quick_replies"), 0)
	case "loc.case_arg":
		return at(dig(loc(uCase0), "arguments"), 0)
	}
	panic("unknown slot " + name)
}

// templates that mention the renamed top level in every letter case, free and bound, next to templates that do not
var webhookPieces = []string{"@webhook", "@Webhook.foo", "@WEBHOOK", "@webHook.items.0", "@WebHook.id", `@(UPPER(WEBHOOK["foo"]))`, `@(webhook.id & Webhook.name)`,
	`@(Webhook)`, `@(WEBHOOK.items[0].id)`, `@(foreach(WebHook.items, (x) => x.id & webhook.id))`, `@(foreach(webhook.items, (Webhook) => Webhook.id))`,
	`@(foreach(Webhook.items, (webhook) => webhook.id) & WEBHOOK.name)`, `@(foreach(array(1, 2), (WEBHOOK) => WEBHOOK * 2))`, `@(if(Webhook.id = 7, "a", webhook.foo))`,
	`@(webhook["foo"])`, `@(Webhook.foo = "x")`, `@(default(WEBHOOK.missing, "none"))`, `@(count(webHOOK.items) + 1)`}
var otherPieces = []string{"@contact.fields.webhook", "@results.webhook.extra", "flows@@webhook.com", "me@Webhook.org", `@("webhook")`, `@("WEBHOOK " & foo)`, `@(contact.Webhook)`,
	"@(Webhook", "@(1 / )", "webhook", "WEBHOOK", "@foo", "@(foo & bar)", "@Foo.name", "Hi there", "", "@@Webhook", "@ webhook", "@(upper(x))", "@contact", "@(foo.webhook.bar)"}

func genMigrationTemplate(r *hx.Rand, exprs []string) string {
	var sb strings.Builder
	for n := r.Range(1, 3); n > 0; n-- {
		sb.WriteString(hx.Pick(r, []string{"", "", " ", "Hi ", " and ", "! ", "\n", "é😀 "}))
		switch k := r.Intn(10); {
		case k < 5:
			sb.WriteString(hx.Pick(r, webhookPieces))
		case k < 8:
			sb.WriteString(hx.Pick(r, otherPieces))
		default:
			if len(exprs) > 0 {
				sb.WriteString("@(" + hx.Pick(r, exprs) + ")")
			}
		}
	}
	return sb.String()
}

// hasFreeWebhook: the statement's "renamed references": a context reference named webhook (any case) that is not bound
// by a same-named parameter of an enclosing anonymous function.  Expressions the parser rejects have no references.
func hasFreeWebhook(tpl string) bool {
	found := false
	excellent.VisitTemplate(tpl, []string{"webhook"}, false, func(tt excellent.XTokenType, tok string) error {
		if tt == excellent.BODY {
			return nil
		}
		if p, err := excellent.Parse(tok, nil); err == nil {
			saw := false
			for _, n := range expectedRefs(p, "webhook", "\x01", false, &saw) {
				if n == "\x01" {
					found = true
				}
			}
		}
		return nil
	})
	return found
}

// a printed expression of the template would not re-parse for a listed, grammar-rooted reason (reported by R1)
func hasKnownRoundtripFailure(tpl string) bool {
	bad := false
	excellent.VisitTemplate(tpl, []string{"webhook"}, false, func(tt excellent.XTokenType, tok string) error {
		if tt == excellent.BODY {
			return nil
		}
		if p, err := excellent.Parse(tok, nil); err == nil {
			ti := &treeInfo{binops: map[string]bool{}}
			coqTree(p, 1, ti)
			if classifyReparse(ti, p.String()) != "" {
				bad = true
			}
		}
		return nil
	})
	return bad
}

var webhookValues = []func() types.XValue{
	func() types.XValue {
		return types.NewXObject(map[string]types.XValue{"foo": types.NewXText("x"), "id": types.RequireXNumberFromString("7"), "name": types.NewXText("Hook"),
			"items": types.NewXArray(types.NewXObject(map[string]types.XValue{"id": types.RequireXNumberFromString("1")}), types.NewXObject(map[string]types.XValue{"id": types.RequireXNumberFromString("2")}))})
	},
	func() types.XValue { return types.NewXText("plain body") },
	func() types.XValue { return types.NewXArray(types.NewXText("a"), types.NewXText("b")) },
	func() types.XValue { return nil },
}

type addRefFunc func(tpl string, tops []string, mode int, from, to, out string, hasErr bool)

func migrationStream(o *hx.Opts, res *hx.Result, r *hx.Rand, exprs []string, addRef addRefFunc) {
	nFlows := o.Count(120, 4000)
	to133 := semver.MustParse("13.3.0")
	corpus := [][]string{
		{"@Webhook.foo", `@(UPPER(WEBHOOK["foo"]))`, "@webhook", "@WEBHOOK"},
		{`@(foreach(webhook.items, (webhook) => webhook.id))`, `@(foreach(Webhook.items, (WEBHOOK) => WEBHOOK.id) & webHook.name)`, "me@Webhook.org", "@contact.fields.webhook"},
	}
	for i := 0; i < nFlows+len(corpus); i++ {
		slots := map[string]string{}
		for j, name := range slotNames {
			if i < len(corpus) {
				slots[name] = corpus[i][j%len(corpus[i])]
			} else {
				slots[name] = genMigrationTemplate(r, exprs)
			}
		}
		orig := buildFlow132(slots)
		data, _ := json.Marshal(orig)
		migrated, err := migrations.MigrateToVersion(data, to133, migrations.DefaultConfig)
		if err != nil {
			res.Fail("migrate13_3:migration-error", map[string]any{"slots": slots}, err.Error())
			continue
		}
		var after map[string]any
		if err := json.Unmarshal(migrated, &after); err != nil {
			res.Fail("migrate13_3:migration-error", map[string]any{"slots": slots}, err.Error())
			continue
		}
		res.Eval("migrate:"+string(data), true)

		for _, name := range slotNames {
			tpl := slots[name]
			get, _ := slotRef(after, name)
			out, ok := get()
			res.OracleChecks++
			if !ok {
				res.Fail("migrate13_3:slot-lost", map[string]any{"slot": name, "template": tpl}, "the migrated flow has no text in this place")
				continue
			}
			free := hasFreeWebhook(tpl)
			res.Dist(fmt.Sprintf("migrate:slot-has-free-webhook=%v", free))
			in := map[string]any{"slot": name, "template": tpl, "migrated": out}
			// M1
			if free && out == tpl {
				res.Fail("migrate13_3:reference-not-renamed", in, fmt.Sprintf("slot %s: %q has a free reference to webhook but Migrate13_3 left it unchanged", name, tpl))
				continue
			}
			if !free && out != tpl {
				res.Fail("migrate13_3:changed-without-reference", in, fmt.Sprintf("slot %s: %q has no free reference to webhook but was rewritten to %q", name, tpl, out))
				continue
			}
			// M4 and the model correspondence
			want, werr := refactor.Template(tpl, []string{"webhook"}, refactor.ContextRefRename("webhook", "webhook.json"))
			if validInput(tpl) && (i < len(corpus) || r.Intn(3) == 0) {
				addRef(tpl, []string{"webhook"}, 2, "webhook", "webhook.json", out, werr != nil)
			}
			if out != want {
				res.Fail("migrate13_3:differs-from-refactor", in, fmt.Sprintf("slot %s: the migration returned %q, refactor.Template returns %q", name, out, want))
				continue
			}
			// M2
			if !free || hasKnownRoundtripFailure(tpl) {
				continue
			}
			for k, mk := range webhookValues {
				ctx := map[string]types.XValue{"foo": types.NewXText("bar"), "bar": types.RequireXNumberFromString("2"), "x": types.NewXText("ab"),
					"contact": types.NewXObject(map[string]types.XValue{"name": types.NewXText("Bob"), "webhook": types.NewXText("cw")})}
				ctx2 := map[string]types.XValue{}
				for kk, v := range ctx {
					ctx2[kk] = v
				}
				ctx["webhook"] = mk()
				ctx2["webhook"] = types.NewXObject(map[string]types.XValue{"json": mk()})
				a, ae, ap := templateReal(tpl, ctx)
				b, be, bp := templateReal(out, ctx2)
				if ap != "" || bp != "" {
					continue
				}
				if a != b || ae != be {
					in["webhook_value"] = k
					res.Fail("migrate13_3:value-changed", in, fmt.Sprintf("slot %s: %q = %q err=%v with webhook = V, migrated %q = %q err=%v with webhook = {json: V}", name, tpl, a, ae, out, b, be))
					break
				}
			}
		}

		// M3: putting the original templates back (and the old version) must give the original document
		res.OracleChecks++
		for _, name := range slotNames {
			_, set := slotRef(after, name)
			set(slots[name])
		}
		after["spec_version"] = "13.2.0"
		var origGeneric map[string]any
		json.Unmarshal(data, &origGeneric)
		if !reflect.DeepEqual(after, origGeneric) {
			a, _ := json.Marshal(after)
			res.Fail("migrate13_3:other-field-changed", map[string]any{"original": string(data), "migrated": string(migrated)},
				"something other than the template slots and spec_version changed: with the slots restored the document is "+string(a))
		}
	}
}

// R4 (second hunt, finding C11/1): Parse rejects expressions nested deeper than a limit (excellent.MaxParseDepth). A
// rewrite must not silently turn a template that evaluates into one that does not: for the longest operator chain
// Parse still accepts (found by search, so independent of the constant), refactor.Template with the rename of the
// 13.3 migration (which makes the deepest leaf one level deeper) and with a re-printing identity must either report an
// error and keep the template as it was, or return a template that evaluates as before in the moved context.
func depthLimitOracle(res *hx.Result) {
	shapes := []struct {
		name  string
		build func(n int) string
	}{
		{"additions", func(n int) string { return "webhook" + strings.Repeat(" + 1", n) }},
		{"concatenations", func(n int) string { return "webhook" + strings.Repeat(` & "a"`, n) }},
		{"minus-chain", func(n int) string { return strings.Repeat("-", n) + "webhook" }},
		{"parentheses", func(n int) string { return strings.Repeat("(", n) + "-webhook" + strings.Repeat(")", n) }},
	}
	parses := func(e string) bool { _, err := excellent.Parse(e, nil); return err == nil }
	for _, sh := range shapes {
		if !parses(sh.build(1)) || parses(sh.build(20000)) {
			res.Dist("depth-limit:" + sh.name + ":no-limit-found")
			continue
		}
		lo, hi := 1, 20000 // lo parses, hi does not
		for hi-lo > 1 {
			mid := (lo + hi) / 2
			if parses(sh.build(mid)) {
				lo = mid
			} else {
				hi = mid
			}
		}
		for _, n := range []int{lo, lo - 1, lo - 2} {
			tpl := "total: @(" + sh.build(n) + ")"
			ctx := map[string]types.XValue{"webhook": types.NewXNumberFromInt(5)}
			ctxW := map[string]types.XValue{"webhook": types.NewXObject(map[string]types.XValue{"json": types.NewXNumberFromInt(5)})}
			a, ae, ap := templateReal(tpl, ctx)
			if ap != "" || ae {
				res.Dist("depth-limit:" + sh.name + ":original-does-not-evaluate")
				continue
			}
			// through the real migration: Migrate13_3 has nowhere to report that it could not rewrite the expression
			if n == lo {
				res.OracleChecks++
				slots := map[string]string{}
				for _, name := range slotNames {
					slots[name] = "x"
				}
				slots["msg.text"] = tpl
				data, _ := json.Marshal(buildFlow132(slots))
				migrated, err := migrations.MigrateToVersion(data, semver.MustParse("13.3.0"), migrations.DefaultConfig)
				var after map[string]any
				if err == nil {
					err = json.Unmarshal(migrated, &after)
				}
				if err != nil {
					res.Fail("migrate13_3:migration-error", map[string]any{"shape": sh.name, "operators": n}, err.Error())
				} else {
					get, _ := slotRef(after, "msg.text")
					out, _ := get()
					b, be, bp := templateReal(out, ctxW)
					if bp != "" || be || a != b {
						res.Fail("migrate13_3:expression-at-parse-depth-limit-not-migrated", map[string]any{"shape": sh.name, "operators": n},
							fmt.Sprintf("send_msg text `total: @(%s)` with a chain of %d %s (the longest Parse accepts) evaluates to %q before the 13.3 migration (webhook = 5); the migrated flow has the text %q, which evaluates to %q err=%v with webhook = {json: 5}",
								ellipsis(sh.build(n), 40), n, sh.name, ellipsis(a, 40), ellipsis(out, 40), ellipsis(b, 40), be))
					}
				}
			}
			for _, tx := range []struct {
				name string
				f    func(excellent.Expression) bool
				ctx  map[string]types.XValue
			}{
				{"ContextRefRename(webhook, webhook.json)", refactor.ContextRefRename("webhook", "webhook.json"), ctxW},
				{"re-printing identity", func(excellent.Expression) bool { return true }, ctx},
			} {
				res.OracleChecks++
				out, err := refactor.Template(tpl, []string{"webhook"}, tx.f)
				if err != nil {
					if out != tpl {
						res.Fail("rename:expression-at-parse-depth-limit-deepened", map[string]any{"shape": sh.name, "operators": n, "transformation": tx.name},
							fmt.Sprintf("%s on a chain of %d %s (the longest Parse accepts: %d) reports an error but does not keep the template as it was", tx.name, n, sh.name, lo))
					}
					continue
				}
				b, be, bp := templateReal(out, tx.ctx)
				if bp != "" || be || a != b {
					res.Fail("rename:expression-at-parse-depth-limit-deepened", map[string]any{"shape": sh.name, "operators": n, "transformation": tx.name},
						fmt.Sprintf("template `total: @(%s)` with a chain of %d %s (the longest Parse accepts: %d) evaluates to %q; after %s, which reports no error, the template evaluates to %q err=%v panic=%q",
							ellipsis(sh.build(n), 40), n, sh.name, lo, ellipsis(a, 40), tx.name, ellipsis(b, 40), be, bp))
				}
			}
		}
	}
}

// R5 (review 2, N2): evaluation has a work budget (values are charged at their size as text). "Printing and re-parsing
// evaluates to the same value or fails alike" must hold at that boundary too: for expressions whose printed form
// differs from the source only in how a number is WRITTEN (trailing zeros, which printing drops), the longest text
// operand with which the source still evaluates is found by search, and around it source and printed form must
// evaluate alike.
func workBudgetOracle(res *hx.Result) {
	shapes := []struct {
		name  string
		build func(n int) string
	}{
		{"concatenation with 1.5000000000", func(n int) string {
			a := strconv.Quote(strings.Repeat("a", n))
			return a + " & " + a + " & " + a + " & 1.5000000000"
		}},
		{"concatenation with 00000000002", func(n int) string {
			a := strconv.Quote(strings.Repeat("a", n))
			return "0.250000000000000 & " + a + " & " + a + " & " + a
		}},
	}
	eval := func(src string) (evalOut, string, bool) {
		e, err := excellent.Parse(src, nil)
		if err != nil {
			return evalOut{}, "", false
		}
		out, _ := evalExpr(e, map[string]types.XValue{})
		return out, e.String(), true
	}
	for _, sh := range shapes {
		lo, hi := 1, 400000 // lo evaluates, hi does not
		if o, _, ok := eval(sh.build(lo)); !ok || o.isErr {
			res.Dist("work-budget:" + sh.name + ":small-case-fails")
			continue
		}
		if o, _, ok := eval(sh.build(hi)); !ok || !o.isErr {
			res.Dist("work-budget:" + sh.name + ":no-limit-found")
			continue
		}
		for hi-lo > 1 {
			mid := (lo + hi) / 2
			if o, _, _ := eval(sh.build(mid)); !o.isErr {
				lo = mid
			} else {
				hi = mid
			}
		}
		for n := lo - 1; n <= lo+3; n++ {
			res.OracleChecks++
			a, printed, _ := eval(sh.build(n))
			b, _, okB := eval(printed)
			if !okB || !sameValue(a, b) {
				res.Fail("roundtrip:eval-differs:number-scale-charged-to-work-budget", map[string]any{"shape": sh.name, "operand_bytes": n},
					fmt.Sprintf("%s with text operands of %d bytes (the longest with which the source evaluates: %d): source is an error=%v, its printed form `%s` parses=%v and is an error=%v",
						sh.name, n, lo, a.isErr, ellipsis(printed[max(0, len(printed)-24):], 30), okB, b.isErr))
			}
		}
	}
}
