// Driver for C11 (printing and re-parsing an expression preserves its meaning; identity / rename refactors).
//
// Streams (every random choice derives from the run's PRNG):
//
//	parse     grammar-driven random expressions (all operators with mixed precedence, minus chains, parentheses,
//	          dot/index lookups with numeric and quoted keys, calls, anonymous functions, all literal forms with
//	          escapes and non-ASCII, random whitespace and letter case) + a stream of nearly-valid strings (one
//	          or two random edits of a valid one) -> the REAL excellent.Parse: error or tree, and String()
//	          -> cases_C11p_*.v for model/ExLexer.v + ExParser.v + ExPrinter.v (model/ExParseCorr.v)
//	oracle    the property sentence evaluated directly on the real code (independent of the models):
//	  R1 for every parseable e: Parse(Parse(e).String()) succeeds, prints identically (fixed point after one
//	     round), and evaluates to the same value or fails alike in 5 random contexts
//	  R2 refactor.Template with an identity transformation (one that reports "changed", forcing the reprint, and
//	     one that reports "unchanged") leaves the value of a template with surrounding text unchanged
//	  R3 refactor.Template with ContextRefRename(from, to) - to fresh, or the name of an anonymous-function parameter
//	     of the template, or a path ending in a number: the binding-aware reference list of the output (free names,
//	     #depth.index for references bound by a parameter; names equal by lower case as in evaluation) is what the
//	     statement prescribes (exactly the free references named from are renamed and stay free - capture in either
//	     direction fails, alpha-renaming of parameters does not), every expression of the output parses, and the
//	     template evaluates as before when what `from` held is found where `to` points
package main

import (
	"fmt"
	"maps"
	"math/bits"
	"os"
	"regexp"
	"slices"
	"sort"
	"strconv"
	"strings"
	"time"
	"unicode"
	"unicode/utf8"

	"github.com/antlr4-go/antlr/v4"
	gen "github.com/nyaruka/goflow/antlr/gen/excellent3"
	"github.com/nyaruka/goflow/envs"
	"github.com/nyaruka/goflow/excellent"
	"github.com/nyaruka/goflow/excellent/refactor"
	"github.com/nyaruka/goflow/excellent/types"

	"verifharness/pkg/exsx"
	"verifharness/pkg/hx"
)

var env = envs.NewBuilder().Build()

// ---------------------------------------------------------------------------------------------
// the real lexer (used for classification and the fragment filter only)

type ltok struct{ Kind, Text string }

func lexReal(e string) []ltok {
	l := gen.NewExcellent3Lexer(antlr.NewInputStream(e))
	l.RemoveErrorListeners()
	var out []ltok
	for _, t := range l.GetAllTokens() {
		out = append(out, ltok{l.SymbolicNames[t.GetTokenType()], t.GetText()})
	}
	return out
}

// rawByteEscape: the double-quoted lexeme is accepted by strconv.Unquote and one of its \xHH / \ooo escapes
// denotes a single byte >= 0x80 (the value is then not a code point list: outside lib/Quote.v)
func rawByteEscape(lexeme string) bool {
	if _, err := strconv.Unquote(lexeme); err != nil || len(lexeme) < 2 {
		return false
	}
	s := lexeme[1 : len(lexeme)-1]
	for len(s) > 0 {
		v, mb, tail, err := strconv.UnquoteChar(s, '"')
		if err != nil {
			return false
		}
		if !mb && v >= 0x80 {
			return true
		}
		s = tail
	}
	return false
}

// ---------------------------------------------------------------------------------------------
// the real tree -> Coq term of type ExSyntax.expr (+ facts used for classification)

type treeInfo struct {
	depth       int
	binops      map[string]bool
	textValues  []string
	names       []string // ContextReference names
	lambdaArgs  []string
	numAfterNum bool // DotLookup(DotLookup(_, digits), digits)
	escapeLit   bool
}

func isDigits(s string) bool {
	for _, c := range s {
		if c < '0' || c > '9' {
			return false
		}
	}
	return s != ""
}

func coqTree(e excellent.Expression, d int, ti *treeInfo) string {
	if d > ti.depth {
		ti.depth = d
	}
	bin := func(op string, a, b excellent.Expression) string {
		ti.binops[op] = true
		return fmt.Sprintf("(EBin %s %s %s)", op, coqTree(a, d+1, ti), coqTree(b, d+1, ti))
	}
	switch n := e.(type) {
	case *excellent.ContextReference:
		ti.names = append(ti.names, n.Name)
		return "(ECtxRef " + hx.Str(n.Name) + ")"
	case *excellent.DotLookup:
		if inner, ok := n.Container.(*excellent.DotLookup); ok && isDigits(inner.Lookup) && isDigits(n.Lookup) {
			ti.numAfterNum = true
		}
		return fmt.Sprintf("(EDot %s %s)", coqTree(n.Container, d+1, ti), hx.Str(n.Lookup))
	case *excellent.ArrayLookup:
		return fmt.Sprintf("(EIndex %s %s)", coqTree(n.Container, d+1, ti), coqTree(n.Lookup, d+1, ti))
	case *excellent.FunctionCall:
		ps := make([]string, len(n.Params))
		for i, p := range n.Params {
			ps[i] = coqTree(p, d+1, ti)
		}
		return fmt.Sprintf("(ECall %s [%s])", coqTree(n.Func, d+1, ti), strings.Join(ps, "; "))
	case *excellent.AnonFunction:
		ti.lambdaArgs = append(ti.lambdaArgs, n.Args...)
		return fmt.Sprintf("(EAnon %s %s)", hx.List(n.Args, hx.Str), coqTree(n.Body, d+1, ti))
	case *excellent.Concatenation:
		return bin("OConcat", n.Exp1, n.Exp2)
	case *excellent.Addition:
		return bin("OAdd", n.Exp1, n.Exp2)
	case *excellent.Subtraction:
		return bin("OSub", n.Exp1, n.Exp2)
	case *excellent.Multiplication:
		return bin("OMul", n.Exp1, n.Exp2)
	case *excellent.Division:
		return bin("ODiv", n.Exp1, n.Exp2)
	case *excellent.Exponent:
		return bin("OExp", n.Expression, n.Exponent)
	case *excellent.Equality:
		return bin("OEq", n.Exp1, n.Exp2)
	case *excellent.InEquality:
		return bin("ONeq", n.Exp1, n.Exp2)
	case *excellent.LessThan:
		return bin("OLt", n.Exp1, n.Exp2)
	case *excellent.LessThanOrEqual:
		return bin("OLte", n.Exp1, n.Exp2)
	case *excellent.GreaterThan:
		return bin("OGt", n.Exp1, n.Exp2)
	case *excellent.GreaterThanOrEqual:
		return bin("OGte", n.Exp1, n.Exp2)
	case *excellent.Negation:
		return "(ENeg " + coqTree(n.Exp, d+1, ti) + ")"
	case *excellent.Parentheses:
		return "(EParen " + coqTree(n.Exp, d+1, ti) + ")"
	case *excellent.TextLiteral:
		v := n.Value.Native()
		ti.textValues = append(ti.textValues, v)
		if strings.ContainsAny(v, "\"\\\n\t") {
			ti.escapeLit = true
		}
		return "(EText " + hx.Str(v) + ")"
	case *excellent.NumberLiteral:
		return "(ENum " + hx.Str(n.Value.Describe()) + ")"
	case *excellent.BooleanLiteral:
		if n.Value.Native() {
			return "(EBool true)"
		}
		return "(EBool false)"
	case *excellent.NullLiteral:
		return "ENull"
	}
	panic(fmt.Sprintf("unknown node %T", e))
}

// children of a node, in source order
func children(e excellent.Expression) []excellent.Expression {
	switch n := e.(type) {
	case *excellent.DotLookup:
		return []excellent.Expression{n.Container}
	case *excellent.ArrayLookup:
		return []excellent.Expression{n.Container, n.Lookup}
	case *excellent.FunctionCall:
		return append([]excellent.Expression{n.Func}, n.Params...)
	case *excellent.AnonFunction:
		return []excellent.Expression{n.Body}
	case *excellent.Concatenation:
		return []excellent.Expression{n.Exp1, n.Exp2}
	case *excellent.Addition:
		return []excellent.Expression{n.Exp1, n.Exp2}
	case *excellent.Subtraction:
		return []excellent.Expression{n.Exp1, n.Exp2}
	case *excellent.Multiplication:
		return []excellent.Expression{n.Exp1, n.Exp2}
	case *excellent.Division:
		return []excellent.Expression{n.Exp1, n.Exp2}
	case *excellent.Exponent:
		return []excellent.Expression{n.Expression, n.Exponent}
	case *excellent.Equality:
		return []excellent.Expression{n.Exp1, n.Exp2}
	case *excellent.InEquality:
		return []excellent.Expression{n.Exp1, n.Exp2}
	case *excellent.LessThan:
		return []excellent.Expression{n.Exp1, n.Exp2}
	case *excellent.LessThanOrEqual:
		return []excellent.Expression{n.Exp1, n.Exp2}
	case *excellent.GreaterThan:
		return []excellent.Expression{n.Exp1, n.Exp2}
	case *excellent.GreaterThanOrEqual:
		return []excellent.Expression{n.Exp1, n.Exp2}
	case *excellent.Negation:
		return []excellent.Expression{n.Exp}
	case *excellent.Parentheses:
		return []excellent.Expression{n.Exp}
	}
	return nil
}

// the statement of the rename clause: the names of the context references after renaming `from` to `to` — a
// reference inside an anonymous function with a parameter named like `from` is a reference to that parameter, not
// to the context, and keeps its name.  (lower-cased names; sawBound reports whether such a bound reference exists)
func expectedRefs(e excellent.Expression, from, to string, bound bool, sawBound *bool) []string {
	var out []string
	if ref, ok := e.(*excellent.ContextReference); ok {
		name := strings.ToLower(ref.Name)
		if strings.ToLower(ref.Name) == strings.ToLower(from) {
			if bound {
				*sawBound = true
			} else {
				name = strings.ToLower(to)
			}
		}
		return []string{name}
	}
	if fn, ok := e.(*excellent.AnonFunction); ok {
		for _, a := range fn.Args {
			if strings.ToLower(a) == strings.ToLower(from) {
				bound = true
			}
		}
	}
	for _, c := range children(e) {
		out = append(out, expectedRefs(c, from, to, bound, sawBound)...)
	}
	return out
}

func rootType(e excellent.Expression) string {
	return strings.TrimPrefix(fmt.Sprintf("%T", e), "*excellent.")
}

// ---------------------------------------------------------------------------------------------
// generator

var nameSafe = []string{"foo", "bar", "contact", "x", "Foo", "FOO", "bAr", "_a", "x1", "é", "Éa", "名前", "ünï", "K", "truex", "nullable", "t"}
var funcNames = []string{"upper", "LOWER", "Title", "abs", "max", "min", "if", "and", "or", "text", "number", "array", "object", "join", "split",
	"default", "count", "text_length", "round", "mean", "sum", "reverse", "concat", "is_error", "word_count", "clean", "foreach", "filter", "boolean", "char", "code"}
var ctxKeys = []string{"foo", "bar", "contact", "x", "_a", "x1", "é", "éa", "名前", "ünï", "t", "k", "webhook", "results", "id", "item"}

type genCfg struct {
	rareBad bool // allow the shapes of the known findings (numeric lookup after numeric lookup, value ending in a backslash next to another literal, Cherokee names)
}

func ws(r *hx.Rand) string {
	return hx.Pick(r, []string{"", "", "", " ", " ", "  ", "\t", "\n", " \r\n "})
}

func randCase(r *hx.Rand, s string) string {
	switch r.Intn(4) {
	case 0:
		return strings.ToUpper(s)
	case 1:
		rs := []rune(s)
		for i := range rs {
			if r.Bool() {
				rs[i] = unicode.ToUpper(rs[i])
			}
		}
		return string(rs)
	}
	return s
}

func genName(r *hx.Rand, cfg genCfg) string {
	if cfg.rareBad && r.Intn(60) == 0 {
		return hx.Pick(r, []string{"Ꭰ", "fooᎠ", "Ꮳx"})
	}
	return hx.Pick(r, nameSafe)
}

// text literals longer than any display truncation (129, 200, 1000+ characters, multi-byte)
var longTexts = []string{strings.Repeat("a", 129), strings.Repeat("ab ", 67), strings.Repeat("é", 130), strings.Repeat("x😀", 600),
	strings.Repeat("0123456789", 13) + "END", strings.Repeat("名前 ", 300), strings.Repeat("q\"", 70)}

func genTextLiteral(r *hx.Rand, cfg genCfg) string {
	if r.Intn(25) == 0 {
		return strconv.Quote(hx.Pick(r, longTexts))
	}
	switch k := r.Intn(12); {
	case k < 5:
		return strconv.Quote(hx.Pick(r, []string{"", "a", "hello world", "it's", "x y", "é😀", "名前", "(", ")", "@foo", "1", "a,b", "a\tb", "a\nb", "say \"hi\"", "c:\\dir", "\x01", "\u2028"}))
	case k < 8:
		// hand-written forms: escapes Go accepts, escapes it rejects (the visitor then strips the quotes), raw specials
		return hx.Pick(r, []string{`"\w+"`, `"a\tb"`, `"\x41"`, `"\101"`, `"\'"`, "\"a\nb\"", `"\U0001F600"`, `"\u00e9"`, `"\ud800"`, `"()"`, `"\q\""`,
			`"\a\b\f\v"`, `"\x4"`, `"\400"`, `"a\"b"`, `"\\\\"`, `"a\\b"`, `"\"\""`, `"é😀"`, `"[1,2]"`, `"=>"`, `"  "`})
	case k < 9:
		if cfg.rareBad {
			// values ending in a backslash
			return hx.Pick(r, []string{`"a\\"`, `"\\"`, `"a\x5c"`, `"\134"`, `"\u005c"`, `"x\\\\\\"`})
		}
		return `"b"`
	default:
		return strconv.Quote(hx.Pick(r, nameSafe))
	}
}

func genNumber(r *hx.Rand) string {
	return hx.Pick(r, []string{"0", "1", "2", "3", "7", "10", "12", "007", "00", "1.5", "1.50", "0.0", "2.0", "10.010", "0.5", "3.14159", "100", "1.0",
		"1000", "12345.678", "1000000", "0.000001", "123456789012345678901234567890", "0.10"})
}

func genSmallInt(r *hx.Rand) string { return hx.Pick(r, []string{"0", "1", "2", "3"}) }

var binOps = []string{"+", "-", "*", "/", "^", "=", "!=", "<", "<=", ">", ">=", "&"}

func genAtom(r *hx.Rand, d int, cfg genCfg) string {
	if d <= 0 {
		return genName(r, cfg)
	}
	switch k := r.Intn(14); {
	case k < 4:
		return genName(r, cfg)
	case k < 6:
		return "(" + ws(r) + genExpr(r, d-1, cfg) + ws(r) + ")"
	case k < 9:
		// dot lookup: NAME or INTEGER
		a := genAtom(r, d-1, cfg)
		var l string
		if r.Intn(3) == 0 {
			l = hx.Pick(r, []string{"0", "1", "2", "10", "01"})
			// a numeric lookup after a numeric lookup needs white space in the source; it is the F9 shape
			if !cfg.rareBad || r.Intn(4) != 0 {
				if isDigits(lastSegment(a)) {
					l = hx.Pick(r, []string{"name", "x"})
				}
			} else if isDigits(lastSegment(a)) {
				return a + " ." + l
			}
		} else {
			l = hx.Pick(r, []string{"name", "Name", "x", "fields", "é", "_1", "true", "NULL"})
		}
		return a + ws(r) + "." + ws(r) + l
	case k < 11:
		return genAtom(r, d-1, cfg) + ws(r) + "[" + ws(r) + hx.Pick(r, []string{genSmallInt(r), `"x"`, `"name"`, `"a b"`, "-1", genExpr(r, d-1, cfg)}) + ws(r) + "]"
	default:
		// call
		var f string
		if r.Intn(5) == 0 {
			f = genAtom(r, d-1, cfg)
		} else {
			f = randCase(r, hx.Pick(r, funcNames))
		}
		n := r.Intn(4)
		ps := make([]string, n)
		for i := range ps {
			ps[i] = ws(r) + genExpr(r, d-1, cfg) + ws(r)
		}
		return f + ws(r) + "(" + strings.Join(ps, ",") + ")"
	}
}

func lastSegment(a string) string {
	i := strings.LastIndex(a, ".")
	if i < 0 {
		return ""
	}
	return strings.TrimSpace(a[i+1:])
}

func genExpr(r *hx.Rand, d int, cfg genCfg) string {
	if d <= 0 {
		switch r.Intn(6) {
		case 0:
			return genTextLiteral(r, cfg)
		case 1:
			return genNumber(r)
		case 2:
			return randCase(r, hx.Pick(r, []string{"true", "false", "null"}))
		default:
			return genName(r, cfg)
		}
	}
	if r.Intn(18) == 0 {
		return genLambdaCall(r, d, cfg)
	}
	if r.Intn(25) == 0 {
		return genCaptureShape(r)
	}
	if r.Intn(25) == 0 {
		return genTargetCapture(r)
	}
	if r.Intn(40) == 0 {
		return genRescaledPower(r)
	}
	switch k := r.Intn(20); {
	case k < 4:
		return genAtom(r, d, cfg)
	case k < 6:
		return "-" + ws(r) + genExpr(r, d-1, cfg)
	case k < 13:
		op := hx.Pick(r, binOps)
		if op == "^" {
			// keep evaluation cheap: small literal exponents only
			return genExpr(r, d-1, cfg) + ws(r) + op + ws(r) + genSmallInt(r)
		}
		return genExpr(r, d-1, cfg) + ws(r) + op + ws(r) + genExpr(r, d-1, cfg)
	case k < 14 && r.Intn(2) == 0:
		// parentheses that carry meaning: a looser operator grouped under a tighter (or equal, on the right) one
		inner := genExpr(r, d-1, cfg) + ws(r) + hx.Pick(r, []string{"&", "=", "!=", "<", ">=", "+", "-", "*", "/"}) + ws(r) + genExpr(r, d-1, cfg)
		outer := hx.Pick(r, []string{"&", "=", "<=", "+", "-", "*", "/", "^"})
		grouped := "(" + ws(r) + inner + ws(r) + ")"
		if outer == "^" {
			return grouped + ws(r) + "^" + ws(r) + genSmallInt(r)
		}
		if r.Bool() {
			return grouped + ws(r) + outer + ws(r) + genExpr(r, d-1, cfg)
		}
		return genExpr(r, d-1, cfg) + ws(r) + outer + ws(r) + grouped
	case k < 14:
		// anonymous function, usually as an argument of foreach/filter
		n := r.Range(1, 2)
		args := make([]string, n)
		for i := range args {
			args[i] = ws(r) + hx.Pick(r, []string{"x", "y", "X", "item", "é"}) + ws(r)
		}
		lam := "(" + strings.Join(args, ",") + ")" + ws(r) + "=>" + ws(r) + genExpr(r, d-1, cfg)
		if r.Intn(3) != 0 {
			return hx.Pick(r, []string{"foreach", "filter"}) + "(" + hx.Pick(r, []string{"array(1, 2, 3)", `split("a b c", " ")`, "contact.items", "foo"}) + "," + ws(r) + lam + ")"
		}
		return lam
	case k < 16:
		return genTextLiteral(r, cfg)
	case k < 18:
		return genNumber(r)
	case k < 19:
		return randCase(r, hx.Pick(r, []string{"true", "false", "null"}))
	default:
		return genAtom(r, d, cfg)
	}
}

// an anonymous function whose parameters, written in upper/mixed case, are used in its body exactly as declared,
// applied to an array (so that the body is evaluated with the parameters bound)
func genLambdaCall(r *hx.Rand, d int, cfg genCfg) string {
	params := []string{"Item", "iTem", "X", "x", "É", "Val_1", "ITEM"}
	p1 := hx.Pick(r, params)
	use := func(p string) string {
		switch r.Intn(8) {
		case 0:
			return "upper(" + p + ")"
		case 1:
			return p + ws(r) + "&" + ws(r) + `"!"`
		case 2:
			return p + ws(r) + "*" + ws(r) + "2"
		case 3:
			return p + ".name"
		case 4:
			return "text_length(" + p + ") > 1"
		case 5:
			return "if(" + p + " = 2, " + p + ", " + genExpr(r, 0, cfg) + ")"
		case 6:
			return "(" + p + ")"
		default:
			return p
		}
	}
	arr := hx.Pick(r, []string{"array(1, 2, 3)", `array("a", "bc", "def")`, `split("a b c", " ")`, "contact.items", "foo", `array(object("name", "n1"), object("name", "n2"))`})
	switch r.Intn(4) {
	case 0:
		return "filter(" + arr + "," + ws(r) + "(" + p1 + ")" + ws(r) + "=>" + ws(r) + use(p1) + ")"
	case 1:
		// two parameters: foreach passes extra arguments to the function
		p2 := hx.Pick(r, params)
		if strings.EqualFold(p1, p2) {
			p2 = "Other"
		}
		return "foreach(" + arr + ", (" + p1 + "," + ws(r) + p2 + ") => " + use(p1) + " & " + p2 + ", " + genExpr(r, 0, cfg) + ")"
	case 2:
		// nested: the inner function also refers to the outer parameter
		p2 := hx.Pick(r, params)
		if strings.EqualFold(p1, p2) {
			p2 = "Inner"
		}
		return "foreach(" + arr + ", (" + p1 + ") => foreach(array(1, 2), (" + p2 + ") => " + use(p1) + " & " + use(p2) + "))"
	default:
		return "foreach(" + arr + "," + ws(r) + "(" + ws(r) + p1 + ws(r) + ")" + ws(r) + "=>" + ws(r) + use(p1) + ")"
	}
}

// listed templates for the rename oracle (hunt findings C11/1, C11/2, C11/3 and their neighbours)
type fixedRename struct{ tpl, from, to string }

var fixedRenames = []fixedRename{
	{"@(foreach(array(1, 2), (bar) => foo & bar))", "foo", "bar"},
	{"@(foreach(array(1, 2), (Bar) => foo.name & BAR) & foo)", "foo", "bar"},
	{"@(foreach(array(1), (x) => foreach(array(2), (y) => foo & x & y)))", "foo", "x"},
	{"@(foreach(array(1, 2), (bar_, bar) => foo & bar & bar_))", "foo", "bar"},
	{"hi @(re\u017fults) and @(results)", "results", "zz9"},
	{"@(foreach(array(1, 2), (re\u017fults) => results & re\u017fults))", "results", "zz9"},
	{"@(foreach(array(1, 2), (\u212a) => k & \u212a)) @k", "k", "zz9"},
	{"@(\u0130d) and @(id) @(foreach(array(1), (\u0130d) => id))", "id", "zz9"},
	{"@(foo.2) and @foo.2", "foo", "zz8.1"},
	{"@foo.0.name @(foo.10 + foo .3)", "foo", "zz8.1"},
	{"@(foreach(array(1, 2), (zz8) => foo & zz8))", "foo", "zz8.json"},
	// parameters that differ only by case stay two parameters (second hunt, finding C11/2)
	{"@(((Bar, bar) => foo & bar)(\"1\", \"2\"))", "foo", "bar"},
	{"@(((bar, Bar) => foo & Bar & bar)(\"1\", \"2\"))", "foo", "bar"},
	{"@(foreach(array(\"a\", \"b\"), (x) => ((ZZ8, zz8) => x & foo & zz8)(\"1\", \"2\")))", "foo", "zz8.json"},
	{"@(((\u212a, k, K) => foo & k)(\"1\", \"2\", \"3\"))", "foo", "k"},
	// nested functions that bind the SAME name: the inner one shadows the outer one and must go on doing so when the
	// outer one is given a new name (seeded wave 5)
	{"@(((bar) => ((bar) => bar)(1) & foo)(\"X\"))", "foo", "bar"},
	{"@(((bar) => foo & ((Bar) => bar & BAR)(1))(\"X\"))", "foo", "bar"},
	{"@(((bar) => ((bar) => bar & foo)(1) & bar)(\"X\"))", "foo", "bar"},
	{"@(foreach(array(1, 2), (x) => foreach(array(3), (x) => x) & foo & x))", "foo", "x"},
	{"@(((zz8) => ((y) => ((zz8) => zz8 & y)(2))(1) & foo.k)(\"X\"))", "foo", "zz8.json"},
}

// the names the rename oracle renames
var renameNames = []string{"foo", "bar", "contact", "x", "item", "webhook", "results", "id", "k"}

// spellings of a name which the evaluator takes for the same name (strings.ToLower) or which only simple case folding
// (strings.EqualFold) takes for the same: long s (folds to s, lower-cases to itself), Kelvin sign (lower-cases to k),
// capital I with dot (lower-cases to i, folds to nothing else)
func oddSpelling(r *hx.Rand, v string) string {
	switch r.Intn(4) {
	case 0:
		if strings.Contains(v, "s") {
			return strings.Replace(v, "s", "\u017f", 1)
		}
	case 1:
		if strings.Contains(v, "k") {
			return strings.Replace(v, "k", "\u212a", 1)
		}
	case 2:
		if strings.Contains(v, "i") {
			return strings.Replace(v, "i", "\u0130", 1)
		}
	}
	return v
}

// a FREE mention of one name inside an anonymous function whose parameter has ANOTHER of the renamed names: renaming
// the first to the second must not let the parameter capture it (hunt finding C11/1), and which names are the same
// is decided by lower case as in evaluation (hunt finding C11/2)
func genTargetCapture(r *hx.Rand) string {
	v := hx.Pick(r, renameNames)
	p := hx.Pick(r, renameNames)
	for p == v {
		p = hx.Pick(r, renameNames)
	}
	if r.Intn(3) == 0 {
		v = oddSpelling(r, v)
	}
	if r.Intn(3) == 0 {
		p = oddSpelling(r, p)
	}
	if r.Intn(4) == 0 {
		p = strings.ToUpper(p[:1]) + p[1:]
	}
	switch r.Intn(8) {
	case 0:
		return "foreach(array(1, 2), (" + p + ") => " + v + " & " + p + ")"
	case 1:
		return "foreach(array(1, 2), (" + p + ") => " + p + " & " + v + ".name) & " + v
	case 2:
		// nested: the parameter of the outer function would capture
		return "foreach(array(1, 2), (" + p + ") => foreach(array(3), (y) => " + v + " & y & " + p + "))"
	case 3:
		// two functions with that parameter, one of which mentions the name
		return "foreach(array(1), (" + p + ") => " + p + ") & foreach(array(2), (" + p + ") => upper(" + v + ") & " + p + ")"
	case 4:
		// the parameter shadows the name itself: nothing to rename inside
		return "foreach(array(1, 2), (" + v + ", " + p + ") => " + v + " & " + p + ") & " + v
	case 6:
		// nested functions binding the same name: the inner one shadows, only the outer one has the name to be renamed
		// in its body (or the other way round)
		inner := "((" + p + ") => " + p + ")(1)"
		if r.Intn(3) == 0 {
			return "((" + p + ") => ((" + p + ") => " + p + " & " + v + ")(1) & " + p + ")(\"X\")"
		}
		return "((" + p + ") => " + inner + " & " + v + ")(\"X\")"
	case 5:
		// two parameters that differ only by case, called directly with different arguments
		q := strings.ToUpper(p[:1]) + p[1:]
		if q == p {
			q = strings.ToLower(p)
		}
		if r.Intn(2) == 0 {
			p, q = q, p
		}
		return "((" + p + ", " + q + ") => " + v + " & " + hx.Pick(r, []string{p, q}) + ")(\"1\", \"2\")"
	default:
		return "filter(array(1, 2, 3), (" + p + "_, " + p + ") => " + v + " = " + p + " + " + p + "_)"
	}
}

// the binding-aware view of the references of an expression, in source order: a reference that an enclosing
// anonymous function binds (innermost first; names are the same when their lower case is the same, as in evaluation)
// is written #depth.index (index = the parameter evaluation resolves it to), a free one is written as what free()
// makes of its lower-cased name
func refShape(e excellent.Expression, env [][]string, free func(string) []string) []string {
	if ref, ok := e.(*excellent.ContextReference); ok {
		name := strings.ToLower(ref.Name)
		for d := len(env) - 1; d >= 0; d-- {
			// the parameters are the properties of the function's scope: a later parameter of the same spelling replaces
			// an earlier one, and of several spellings that match the first in A-Z order is taken (XObject.Get)
			best := -1
			for i, a := range env[d] {
				if strings.ToLower(a) == name && (best < 0 || a <= env[d][best]) {
					best = i
				}
			}
			if best >= 0 {
				return []string{fmt.Sprintf("#%d.%d", len(env)-1-d, best)}
			}
		}
		return free(name)
	}
	if fn, ok := e.(*excellent.AnonFunction); ok {
		inner := append(append([][]string{}, env...), fn.Args)
		return refShape(fn.Body, inner, free)
	}
	var out []string
	for _, c := range children(e) {
		out = append(out, refShape(c, env, free)...)
	}
	return out
}

// the lower-cased names a replacement text refers to (webhook for webhook.json); nil when it is not an expression
func targetRefs(to string) []string {
	p, err := excellent.Parse(to, nil)
	if err != nil {
		return nil
	}
	return refShape(p, nil, func(n string) []string { return []string{n} })
}

// free AND bound mentions of one name in ONE expression: the name is a context reference outside and the parameter of
// an anonymous function inside — same spelling, different case, nested functions, the free mention before and after
func genCaptureShape(r *hx.Rand) string {
	v := hx.Pick(r, renameNames)
	spell := func() string {
		switch r.Intn(4) {
		case 0:
			return strings.ToUpper(v[:1]) + v[1:]
		case 1:
			return strings.ToUpper(v)
		}
		return v
	}
	free, par := v, v
	if r.Intn(3) == 0 {
		free = spell()
	}
	if r.Intn(3) == 0 {
		par = spell()
	}
	body := hx.Pick(r, []string{par + ".id", par + ".name", par + " * 2", "upper(" + par + ")", par, par + " & " + par})
	switch r.Intn(6) {
	case 0:
		return "foreach(" + free + ".items, (" + par + ") => " + body + ")"
	case 1:
		return free + " & foreach(array(1, 2), (" + par + ") => " + body + ") & " + free
	case 2:
		return "foreach(array(1, 2), (" + par + ") => " + body + ") & upper(" + free + ")"
	case 3:
		// nested: the inner function binds the name, the outer one does not
		return "foreach(" + free + ".items, (y) => foreach(array(1), (" + par + ") => " + body + " & y)) & " + free
	case 4:
		// the outer function binds it; a free mention only outside
		return "filter(array(1, 2, 3), (" + par + ") => foreach(array(1), (z) => " + par + " & z)) & " + free + ".name"
	default:
		return "if(" + free + " = 1, foreach(split(\"a b\", \" \"), (" + par + ", other) => " + body + " & other, " + free + "), " + free + ")"
	}
}

// a number literal whose printed form has another scale (trailing / leading zeros), under a large power or a product
func genRescaledPower(r *hx.Rand) string {
	lit := hx.Pick(r, []string{"0.10", "1.50", "2.0", "0.500", "10.0", "001.250", "0.10000", "3.000"})
	switch r.Intn(4) {
	case 0:
		return lit + " ^ " + hx.Pick(r, []string{"1000", "60000", "5000", "128"}) + hx.Pick(r, []string{"", " = 0", " > 1", " & \"\""})
	case 1:
		return lit + " * " + lit + " * " + hx.Pick(r, []string{"1000000", "0.0010", "3.0"})
	case 2:
		return "(" + lit + " ^ 200) * " + lit
	default:
		return lit + " ^ " + hx.Pick(r, []string{"2", "10", "64"}) + " / " + lit
	}
}

// one or two random edits of a valid expression
func mutate(r *hx.Rand, e string) string {
	rs := []rune(e)
	ins := []rune("()[].,\"\\-+*/^=<>!& @_a1.0\n")
	for n := r.Range(1, 2); n > 0; n-- {
		if len(rs) == 0 {
			rs = append(rs, hx.Pick(r, ins))
			continue
		}
		i := r.Intn(len(rs))
		switch r.Intn(3) {
		case 0:
			rs = append(rs[:i], rs[i+1:]...)
		case 1:
			rs = append(rs[:i], append([]rune{hx.Pick(r, ins)}, rs[i:]...)...)
		default:
			rs[i] = hx.Pick(r, ins)
		}
	}
	return string(rs)
}

// ---------------------------------------------------------------------------------------------
// contexts and evaluation

func randValue(r *hx.Rand, d int) types.XValue {
	switch k := r.Intn(10); {
	case k < 3:
		return types.NewXText(hx.Pick(r, []string{"", "bar", "Hello World", "a b c", "12", "1.5", "é", "true"}))
	case k < 5:
		return types.RequireXNumberFromString(hx.Pick(r, []string{"0", "1", "2", "3", "10", "1.5", "-2"}))
	case k < 6:
		return types.NewXBoolean(r.Bool())
	case k < 7:
		return nil
	case k < 8 && d > 0:
		n := r.Intn(4)
		vs := make([]types.XValue, n)
		for i := range vs {
			vs[i] = randValue(r, d-1)
		}
		return types.NewXArray(vs...)
	default:
		if d <= 0 {
			return types.NewXText("leaf")
		}
		m := map[string]types.XValue{}
		for _, k := range []string{"name", "x", "fields", "items", "é", "_1", "0", "1"} {
			if r.Intn(3) != 0 {
				m[k] = randValue(r, d-1)
			}
		}
		return types.NewXObject(m)
	}
}

// all = every key present (templates: an identifier whose top level is missing from the context is literal text)
func randContext(r *hx.Rand, all bool) map[string]types.XValue {
	m := map[string]types.XValue{}
	for _, k := range ctxKeys {
		if all || r.Intn(5) != 0 {
			m[k] = randValue(r, 2)
		}
	}
	return m
}

type evalOut struct {
	isErr bool
	desc  string
	val   types.XValue
}

func evalExpr(e excellent.Expression, ctx map[string]types.XValue) (out evalOut, panicked string) {
	defer func() {
		if p := recover(); p != nil {
			panicked = fmt.Sprint(p)
		}
	}()
	w := &excellent.Warnings{}
	v := e.Evaluate(env, excellent.NewScope(types.NewXObject(ctx), nil), w)
	if types.IsXError(v) {
		return evalOut{isErr: true}, ""
	}
	return evalOut{desc: types.Describe(v), val: v}, ""
}

func sameValue(a, b evalOut) bool {
	if a.isErr || b.isErr {
		return a.isErr == b.isErr
	}
	return deepSame(a.val, b.val)
}

// deepSame: structural equality of values; function values (anonymous functions are new objects on every
// evaluation, types.Equals compares them by identity) are alike when both are functions with the same description;
// errors inside containers are alike when both are errors
func deepSame(x, y types.XValue) bool {
	if types.IsNil(x) || types.IsNil(y) {
		return types.IsNil(x) && types.IsNil(y)
	}
	if types.IsXError(x) || types.IsXError(y) {
		return types.IsXError(x) && types.IsXError(y)
	}
	switch xv := x.(type) {
	case *types.XFunction:
		yv, ok := y.(*types.XFunction)
		return ok && xv.Describe() == yv.Describe()
	case *types.XArray:
		yv, ok := y.(*types.XArray)
		if !ok || xv.Count() != yv.Count() {
			return false
		}
		for i := 0; i < xv.Count(); i++ {
			if !deepSame(xv.Get(i), yv.Get(i)) {
				return false
			}
		}
		return true
	case *types.XObject:
		yv, ok := y.(*types.XObject)
		if !ok {
			return false
		}
		xp, yp := xv.Properties(), yv.Properties()
		if len(xp) != len(yp) {
			return false
		}
		for i := range xp {
			if xp[i] != yp[i] {
				return false
			}
			a, _ := xv.Get(xp[i])
			b, _ := yv.Get(yp[i])
			if !deepSame(a, b) {
				return false
			}
		}
		return true
	}
	return types.Equals(x, y) && types.Describe(x) == types.Describe(y)
}

func templateReal(tpl string, ctx map[string]types.XValue) (out string, hasErr bool, panicked string) {
	defer func() {
		if r := recover(); r != nil {
			panicked = fmt.Sprint(r)
		}
	}()
	o, _, err := excellent.NewEvaluator().Template(env, types.NewXObject(ctx), tpl, nil)
	return o, err != nil, ""
}

// ---------------------------------------------------------------------------------------------
// classification of a round-trip failure, computed from the input expression

// lowerLeavesGrammar: c is accepted inside a NAME by the real lexer but its lower-case form is not
func lowerLeavesGrammar(c rune) bool {
	l := unicode.ToLower(c)
	if l == c {
		return false
	}
	before := lexReal("a" + string(c))
	after := lexReal("a" + string(l))
	return len(before) == 1 && before[0].Kind == "NAME" && !(len(after) == 1 && after[0].Kind == "NAME")
}

// classifyReparse names the CAUSE why the printed form of an expression is not read back. An input can show the shape of
// several classes at once (a literal ending in a backslash AND consecutive numeric lookups), so the class is not taken
// from which shapes occur but from which repair of the printed text makes it parse: each candidate class has a repair
// (the backslash-ending literals get another last character; the runes that lower-casing took out of the grammar's
// letters are replaced; a space is put between consecutive numeric lookups); the class is the first candidate whose
// repair ALONE is enough, else the first of the smallest set of repairs that is enough. "" = no known cause.
func classifyReparse(ti *treeInfo, printed string) string {
	parses := func(s string) bool { _, err := excellent.Parse(s, nil); return err == nil }
	type cand struct {
		class  string
		repair func(string) string
	}
	var cands []cand
	// known: a text value ending in a backslash, printed as ...\\", swallows what follows up to the next quote
	var bsQuoted []string
	for _, v := range ti.textValues {
		if strings.HasSuffix(v, `\`) {
			q := strconv.Quote(v)
			if i := strings.Index(printed, q); i >= 0 && strings.Contains(printed[i+len(q):], `"`) {
				bsQuoted = append(bsQuoted, q)
			}
		}
	}
	if len(bsQuoted) > 0 {
		cands = append(cands, cand{"roundtrip:text-literal-value-ends-in-backslash-before-later-quote", func(s string) string {
			for _, q := range bsQuoted {
				s = strings.ReplaceAll(s, q, q[:len(q)-1]+`x"`)
			}
			return s
		}})
	}
	// known: a name whose lower case is outside the grammar's letters
	bad := map[rune]bool{}
	for _, n := range ti.names {
		for _, c := range n {
			if lowerLeavesGrammar(c) {
				bad[unicode.ToLower(c)] = true
			}
		}
	}
	if len(bad) > 0 {
		cands = append(cands, cand{"roundtrip:name-lowercases-outside-grammar-letters", func(s string) string {
			return strings.Map(func(c rune) rune {
				if bad[c] {
					return 'x'
				}
				return c
			}, s)
		}})
	}
	// repaired (205f8a3): a numeric lookup directly after a numeric lookup read back as one decimal
	if ti.numAfterNum {
		cands = append(cands, cand{"reparse:consecutive-numeric-dot-lookups", func(s string) string {
			for prev := ""; prev != s; {
				prev, s = s, numAfterNumRe.ReplaceAllString(s, "$1 $2")
			}
			return s
		}})
	}
	// the smallest set of repairs that is enough, in the order of the candidates
	for size := 1; size <= len(cands); size++ {
		for mask := 1; mask < 1<<len(cands); mask++ {
			if bits.OnesCount(uint(mask)) != size {
				continue
			}
			s, first := printed, ""
			for i, c := range cands {
				if mask&(1<<i) != 0 {
					s = c.repair(s)
					if first == "" {
						first = c.class
					}
				}
			}
			if parses(s) {
				return first
			}
		}
	}
	return ""
}

var numAfterNumRe = regexp.MustCompile(`(\.[0-9]+)(\.[0-9])`)

// rescaledUnderLargePower: the source has a number literal that is printed with another scale (trailing or leading
// zeros) and a power with a literal exponent of at least 100
func rescaledUnderLargePower(e string) bool {
	toks := lexReal(e)
	rescaled, bigPow := false, false
	for i, t := range toks {
		if t.Kind == "INTEGER" || t.Kind == "DECIMAL" {
			if types.RequireXNumberFromString(t.Text).Describe() != t.Text {
				rescaled = true
			}
			if i > 0 && toks[i-1].Kind == "EXPONENT" && len(t.Text) >= 3 && t.Kind == "INTEGER" {
				bigPow = true
			}
		}
	}
	return rescaled && bigPow
}

// ---------------------------------------------------------------------------------------------

const parseHeader = `From Coq Require Import List NArith Bool.
From Verif Require Import model.ExSyntax model.ExParseCorr.
Import ListNotations.
Open Scope N_scope.
Definition cases : list pcase := [`

const refHeader = `From Coq Require Import List NArith Bool.
From Verif Require Import model.ExSyntax model.ExRefactorCorr.
Import ListNotations.
Open Scope N_scope.
Definition cases : list rcase := [`

const footer = "].\nDefinition M := Eval vm_compute in mismatches cases.\nPrint M."

func validInput(s string) bool { return utf8.ValidString(s) && !strings.ContainsRune(s, 0) }

func main() {
	o := hx.ParseOpts()
	res := hx.NewResult(o, "grammar-driven random expressions (depth <= 4 quick / 6 thorough) with random whitespace and case, plus nearly-valid strings; "+
		"non-trivial = tree depth >= 3 with two different binary operators, or a text literal with an escape; distinct = distinct source string")
	r := hx.NewRand(o.Seed)
	maxDepth := 4
	if o.Tier == "thorough" {
		maxDepth = 6
	}

	parseSh := &exsx.Sharder{O: o, Res: res, Prefix: "C11p", Header: parseHeader, Footer: footer, Shard: 300}
	refSh := &exsx.Sharder{O: o, Res: res, Prefix: "C11r", Header: refHeader, Footer: footer, Shard: 250}
	// one correspondence case for refactor.Template
	addRef := func(tpl string, tops []string, mode int, from, to, out string, hasErr bool) {
		var vals strings.Builder
		excellent.VisitTemplate(tpl, tops, false, func(tt excellent.XTokenType, tok string) error {
			if tt == excellent.BODY {
				return nil
			}
			if p, err := excellent.Parse(tok, nil); err == nil {
				p.Visit(func(e excellent.Expression) {
					if n, is := e.(*excellent.TextLiteral); is {
						vals.WriteString(n.Value.Native())
					}
				})
			}
			return nil
		})
		if !utf8.ValidString(vals.String()) || !validInput(out) {
			return
		}
		refSh.Add(fmt.Sprintf("{| r_tops := %s; r_in := %s; r_ln := %s; r_low := %s; r_print := %s; r_mode := %d; r_from := %s; r_to := %s; r_out := %s; r_err := %s |}",
			exsx.OptTexts(tops, tops == nil), hx.Str(tpl), exsx.RuneSet(exsx.IsLN, tpl, to, from, out), exsx.RuneMap(unicode.ToLower, tpl, strings.Join(tops, ""), to, from),
			exsx.RuneSet(unicode.IsPrint, vals.String()), mode, hx.Str(from), hx.Str(to), hx.Str(out), hx.Bool(hasErr)),
			map[string]any{"template": tpl, "mode": mode, "from": from, "to": to}, map[string]any{"out": out, "err": hasErr})
	}

	type parsed struct {
		src  string
		expr excellent.Expression
		ti   *treeInfo
		str  string
	}
	var good []parsed
	evalTimeouts := 0

	// ------------------------------------------------------------------ parse/print correspondence + R1
	doParse := func(e string, evalToo bool, rc *hx.Rand) {
		if !validInput(e) {
			return
		}
		for _, lt := range lexReal(e) {
			if lt.Kind == "TEXT" && rawByteEscape(lt.Text) {
				res.Dist("parse:raw-byte-escape(skipped)")
				return
			}
		}
		p, err := excellent.Parse(e, nil)
		if err != nil {
			res.Eval("parse:"+e, false)
			res.Dist("parse:error")
			parseSh.Add(fmt.Sprintf("{| p_in := %s; p_low := []; p_print := []; p_ok := false; p_tree := ENull; p_str := [] |}", hx.Str(e)),
				map[string]any{"expression": e}, map[string]any{"error": true})
			return
		}
		ti := &treeInfo{binops: map[string]bool{}}
		tree := coqTree(p, 1, ti)
		str := p.String()
		for _, v := range ti.textValues {
			if !utf8.ValidString(v) {
				res.Dist("parse:value-not-utf8(skipped)")
				return
			}
		}
		nontrivial := (ti.depth >= 3 && len(ti.binops) >= 2) || ti.escapeLit
		res.Eval("parse:"+e, nontrivial)
		res.Dist("parse:ok:root=" + rootType(p))
		for op := range ti.binops {
			res.Dist("parse:binop=" + op)
		}
		res.Sample(map[string]any{"expression": e, "printed": str})
		vals := strings.Join(ti.textValues, "")
		parseSh.Add(fmt.Sprintf("{| p_in := %s; p_low := %s; p_print := %s; p_ok := true; p_tree := %s; p_str := %s |}",
			hx.Str(e), exsx.RuneMap(unicode.ToLower, e), exsx.RuneSet(unicode.IsPrint, vals), tree, hx.Str(str)),
			map[string]any{"expression": e}, map[string]any{"printed": str})
		// R1
		res.OracleChecks++
		p2, err2 := excellent.Parse(str, nil)
		if err2 != nil {
			cls := classifyReparse(ti, str)
			if cls == "" {
				cls = "roundtrip:reparse-error:" + rootType(p)
			}
			res.Fail(cls, map[string]any{"expression": e, "printed": str}, fmt.Sprintf("Parse(%q).String() = %q does not parse: %v", e, str, err2))
			return
		}
		if s2 := p2.String(); s2 != str {
			res.Fail("roundtrip:print-not-fixpoint:"+rootType(p), map[string]any{"expression": e, "printed": str, "printed2": s2},
				fmt.Sprintf("printing is not a fixed point after one round: %q -> %q -> %q", e, str, s2))
			return
		}
		if !evalToo {
			return
		}
		evalFailed := false
		defer func() {
			// expressions whose round trip is clean are embedded in templates for R2/R3
			if !evalFailed {
				good = append(good, parsed{e, p, ti, str})
			}
		}()
		if os.Getenv("C11_TRACE") != "" {
			fmt.Fprintf(os.Stderr, "EVAL %q\n", e)
		}
		for i := 0; i < 5 && evalTimeouts < 3; i++ {
			ctx := randContext(rc, false)
			type pair struct {
				v1, v2 evalOut
				pa, pb string
			}
			done := make(chan pair, 1)
			go func() {
				v1, pa := evalExpr(p, ctx)
				v2, pb := evalExpr(p2, ctx)
				done <- pair{v1, v2, pa, pb}
			}()
			var pr pair
			select {
			case pr = <-done:
			case <-time.After(5 * time.Second):
				// the evaluation goes on in its goroutine; after three of them no more evaluations are started
				evalTimeouts++
				res.Dist("parse:evaluation-timeout(skipped)")
				res.Notes = append(res.Notes, fmt.Sprintf("evaluation of %q took more than 5 s: skipped", e))
				evalFailed = true
				return
			}
			v1, v2, pa, pb := pr.v1, pr.v2, pr.pa, pr.pb
			if pa != "" || pb != "" {
				if (pa == "") != (pb == "") {
					res.Fail("roundtrip:eval-panics-differ:"+rootType(p), map[string]any{"expression": e, "printed": str}, pa+" / "+pb)
				}
				continue
			}
			if !sameValue(v1, v2) {
				evalFailed = true
				cls := "roundtrip:eval-differs:" + rootType(p)
				if rescaledUnderLargePower(e) {
					cls = "roundtrip:eval-differs:rescaled-number-under-large-power"
				}
				res.Fail(cls, map[string]any{"expression": e, "printed": str, "context": types.NewXObject(ctx).Describe()},
					fmt.Sprintf("%q evaluates to (err=%v) %s, its printed form %q to (err=%v) %s", e, v1.isErr, v1.desc, str, v2.isErr, v2.desc))
				break
			}
		}
	}

	corpus := []string{`foo`, `FOO`, `foo.bar`, `foo.1`, `foo.1 .2`, `foo.1 .2 .3`, `foo.1.x`, `foo . bar`, `foo["x"]`, `foo[0]`, `f()`, `f(1)`, `f(1, 2)`, `f ( 1 , 2 )`,
		`1 + 2 * 3`, `(1 + 2) * 3`, `1 - 2 - 3`, `2 ^ 3 ^ 2`, `-2 ^ 2`, `- - 1`, `--1`, `-1.0`, `1.50 + 001`, `a = b != c`, `a < b <= c > d >= e`, `a & b & c`,
		`1 + 2 & 3 = 4`, `TRUE & FaLsE & NuLL`, `(x) => x`, `(a,B) => a & B`, `foreach(array(1,2), (x) => x * 2)`, `(x) => (y) => x + y`, `"a\\"`, `"a\x5c" & "b"`,
		`"\w+"`, `"a\"b\q"`, "\"a\nb\"", `""`, `"é😀"`, `Ꭰ`, `K`, `İx`, `upper("a")`, `(foo)(1)`, `foo.bar(1)[2].x`, `a[b[c]]`, `(1)`, `((1))`, `1 +`, `(`, `)`, ``, ` `,
		`foo bar`, `1.`, `.5`, `1..2`, `a.`, `a.b.`, `a[`, `f(,)`, `f(1,)`, `() => 1`, `(1) => 1`, `(x,) => 1`, `x => 1`, `"`, `"abc`, `a ! b`, `a == b`, `a => b`,
		`foreach(webhook.items, (webhook) => webhook.id)`, `foreach(foo.items, (Foo) => Foo.name) & FOO`, `x & foreach(array(1, 2), (x) => x * 2) & x`,
		`foreach(item.items, (y) => foreach(array(1), (item) => item & y)) & item`, `filter(array(1, 2, 3), (bar) => foreach(array(1), (z) => bar & z)) & bar.name`,
		`foreach(array("a","b"), (Item) => upper(Item))`, `filter(array(1,2,3), (X) => X > 1)`, `foreach(array(1,2), (ITEM, Other) => ITEM & Other, "z")`,
		`foreach(array(1,2), (Outer) => foreach(array(3), (Inner) => Outer * Inner))`, `0.10 ^ 60000 = 0`, `1.50 ^ 1000`, `2.0 ^ 100`, `1.10 * 1.10`, `0.10000 ^ 128 > 1`,
		strconv.Quote(strings.Repeat("a", 129)), strconv.Quote(strings.Repeat("é", 130)) + ` & "x"`, `upper(` + strconv.Quote(strings.Repeat("ab ", 400)) + `)`,
		// shapes of TWO classes in one input: the cause is the backslash-ending literal (known), not the numeric lookups
		"TEXT  ( foreach(split(\"a b c\", \" \"),  (\nVal_1 \r\n )=>(Val_1)) , \"\\134\"\t<= \"\\x4\"  *\"a\" ^ \r\n 3,10 \r\n ). 1 .1()",
		`text("\\" <= "b", 1).1 .1()`, `Ꭰ.1 .2 & "a\\" & "b"`,
		`null.x`, `true(1)`, `1(2)`, `"a"(1)`, `"a".x`, `1.x`, `-x.y`, `-(x).y`, `- x ^ 2 * 3`, `a*b/c*d`, `a/(b*c)`, `a^-1`, `1 - -1`, `1--1`}
	rcorp := r.Fork("corpus-ctx")
	for _, c := range corpus {
		doParse(c, true, rcorp)
	}
	nParse := o.Count(1200, 60000)
	rp := r.Fork("parse")
	for i := 0; i < nParse; i++ {
		cfg := genCfg{rareBad: rp.Intn(4) == 0}
		e := genExpr(rp, rp.Range(1, maxDepth), cfg)
		switch rp.Intn(5) {
		case 0:
			m := mutate(rp, e)
			doParse(m, !strings.Contains(m, "^"), rp)
		default:
			doParse(e, true, rp)
		}
	}
	parseSh.Flush()

	// ------------------------------------------------------------------ R2 / R3: refactor.Template
	bodies := []string{"", "Hi ", " and ", "!", " bob@nyaruka.com ", " @@twitter ", "@ ", "(", ")", "\"", " x@", "\n", "é😀 "}
	rt := r.Fork("template")
	nTpl := o.Count(600, 30000)
	idChanged := func(excellent.Expression) bool { return true }
	idUnchanged := func(excellent.Expression) bool { return false }
	sort.Strings(ctxKeys)
	for i := 0; i < nTpl+len(fixedRenames) && len(good) > 0; i++ {
		var sb strings.Builder
		var used []parsed
		var fixed *fixedRename
		if i < len(fixedRenames) {
			fixed = &fixedRenames[i]
			sb.WriteString(fixed.tpl)
		} else {
			sb.WriteString(hx.Pick(rt, bodies))
		}
		for n := rt.Range(1, 3); n > 0 && fixed == nil; n-- {
			if strings.HasSuffix(sb.String(), "@") && rt.Intn(8) != 0 {
				sb.WriteString(" ") // "@@(" would be an escaped '@' followed by "("
			}
			if rt.Intn(4) == 0 {
				sb.WriteString(hx.Pick(rt, []string{"@foo", "@Foo.name", "@contact.fields.x", "@x", "@bar.0", "@contact"}))
			} else {
				g := hx.Pick(rt, good)
				used = append(used, g)
				sb.WriteString("@(" + g.src + ")")
			}
			b := hx.Pick(rt, bodies)
			if strings.HasPrefix(b, "@") || b == "(" {
				b = " " + b
			}
			sb.WriteString(b)
		}
		tpl := sb.String()
		if strings.HasSuffix(tpl, "@") {
			tpl += " "
		}
		// the scanner must cut the expressions out as written (otherwise the template is not the one intended:
		// F10b shapes inside @( ) are covered by C12)
		cut := true
		{
			var exprs []string
			excellent.VisitTemplate(tpl, ctxKeys, false, func(tt excellent.XTokenType, tok string) error {
				if tt == excellent.EXPRESSION {
					exprs = append(exprs, tok)
				}
				return nil
			})
			if fixed != nil {
				// a listed template: taken as it is
			} else if len(exprs) != len(used) {
				cut = false
			} else {
				for j := range exprs {
					if exprs[j] != used[j].src {
						cut = false
					}
				}
			}
		}
		if !cut {
			res.Dist("template:scanner-cuts-differently(skipped)")
			if o.Verbose {
				fmt.Printf("CUT %q\n", tpl)
			}
			continue
		}
		known := ""
		for _, g := range used {
			if c := classifyReparse(g.ti, g.str); c != "" {
				if _, err := excellent.Parse(g.str, nil); err != nil {
					known = c
				}
			}
		}
		if known != "" {
			// an expression that does not survive printing (listed finding, reported by R1) is inside
			res.Dist("template:contains-known-roundtrip-failure(skipped)")
			continue
		}
		res.Eval("template:"+tpl, len(used) > 0)

		// R2
		res.OracleChecks++
		out0, err0 := refactor.Template(tpl, ctxKeys, idUnchanged)
		addRef(tpl, ctxKeys, 0, "", "", out0, err0 != nil)
		if err0 == nil && out0 != tpl {
			res.Fail("identity-rewrite:unchanged-transformation-changes-text", map[string]any{"template": tpl, "rewritten": out0}, "a transformation that reports no change must return the template verbatim")
		}
		out1, err1 := refactor.Template(tpl, ctxKeys, idChanged)
		addRef(tpl, ctxKeys, 1, "", "", out1, err1 != nil)
		if err1 == nil {
			for k := 0; k < 3; k++ {
				ctx := randContext(rt, true)
				a, ae, ap := templateReal(tpl, ctx)
				b, be, bp := templateReal(out1, ctx)
				if ap != "" || bp != "" {
					continue
				}
				if a != b || ae != be {
					res.Fail("identity-rewrite:value-changed", map[string]any{"template": tpl, "rewritten": out1, "context": types.NewXObject(ctx).Describe()},
						fmt.Sprintf("Template(%q) = %q err=%v but after the identity rewrite %q = %q err=%v", tpl, a, ae, out1, b, be))
					break
				}
			}
		} else {
			res.Dist("template:identity-rewrite-error")
		}

		// R3
		// the parsed expressions of the template and what they mention
		var exprs []excellent.Expression
		allParse := true
		excellent.VisitTemplate(tpl, ctxKeys, false, func(tt excellent.XTokenType, tok string) error {
			if tt == excellent.BODY {
				return nil
			}
			if p, err := excellent.Parse(tok, nil); err == nil {
				exprs = append(exprs, p)
			} else {
				allParse = false
			}
			return nil
		})
		var lambdaArgs, freeNames []string
		for _, p := range exprs {
			p.Visit(func(e excellent.Expression) {
				if fn, is := e.(*excellent.AnonFunction); is {
					lambdaArgs = append(lambdaArgs, fn.Args...)
				}
			})
			for _, n := range refShape(p, nil, func(n string) []string { return []string{n} }) {
				if !strings.HasPrefix(n, "#") {
					freeNames = append(freeNames, n)
				}
			}
		}
		isFree := func(n string) bool { return slices.Contains(freeNames, strings.ToLower(n)) }

		from := hx.Pick(rt, renameNames)
		var boundCands, freeCands []string
		for _, n := range renameNames {
			for _, a := range lambdaArgs {
				if strings.EqualFold(a, n) || strings.ToLower(a) == n {
					boundCands = append(boundCands, n)
				}
			}
			if isFree(n) {
				freeCands = append(freeCands, n)
			}
		}
		if len(boundCands) > 0 && rt.Intn(4) != 0 {
			from = hx.Pick(rt, boundCands)
		} else if len(freeCands) > 0 && rt.Intn(3) != 0 {
			from = hx.Pick(rt, freeCands)
		}
		// the new name: fresh, or (hunt finding C11/1) the name of a parameter of an anonymous function of the template
		// - allowed as long as the template does not mention that name as a context reference already
		to := "zz9"
		if len(lambdaArgs) > 0 && rt.Intn(2) == 0 {
			if cand := strings.ToLower(hx.Pick(rt, lambdaArgs)); cand != strings.ToLower(from) && !isFree(cand) {
				if _, err := excellent.Parse(cand, nil); err == nil {
					to = cand
				}
			}
		}
		if fixed != nil {
			from, to = fixed.from, fixed.to
		}
		renameOracle := func(from, to string, moved func(ctx map[string]types.XValue) map[string]types.XValue, pathClass string) {
			res.OracleChecks++
			out2, err2 := refactor.Template(tpl, ctxKeys, refactor.ContextRefRename(from, to))
			addRef(tpl, ctxKeys, 2, from, to, out2, err2 != nil)
			if err2 != nil {
				res.Dist("template:rename-error")
				return
			}
			toRefs := targetRefs(to)
			if toRefs == nil || !allParse {
				return
			}
			lfrom := strings.ToLower(from)
			// which names the rename takes for `from` must be decided like evaluation decides it (lower case)
			foldDiffers, sawBound, toIsParam, variantParams := false, false, false, false
			for _, p := range exprs {
				p.Visit(func(e excellent.Expression) {
					switch n := e.(type) {
					case *excellent.ContextReference:
						if strings.EqualFold(n.Name, from) != (strings.ToLower(n.Name) == lfrom) {
							foldDiffers = true
						}
					case *excellent.AnonFunction:
						for _, a := range n.Args {
							if strings.EqualFold(a, from) != (strings.ToLower(a) == lfrom) {
								foldDiffers = true
							}
							if strings.ToLower(a) == lfrom {
								sawBound = true
							}
							if slices.Contains(toRefs, strings.ToLower(a)) {
								toIsParam = true
								for _, b := range n.Args {
									if b != a && strings.ToLower(b) == strings.ToLower(a) {
										variantParams = true
									}
								}
							}
						}
					}
				})
			}
			class := func(c string) string {
				switch {
				case pathClass != "":
					return pathClass
				case foldDiffers:
					return "rename:name-matched-by-case-folding-not-lower-case"
				case variantParams:
					return "rename:alpha-renaming-merges-case-variant-parameters"
				case toIsParam:
					return "rename:renamed-reference-captured-by-lambda-parameter"
				case sawBound:
					return "rename:lambda-parameter-captured"
				}
				return c
			}
			// exactly the free context references named `from` changed, and they are free afterwards as well: compare
			// the binding-aware reference lists with what the statement prescribes
			var want, got []string
			for _, p := range exprs {
				want = append(want, refShape(p, nil, func(n string) []string {
					if n == lfrom {
						return toRefs
					}
					return []string{n}
				})...)
			}
			nOut, outParse := 0, true
			excellent.VisitTemplate(out2, append(append([]string{}, toRefs...), ctxKeys...), false, func(tt excellent.XTokenType, tok string) error {
				if tt == excellent.BODY {
					return nil
				}
				nOut++
				if p, err := excellent.Parse(tok, nil); err == nil {
					got = append(got, refShape(p, nil, func(n string) []string { return []string{n} })...)
				} else {
					outParse = false
				}
				return nil
			})
			if !outParse || nOut != len(exprs) {
				res.Fail(class("rename:output-not-read-back"), map[string]any{"template": tpl, "rewritten": out2, "from": from, "to": to},
					fmt.Sprintf("every expression of %q is accepted by the parser, after renaming %s to %s the template is %q, which is not read back as %d accepted expressions", tpl, from, to, out2, len(exprs)))
				return
			}
			if strings.Join(want, "\x00") != strings.Join(got, "\x00") {
				cls := "rename:references-not-exactly-renamed"
				if len(want) == len(got) {
					for j := range want {
						if want[j] != got[j] {
							if slices.Contains(toRefs, want[j]) && got[j] == lfrom {
								cls = "rename:free-reference-not-renamed"
							} else if slices.Contains(toRefs, want[j]) && strings.HasPrefix(got[j], "#") {
								cls = "rename:renamed-reference-captured-by-lambda-parameter"
							} else if strings.HasPrefix(want[j], "#") && slices.Contains(toRefs, got[j]) {
								cls = "rename:lambda-parameter-captured"
							}
							break
						}
					}
				}
				if cls == "rename:references-not-exactly-renamed" || foldDiffers || pathClass != "" {
					cls = class(cls)
				}
				res.Fail(cls, map[string]any{"template": tpl, "rewritten": out2, "from": from, "to": to},
					fmt.Sprintf("renaming %s to %s in %q gives %q: references (bound ones as #depth.index) are %v, the statement prescribes %v", from, to, tpl, out2, got, want))
				return
			}
			for _, n := range toRefs {
				if isFree(n) && n != lfrom {
					// the template already refers to the new name: the caller's business
					res.Dist("template:rename-eval-skipped(to-in-use)")
					return
				}
			}
			for k := 0; k < 3; k++ {
				ctx := randContext(rt, true)
				ctx2 := moved(ctx)
				a, ae, ap := templateReal(tpl, ctx)
				b, be, bp := templateReal(out2, ctx2)
				if ap != "" || bp != "" {
					continue
				}
				if a != b || ae != be {
					res.Fail(class("rename:value-changed"), map[string]any{"template": tpl, "rewritten": out2, "from": from, "to": to, "context": types.NewXObject(ctx).Describe()},
						fmt.Sprintf("Template(%q) = %q err=%v; renamed %q in the renamed context = %q err=%v", tpl, a, ae, out2, b, be))
					break
				}
			}
		}
		// the context in which the renamed template is evaluated: what `from` held is found where `to` points
		movedFor := func(from, to string) func(ctx map[string]types.XValue) map[string]types.XValue {
			return func(ctx map[string]types.XValue) map[string]types.XValue {
				ctx2 := maps.Clone(ctx)
				delete(ctx2, from)
				v, has := ctx[from]
				root := strings.TrimSuffix(strings.TrimSuffix(to, ".1"), ".json")
				switch {
				case !has:
					delete(ctx2, root) // nothing under the old name, so nothing under the new one
				case strings.HasSuffix(to, ".1"):
					ctx2[root] = types.NewXArray(types.NewXText("pad"), v)
				case strings.HasSuffix(to, ".json"):
					ctx2[root] = types.NewXObject(map[string]types.XValue{"json": v})
				default:
					ctx2[root] = v
				}
				return ctx2
			}
		}
		pathClassFor := func(to string) string {
			if strings.HasSuffix(to, ".1") {
				return "rename:path-ending-in-number-not-read-back"
			}
			return ""
		}
		renameOracle(from, to, movedFor(from, to), pathClassFor(to))
		if fixed == nil && rt.Intn(4) == 0 {
			// a replacement that is a path ending in a number (hunt finding C11/3): the value moves to index 1 of an array
			renameOracle(from, "zz8.1", movedFor(from, "zz8.1"), pathClassFor("zz8.1"))
		}
		if rt.Intn(4) == 0 {
			// the shapes of the migrations: a nil / one-element allowed list, a dotted replacement
			tops2 := hx.Pick(rt, [][]string{nil, {"foo"}, {"webhook", "foo"}})
			to2 := hx.Pick(rt, []string{"foo.json", "Bar", "x"})
			out3, err3 := refactor.Template(tpl, tops2, refactor.ContextRefRename(from, to2))
			addRef(tpl, tops2, 2, from, to2, out3, err3 != nil)
		}
		if from == "webhook" {
			res.OracleChecks++
			outW, errW := refactor.Template(tpl, []string{"webhook"}, refactor.ContextRefRename("webhook", "webhook.json"))
			addRef(tpl, []string{"webhook"}, 2, "webhook", "webhook.json", outW, errW != nil)
			if errW == nil {
				for k := 0; k < 3; k++ {
					ctx := randContext(rt, true)
					ctxW := map[string]types.XValue{}
					for kk, v := range ctx {
						ctxW[kk] = v
					}
					ctxW["webhook"] = types.NewXObject(map[string]types.XValue{"json": ctx["webhook"]})
					// only identifiers with top level webhook are expressions for the migration; evaluate both sides with that list
					a, ae, ap := templateReal(tpl, ctx)
					b, be, bp := templateReal(outW, ctxW)
					if ap != "" || bp != "" {
						continue
					}
					if a != b || ae != be {
						res.Fail("rename:migrate13_3-value-changed", map[string]any{"template": tpl, "rewritten": outW, "context": types.NewXObject(ctx).Describe()},
							fmt.Sprintf("Template(%q) = %q err=%v; after ContextRefRename(webhook, webhook.json) %q with webhook nested under json = %q err=%v", tpl, a, ae, outW, b, be))
						break
					}
				}
			}
		}
	}

	// ------------------------------------------------------------------ the real migration 13.2 -> 13.3
	{
		var srcs []string
		for _, g := range good {
			if len(g.src) < 120 {
				srcs = append(srcs, g.src)
			}
		}
		migrationStream(o, res, r.Fork("migrate"), srcs, addRef)
	}

	// ------------------------------------------------------------------ R4: expressions as deep as Parse allows
	// the table facts the theorems assume, over every code point (review 2)
	res.OracleChecks++
	for _, f := range exsx.TableFacts() {
		res.Fail("table-fact-assumed-by-theorems-does-not-hold", map[string]any{"fact": f}, f)
	}
	depthLimitOracle(res)

	// ------------------------------------------------------------------ R5: expressions at the evaluator's work budget
	workBudgetOracle(res)

	refSh.Flush()
	res.Write(o)
}

func ellipsis(s string, n int) string {
	rs := []rune(s)
	if len(rs) <= n {
		return s
	}
	return string(rs[:n]) + "..."
}
