package main

// Correspondence cases for C08: the pipelines transcribed in coq/model/MapOrder.v are run on the REAL code with a
// PRNG-built Go map; the observed output and the map's entries (as an association list in a PRNG-chosen order)
// go to cases_C08_*.v, where coq/model/MapOrderCorr.v evaluates the model on that list.  The model's output does
// not depend on the list order (theorems of props/C08.v); the comparison validates that the transcription orders,
// selects and tie-breaks like the Go code (byte order of sort.Strings, the minimum rule of XObject.Get, key order
// of encoding/json, luis/wit/dtone selection rules).

import (
	"bytes"
	"encoding/json"
	"fmt"
	"net/http"
	"sort"
	"strings"
	"time"

	"github.com/nyaruka/gocommon/httpx"
	"github.com/nyaruka/gocommon/urns"
	"github.com/nyaruka/goflow/assets"
	"github.com/nyaruka/goflow/assets/static"
	"github.com/nyaruka/goflow/envs"
	"github.com/nyaruka/goflow/excellent/types"
	"github.com/nyaruka/goflow/flows"
	"github.com/nyaruka/goflow/flows/definition"
	"github.com/nyaruka/goflow/flows/engine"
	"github.com/nyaruka/goflow/services/airtime/dtone"
	"github.com/nyaruka/goflow/services/classification/luis"
	"github.com/nyaruka/goflow/services/classification/wit"
	gftest "github.com/nyaruka/goflow/test"
	"github.com/nyaruka/goflow/utils"
	"github.com/shopspring/decimal"

	"verifharness/pkg/hx"
)

type caseGen struct {
	r *hx.Rand
}

var keyAlphabet = []string{"a", "b", "c", "z", "A", "B", "Z", "_", "0", "9", "-", " ", "é", "ß", "Ω", "я", "中", "~", "aa", "ab", "Ab", "aB"}

// keys: n distinct strings, mixed case / digits / non-ASCII so that byte order, code point order and
// case-insensitive order all differ
func (c *caseGen) keys(n int, asciiOnly bool) []string {
	seen := map[string]bool{}
	var out []string
	for len(out) < n {
		var sb strings.Builder
		for i, k := 0, c.r.Range(1, 4); i < k; i++ {
			a := hx.Pick(c.r, keyAlphabet)
			if asciiOnly && a[0] >= 0x80 {
				a = "q"
			}
			sb.WriteString(a)
		}
		s := sb.String()
		if !seen[s] {
			seen[s] = true
			out = append(out, s)
		}
	}
	return out
}

func (c *caseGen) shuffle(n int) []int {
	p := make([]int, n)
	for i := range p {
		p[i] = i
	}
	for i := n - 1; i > 0; i-- {
		j := c.r.Intn(i + 1)
		p[i], p[j] = p[j], p[i]
	}
	return p
}

func strList(xs []string) string { return hx.List(xs, hx.Str) }

func entriesN(keys []string, vals []int, perm []int) string {
	parts := make([]string, len(perm))
	for i, j := range perm {
		parts[i] = fmt.Sprintf("(%s, %s)", hx.Str(keys[j]), hx.N(vals[j]))
	}
	return "[" + strings.Join(parts, "; ") + "]"
}

// jsonKeyOrder: member names of a JSON object in the order they appear in the bytes
func jsonKeyOrder(b []byte) []string {
	dec := json.NewDecoder(bytes.NewReader(b))
	var keys []string
	depth := 0
	expectKey := false
	for {
		tok, err := dec.Token()
		if err != nil {
			break
		}
		switch t := tok.(type) {
		case json.Delim:
			switch t {
			case '{', '[':
				depth++
				expectKey = t == '{' && depth == 1
			case '}', ']':
				depth--
				expectKey = depth == 1
			}
		case string:
			if depth == 1 && expectKey {
				keys = append(keys, t)
				expectKey = false
			} else if depth == 1 {
				expectKey = true
			}
		default:
			if depth == 1 {
				expectKey = true
			}
		}
	}
	return keys
}

type coqCase struct {
	term  string
	input any
	impl  any
	kind  string
}

func (c *caseGen) propsCase() coqCase {
	n := c.r.Range(0, 9)
	keys := c.keys(n, false)
	m := map[string]types.XValue{}
	vals := make([]int, n)
	for i, k := range keys {
		vals[i] = i
		m[k] = types.NewXNumberFromInt(i)
	}
	impl := types.NewXObject(m).Properties()
	return coqCase{fmt.Sprintf("KProps %s %s", entriesN(keys, vals, c.shuffle(n)), strList(impl)), keys, impl, "props"}
}

func (c *caseGen) marshalCase() coqCase {
	n := c.r.Range(0, 9)
	keys := c.keys(n, false)
	m := map[string]types.XValue{}
	vals := make([]int, n)
	for i, k := range keys {
		vals[i] = i
		m[k] = types.NewXNumberFromInt(i)
	}
	b, err := types.NewXObject(m).MarshalJSON()
	if err != nil {
		panic(err)
	}
	impl := jsonKeyOrder(b)
	if impl == nil {
		impl = []string{}
	}
	return coqCase{fmt.Sprintf("KMarshal %s %s", entriesN(keys, vals, c.shuffle(n)), strList(impl)), keys, impl, "marshal"}
}

// Get: several spellings of the same name (they differ only in ASCII case) among other keys
func (c *caseGen) getCase() coqCase {
	base := hx.Pick(c.r, []string{"name", "ab", "x_1", "zeta", "q"})
	variants := map[string]bool{}
	for i, k := 0, c.r.Range(0, 4); i < k; i++ {
		var sb strings.Builder
		for _, ch := range base {
			if c.r.Bool() {
				sb.WriteString(strings.ToUpper(string(ch)))
			} else {
				sb.WriteRune(ch)
			}
		}
		variants[sb.String()] = true
	}
	keys := hx.SortedKeys(variants)
	for _, k := range c.keys(c.r.Range(0, 4), true) {
		if !variants[k] && strings.ToLower(k) != base {
			keys = append(keys, k)
		}
	}
	n := len(keys)
	m := map[string]types.XValue{}
	vals := make([]int, n)
	for i, k := range keys {
		vals[i] = i + 1
		m[k] = types.NewXNumberFromInt(i + 1)
	}
	lookup := base
	if c.r.Chance(1, 3) {
		lookup = strings.ToUpper(base)
	}
	if c.r.Chance(1, 6) {
		lookup = "missing"
	}
	v, ok := types.NewXObject(m).Get(lookup)
	impl := "None"
	var implJ any
	if ok {
		num := v.(*types.XNumber).Native().IntPart()
		impl = fmt.Sprintf("(Some %s)", hx.N(int(num)))
		implJ = num
	}
	return coqCase{fmt.Sprintf("KGet %s %s %s", entriesN(keys, vals, c.shuffle(n)), hx.Str(lookup), impl),
		map[string]any{"keys": keys, "lookup": lookup}, implJ, "get"}
}

func (c *caseGen) formatCase() coqCase {
	n := c.r.Range(0, 6)
	names := map[string]bool{}
	for len(names) < n {
		names[strings.TrimSpace(hx.Pick(c.r, []string{"Favorite Color", "age", "Age Group", "Zip", "beer", "Beer 2", "émile", "a", "B"})+" "+fmt.Sprint(c.r.Intn(30)))] = true
	}
	rs := flows.NewResults()
	env := envs.NewBuilder().Build()
	for _, nm := range hx.SortedKeys(names) {
		val := hx.Pick(c.r, []string{"red", "Red", "10", "9", "", "été", "Z", "a b"})
		rs.Save(flows.NewResult(nm, val, "Cat", "", flows.NodeUUID("6d3fd3b4-3a8e-4f5b-8a3a-000000000001"), "", nil, time.Date(2024, 1, 2, 3, 4, 5, 0, time.UTC)))
	}
	var ks []string
	for k := range rs {
		ks = append(ks, k)
	}
	sort.Strings(ks)
	perm := c.shuffle(len(ks))
	parts := make([]string, len(ks))
	for i, j := range perm {
		r := rs[ks[j]]
		parts[i] = fmt.Sprintf("(%s, (%s, %s))", hx.Str(ks[j]), hx.Str(r.Name), hx.Str(r.Value))
	}
	impl := rs.Context(env)["__default__"].(*types.XText).Native()
	return coqCase{fmt.Sprintf("KFormat [%s] %s", strings.Join(parts, "; "), hx.Str(impl)), ks, impl, "format"}
}

var langCodes = []string{"fra", "spa", "kin", "por", "deu", "eng", "ara", "zho", "swa", "hin"}

func (c *caseGen) languagesCase() coqCase {
	n := c.r.Range(0, 6)
	perm := c.shuffle(len(langCodes))
	loc := obj{}
	var langs []string
	for i := 0; i < n; i++ {
		l := langCodes[perm[i]]
		langs = append(langs, l)
		loc[l] = obj{"6d3fd3b4-3a8e-4f5b-8a3a-00000000000a": obj{"text": []string{"t " + l}}}
	}
	def := obj{"uuid": "6d3fd3b4-3a8e-4f5b-8a3a-0000000000f1", "name": "L", "spec_version": "13.6.0", "language": "und", "type": "messaging",
		"nodes": []any{}, "localization": loc}
	flow, err := definition.ReadFlow(mustJSON(def), nil)
	if err != nil {
		panic(fmt.Sprintf("languages case: %v", err))
	}
	got := flow.Localization().Languages()
	impl := make([]string, len(got))
	for i, l := range got {
		impl[i] = string(l)
	}
	return coqCase{fmt.Sprintf("KLanguages %s %s", strList(langs), strList(impl)), langs, impl, "languages"}
}

func withMocks(mocks map[string]string, f func()) {
	m := map[string][]*httpx.MockResponse{}
	for u, b := range mocks {
		m[u] = []*httpx.MockResponse{httpx.NewMockResponse(200, nil, []byte(b))}
	}
	httpx.SetRequestor(httpx.NewMockRequestor(m))
	defer httpx.SetRequestor(httpx.DefaultRequestor)
	f()
}

func (c *caseGen) luisCase() coqCase {
	n := c.r.Range(1, 6)
	names := c.keys(n, true)
	scores := make([]int, n)
	intents := obj{}
	for i, nm := range names {
		scores[i] = hx.Pick(c.r, []int{10, 210, 210, 500, 990}) // ties on purpose
		intents[nm] = obj{"score": json.Number(fmt.Sprintf("0.%03d", scores[i]))}
	}
	body := mustJSON(obj{"query": "hello", "prediction": obj{"topIntent": names[0], "intents": intents, "entities": obj{}}})
	var impl []string
	withMocks(map[string]string{"https://luis.example.com/luis/prediction/v3.0/apps/app1/slots/production/predict?subscription-key=key1&verbose=true&show-all-intents=true&log=true&query=hello": string(body)}, func() {
		svc := luis.NewService(http.DefaultClient, nil, nil, gftest.NewClassifier("Booking", "luis", []string{"x"}), "https://luis.example.com/", "app1", "key1", "production")
		cl, err := svc.Classify(envs.NewBuilder().Build(), "hello", (&flows.HTTPLogger{}).Log)
		if err != nil {
			panic(fmt.Sprintf("luis case: %v", err))
		}
		for _, in := range cl.Intents {
			impl = append(impl, in.Name)
		}
	})
	return coqCase{fmt.Sprintf("KLuis %s %s", entriesN(names, scores, c.shuffle(n)), strList(impl)), intents, impl, "luis"}
}

func (c *caseGen) witCase() coqCase {
	n := c.r.Range(1, 5)
	bases := []string{"loc", "wit$location", "day", "x"}
	roles := []string{"", ":from", ":to", ":a", ":B"}
	seen := map[string]bool{}
	var keys []string
	for len(keys) < n {
		k := hx.Pick(c.r, bases) + hx.Pick(c.r, roles)
		if !seen[k] {
			seen[k] = true
			keys = append(keys, k)
		}
	}
	vals := make([]int, n)
	ents := obj{}
	for i, k := range keys {
		vals[i] = i + 1
		ents[k] = []any{obj{"id": fmt.Sprint(i), "name": strings.Split(k, ":")[0], "role": "r", "value": fmt.Sprintf("v%d", i+1), "confidence": 0.9}}
	}
	body := mustJSON(obj{"text": "hello", "intents": []any{}, "entities": ents, "traits": obj{}})
	var pairs []string
	implJ := map[string]int{}
	withMocks(map[string]string{"https://api.wit.ai/message?v=20200513&q=hello": string(body)}, func() {
		svc := wit.NewService(http.DefaultClient, nil, gftest.NewClassifier("Booking", "wit", []string{"x"}), "token1")
		cl, err := svc.Classify(envs.NewBuilder().Build(), "hello", (&flows.HTTPLogger{}).Log)
		if err != nil {
			panic(fmt.Sprintf("wit case: %v", err))
		}
		for _, name := range hx.SortedKeys(cl.Entities) {
			var id int
			fmt.Sscanf(cl.Entities[name][0].Value, "v%d", &id)
			pairs = append(pairs, fmt.Sprintf("(%s, %s)", hx.Str(name), hx.N(id)))
			implJ[name] = id
		}
	})
	return coqCase{fmt.Sprintf("KWit %s [%s]", entriesN(keys, vals, c.shuffle(n)), strings.Join(pairs, "; ")), ents, implJ, "wit"}
}

func (c *caseGen) dtoneCase() coqCase {
	curs := []string{"USD", "RWF", "EUR", "KES", "usd"}
	n := c.r.Range(1, 4)
	perm := c.shuffle(len(curs))
	amounts := map[string]decimal.Decimal{}
	var products []any
	var entries []string
	for i := 0; i < n; i++ {
		cur := curs[perm[i]]
		amt := (i + 1) * 10
		amounts[cur] = decimal.NewFromInt(int64(amt))
		offered := c.r.Chance(2, 3)
		if offered {
			products = append(products, obj{"id": i + 1, "name": cur, "destination": obj{"amount": amt, "unit": cur}})
		} else {
			products = append(products, obj{"id": i + 1, "name": cur, "destination": obj{"amount": amt + 1, "unit": cur}})
		}
		entries = append(entries, fmt.Sprintf("(%s, (%s, %s))", hx.Str(cur), hx.N(amt), hx.Bool(offered)))
	}
	sh := c.shuffle(n)
	shuffled := make([]string, n)
	for i, j := range sh {
		shuffled[i] = entries[j]
	}
	impl := "None"
	var implJ any
	withMocks(map[string]string{
		"https://dvs-api.dtone.com/v1/lookup/mobile-number":                                             `[{"id":1596,"name":"Claro","identified":true}]`,
		"https://dvs-api.dtone.com/v1/products?type=FIXED_VALUE_RECHARGE&operator_id=1596&per_page=100": string(mustJSON(products)),
		"https://dvs-api.dtone.com/v1/async/transactions":                                               `{"id":2237512891,"external_id":"x","status":{"id":20000,"message":"CONFIRMED","class":{"id":2,"message":"CONFIRMED"}}}`,
	}, func() {
		svc := dtone.NewService(http.DefaultClient, nil, "key123", "sesame")
		tr, err := svc.Transfer(urns.URN("tel:+593979000000"), urns.URN("tel:+593979123456"), amounts, (&flows.HTTPLogger{}).Log)
		if err == nil {
			impl = fmt.Sprintf("(Some %s)", hx.Str(tr.Currency))
			implJ = tr.Currency
		}
	})
	return coqCase{fmt.Sprintf("KDtone [%s] %s", strings.Join(shuffled, "; "), impl), amounts, implJ, "dtone"}
}

// FieldValues.Context: the "__default__" text lists "Name: value" for every field with a value, sort.Strings
func (c *caseGen) fieldsCase() coqCase {
	n := c.r.Range(1, 6)
	keys := []string{"age", "gender", "state_x", "join_date", "score", "nick", "zip", "Age2"}[:0]
	pool := []string{"age", "gender", "statex", "joined", "score", "nick", "zip", "b2"}
	perm := c.shuffle(len(pool))
	var fieldDefs []any
	names := map[string]string{}
	for i := 0; i < n; i++ {
		k := pool[perm[i]]
		keys = append(keys, k)
		names[k] = hx.Pick(c.r, []string{"Age", "age", "Zip Code", "Émile", "B", "a", "Score 2", "nick"}) + fmt.Sprint(i)
		fieldDefs = append(fieldDefs, obj{"uuid": fmt.Sprintf("6d3fd3b4-3a8e-4f5b-8a3a-0000000001%02d", i), "key": k, "name": names[k], "type": "text"})
	}
	src, err := static.NewSource(mustJSON(obj{"fields": fieldDefs}))
	if err != nil {
		panic(fmt.Sprintf("fields case: %v", err))
	}
	env := envs.NewBuilder().Build()
	sa, err := engine.NewSessionAssets(env, src, nil)
	if err != nil {
		panic(fmt.Sprintf("fields case: %v", err))
	}
	values := map[string]*flows.Value{}
	texts := map[string]*string{}
	for _, k := range keys {
		if c.r.Chance(3, 4) {
			t := hx.Pick(c.r, []string{"x", "X", "10", "9", "été", "a b", "Zed"})
			values[k] = flows.NewValue(types.NewXText(t), nil, nil, "", "", "")
			texts[k] = &t
		}
	}
	fv := flows.NewFieldValues(sa, values, func(assets.Reference, error) {})
	impl := fv.Context(env)["__default__"].(*types.XText).Native()
	sh := c.shuffle(len(keys))
	parts := make([]string, len(keys))
	for i, j := range sh {
		k := keys[j]
		parts[i] = fmt.Sprintf("(%s, (%s, %s))", hx.Str(k), hx.Str(names[k]), hx.Opt(texts[k], hx.Str))
	}
	return coqCase{fmt.Sprintf("KFields [%s] %s", strings.Join(parts, "; "), hx.Str(impl)), names, impl, "fields"}
}

// @legacy_extra after the session was re-read: results in key order, stably re-sorted by creation time, later
// extras overwrite earlier ones.  The result names are chosen so that key order and execution order differ.
func (c *caseGen) legacyCase() coqCase {
	g := &gen{r: c.r.Fork("legacy")}
	f := newFlowB(g, "Legacy corr")
	fixed := c.r.Bool()
	k := c.r.Range(2, 3)
	letters := []string{"C", "A", "B"}
	perm := c.shuffle(3)
	mocks := map[string][]*httpx.MockResponse{}
	acts := []any{}
	var entries []string
	for i := 0; i < k; i++ {
		name := "Hook " + letters[perm[i]]
		url := fmt.Sprintf("http://example.com/h%d", i)
		mocks[url] = []*httpx.MockResponse{httpx.NewMockResponse(200, nil, []byte(fmt.Sprintf(`{"shared":"from-%d","own%d":"v%d"}`, i, i, i)))}
		acts = append(acts, obj{"uuid": g.uuid(), "type": "call_webhook", "method": "GET", "url": url, "result_name": name})
		created := i + 1
		if fixed {
			created = 0
		}
		entries = append(entries, fmt.Sprintf("(%s, (%s, [(%s, %s); (%s, %s)]))", hx.Str(utils.Snakify(name)), hx.N(created),
			hx.Str("shared"), hx.Str(fmt.Sprintf("from-%d", i)), hx.Str(fmt.Sprintf("own%d", i)), hx.Str(fmt.Sprintf("v%d", i))))
	}
	f.addNode(acts, nil, 1)
	r, _, ne := f.switchRouter("@input.text", [][2]any{{"has_any_word", []string{"yes"}}}, true, "Answer")
	f.addRouterNode([]any{}, r, ne)
	f.addNode([]any{obj{"uuid": g.uuid(), "type": "send_msg", "text": "[@legacy_extra.shared]"}}, nil, 1)
	def := f.finish()
	assetsObj, _ := stdAssets(g, []any{def}, 0, nil, obj{})
	trigger := obj{"type": "manual", "triggered_on": "2024-01-01T00:00:00.000000000-00:00", "environment": envJSON,
		"flow": obj{"uuid": f.uuid, "name": f.name}, "contact": contactJSON(g, map[string]string{}, nil)}
	p := &engineParams{Feature: "legacy-corr", Assets: mustJSON(assetsObj), Trigger: mustJSON(trigger), Mocks: mocks, FixedClock: fixed, Reread: true, Resumes: []string{"yes"}}
	outs, err := runEngine(p)
	if err != nil {
		panic(fmt.Sprintf("legacy case: %v", err))
	}
	var evs []struct {
		Type string `json:"type"`
		Msg  struct {
			Text string `json:"text"`
		} `json:"msg"`
	}
	json.Unmarshal(outs["sprint1.events"], &evs)
	impl := "None"
	var implJ any
	for _, e := range evs {
		if e.Type == "msg_created" && strings.HasPrefix(e.Msg.Text, "[") {
			t := strings.TrimSuffix(strings.TrimPrefix(e.Msg.Text, "["), "]")
			impl = fmt.Sprintf("(Some %s)", hx.Str(t))
			implJ = t
		}
	}
	if implJ == nil {
		panic("legacy case: the flow did not send its message: " + string(outs["sprint1.events"]))
	}
	sh := c.shuffle(len(entries))
	shuffled := make([]string, len(entries))
	for i, j := range sh {
		shuffled[i] = entries[j]
	}
	return coqCase{fmt.Sprintf("KLegacy [%s] %s %s", strings.Join(shuffled, "; "), hx.Str("shared"), impl),
		map[string]any{"fixed_clock": fixed, "results": entries}, implJ, "legacy"}
}

func writeCases(o *hx.Opts, res *hx.Result) {
	if o.Replay != "" {
		return
	}
	resetSources(true)
	perKind := 40
	switch o.Tier {
	case "thorough":
		perKind = 600
	case "search":
		perKind = 150
	}
	c := &caseGen{r: hx.NewRand(o.Seed).Fork("corr-cases")}
	gens := []func() coqCase{c.propsCase, c.marshalCase, c.getCase, c.formatCase, c.languagesCase, c.luisCase, c.witCase, c.dtoneCase,
		c.fieldsCase, c.legacyCase}
	var all []coqCase
	for i := 0; i < perKind; i++ {
		for _, g := range gens {
			all = append(all, g())
		}
	}
	const shard = 400
	for s := 0; s*shard < len(all); s++ {
		lo, hi := s*shard, (s+1)*shard
		if hi > len(all) {
			hi = len(all)
		}
		cf := hx.NewCoqFile(fmt.Sprintf("cases_C08_%d_%d.v", o.Seed, s),
			"From Coq Require Import List NArith Bool.\nFrom Verif Require Import model.MapOrder model.MapOrderCorr.\nImport ListNotations.\nOpen Scope N_scope.\n")
		names := make([]string, 0, hi-lo)
		for i, cc := range all[lo:hi] {
			nm := fmt.Sprintf("c%d", i)
			cf.Add(fmt.Sprintf("Definition %s : ccase := %s.", nm, cc.term))
			names = append(names, nm)
			res.Cases = append(res.Cases, hx.Case{File: cf.Name, Index: i, Input: map[string]any{"kind": cc.kind, "input": cc.input}, Impl: cc.impl})
			res.Dist("corr-case:" + cc.kind)
		}
		cf.Add("Definition cases : list ccase := [" + strings.Join(names, "; ") + "].")
		cf.Add("Definition M := Eval vm_compute in mismatches cases.\nPrint M.")
		cf.Save(o, res)
	}
}
