package main

import "verifharness/pkg/hx"

func writeCases(o *hx.Opts, res *hx.Result) {}
