// Driver for C08 (engine output is a deterministic function of its inputs).
//
// Direct oracle (the property sentence, evaluated on the REAL code): every scenario — an engine history,
// Flow.Inspect, MigrateToVersion, Clone with a fixed mapping, ContactQuery.String, XObject rendering — is
// executed k times in this process with identical injected clock / UUID / random sources (Go randomises the
// start of every map iteration, so repetitions see different map orders) and, additionally, in fresh
// processes (this binary re-executed with -child; different hash seeds).  All named outputs must be
// byte-identical.  A failure is classified by scenario family + the top-level JSON member (or output name)
// in which the first difference occurs.
//
// Correspondence: for the pipelines modelled in coq/model/MapOrder.v the implementation's output order is
// written to cases_C08_*.v together with the input association list in a PRNG-chosen permutation; the Coq
// model (whose output is permutation-invariant by theorem) must produce the same output.
package main

import (
	"bufio"
	"bytes"
	"crypto/sha256"
	"encoding/json"
	"fmt"
	"os"
	"os/exec"
	"regexp"
	"sort"
	"strings"

	"github.com/Masterminds/semver"
	"github.com/nyaruka/goflow/flows/definition/migrations"

	"verifharness/pkg/hx"
)

type semverT = semver.Version

var uuidSegment = regexp.MustCompile(`[0-9a-f]{8}-[0-9a-f]{4}-[0-9a-f]{4}-[0-9a-f]{4}-[0-9a-f]{12}`)

func migrateTo(def []byte, to string) ([]byte, error) {
	var v *semver.Version
	if to != "" {
		v = semver.MustParse(to)
	}
	return migrations.MigrateToVersion(def, v, migrations.DefaultConfig)
}

// families and how many scenarios of each per 100 generated
var familyWeights = []struct {
	fam, feature string
	w            int
}{
	{"inspect", "group-args-translated", 6}, {"inspect", "issues-two-types-one-node", 5}, {"inspect", "webhook-headers", 5},
	{"inspect", "text-translated-fieldrefs", 5}, {"inspect", "regex-translated", 4}, {"inspect", "mix", 8},
	{"engine", "webhook-header-errors", 4}, {"engine", "webhook-headers-ok", 5}, {"engine", "broadcast-translation-errors", 4},
	{"engine", "broadcast-translations-ok", 4}, {"engine", "legacy-extra-ties", 4}, {"engine", "legacy-extra-distinct-times", 4},
	{"engine", "params-casevariant-get", 4}, {"engine", "template-preview-vars", 3}, {"engine", "template-preview-plain", 3},
	{"engine", "contact-missing-fields", 4}, {"engine", "mix", 14},
	{"migrate", "mix", 6}, {"migrate", "legacy-corpus", 3}, {"clone", "mix", 4}, {"clone", "overlapping-mapping", 5}, {"query", "mix", 5},
	{"xobject", "mix", 4}, {"xobject", "casevariant-get", 3},
	{"definition", "invalid-headers", 3}, {"definition", "legacy-airtime-errors", 2}, {"urns", "percent-escape", 2}, {"dates", "locale-names", 3}, {"dates", "parse-error-token", 2}, {"names", "flow-resolution", 3}, {"process-env", "timezone-name-from-input", 3}, {"process-env", "timezone-name-stored", 2}, {"process-state", "earlier-environment", 3}, {"engine", "asset-order", 6}, {"engine", "cold-vs-warm-flow-cache", 3},
	{"services", "dtone-two-currencies", 2}, {"services", "luis-intent-ties", 2}, {"services", "luis-distinct-scores", 2}, {"services", "wit-entity-roles", 2},
}

func buildScenarios(seed uint64, n int) []*scenario {
	r := hx.NewRand(seed)
	corpus := legacyCorpus()
	var res []*scenario
	total := 0
	for _, fw := range familyWeights {
		total += fw.w
	}
	// the first len(familyWeights) scenarios cover every family once (corpus of known tricky constructions first)
	for i := 0; len(res) < n || i < len(familyWeights); i++ {
		var fw = familyWeights[0]
		if i < len(familyWeights) {
			fw = familyWeights[i]
		} else {
			x := r.Intn(total)
			for _, c := range familyWeights {
				if x < c.w {
					fw = c
					break
				}
				x -= c.w
			}
		}
		g := &gen{r: r.Fork(fmt.Sprintf("%s/%s/%d", fw.fam, fw.feature, i))}
		var s *scenario
		switch fw.fam {
		case "inspect":
			s = inspectScenario(g, fw.feature, i)
		case "engine":
			if fw.feature == "asset-order" {
				s = assetOrderScenario(g, i)
			} else if fw.feature == "cold-vs-warm-flow-cache" {
				s = coldWarmScenario(g, i)
			} else {
				s = engineScenario(g, fw.feature, i)
			}
		case "migrate":
			if fw.feature == "legacy-corpus" && len(corpus) == 0 {
				continue
			}
			s = migrateScenario(g, fw.feature, i, corpus)
		case "clone":
			if fw.feature == "overlapping-mapping" {
				s = cloneOverlapScenario(g, i)
			} else {
				s = cloneScenario(g, i)
			}
		case "query":
			s = queryScenario(g, i)
		case "xobject":
			s = xobjectScenario(g, fw.feature, i)
		case "services":
			s = servicesScenario(g, fw.feature, i)
		case "definition":
			if fw.feature == "legacy-airtime-errors" {
				s = legacyAirtimeScenario(g, i)
			} else {
				s = invalidDefScenario(g, i)
			}
		case "urns":
			s = urnEscapeScenario(g, i)
		case "dates":
			s = datesScenario(g, fw.feature, i)
		case "names":
			s = flowNameScenario(g, i)
		case "process-env":
			s = processEnvScenario(g, fw.feature, i)
		case "process-state":
			s = earlierEnvScenario(g, i)
		}
		res = append(res, s)
	}
	return res
}

// outcome of one execution: output name -> bytes, or an error (only its presence is compared)
type outcome struct {
	outs map[string][]byte
	err  string
}

func execute(s *scenario) (o outcome) {
	defer func() {
		if p := recover(); p != nil {
			o = outcome{err: fmt.Sprintf("panic: %v", p)}
		}
	}()
	outs, err := s.run()
	if err != nil {
		return outcome{err: "error: " + err.Error()}
	}
	return outcome{outs: outs}
}

type childOut struct {
	Err  string            `json:"err,omitempty"`
	Outs map[string][]byte `json:"outs,omitempty"`
}

// firstDiff locates the first difference between two JSON documents: path with array indices dropped down to
// the first array ("dependencies", "issues", "[].text" ...).  Non-JSON outputs give "".
func firstDiff(a, b []byte) string {
	var va, vb any
	if json.Unmarshal(a, &va) != nil || json.Unmarshal(b, &vb) != nil {
		return ""
	}
	return diffPath(va, vb, "")
}

func diffPath(a, b any, path string) string {
	switch ta := a.(type) {
	case map[string]any:
		tb, ok := b.(map[string]any)
		if !ok {
			return path
		}
		keys := map[string]bool{}
		for k := range ta {
			keys[k] = true
		}
		for k := range tb {
			keys[k] = true
		}
		ks := make([]string, 0, len(keys))
		for k := range keys {
			ks = append(ks, k)
		}
		sort.Strings(ks)
		for _, k := range ks {
			x, okx := ta[k]
			y, oky := tb[k]
			sub := path + "." + k
			if path == "" {
				sub = k
			}
			if okx != oky {
				return sub
			}
			if d := diffPath(x, y, sub); d != "" {
				return d
			}
		}
		return ""
	case []any:
		tb, ok := b.([]any)
		if !ok || len(ta) != len(tb) {
			return path + "[]"
		}
		for i := range ta {
			if d := diffPath(ta[i], tb[i], path+"[]"); d != "" {
				return d
			}
		}
		return ""
	default:
		if fmt.Sprint(a) != fmt.Sprint(b) {
			if path == "" {
				return "(root)"
			}
			return path
		}
		return ""
	}
}

// class: family @ output-name : path cut after the first array marker
func classify(s *scenario, outName string, a, b []byte) (string, string) {
	p := firstDiff(a, b)
	full := p
	if i := strings.Index(p, "[]"); i >= 0 {
		p = p[:i+2]
	}
	if strings.HasPrefix(outName, "sprint") {
		if i := strings.Index(outName, "."); i >= 0 {
			outName = "sprint" + outName[i:]
		}
	}
	switch s.Family {
	case "dates/locale-names":
		return "dates:locale-match-map-order", p
	case "dates/parse-error-token":
		return "dates:parse-error-ambiguous-layout-token", p
	}
	if s.Family == "urns/percent-escape" {
		// gocommon urns.unescape ranges over a map (outside the goflow module): known finding
		return "urns:percent-escape-map-order", p
	}
	if s.Family == "definition/invalid-headers" {
		// what reading an invalid definition reports (class of the fixed: line of f501005)
		return "definition:validation-error-text", p
	}
	switch s.Family {
	case "process-state/earlier-environment":
		// a session with the default number format ran after another session whose environment had its own
		return "process-state:earlier-environment-number-format", p
	case "engine/cold-vs-warm-flow-cache":
		// a flow stored below the current spec is migrated on first load with UUIDs of the session's UUID source
		return "flow-cache:lazy-migration-draws-uuids", p
	case "process-env/timezone-name-from-input":
		// a zone NAME taken from input ("Local") resolved to the zone of the process
		return "process-env:timezone-name-from-input", p
	case "process-env/timezone-name-stored":
		// environment / contact JSON of the trigger naming the zone "Local"
		return "process-env:stored-timezone-local", p
	}
	if s.Family == "definition/legacy-airtime-errors" {
		// which of two reasons a legacy airtime rule set cannot be migrated for is reported
		return "definition:migration-error-text", p
	}
	p = uuidSegment.ReplaceAllString(p, "<uuid>") // object members named by a UUID: the class must not depend on the UUID
	cls := s.Family + "@" + outName
	if p != "" {
		cls += ":" + p
	}
	cls = strings.ReplaceAll(cls, " ", "_")
	return cls, full
}

// childEnv: the environment of fresh process p.  TZ, LANG, LC_ALL and LANGUAGE differ from child to child (and from this
// process): they are incidental process state, not inputs of the engine.
func childEnv(p int) []string {
	variants := [][4]string{
		{"Asia/Tokyo", "ja_JP.UTF-8", "ja_JP.UTF-8", "ja"},
		{"America/St_Johns", "fr_CA.UTF-8", "fr_CA.UTF-8", "fr"},
		{"UTC", "C", "C", ""},
		{"Europe/London", "en_GB.UTF-8", "tr_TR.UTF-8", "tr:en"},
		{"Pacific/Chatham", "ar_EG.UTF-8", "", "ar"},
	}
	v := variants[p%len(variants)]
	var env []string
	for _, kv := range os.Environ() {
		k := kv
		if i := strings.IndexByte(kv, '='); i >= 0 {
			k = kv[:i]
		}
		switch k {
		case "TZ", "LANG", "LC_ALL", "LANGUAGE", "LC_TIME", "LC_NUMERIC", "LC_COLLATE", "LC_CTYPE":
			continue
		}
		env = append(env, kv)
	}
	env = append(env, "TZ="+v[0], "LANG="+v[1], "LANGUAGE="+v[3])
	if v[2] != "" {
		env = append(env, "LC_ALL="+v[2])
	}
	return env
}

func clip(b []byte) string {
	if len(b) > 600 {
		return string(b[:600]) + "..."
	}
	return string(b)
}

func main() {
	// child mode: run every scenario once in this fresh process and print the output hashes
	if len(os.Args) > 1 && os.Args[1] == "-child" {
		var seed uint64
		var n int
		fmt.Sscan(os.Args[2], &seed)
		fmt.Sscan(os.Args[3], &n)
		w := bufio.NewWriter(os.Stdout)
		for _, s := range buildScenarios(seed, n) {
			oc := execute(s)
			fmt.Fprintf(w, "%d %s\n", s.Index, mustJSON(childOut{Err: oc.err, Outs: oc.outs}))
		}
		w.Flush()
		return
	}

	o := hx.ParseOpts()
	res := hx.NewResult(o, "scenario = (family, PRNG-built assets/flow/trigger/resumes); executed k times in-process and in fresh processes with identical clock/UUID/random sources; non-trivial = at least one ranged map of the scenario has >= 2 keys (by construction of the generator)")

	nScen := o.Count(200, 600)
	k := 20
	fresh := 3
	switch o.Tier {
	case "thorough":
		k, fresh = 200, 20
	case "search":
		k, fresh = 40, 4
	}
	scen := buildScenarios(o.Seed, nScen)

	// replay: only the recorded scenario (same seed => same construction), many repetitions
	if o.Replay != "" {
		var rj struct {
			FailingInput struct {
				Input struct {
					Index int `json:"index"`
				} `json:"input"`
			} `json:"failing_input"`
		}
		if b, err := os.ReadFile(o.Replay); err == nil && json.Unmarshal(b, &rj) == nil {
			idx := rj.FailingInput.Input.Index
			if idx < len(scen) {
				scen = []*scenario{scen[idx]}
				k, fresh = 200, 0
			}
		}
	}

	first := map[int]outcome{}
	failed := map[int]bool{}
	for _, s := range scen {
		ref := execute(s)
		first[s.Index] = ref
		res.Eval(fmt.Sprintf("%s/%d/%x", s.Family, s.Index, sha256.Sum256(mustJSON(s.Params))), s.Nontrivial)
		res.Dist("family=" + s.Family)
		if ref.err != "" {
			res.Dist("scenario-error:" + s.Family)
			res.Notes = append(res.Notes, fmt.Sprintf("scenario %d (%s) does not run: %s", s.Index, s.Family, ref.err))
		}
		if len(res.Samples) < 5 && s.Index%7 == 0 {
			sm := obj{"family": s.Family, "index": s.Index}
			for name, v := range ref.outs {
				if name == "inspect" || name == "sprint0.events" || name == "migrated" || name == "string" || name == "render" {
					sm[name] = clip(v)
				}
			}
			res.Sample(sm)
		}
		for rep := 1; rep < k && !failed[s.Index]; rep++ {
			cur := execute(s)
			res.OracleChecks++
			if (cur.err != "") != (ref.err != "") {
				failed[s.Index] = true
				res.Fail(s.Family+"@error-presence", s, fmt.Sprintf("repetition %d: %q vs first execution: %q", rep, cur.err, ref.err))
				break
			}
			names := hx.SortedKeys(ref.outs)
			for _, name := range names {
				if !bytes.Equal(ref.outs[name], cur.outs[name]) {
					cls, path := classify(s, name, ref.outs[name], cur.outs[name])
					failed[s.Index] = true
					res.Fail(cls, s, fmt.Sprintf("in-process repetition %d differs from the first execution in output %q at %s\n first: %s\n now:   %s",
						rep, name, path, clip(ref.outs[name]), clip(cur.outs[name])))
					break
				}
			}
		}
	}

	// fresh processes
	self, _ := os.Executable()
	for p := 0; p < fresh; p++ {
		cmd := exec.Command(self, "-child", fmt.Sprint(o.Seed), fmt.Sprint(nScen))
		cmd.Env = childEnv(p)
		outb, err := cmd.Output()
		if err != nil {
			res.Notes = append(res.Notes, fmt.Sprintf("fresh process %d failed: %v", p, err))
			res.Fail("harness:fresh-process-failed", nil, err.Error())
			continue
		}
		byIdx := map[int]*scenario{}
		for _, s := range scen {
			byIdx[s.Index] = s
		}
		sc := bufio.NewScanner(bytes.NewReader(outb))
		sc.Buffer(make([]byte, 1<<20), 1<<28)
		for sc.Scan() {
			var idx int
			line := sc.Text()
			sp := strings.IndexByte(line, ' ')
			fmt.Sscan(line[:sp], &idx)
			s := byIdx[idx]
			if s == nil || failed[idx] {
				continue
			}
			var co childOut
			json.Unmarshal([]byte(line[sp+1:]), &co)
			ref := first[idx]
			res.OracleChecks++
			if (co.Err != "") != (ref.err != "") {
				failed[idx] = true
				res.Fail(s.Family+"@error-presence", s, fmt.Sprintf("fresh process %d: %q vs this process: %q", p, co.Err, ref.err))
				continue
			}
			for _, name := range hx.SortedKeys(ref.outs) {
				if !bytes.Equal(ref.outs[name], co.Outs[name]) {
					cls, path := classify(s, name, ref.outs[name], co.Outs[name])
					failed[idx] = true
					res.Fail(cls, s, fmt.Sprintf("fresh process %d differs from this process in output %q at %s\n here:  %s\n there: %s",
						p, name, path, clip(ref.outs[name]), clip(co.Outs[name])))
					break
				}
			}
		}
		res.Dist("fresh-process-runs")
	}

	writeCases(o, res)
	res.Write(o)
}
