package main

// Scenario constructors for C08.  A scenario fixes every input the statement lists (assets, trigger,
// resumes, clock, UUID source, random source); its run function executes the REAL code once and returns the
// named outputs as bytes.  Everything that varies between scenarios derives from the PRNG.

import (
	"encoding/json"
	"fmt"
	"net/http"
	"os"
	"path/filepath"
	"sort"
	"strings"
	"time"

	"github.com/nyaruka/gocommon/dates"
	"github.com/nyaruka/gocommon/httpx"
	"github.com/nyaruka/gocommon/jsonx"
	"github.com/nyaruka/gocommon/random"
	"github.com/nyaruka/gocommon/urns"
	"github.com/nyaruka/gocommon/uuids"
	"github.com/nyaruka/goflow/assets"
	"github.com/nyaruka/goflow/assets/static"
	"github.com/nyaruka/goflow/contactql"
	"github.com/nyaruka/goflow/envs"
	"github.com/nyaruka/goflow/excellent/types"
	"github.com/nyaruka/goflow/flows"
	"github.com/nyaruka/goflow/flows/definition"
	"github.com/nyaruka/goflow/flows/definition/migrations"
	"github.com/nyaruka/goflow/flows/engine"
	"github.com/nyaruka/goflow/flows/modifiers"
	"github.com/nyaruka/goflow/flows/resumes"
	"github.com/nyaruka/goflow/flows/triggers"
	"github.com/nyaruka/goflow/services/airtime/dtone"
	"github.com/nyaruka/goflow/services/classification/luis"
	"github.com/nyaruka/goflow/services/classification/wit"
	"github.com/nyaruka/goflow/services/webhooks"
	gftest "github.com/nyaruka/goflow/test"
	"github.com/shopspring/decimal"

	"verifharness/pkg/hx"
)

type obj = map[string]any

type scenario struct {
	Family     string `json:"family"`
	Index      int    `json:"index"`
	Params     any    `json:"params"`
	Nontrivial bool   `json:"nontrivial"` // >= 2 keys in at least one ranged map (by construction)
	run        func() (map[string][]byte, error)
}

// ------------------------------------------------------------------------------------------------
// injected sources: identical for every repetition

var t0 = time.Date(2024, 5, 6, 7, 8, 9, 0, time.UTC)

func resetSources(fixedClock bool) {
	if fixedClock {
		dates.SetNowFunc(dates.NewFixedNow(t0))
	} else {
		dates.SetNowFunc(dates.NewSequentialNow(t0, time.Second))
	}
	uuids.SetGenerator(uuids.NewSeededGenerator(12345, dates.NewSequentialNow(t0, time.Millisecond)))
	random.SetGenerator(random.NewSeededGenerator(6789))
}

// ------------------------------------------------------------------------------------------------
// small generators

type gen struct {
	r *hx.Rand
	n int
}

func (g *gen) uuid() string {
	g.n++
	return fmt.Sprintf("%08x-1111-4111-8111-%012x", g.n, g.n*7919)
}

var langPool = []string{"fra", "spa", "kin", "por", "deu"}
var fieldPool = []string{"age", "gender", "state", "join_date", "score", "nick"}
var groupNames = []string{"Testers", "Farmers", "Doctors", "Teachers", "Drivers", "Youth"}

func (g *gen) langs(n int) []string {
	p := append([]string{}, langPool...)
	for i := len(p) - 1; i > 0; i-- {
		j := g.r.Intn(i + 1)
		p[i], p[j] = p[j], p[i]
	}
	return p[:n]
}

func (g *gen) word() string {
	return hx.Pick(g.r, []string{"alpha", "bravo", "charlie", "delta", "echo", "foxtrot", "golf", "hotel", "india", "juliet"})
}

type flowB struct {
	g     *gen
	uuid  string
	name  string
	nodes []obj
	loc   map[string]map[string]map[string][]string
}

func newFlowB(g *gen, name string) *flowB {
	return &flowB{g: g, uuid: g.uuid(), name: name, loc: map[string]map[string]map[string][]string{}}
}

func (f *flowB) translate(lang, item, prop string, vals []string) {
	if f.loc[lang] == nil {
		f.loc[lang] = map[string]map[string][]string{}
	}
	if f.loc[lang][item] == nil {
		f.loc[lang][item] = map[string][]string{}
	}
	f.loc[lang][item][prop] = vals
}

// addNode appends a node; exits are wired to the following node by finish()
func (f *flowB) addNode(actions []any, router obj, nExits int) obj {
	exits := make([]any, nExits)
	for i := range exits {
		exits[i] = obj{"uuid": f.g.uuid()}
	}
	n := obj{"uuid": f.g.uuid(), "actions": actions, "exits": exits}
	if router != nil {
		n["router"] = router
	}
	f.nodes = append(f.nodes, n)
	return n
}

func (f *flowB) finish() obj {
	for i, n := range f.nodes {
		if i+1 < len(f.nodes) {
			for _, e := range n["exits"].([]any) {
				e.(obj)["destination_uuid"] = f.nodes[i+1]["uuid"]
			}
		}
	}
	nodes := make([]any, len(f.nodes))
	for i, n := range f.nodes {
		nodes[i] = n
	}
	return obj{"uuid": f.uuid, "name": f.name, "spec_version": "13.6.1", "language": "eng", "type": "messaging",
		"localization": f.loc, "nodes": nodes}
}

// switchRouter builds a switch router over `operand`; cases: (type, arguments); returns router and case uuids
func (f *flowB) switchRouter(operand string, cases [][2]any, wait bool, resultName string) (obj, []string, int) {
	cats := []any{}
	cs := []any{}
	var caseUUIDs []string
	exits := 0
	for i, c := range cases {
		cu, catu := f.g.uuid(), f.g.uuid()
		caseUUIDs = append(caseUUIDs, cu)
		cs = append(cs, obj{"uuid": cu, "type": c[0], "arguments": c[1], "category_uuid": catu})
		cats = append(cats, obj{"uuid": catu, "name": fmt.Sprintf("Cat%d", i), "exit_uuid": nil})
		exits++
	}
	other := f.g.uuid()
	cats = append(cats, obj{"uuid": other, "name": "Other", "exit_uuid": nil})
	exits++
	r := obj{"type": "switch", "operand": operand, "cases": cs, "categories": cats, "default_category_uuid": other}
	if resultName != "" {
		r["result_name"] = resultName
	}
	if wait {
		r["wait"] = obj{"type": "msg"}
	}
	return r, caseUUIDs, exits
}

// addRouterNode adds a node with the router, binding category exits
func (f *flowB) addRouterNode(actions []any, router obj, nExits int) obj {
	n := f.addNode(actions, router, nExits)
	exits := n["exits"].([]any)
	for i, c := range router["categories"].([]any) {
		c.(obj)["exit_uuid"] = exits[i].(obj)["uuid"]
	}
	return n
}

func mustJSON(v any) []byte {
	b, err := json.Marshal(v)
	if err != nil {
		panic(err)
	}
	return b
}

// ------------------------------------------------------------------------------------------------
// family: inspect

type inspectParams struct {
	Feature string          `json:"feature"`
	Langs   []string        `json:"langs"`
	K       int             `json:"k"`
	Assets  json.RawMessage `json:"assets"`
	Flow    string          `json:"flow_uuid"`
}

func stdAssets(g *gen, flowDefs []any, nGroups int, fields []string, extra obj) (obj, []obj) {
	groups := []obj{}
	for i := 0; i < nGroups; i++ {
		groups = append(groups, obj{"uuid": g.uuid(), "name": groupNames[i%len(groupNames)]})
	}
	fs := []any{}
	for _, k := range fields {
		fs = append(fs, obj{"uuid": g.uuid(), "key": k, "name": strings.ToUpper(k[:1]) + k[1:], "type": "text"})
	}
	gs := make([]any, len(groups))
	for i := range groups {
		gs[i] = groups[i]
	}
	a := obj{"flows": flowDefs, "groups": gs, "fields": fs,
		"channels": []any{obj{"uuid": "57f1078f-88aa-46f4-a59a-948a5739c03d", "name": "Android", "address": "+17036975131",
			"schemes": []string{"tel"}, "roles": []string{"send", "receive"}, "country": "US"}}}
	for k, v := range extra {
		a[k] = v
	}
	return a, groups
}

// features for inspection flows
func inspectScenario(g *gen, feature string, idx int) *scenario {
	nl := g.r.Range(0, 3)
	k := g.r.Range(1, 3)
	switch feature {
	case "group-args-translated", "text-translated-fieldrefs", "regex-translated":
		nl = g.r.Range(2, 3)
	case "issues-two-types-one-node", "webhook-headers":
		k = g.r.Range(2, 3)
	}
	langs := g.langs(nl)
	f := newFlowB(g, "Inspect "+feature)
	assetsObj, groups := stdAssets(g, nil, 6, fieldPool[:4], nil)
	nontrivial := false

	addGroupRouter := func() {
		cases := [][2]any{}
		for i := 0; i < k; i++ {
			gr := groups[i]
			cases = append(cases, [2]any{"has_group", []string{gr["uuid"].(string), gr["name"].(string)}})
		}
		r, cu, ne := f.switchRouter("@contact.groups", cases, false, "")
		f.addRouterNode([]any{}, r, ne)
		for li, l := range langs {
			for i, c := range cu {
				gr := groups[(i+li+1)%len(groups)]
				f.translate(l, c, "arguments", []string{gr["uuid"].(string), gr["name"].(string)})
			}
		}
		if len(langs) >= 2 {
			nontrivial = true
		}
	}
	addTwoIssues := func() {
		// one node with an invalid regex (invalid_regex) and references to missing groups (missing_dependency)
		cases := [][2]any{{"has_pattern", []string{"(unclosed"}}}
		for i := 1; i < k; i++ {
			cases = append(cases, [2]any{"has_group", []string{g.uuid(), "Ghosts" + fmt.Sprint(i)}})
		}
		r, _, ne := f.switchRouter("@input.text", cases, false, "")
		f.addRouterNode([]any{obj{"uuid": g.uuid(), "type": "send_msg", "text": "hi @fields.nope"}}, r, ne)
		nontrivial = true // issues.RegisteredTypes has 3 keys
	}
	addWebhook := func() {
		headers := map[string]string{}
		for i := 0; i < k; i++ {
			headers[fmt.Sprintf("X-H%d", i)] = fmt.Sprintf("@fields.%s and @globals.g%d", fieldPool[i], i)
		}
		r, _, ne := f.switchRouter("@results.hook.category", [][2]any{{"has_only_text", []string{"Success"}}}, false, "")
		f.addRouterNode([]any{obj{"uuid": g.uuid(), "type": "call_webhook", "method": "GET", "url": "http://example.com/", "headers": headers,
			"result_name": "Hook"}}, r, ne)
		if k >= 2 {
			nontrivial = true
		}
	}
	addTextTranslated := func() {
		au := g.uuid()
		f.addNode([]any{obj{"uuid": au, "type": "send_msg", "text": "base @fields.age", "quick_replies": []string{"@fields.gender"}}}, nil, 1)
		for i, l := range langs {
			f.translate(l, au, "text", []string{fmt.Sprintf("%s @fields.%s @globals.t%d", l, fieldPool[(i+2)%len(fieldPool)], i)})
			f.translate(l, au, "quick_replies", []string{fmt.Sprintf("@fields.%s", fieldPool[(i+3)%len(fieldPool)])})
		}
		if len(langs) >= 2 {
			nontrivial = true
		}
	}
	addRegexTranslated := func() {
		r, cu, ne := f.switchRouter("@input.text", [][2]any{{"has_pattern", []string{"ok\\d+"}}}, false, "")
		f.addRouterNode([]any{}, r, ne)
		for i, l := range langs {
			f.translate(l, cu[0], "arguments", []string{fmt.Sprintf("(bad%d", i)})
		}
		if len(langs) >= 2 {
			nontrivial = true
		}
	}

	switch feature {
	case "group-args-translated":
		addGroupRouter()
	case "issues-two-types-one-node":
		addTwoIssues()
	case "webhook-headers":
		addWebhook()
	case "text-translated-fieldrefs":
		addTextTranslated()
	case "regex-translated":
		addRegexTranslated()
	default: // mix of the features whose order is fixed by sorting / slices
		f.addNode([]any{obj{"uuid": g.uuid(), "type": "set_run_result", "name": "R " + g.word(), "value": "@fields.age", "category": ""},
			obj{"uuid": g.uuid(), "type": "add_contact_groups", "groups": []any{obj{"uuid": groups[0]["uuid"], "name": groups[0]["name"]}, obj{"uuid": g.uuid(), "name": "Missing"}}},
			obj{"uuid": g.uuid(), "type": "set_contact_field", "field": obj{"key": "nick", "name": "Nick"}, "value": "@parent.results.foo @parent.results.bar @child.fields.score"}}, nil, 1)
		r, _, ne := f.switchRouter("@input.text", [][2]any{{"has_any_word", []string{"yes @fields.state"}}, {"has_pattern", []string{"[a"}}}, true, "Answer")
		f.addRouterNode([]any{}, r, ne)
		nontrivial = true
	}
	f.addNode([]any{obj{"uuid": g.uuid(), "type": "send_msg", "text": "bye"}}, nil, 1)
	def := f.finish()
	assetsObj["flows"] = []any{def}
	assetsJSON := mustJSON(assetsObj)
	p := &inspectParams{Feature: feature, Langs: langs, K: k, Assets: assetsJSON, Flow: f.uuid}
	s := &scenario{Family: "inspect/" + feature, Index: idx, Params: p, Nontrivial: nontrivial}
	s.run = func() (map[string][]byte, error) { return runInspect(p) }
	return s
}

func runInspect(p *inspectParams) (map[string][]byte, error) {
	resetSources(false)
	src, err := static.NewSource(p.Assets)
	if err != nil {
		return nil, err
	}
	env := envs.NewBuilder().Build()
	sa, err := engine.NewSessionAssets(env, src, nil)
	if err != nil {
		return nil, err
	}
	flow, err := sa.Flows().Get(assets.FlowUUID(p.Flow))
	if err != nil {
		return nil, err
	}
	out := map[string][]byte{}
	out["inspect"] = jsonx.MustMarshal(flow.Inspect(sa))
	out["inspect_noassets"] = jsonx.MustMarshal(flow.Inspect(nil))
	out["templates"] = jsonx.MustMarshal(flow.ExtractTemplates())
	out["localizables"] = jsonx.MustMarshal(flow.ExtractLocalizables())
	out["definition"] = jsonx.MustMarshal(flow)
	return out, nil
}

// ------------------------------------------------------------------------------------------------
// family: engine

type engineParams struct {
	Feature    string                           `json:"feature"`
	Assets     json.RawMessage                  `json:"assets"`
	Trigger    json.RawMessage                  `json:"trigger"`
	Resumes    []string                         `json:"resumes"`
	Mocks      map[string][]*httpx.MockResponse `json:"-"`
	MockBody   string                           `json:"mock_body,omitempty"`
	FixedClock bool                             `json:"fixed_clock"`
	Reread     bool                             `json:"reread"` // persist and re-read the session before each resume
}

func contactJSON(g *gen, fields map[string]string, groups []obj) obj {
	fv := obj{}
	for k, v := range fields {
		fv[k] = obj{"text": v}
	}
	gs := []any{}
	for _, gr := range groups {
		gs = append(gs, obj{"uuid": gr["uuid"], "name": gr["name"]})
	}
	return obj{"uuid": g.uuid(), "id": 1234, "name": "Ann " + g.word(), "language": "eng", "status": "active",
		"created_on": "2020-01-01T00:00:00.000000000-00:00", "urns": []string{"tel:+12065551212"}, "fields": fv, "groups": gs}
}

var envJSON = obj{"allowed_languages": []string{"eng", "fra", "spa"}, "date_format": "YYYY-MM-DD", "time_format": "hh:mm", "timezone": "Africa/Kigali"}

func engineScenario(g *gen, feature string, idx int) *scenario {
	f := newFlowB(g, "Engine "+feature)
	nontrivial := false
	fixedClock := false
	extraAssets := obj{}
	trigger := obj{"type": "manual", "triggered_on": "2024-01-01T00:00:00.000000000-00:00", "environment": envJSON}
	fields := map[string]string{}
	nGroups := g.r.Range(0, 4)
	mocks := map[string][]*httpx.MockResponse{}
	mockBody := ""
	assetFields := fieldPool
	reread := false
	var resumesL []string

	renders := []string{"@results", "@(json(results))", "@fields", "@(json(contact.fields))", "@contact.groups", "@(json(contact.groups))",
		"@run.results", "@(json(run))", "@(json(trigger.params))", "@trigger.params", "@(json(contact))", "@legacy_extra",
		"@(foreach(results, json))", "@(count(results))", "@webhook", "@(json(webhook))", "@(json(globals))", "@globals", "@urns", "@(json(urns))"}
	renderActions := func(n int) []any {
		acts := []any{}
		for i := 0; i < n; i++ {
			acts = append(acts, obj{"uuid": g.uuid(), "type": "send_msg", "text": hx.Pick(g.r, renders) + " | " + hx.Pick(g.r, renders)})
		}
		return acts
	}

	switch feature {
	case "webhook-header-errors":
		// >= 2 headers whose templates fail: one error event per header, in the order the headers are evaluated
		k := g.r.Range(2, 3)
		headers := map[string]string{}
		for i := 0; i < k; i++ {
			headers[fmt.Sprintf("X-E%d", i)] = fmt.Sprintf("@(1 / 0) h%d @(bad%d())", i, i)
		}
		mocks["http://example.com/hook"] = []*httpx.MockResponse{httpx.NewMockResponse(200, nil, []byte(`{"ok":true}`))}
		f.addNode([]any{obj{"uuid": g.uuid(), "type": "call_webhook", "method": "POST", "url": "http://example.com/hook", "headers": headers,
			"body": "{}", "result_name": "Hook"}}, nil, 1)
		nontrivial = true
	case "webhook-headers-ok":
		k := g.r.Range(2, 4)
		headers := map[string]string{}
		for i := 0; i < k; i++ {
			headers[fmt.Sprintf("X-V%d", i)] = fmt.Sprintf("v%d @contact.name", i)
		}
		mockBody = fmt.Sprintf(`{"b":%d,"a":{"z":1,"y":[1,2,{"q":1,"p":2}]},"c":"x"}`, g.r.Intn(100))
		mocks["http://example.com/hook"] = []*httpx.MockResponse{httpx.NewMockResponse(200, map[string]string{"X-B": "1", "X-A": "2"}, []byte(mockBody))}
		f.addNode([]any{obj{"uuid": g.uuid(), "type": "call_webhook", "method": "POST", "url": "http://example.com/hook", "headers": headers,
			"body": "@(json(object(\"b\", 1, \"a\", contact.name)))", "result_name": "Hook"},
			obj{"uuid": g.uuid(), "type": "send_msg", "text": "@webhook | @(json(webhook)) | @webhook.headers | @results.hook.extra | @legacy_extra"}}, nil, 1)
		nontrivial = true
	case "broadcast-translation-errors":
		// translations in >= 2 languages whose templates fail: error events in the order languages are evaluated
		au := g.uuid()
		f.addNode([]any{obj{"uuid": au, "type": "send_broadcast", "urns": []string{"tel:+12065550000"}, "text": "hi @contact.name"}}, nil, 1)
		for i, l := range g.langs(g.r.Range(2, 3)) {
			f.translate(l, au, "text", []string{fmt.Sprintf("%s @(1 / 0) @(nope%d())", l, i)})
		}
		nontrivial = true
	case "broadcast-translations-ok":
		au := g.uuid()
		f.addNode([]any{obj{"uuid": au, "type": "send_broadcast", "urns": []string{"tel:+12065550000"}, "text": "hi @contact.name", "quick_replies": []string{"a", "b"}}}, nil, 1)
		for _, l := range g.langs(g.r.Range(2, 4)) {
			f.translate(l, au, "text", []string{l + " @contact.name"})
			f.translate(l, au, "quick_replies", []string{l + "1", l + "2"})
		}
		nontrivial = true
	case "legacy-extra-ties", "legacy-extra-distinct-times":
		// two webhook results whose `extra` share a key; the session is persisted and re-read before the resume,
		// so @legacy_extra is rebuilt from the results map (sorted by created_on); "ties": fixed clock => equal created_on
		fixedClock = feature == "legacy-extra-ties"
		reread = true
		k := g.r.Range(2, 3)
		acts := []any{}
		for i := 0; i < k; i++ {
			url := fmt.Sprintf("http://example.com/h%d", i)
			mocks[url] = []*httpx.MockResponse{httpx.NewMockResponse(200, nil, []byte(fmt.Sprintf(`{"shared":"from-%d","own%d":%d}`, i, i, i)))}
			acts = append(acts, obj{"uuid": g.uuid(), "type": "call_webhook", "method": "GET", "url": url, "result_name": fmt.Sprintf("Hook %d", i)})
		}
		f.addNode(acts, nil, 1)
		r, _, ne := f.switchRouter("@input.text", [][2]any{{"has_any_word", []string{"yes"}}}, true, "Answer")
		f.addRouterNode([]any{}, r, ne)
		f.addNode([]any{obj{"uuid": g.uuid(), "type": "send_msg", "text": "@legacy_extra.shared | @(json(legacy_extra))"}}, nil, 1)
		resumesL = []string{"yes"}
		nontrivial = true
	case "params-casevariant-get":
		// object with keys that differ only in case: property lookup is case-insensitive
		w := g.word()
		params := obj{w: 1, strings.ToUpper(w): 2}
		if g.r.Bool() {
			params[strings.ToUpper(w[:1])+w[1:]] = 3
		}
		trigger["params"] = params
		f.addNode([]any{obj{"uuid": g.uuid(), "type": "send_msg", "text": fmt.Sprintf("@trigger.params.%s", w)}}, nil, 1)
		nontrivial = true
	case "template-preview-vars":
		// a variable value that itself looks like another placeholder
		tu := g.uuid()
		extraAssets["templates"] = []any{obj{"uuid": tu, "name": "greet", "translations": []any{obj{
			"channel": obj{"uuid": "57f1078f-88aa-46f4-a59a-948a5739c03d", "name": "Android"}, "locale": "eng-US",
			"components": []any{obj{"name": "body", "type": "body/text", "content": "Hi {{1}}, you are {{2}}", "variables": obj{"1": 0, "2": 1}}},
			"variables":  []any{obj{"type": "text"}, obj{"type": "text"}}}}}}
		f.addNode([]any{obj{"uuid": g.uuid(), "type": "send_msg", "text": "fallback", "template": obj{"uuid": tu, "name": "greet"},
			"template_variables": []string{"{{2}}", g.word()}}}, nil, 1)
		nontrivial = true
	case "template-preview-plain":
		tu := g.uuid()
		extraAssets["templates"] = []any{obj{"uuid": tu, "name": "greet", "translations": []any{obj{
			"channel": obj{"uuid": "57f1078f-88aa-46f4-a59a-948a5739c03d", "name": "Android"}, "locale": "eng-US",
			"components": []any{obj{"name": "body", "type": "body/text", "content": "Hi {{1}}, you are {{2}} and {{3}}", "variables": obj{"1": 0, "2": 1, "3": 2}}},
			"variables":  []any{obj{"type": "text"}, obj{"type": "text"}, obj{"type": "text"}}}}}}
		f.addNode([]any{obj{"uuid": g.uuid(), "type": "send_msg", "text": "fallback", "template": obj{"uuid": tu, "name": "greet"},
			"template_variables": []string{"@contact.name", g.word(), g.word()}}}, nil, 1)
		nontrivial = true
	case "contact-missing-fields":
		// contact carries values for >= 2 fields the assets do not define: each is reported through the missing-asset callback
		assetFields = fieldPool[:2]
		for i := 0; i < g.r.Range(2, 4); i++ {
			fields[fmt.Sprintf("ghost%d", i)] = "boo"
		}
		fields["age"] = "39"
		f.addNode(renderActions(1), nil, 1)
		nontrivial = true
	default: // "mix": several results, fields, groups; renders of every map-backed context value; a wait and a resume
		fixedClock = g.r.Chance(1, 3)
		nf := g.r.Range(2, len(fieldPool))
		for _, k := range fieldPool[:nf] {
			fields[k] = g.word()
		}
		if g.r.Bool() {
			trigger["params"] = obj{"zeta": 1, "alpha": obj{"n": []int{3, 2, 1}, "m": "x"}, "mid": g.word()}
		}
		acts := []any{}
		nr := g.r.Range(2, 5)
		for i := 0; i < nr; i++ {
			acts = append(acts, obj{"uuid": g.uuid(), "type": "set_run_result", "name": fmt.Sprintf("%s %d", strings.Title(g.word()), i),
				"value": g.word(), "category": hx.Pick(g.r, []string{"", "Yes", "No"})})
		}
		acts = append(acts, obj{"uuid": g.uuid(), "type": "set_contact_field", "field": obj{"key": "nick", "name": "Nick"}, "value": g.word()})
		acts = append(acts, renderActions(g.r.Range(2, 4))...)
		f.addNode(acts, nil, 1)
		r, _, ne := f.switchRouter("@input.text", [][2]any{{"has_any_word", []string{"yes"}}, {"has_number", []string{}}}, true, "Answer")
		f.addRouterNode([]any{}, r, ne)
		f.addNode(renderActions(g.r.Range(2, 4)), nil, 1)
		extraAssets["globals"] = []any{obj{"key": "org", "name": "Org", "value": "Nyaruka"}, obj{"key": "acct", "name": "Acct", "value": "42"}, obj{"key": "zed", "name": "Zed", "value": "z"}}
		nontrivial = true
	}
	if feature != "mix" && !strings.HasPrefix(feature, "legacy-extra") {
		f.addNode([]any{obj{"uuid": g.uuid(), "type": "send_msg", "text": "end"}}, nil, 1)
	}
	def := f.finish()
	assetsObj, groups := stdAssets(g, []any{def}, 5, assetFields, extraAssets)
	trigger["flow"] = obj{"uuid": f.uuid, "name": f.name}
	trigger["contact"] = contactJSON(g, fields, groups[:nGroups])
	p := &engineParams{Feature: feature, Assets: mustJSON(assetsObj), Trigger: mustJSON(trigger), Mocks: mocks, MockBody: mockBody, FixedClock: fixedClock}
	p.Reread = reread
	p.Resumes = resumesL
	if feature == "mix" {
		p.Resumes = []string{hx.Pick(g.r, []string{"yes", "12", "maybe"})}
		p.Reread = g.r.Bool()
	}
	s := &scenario{Family: "engine/" + feature, Index: idx, Params: p, Nontrivial: nontrivial}
	s.run = func() (map[string][]byte, error) { return runEngine(p) }
	return s
}

type segJSON struct {
	Flow, Node, Exit, Operand, Dest string
	Time                            time.Time
}

func sprintOut(out map[string][]byte, name string, sprint flows.Sprint) {
	out[name+".events"] = jsonx.MustMarshal(sprint.Events())
	segs := []segJSON{}
	for _, s := range sprint.Segments() {
		sj := segJSON{Flow: string(s.Flow().UUID()), Node: string(s.Node().UUID()), Exit: string(s.Exit().UUID()), Operand: s.Operand(), Time: s.Time()}
		if s.Destination() != nil {
			sj.Dest = string(s.Destination().UUID())
		}
		segs = append(segs, sj)
	}
	out[name+".segments"] = jsonx.MustMarshal(segs)
	out[name+".modifiers"] = jsonx.MustMarshal(sprint.Modifiers())
}

func runEngine(p *engineParams) (map[string][]byte, error) { return runEngineShared(p, nil) }

// runEngineShared: with keep != nil the session assets are built by the first execution and REUSED by the later ones (the
// first execution sees a cold flow cache, the repetitions a warm one)
func runEngineShared(p *engineParams, keep *flows.SessionAssets) (map[string][]byte, error) {
	resetSources(p.FixedClock)
	mocks := map[string][]*httpx.MockResponse{}
	for k, v := range p.Mocks {
		mocks[k] = append([]*httpx.MockResponse{}, v...)
	}
	httpx.SetRequestor(httpx.NewMockRequestor(mocks))
	defer httpx.SetRequestor(httpx.DefaultRequestor)

	src, err := static.NewSource(p.Assets)
	if err != nil {
		return nil, err
	}
	var tenv struct {
		Environment json.RawMessage `json:"environment"`
	}
	json.Unmarshal(p.Trigger, &tenv)
	env, err := envs.ReadEnvironment(tenv.Environment)
	if err != nil {
		return nil, err
	}
	var sa flows.SessionAssets
	if keep != nil && *keep != nil {
		sa = *keep
	} else {
		sa, err = engine.NewSessionAssets(env, src, nil)
		if err != nil {
			return nil, err
		}
		if keep != nil {
			*keep = sa
		}
	}
	missing := []string{}
	trigger, err := triggers.ReadTrigger(sa, p.Trigger, func(r assets.Reference, e error) { missing = append(missing, r.String()) })
	if err != nil {
		return nil, err
	}
	eng := engine.NewBuilder().
		WithWebhookServiceFactory(webhooks.NewServiceFactory(http.DefaultClient, nil, nil, map[string]string{"User-Agent": "goflow-testing"}, 10000)).
		Build()
	out := map[string][]byte{}
	out["missing"] = mustJSON(missing)
	session, sprint, err := eng.NewSession(sa, trigger)
	if err != nil {
		return nil, err
	}
	sprintOut(out, "sprint0", sprint)
	for i, text := range p.Resumes {
		if session.Status() != flows.SessionStatusWaiting {
			break
		}
		if p.Reread {
			session, err = eng.ReadSession(sa, jsonx.MustMarshal(session), assets.IgnoreMissing)
			if err != nil {
				return nil, err
			}
		}
		msg := flows.NewMsgIn(flows.MsgUUID(uuids.NewV4()), urns.URN("tel:+12065551212"), nil, text, nil)
		sprint, err = session.Resume(resumes.NewMsg(nil, nil, msg))
		if err != nil {
			return nil, err
		}
		sprintOut(out, fmt.Sprintf("sprint%d", i+1), sprint)
	}
	out["session"] = jsonx.MustMarshal(session)
	return out, nil
}

// ------------------------------------------------------------------------------------------------
// family: migrate / clone

type defParams struct {
	Feature string            `json:"feature"`
	Def     json.RawMessage   `json:"definition"`
	To      string            `json:"to,omitempty"`
	Mapping map[string]string `json:"mapping,omitempty"`
}

// a 13.1 definition with templating (variables translated in several languages), webhook actions and
// localization: exercises Migrate13_2 .. 13_6
func oldDefinition(g *gen) (obj, int) {
	langs := g.langs(g.r.Range(2, 4))
	loc := obj{}
	nodes := []any{}
	nNodes := g.r.Range(1, 3)
	for n := 0; n < nNodes; n++ {
		au, tu := g.uuid(), g.uuid()
		act := obj{"uuid": au, "type": "send_msg", "text": "Hi @contact.name @(upper(contact.name)) @webhook.foo", "quick_replies": []string{"@legacy_extra.x", "b"},
			"templating": obj{"uuid": tu, "template": obj{"uuid": g.uuid(), "name": "tpl"}, "variables": []string{"@contact.name", "@webhook"}}}
		for _, l := range langs {
			lt, _ := loc[l].(obj)
			if lt == nil {
				lt = obj{}
				loc[l] = lt
			}
			lt[au] = obj{"text": []string{l + " @contact.name @webhook.bar"}, "quick_replies": []string{l + " @webhook", "x"}}
			if g.r.Chance(3, 4) {
				lt[tu] = obj{"variables": []string{l + " @contact.name", "@webhook.json"}}
			}
		}
		wu := g.uuid()
		web := obj{"uuid": wu, "type": "call_webhook", "method": "POST", "url": "http://x.io/@webhook.id", "headers": obj{"A": "@webhook.a", "B": "@webhook.b", "C": "c"},
			"body": "@webhook", "result_name": strings.Repeat("r", 5)}
		nodes = append(nodes, obj{"uuid": g.uuid(), "actions": []any{act, web}, "exits": []any{obj{"uuid": g.uuid()}}})
	}
	for i := 0; i+1 < len(nodes); i++ {
		nodes[i].(obj)["exits"].([]any)[0].(obj)["destination_uuid"] = nodes[i+1].(obj)["uuid"]
	}
	return obj{"uuid": g.uuid(), "name": "Old", "spec_version": "13.1.0", "language": "eng", "type": "messaging", "revision": 3,
		"expire_after_minutes": 10, "localization": loc, "nodes": nodes, "_ui": obj{"nodes": obj{}, "stickies": obj{g.uuid(): obj{"title": "t", "body": "b"}, g.uuid(): obj{"title": "u", "body": "c"}}}}, len(langs)
}

func migrateScenario(g *gen, feature string, idx int, corpus [][]byte) *scenario {
	p := &defParams{Feature: feature}
	switch feature {
	case "legacy-corpus":
		p.Def = corpus[g.r.Intn(len(corpus))]
	default:
		d, _ := oldDefinition(g)
		p.Def = mustJSON(d)
		if g.r.Chance(1, 3) {
			p.To = hx.Pick(g.r, []string{"13.2.0", "13.4.0", "13.5.0"})
		}
	}
	s := &scenario{Family: "migrate/" + feature, Index: idx, Params: p, Nontrivial: true}
	s.run = func() (map[string][]byte, error) {
		resetSources(false)
		var to *semverT
		_ = to
		out := map[string][]byte{}
		b, err := migrateTo(p.Def, p.To)
		if err != nil {
			return nil, err
		}
		out["migrated"] = b
		return out, nil
	}
	return s
}

// cloneOverlapScenario: Clone with a FIXED mapping that overlaps itself on UUIDs which are KEYS of one JSON object
// (localization.<lang>.<action uuid>, _ui.nodes.<node uuid>, _ui.stickies.<uuid>): chains A->B->C, swaps A<->B and merges
// A->C, B->C.  Whether B's entry is moved away before A's value lands on it must not depend on anything but the input.
func cloneOverlapScenario(g *gen, idx int) *scenario {
	f := newFlowB(g, "Clone overlap")
	n := g.r.Range(3, 6)
	var actionUUIDs, nodeUUIDs []string
	for i := 0; i < n; i++ {
		au := g.uuid()
		actionUUIDs = append(actionUUIDs, au)
		node := f.addNode([]any{obj{"uuid": au, "type": "send_msg", "text": fmt.Sprintf("text %d", i)}}, nil, 1)
		nodeUUIDs = append(nodeUUIDs, node["uuid"].(string))
		for _, l := range []string{"fra", "spa"} {
			f.translate(l, au, "text", []string{fmt.Sprintf("%s text %d", l, i)})
		}
	}
	def := f.finish()
	uiNodes, stickies := obj{}, obj{}
	var stickyUUIDs []string
	for i, nu := range nodeUUIDs {
		uiNodes[nu] = obj{"position": obj{"left": i * 10, "top": i * 20}, "type": "execute_actions"}
		su := g.uuid()
		stickyUUIDs = append(stickyUUIDs, su)
		stickies[su] = obj{"title": fmt.Sprintf("note %d", i), "body": "b", "color": "yellow", "position": obj{"left": i, "top": i}}
	}
	def["_ui"] = obj{"nodes": uiNodes, "stickies": stickies}
	mapping := map[string]string{}
	overlap := func(us []string) {
		perm := append([]string{}, us...)
		for i := len(perm) - 1; i > 0; i-- {
			j := g.r.Intn(i + 1)
			perm[i], perm[j] = perm[j], perm[i]
		}
		switch g.r.Intn(4) {
		case 0: // chain
			for i := 0; i+1 < len(perm); i++ {
				mapping[perm[i]] = perm[i+1]
			}
		case 1: // swap
			mapping[perm[0]], mapping[perm[1]] = perm[1], perm[0]
		case 2: // merge two keys onto a third key of the same object
			mapping[perm[0]], mapping[perm[1]] = perm[2], perm[2]
		default: // rotation of all
			for i := range perm {
				mapping[perm[i]] = perm[(i+1)%len(perm)]
			}
		}
	}
	overlap(actionUUIDs)
	overlap(nodeUUIDs)
	overlap(stickyUUIDs)
	p := &defParams{Feature: "overlapping-mapping", Def: mustJSON(def), Mapping: mapping}
	s := &scenario{Family: "clone/overlapping-mapping", Index: idx, Params: p, Nontrivial: true}
	s.run = func() (map[string][]byte, error) {
		resetSources(false)
		m := map[uuids.UUID]uuids.UUID{}
		for k, v := range p.Mapping {
			m[uuids.UUID(k)] = uuids.UUID(v)
		}
		b, err := migrations.Clone(p.Def, m)
		if err != nil {
			return nil, err
		}
		return map[string][]byte{"clone": b}, nil
	}
	return s
}

func cloneScenario(g *gen, idx int) *scenario {
	d, _ := oldDefinition(g)
	d["spec_version"] = "13.1.0"
	// fixed mapping for some of the dependencies; everything else gets generated UUIDs (seeded)
	mapping := map[string]string{}
	nodes := d["nodes"].([]any)
	for _, n := range nodes {
		acts := n.(obj)["actions"].([]any)
		tpl := acts[0].(obj)["templating"].(obj)["template"].(obj)["uuid"].(string)
		if g.r.Bool() {
			mapping[tpl] = g.uuid()
		}
	}
	p := &defParams{Feature: "mix", Def: mustJSON(d), Mapping: mapping}
	s := &scenario{Family: "clone/mix", Index: idx, Params: p, Nontrivial: true}
	s.run = func() (map[string][]byte, error) {
		resetSources(false)
		m := map[uuids.UUID]uuids.UUID{}
		for k, v := range p.Mapping {
			m[uuids.UUID(k)] = uuids.UUID(v)
		}
		b, err := migrations.Clone(p.Def, m)
		if err != nil {
			return nil, err
		}
		return map[string][]byte{"clone": b}, nil
	}
	return s
}

// legacy definitions shipped with goflow's own tests (read from the tree under check)
func legacyCorpus() [][]byte {
	repo := os.Getenv("VERIF_REPO")
	if repo == "" {
		repo = "/repo"
	}
	var res [][]byte
	files, _ := filepath.Glob(filepath.Join(repo, "test/testdata/runner/legacy_*.json"))
	sort.Strings(files)
	for _, fn := range files {
		if strings.Contains(fn, ".test") {
			continue
		}
		b, err := os.ReadFile(fn)
		if err != nil {
			continue
		}
		var a struct {
			Flows []json.RawMessage `json:"flows"`
		}
		if json.Unmarshal(b, &a) == nil {
			for _, f := range a.Flows {
				res = append(res, f)
			}
		}
	}
	return res
}

// ------------------------------------------------------------------------------------------------
// family: query

type queryParams struct {
	Query string `json:"query"`
}

func queryScenario(g *gen, idx int) *scenario {
	atoms := []string{`name = "Bob"`, `age > 18`, `tel = "+250788123123"`, `group = "Testers"`, `language != "fra"`, `gender = "M"`, `created_on > "2020-01-01"`,
		`state = "Kigali"`, `name ~ "an"`, `uuid = "c59b0033-e748-4240-9d4c-e85eb6800151"`, `fields.age = 3`, `urn = "x"`, `twitter = ""`, `flow = "Reg"`}
	var build func(d int) string
	build = func(d int) string {
		if d == 0 || g.r.Chance(1, 3) {
			return hx.Pick(g.r, atoms)
		}
		op := hx.Pick(g.r, []string{" AND ", " OR ", " "})
		n := g.r.Range(2, 3)
		parts := make([]string, n)
		for i := range parts {
			parts[i] = build(d - 1)
		}
		return "(" + strings.Join(parts, op) + ")"
	}
	p := &queryParams{Query: build(3)}
	s := &scenario{Family: "query/mix", Index: idx, Params: p, Nontrivial: true}
	s.run = func() (map[string][]byte, error) {
		resetSources(false)
		env := envs.NewBuilder().Build()
		q, err := contactql.ParseQuery(env, p.Query, queryResolver{})
		if err != nil {
			return nil, err
		}
		out := map[string][]byte{"string": []byte(q.String())}
		out["inspect"] = jsonx.MustMarshal(contactql.Inspect(q))
		q2, err := contactql.ParseQuery(env, p.Query, nil)
		if err == nil {
			out["string_noresolver"] = []byte(q2.String())
			out["inspect_noresolver"] = jsonx.MustMarshal(contactql.Inspect(q2))
		}
		return out, nil
	}
	return s
}

type queryResolver struct{}

func (queryResolver) ResolveField(key string) assets.Field {
	switch key {
	case "age", "score":
		return static.NewField(assets.FieldUUID("f1b5aea6-6586-41c7-9020-1a6326cc6565"), key, key, assets.FieldTypeNumber)
	case "gender", "nick":
		return static.NewField(assets.FieldUUID("d66a7823-eada-40e5-9a3a-57239d4690bf"), key, key, assets.FieldTypeText)
	case "state":
		return static.NewField(assets.FieldUUID("165def68-3216-4ebf-96bc-f6f1ee5bd966"), key, key, assets.FieldTypeState)
	}
	return nil
}
func (queryResolver) ResolveGroup(name string) assets.Group {
	return static.NewGroup(assets.GroupUUID("c59b0033-e748-4240-9d4c-e85eb6800152"), name, "")
}
func (queryResolver) ResolveFlow(name string) assets.Flow {
	return static.NewFlow(assets.FlowUUID("c59b0033-e748-4240-9d4c-e85eb6800153"), name, []byte(`{}`))
}

// ------------------------------------------------------------------------------------------------
// family: xobject

type xobjParams struct {
	Feature string            `json:"feature"`
	Props   map[string]string `json:"props"`
	Nested  map[string]string `json:"nested"`
	Lookup  string            `json:"lookup"`
}

func xobjectScenario(g *gen, feature string, idx int) *scenario {
	p := &xobjParams{Feature: feature, Props: map[string]string{}, Nested: map[string]string{}}
	n := g.r.Range(2, 12)
	for i := 0; i < n; i++ {
		p.Props[fmt.Sprintf("%s%d", g.word(), g.r.Intn(50))] = g.word()
	}
	for i := 0; i < g.r.Range(0, 4); i++ {
		p.Nested[fmt.Sprintf("n%d", g.r.Intn(9))] = g.word()
	}
	p.Lookup = hx.SortedKeys(p.Props)[0]
	if feature == "casevariant-get" {
		w := g.word()
		p.Props[w] = "lower"
		p.Props[strings.ToUpper(w)] = "upper"
		p.Lookup = w
	}
	s := &scenario{Family: "xobject/" + feature, Index: idx, Params: p, Nontrivial: true}
	s.run = func() (map[string][]byte, error) {
		resetSources(false)
		env := envs.NewBuilder().Build()
		build := func() *types.XObject {
			m := map[string]types.XValue{}
			for k, v := range p.Props {
				m[k] = types.NewXText(v)
			}
			if len(p.Nested) > 0 {
				nm := map[string]types.XValue{}
				for k, v := range p.Nested {
					nm[k] = types.NewXText(v)
				}
				m["nested"] = types.NewXObject(nm)
			}
			return types.NewXObject(m)
		}
		o := build()
		out := map[string][]byte{}
		out["render"] = []byte(o.Render())
		out["format"] = []byte(o.Format(env))
		out["string"] = []byte(o.String())
		j, _ := o.MarshalJSON()
		out["json"] = j
		out["properties"] = mustJSON(o.Properties())
		v, ok := o.Get(p.Lookup)
		out["get"] = []byte(fmt.Sprintf("%v %s", ok, types.Render(v)))
		out["equals"] = []byte(fmt.Sprint(o.Equals(build())))
		xj, _ := types.ToXJSON(o)
		out["xjson"] = []byte(xj.Native())
		return out, nil
	}
	return s
}

// ------------------------------------------------------------------------------------------------
// family: services (the goflow-side code of the bundled service clients, HTTP mocked)

type svcParams struct {
	Feature string            `json:"feature"`
	Mocks   map[string]string `json:"mocks"` // url -> body
	Amounts map[string]string `json:"amounts,omitempty"`
}

func servicesScenario(g *gen, feature string, idx int) *scenario {
	p := &svcParams{Feature: feature, Mocks: map[string]string{}}
	switch feature {
	case "dtone-two-currencies":
		// desired amounts in two currencies, the operator offers a matching product in both
		a, b := g.r.Range(1, 9), g.r.Range(1, 9)*1000
		p.Amounts = map[string]string{"USD": fmt.Sprint(a), "RWF": fmt.Sprint(b)}
		p.Mocks["https://dvs-api.dtone.com/v1/lookup/mobile-number"] = `[{"id":1596,"name":"Claro","identified":true}]`
		p.Mocks["https://dvs-api.dtone.com/v1/products?type=FIXED_VALUE_RECHARGE&operator_id=1596&per_page=100"] = fmt.Sprintf(
			`[{"id":1,"name":"usd","destination":{"amount":%d,"unit":"USD"}},{"id":2,"name":"rwf","destination":{"amount":%d,"unit":"RWF"}}]`, a, b)
		p.Mocks["https://dvs-api.dtone.com/v1/async/transactions"] = `{"id":2237512891,"external_id":"x","status":{"id":20000,"message":"CONFIRMED","class":{"id":2,"message":"CONFIRMED"}}}`
	case "luis-intent-ties":
		// two intents with the same score
		sc := fmt.Sprintf("0.%d", g.r.Range(11, 88))
		p.Mocks["https://luis.example.com/luis/prediction/v3.0/apps/app1/slots/production/predict?subscription-key=key1&verbose=true&show-all-intents=true&log=true&query=hello"] = fmt.Sprintf(
			`{"query":"hello","prediction":{"topIntent":"Book Flight","intents":{"Book Flight":{"score":%s},"Book Hotel":{"score":%s},"None":{"score":0.01}},"entities":{}}}`, sc, sc)
	case "luis-distinct-scores":
		p.Mocks["https://luis.example.com/luis/prediction/v3.0/apps/app1/slots/production/predict?subscription-key=key1&verbose=true&show-all-intents=true&log=true&query=hello"] =
			`{"query":"hello","prediction":{"topIntent":"Book Flight","intents":{"Book Flight":{"score":0.9},"Book Hotel":{"score":0.5},"None":{"score":0.01},"Cancel":{"score":0.2}},"entities":{"City":["Quito"],"Day":["mon"],"$instance":{"City":[{"text":"Quito","score":0.9}],"Day":[{"text":"mon","score":0.8}]}}}}`
	case "wit-entity-roles":
		// the same entity in two roles: both map to the entity name
		p.Mocks["https://api.wit.ai/message?v=20200513&q=hello"] = fmt.Sprintf(
			`{"text":"hello","intents":[{"id":"1","name":"book_flight","confidence":0.9}],"entities":{"wit$location:from":[{"id":"2","name":"wit$location","role":"from","value":"Quito %s","confidence":0.9}],"wit$location:to":[{"id":"3","name":"wit$location","role":"to","value":"Lima","confidence":0.8}]},"traits":{}}`, g.word())
	}
	s := &scenario{Family: "services/" + feature, Index: idx, Params: p, Nontrivial: true}
	s.run = func() (map[string][]byte, error) { return runService(p) }
	return s
}

func runService(p *svcParams) (map[string][]byte, error) {
	resetSources(false)
	mocks := map[string][]*httpx.MockResponse{}
	for u, b := range p.Mocks {
		mocks[u] = []*httpx.MockResponse{httpx.NewMockResponse(200, nil, []byte(b))}
	}
	httpx.SetRequestor(httpx.NewMockRequestor(mocks))
	defer httpx.SetRequestor(httpx.DefaultRequestor)
	env := envs.NewBuilder().Build()
	logs := &flows.HTTPLogger{}
	out := map[string][]byte{}
	switch {
	case strings.HasPrefix(p.Feature, "dtone"):
		svc := dtone.NewService(http.DefaultClient, nil, "key123", "sesame")
		amounts := map[string]decimal.Decimal{}
		for c, a := range p.Amounts {
			amounts[c] = decimal.RequireFromString(a)
		}
		tr, err := svc.Transfer(urns.URN("tel:+593979000000"), urns.URN("tel:+593979123456"), amounts, logs.Log)
		if err != nil {
			return nil, err
		}
		out["transfer"] = mustJSON(obj{"currency": tr.Currency, "amount": tr.Amount.String(), "external_id": tr.ExternalID})
	case strings.HasPrefix(p.Feature, "luis"):
		svc := luis.NewService(http.DefaultClient, nil, nil, gftest.NewClassifier("Booking", "luis", []string{"book_flight", "book_hotel"}),
			"https://luis.example.com/", "app1", "key1", "production")
		c, err := svc.Classify(env, "hello", logs.Log)
		if err != nil {
			return nil, err
		}
		out["classification"] = jsonx.MustMarshal(c)
	case strings.HasPrefix(p.Feature, "wit"):
		svc := wit.NewService(http.DefaultClient, nil, gftest.NewClassifier("Booking", "wit", []string{"book_flight", "book_hotel"}), "token1")
		c, err := svc.Classify(env, "hello", logs.Log)
		if err != nil {
			return nil, err
		}
		out["classification"] = jsonx.MustMarshal(c)
	}
	return out, nil
}

// ------------------------------------------------------------------------------------------------
// family: definition (what reading an INVALID definition reports: the error text reaches engine output through
// enter_flow's failure event and NewSession's error)

type invalidDefParams struct {
	Feature string          `json:"feature"`
	Child   json.RawMessage `json:"child"`
	Engine  *engineParams   `json:"engine"`
}

func invalidDefScenario(g *gen, idx int) *scenario {
	child := newFlowB(g, "Invalid child")
	headers := obj{}
	for len(headers) < g.r.Range(2, 4) {
		headers[hx.Pick(g.r, []string{"bad header", "worse header", "x y", "ünï", "a:b", "tab\there"})+fmt.Sprint(g.r.Intn(9))] = g.word()
	}
	headers["Accept"] = "text/plain"
	child.addNode([]any{obj{"uuid": g.uuid(), "type": "call_webhook", "method": "GET", "url": "http://example.com/x", "headers": headers, "result_name": "R"}}, nil, 1)
	childDef := child.finish()
	parent := newFlowB(g, "Parent of invalid")
	parent.addNode([]any{obj{"uuid": g.uuid(), "type": "send_msg", "text": "before"},
		obj{"uuid": g.uuid(), "type": "enter_flow", "flow": obj{"uuid": child.uuid, "name": child.name}}}, nil, 1)
	parent.addNode([]any{obj{"uuid": g.uuid(), "type": "send_msg", "text": "after"}}, nil, 1)
	parentDef := parent.finish()
	assetsObj, _ := stdAssets(g, []any{parentDef, childDef}, 0, nil, obj{})
	trigger := obj{"type": "manual", "triggered_on": "2024-01-01T00:00:00.000000000-00:00", "environment": envJSON,
		"flow": obj{"uuid": parent.uuid, "name": parent.name}, "contact": contactJSON(g, map[string]string{}, nil)}
	p := &invalidDefParams{Feature: "invalid-headers", Child: mustJSON(childDef),
		Engine: &engineParams{Feature: "invalid-child", Assets: mustJSON(assetsObj), Trigger: mustJSON(trigger)}}
	s := &scenario{Family: "definition/invalid-headers", Index: idx, Params: p, Nontrivial: true}
	s.run = func() (map[string][]byte, error) {
		out, err := runEngine(p.Engine)
		if err != nil {
			out = map[string][]byte{"engine_error": []byte(err.Error())}
		}
		_, rerr := definition.ReadFlow(p.Child, nil)
		out["readflow_error"] = []byte(fmt.Sprint(rerr))
		return out, nil
	}
	return s
}

// ------------------------------------------------------------------------------------------------
// family: definition/legacy-airtime-errors — a legacy (v11) flow whose airtime rule set cannot be migrated for TWO
// different reasons (an amount outside the exponent range the migration accepts, and two countries giving different
// amounts in one currency): which reason is reported (migrations.MigrateToLatest, definition.ReadFlow, the failure
// event of a session that enters the flow) must be the same on every call.
func legacyAirtimeScenario(g *gen, idx int) *scenario {
	countries := []string{"RW", "EC", "PR", "US", "UG", "KE", "CO", "GB"}
	for i := len(countries) - 1; i > 0; i-- {
		j := g.r.Intn(i + 1)
		countries[i], countries[j] = countries[j], countries[i]
	}
	n := g.r.Range(3, 6)
	config := obj{}
	for i, c := range countries[:n] {
		switch {
		case i == 0:
			config[c] = obj{"currency_code": "RWF", "amount": json.RawMessage(hx.Pick(g.r, []string{"1e200", "1e-150", "5e101"}))}
		case i <= 2:
			config[c] = obj{"currency_code": "USD", "amount": 2 + i}
		default:
			config[c] = obj{"currency_code": hx.Pick(g.r, []string{"USD", "RWF", "KES"}), "amount": json.RawMessage(hx.Pick(g.r, []string{"1", "2.5", "1e150", "7"}))}
		}
	}
	legacyUUID, rsUUID := g.uuid(), g.uuid()
	legacyDef := obj{
		"metadata": obj{"uuid": legacyUUID, "name": "Legacy airtime", "revision": 1, "expires": 10},
		"version":  "11.12", "flow_type": "M", "base_language": "eng", "entry": rsUUID, "action_sets": []any{},
		"rule_sets": []any{obj{"uuid": rsUUID, "x": 0, "y": 0, "label": "Transfer", "ruleset_type": "airtime", "operand": "@step.value",
			"rules": []any{
				obj{"uuid": g.uuid(), "category": obj{"eng": "Success"}, "test": obj{"type": "airtime_status", "exit_status": "success"}},
				obj{"uuid": g.uuid(), "category": obj{"eng": "Failure"}, "test": obj{"type": "airtime_status", "exit_status": "failed"}}},
			"config": config}},
	}
	parent := newFlowB(g, "Parent of legacy airtime")
	parent.addNode([]any{obj{"uuid": g.uuid(), "type": "send_msg", "text": "before"},
		obj{"uuid": g.uuid(), "type": "enter_flow", "flow": obj{"uuid": legacyUUID, "name": "Legacy airtime"}}}, nil, 1)
	parent.addNode([]any{obj{"uuid": g.uuid(), "type": "send_msg", "text": "after"}}, nil, 1)
	parentDef := parent.finish()
	assetsObj, _ := stdAssets(g, []any{parentDef, legacyDef}, 0, nil, obj{})
	trigger := obj{"type": "manual", "triggered_on": "2024-01-01T00:00:00.000000000-00:00", "environment": envJSON,
		"flow": obj{"uuid": parent.uuid, "name": parent.name}, "contact": contactJSON(g, map[string]string{}, nil)}
	p := &invalidDefParams{Feature: "legacy-airtime-errors", Child: mustJSON(legacyDef),
		Engine: &engineParams{Feature: "invalid-child", Assets: mustJSON(assetsObj), Trigger: mustJSON(trigger)}}
	s := &scenario{Family: "definition/legacy-airtime-errors", Index: idx, Params: p, Nontrivial: true}
	s.run = func() (map[string][]byte, error) {
		out, err := runEngine(p.Engine)
		if err != nil {
			out = map[string][]byte{"engine_error": []byte(err.Error())}
		}
		_, merr := migrations.MigrateToLatest(p.Child, migrations.DefaultConfig)
		out["migrate_error"] = []byte(fmt.Sprint(merr))
		_, rerr := definition.ReadFlow(p.Child, migrations.DefaultConfig)
		out["readflow_error"] = []byte(fmt.Sprint(rerr))
		return out, nil
	}
	return s
}

// ------------------------------------------------------------------------------------------------
// family: engine/asset-order — accessors of the asset collections that answer "the first ..." or "all ...":
// FieldAssets.FirstOfType (parent state / district field used to resolve a bare district / ward name), GroupAssets.All
// (order in which query based groups are re-evaluated = order of the groups in the event and on the contact),
// ChannelAssets.GetForURN (first channel with the scheme).  Assets define SEVERAL fields of one location type, a
// location hierarchy in which a bare name exists under only some of the candidate parents (and under two of them),
// several query groups that change together, two channels for the same scheme; the session assets are built afresh
// for every execution.

func assetOrderScenario(g *gen, idx int) *scenario {
	f := newFlowB(g, "Asset order")
	states := []string{"Kigali City", "Eastern Province", "Northern Province"}
	// district -> wards; "Gisozi" only under Gasabo, "Kimisagara" only under Nyarugenge, "Remera" under both Gasabo and Rwamagana
	hierarchy := []any{obj{"name": "Rwanda", "aliases": []string{"Ruanda"}, "children": []any{
		obj{"name": "Kigali City", "children": []any{
			obj{"name": "Gasabo", "children": []any{obj{"name": "Gisozi"}, obj{"name": "Ndera"}, obj{"name": "Remera"}}},
			obj{"name": "Nyarugenge", "children": []any{obj{"name": "Kimisagara"}, obj{"name": "Central"}}}}},
		obj{"name": "Eastern Province", "children": []any{
			obj{"name": "Rwamagana", "children": []any{obj{"name": "Remera"}, obj{"name": "Kigabiro"}}},
			obj{"name": "Central", "children": []any{obj{"name": "Gisozi East"}}}}},
		obj{"name": "Northern Province", "children": []any{
			obj{"name": "Gasabo", "children": []any{obj{"name": "Bukure"}}}}},
	}}}
	nd := g.r.Range(2, 3) // district fields
	ns := g.r.Range(1, 2) // state fields
	fieldDefs := []any{}
	var stateKeys, districtKeys []string
	for i := 0; i < ns; i++ {
		k := []string{"state", "birth_state"}[i]
		stateKeys = append(stateKeys, k)
		fieldDefs = append(fieldDefs, obj{"uuid": g.uuid(), "key": k, "name": strings.ToUpper(k[:1]) + k[1:], "type": "state"})
	}
	for i := 0; i < nd; i++ {
		k := []string{"home_district", "work_district", "birth_district"}[i]
		districtKeys = append(districtKeys, k)
		fieldDefs = append(fieldDefs, obj{"uuid": g.uuid(), "key": k, "name": strings.ToUpper(k[:1]) + k[1:], "type": "district"})
	}
	fieldDefs = append(fieldDefs, obj{"uuid": g.uuid(), "key": "ward", "name": "Ward", "type": "ward"},
		obj{"uuid": g.uuid(), "key": "new_district", "name": "New District", "type": "district"},
		obj{"uuid": g.uuid(), "key": "age", "name": "Age", "type": "number"})
	// shuffle the field order in the assets (the order IS an input)
	for i := len(fieldDefs) - 1; i > 0; i-- {
		j := g.r.Intn(i + 1)
		fieldDefs[i], fieldDefs[j] = fieldDefs[j], fieldDefs[i]
	}
	// the contact holds a different state / district in each field
	districts := [][2]string{{"Kigali City", "Gasabo"}, {"Kigali City", "Nyarugenge"}, {"Eastern Province", "Rwamagana"}, {"Eastern Province", "Central"}, {"Northern Province", "Gasabo"}}
	perm := g.r.Intn(len(districts))
	cfields := obj{}
	for i, k := range stateKeys {
		st := states[(perm+i)%len(states)]
		cfields[k] = obj{"text": st, "state": "Rwanda > " + st}
	}
	for i, k := range districtKeys {
		d := districts[(perm+i*2)%len(districts)]
		cfields[k] = obj{"text": d[1], "state": "Rwanda > " + d[0], "district": "Rwanda > " + d[0] + " > " + d[1]}
	}
	cfields["age"] = obj{"text": "17", "number": 17}
	// query groups that all change when age is set; several with the same condition
	groupDefs := []any{}
	var groupUUIDs []obj
	for i, q := range []string{"age > 18", "age >= 20", "age > 10", "age < 18", "age != \"\""} {
		gu := g.uuid()
		groupDefs = append(groupDefs, obj{"uuid": gu, "name": fmt.Sprintf("%s %d", groupNames[i], i), "query": q})
		groupUUIDs = append(groupUUIDs, obj{"uuid": gu, "name": fmt.Sprintf("%s %d", groupNames[i], i)})
	}
	for i := len(groupDefs) - 1; i > 0; i-- {
		j := g.r.Intn(i + 1)
		groupDefs[i], groupDefs[j] = groupDefs[j], groupDefs[i]
	}
	channels := []any{
		obj{"uuid": "57f1078f-88aa-46f4-a59a-948a5739c03d", "name": "Android", "address": "+17036975131", "schemes": []string{"tel"}, "roles": []string{"send", "receive"}, "country": "US"},
		obj{"uuid": "8e21f093-99aa-413b-b55b-758b54308fcb", "name": "Twilio", "address": "+12065550000", "schemes": []string{"tel"}, "roles": []string{"send", "receive"}, "country": "US"},
		obj{"uuid": "4bb288a0-7fca-4da1-abe8-59a593aff648", "name": "Vonage", "address": "+12065551111", "schemes": []string{"tel", "whatsapp"}, "roles": []string{"send"}, "country": "RW"}}
	bare := hx.Pick(g.r, []string{"Gisozi", "Kimisagara", "Remera", "Central", "Ndera", "Kigabiro", "Bukure", "gisozi"})
	bareDistrict := hx.Pick(g.r, []string{"Gasabo", "Central", "Rwamagana", "Nyarugenge"})
	acts := []any{
		obj{"uuid": g.uuid(), "type": "set_contact_field", "field": obj{"key": "ward", "name": "Ward"}, "value": bare},
		obj{"uuid": g.uuid(), "type": "set_contact_field", "field": obj{"key": "new_district", "name": "New District"}, "value": bareDistrict},
		obj{"uuid": g.uuid(), "type": "set_contact_field", "field": obj{"key": "age", "name": "Age"}, "value": "25"},
		obj{"uuid": g.uuid(), "type": "send_msg", "text": "ward @fields.ward district @fields.new_district groups @(join(foreach(contact.groups, extract, \"name\"), \",\")) @(json(contact.fields)) channel @contact.channel.name"},
	}
	f.addNode(acts, nil, 1)
	def := f.finish()
	assetsObj := obj{"flows": []any{def}, "fields": fieldDefs, "groups": groupDefs, "channels": channels, "locations": hierarchy}
	contact := obj{"uuid": g.uuid(), "id": 4321, "name": "Ann " + g.word(), "language": "eng", "status": "active",
		"created_on": "2020-01-01T00:00:00.000000000-00:00", "urns": []string{"tel:+12065551212", "whatsapp:250788123123"}, "fields": cfields,
		"groups": []any{groupUUIDs[3], groupUUIDs[4], groupUUIDs[2]}}
	trigger := obj{"type": "manual", "triggered_on": "2024-01-01T00:00:00.000000000-00:00", "environment": envJSON,
		"flow": obj{"uuid": f.uuid, "name": f.name}, "contact": contact}
	p := &engineParams{Feature: "asset-order", Assets: mustJSON(assetsObj), Trigger: mustJSON(trigger)}
	s := &scenario{Family: "engine/asset-order", Index: idx, Params: p, Nontrivial: true}
	s.run = func() (map[string][]byte, error) { return runEngine(p) }
	return s
}

// ------------------------------------------------------------------------------------------------
// family: urns/percent-escape — URN paths that contain a literal percent escape of an escape ("%2523" = the text "%23"):
// gocommon's urns parser (outside the goflow module) undoes its escapes by ranging over a Go map, so whether "%25" or
// "%23" is replaced first differs from call to call.  Probe for the known finding urns:percent-escape-map-order.

type urnParams struct {
	Feature string        `json:"feature"`
	Raw     []string      `json:"raw"`
	Engine  *engineParams `json:"engine"`
}

func urnEscapeScenario(g *gen, idx int) *scenario {
	paths := []string{"a%2523b", "x%253Fy", "p%2523q%253Fr", "k%252523"}
	raw := []string{}
	for i, n := 0, g.r.Range(1, 3); i < n; i++ {
		raw = append(raw, "ext:"+hx.Pick(g.r, paths))
	}
	f := newFlowB(g, "URN escapes")
	f.addNode([]any{
		obj{"uuid": g.uuid(), "type": "add_contact_urn", "scheme": "ext", "path": strings.TrimPrefix(raw[0], "ext:")},
		obj{"uuid": g.uuid(), "type": "send_msg", "text": "@urns.ext | @(json(contact.urns)) | @(urn_parts(urns.ext).path)"}}, nil, 1)
	def := f.finish()
	assetsObj, _ := stdAssets(g, []any{def}, 0, nil, obj{})
	contact := contactJSON(g, map[string]string{}, nil)
	contact["urns"] = append([]string{"tel:+12065551212"}, raw...)
	trigger := obj{"type": "manual", "triggered_on": "2024-01-01T00:00:00.000000000-00:00", "environment": envJSON,
		"flow": obj{"uuid": f.uuid, "name": f.name}, "contact": contact}
	p := &urnParams{Feature: "percent-escape", Raw: raw,
		Engine: &engineParams{Feature: "urn-escapes", Assets: mustJSON(assetsObj), Trigger: mustJSON(trigger)}}
	s := &scenario{Family: "urns/percent-escape", Index: idx, Params: p, Nontrivial: true}
	s.run = func() (map[string][]byte, error) {
		out, err := runEngine(p.Engine)
		if err != nil {
			out = map[string][]byte{"engine_error": []byte(err.Error())}
		}
		var sb strings.Builder
		for _, r := range p.Raw {
			scheme, path, query, display := urns.URN(r).ToParts()
			fmt.Fprintf(&sb, "%s -> %q %q %q %q normalized %q\n", r, scheme, path, query, display, urns.URN(r).Normalize())
		}
		out["parts"] = []byte(sb.String())
		return out, nil
	}
	return s
}

// ------------------------------------------------------------------------------------------------
// family: dates/* — probes for two known findings in gocommon/dates (outside the goflow module):
//   dates/locale-names        a locale without an exact translation (French in Senegal, Arabic in Palestine ...): the BCP47
//                             matcher is built from a map in iteration order, so WHICH country's day / month names and AM/PM
//                             markers are used differs between processes (fresh-process comparison)
//   dates/parse-error-token   parse_time / parse_datetime of text that is no time with the layout elements t / tt: the
//                             error text names `t` or `tt` at random (in-process repetitions)

func datesScenario(g *gen, feature string, idx int) *scenario {
	f := newFlowB(g, "Dates "+feature)
	env := obj{"date_format": "YYYY-MM-DD", "time_format": "hh:mm", "timezone": "Africa/Kigali"}
	var resumesL []string
	switch feature {
	case "locale-names":
		lc := hx.Pick(g.r, [][2]string{{"fra", "SN"}, {"ara", "PS"}, {"fra", "CI"}, {"spa", "GQ"}, {"por", "AO"}, {"eng", "RW"}})
		env["allowed_languages"] = []string{lc[0]}
		env["default_country"] = lc[1]
		day := g.r.Range(1, 28)
		f.addNode([]any{obj{"uuid": g.uuid(), "type": "send_msg",
			"text": fmt.Sprintf("RDV: @(format_date(\"2024-%02d-%02d\", \"EEEE EEE D MMMM MMM YYYY\")) @(format_time(\"15:30\", \"h:mm aa\")) @(format_datetime(\"2024-03-06T09:05:00Z\", \"EEE D MMM h:mm aa\"))", g.r.Range(1, 12), day)}}, nil, 1)
	case "parse-error-token":
		env["allowed_languages"] = []string{"eng"}
		r, _, ne := f.switchRouter("@input.text", [][2]any{{"has_any_word", []string{"never"}}}, true, "Answer")
		f.addRouterNode([]any{}, r, ne)
		layout := hx.Pick(g.r, []string{"tt:mm", "t:mm", "tt:mm:ss"})
		f.addNode([]any{obj{"uuid": g.uuid(), "type": "send_msg",
			"text": fmt.Sprintf("See you at @(parse_time(input.text, \"%s\")) or @(parse_datetime(input.text, \"YYYY-MM-DD %s\"))", layout, layout)}}, nil, 1)
		resumesL = []string{hx.Pick(g.r, []string{"half past nine", "soon", "25 o clock"})}
	}
	def := f.finish()
	assetsObj, _ := stdAssets(g, []any{def}, 0, nil, obj{})
	trigger := obj{"type": "manual", "triggered_on": "2024-01-01T00:00:00.000000000-00:00", "environment": env,
		"flow": obj{"uuid": f.uuid, "name": f.name}, "contact": contactJSON(g, map[string]string{}, nil)}
	p := &engineParams{Feature: feature, Assets: mustJSON(assetsObj), Trigger: mustJSON(trigger), Resumes: resumesL}
	s := &scenario{Family: "dates/" + feature, Index: idx, Params: p, Nontrivial: true}
	s.run = func() (map[string][]byte, error) { return runEngine(p) }
	return s
}

// ------------------------------------------------------------------------------------------------
// family: process-env — the fresh-process stream runs its children under DIFFERENT process environments (TZ, LANG,
// LC_ALL, LANGUAGE): none of them is an input of the engine.  Scenarios that name a timezone the way a contact or a flow
// author can:
//   - timezone-name-from-input: set_contact_timezone with the text the contact sent ("Local", a real zone, nonsense),
//     format_datetime / parse_datetime with a zone argument, a timezone modifier read from JSON;
//   - timezone-name-stored: the environment / the contact of the trigger carry the zone name "Local" (host-stored JSON).
// Go's time.LoadLocation("Local") answers the zone of the PROCESS.

type processEnvParams struct {
	Feature  string        `json:"feature"`
	Modifier string        `json:"modifier,omitempty"`
	Engine   *engineParams `json:"engine"`
}

func processEnvScenario(g *gen, feature string, idx int) *scenario {
	f := newFlowB(g, "Process env "+feature)
	env := obj{"allowed_languages": []string{"eng"}, "date_format": "YYYY-MM-DD", "time_format": "hh:mm", "timezone": "Africa/Kigali"}
	contact := contactJSON(g, map[string]string{}, nil)
	var resumesL []string
	p := &processEnvParams{Feature: feature}
	show := "It is @(format_datetime(now(), \"YYYY-MM-DD hh:mm\")) for you (@contact.timezone), @(format_datetime(\"2025-01-01T12:00:00Z\", \"YYYY-MM-DD hh:mm\")), @(datetime(\"2025-07-01 09:30\"))"
	switch feature {
	case "timezone-name-from-input":
		zone := "Local"
		if g.r.Chance(1, 5) {
			zone = hx.Pick(g.r, []string{"Africa/Kigali", "UTC", "Nowhere/Land", "local"})
		}
		r, _, ne := f.switchRouter("@input.text", [][2]any{{"has_any_word", []string{"never"}}}, true, "Zone")
		f.addRouterNode([]any{}, r, ne)
		acts := []any{}
		if g.r.Chance(2, 3) {
			acts = append(acts, obj{"uuid": g.uuid(), "type": "set_contact_timezone", "timezone": "@input.text"})
		}
		acts = append(acts, obj{"uuid": g.uuid(), "type": "send_msg", "text": show})
		if g.r.Chance(2, 3) || len(acts) == 1 {
			acts = append(acts, obj{"uuid": g.uuid(), "type": "send_msg",
				"text": "There: @(format_datetime(\"2025-01-01T12:00:00Z\", \"YYYY-MM-DD hh:mm\", input.text)) / @(parse_datetime(\"2025-01-01 12:00\", \"YYYY-MM-DD hh:mm\", input.text))"})
		}
		f.addNode(acts, nil, 1)
		resumesL = []string{zone}
		p.Modifier = string(mustJSON(obj{"type": "timezone", "timezone": zone}))
	case "timezone-name-stored":
		if g.r.Bool() {
			env["timezone"] = "Local"
		} else {
			contact["timezone"] = "Local"
		}
		f.addNode([]any{obj{"uuid": g.uuid(), "type": "send_msg", "text": show}}, nil, 1)
	}
	def := f.finish()
	assetsObj, _ := stdAssets(g, []any{def}, 0, nil, obj{})
	trigger := obj{"type": "manual", "triggered_on": "2024-01-01T00:00:00.000000000-00:00", "environment": env,
		"flow": obj{"uuid": f.uuid, "name": f.name}, "contact": contact}
	p.Engine = &engineParams{Feature: feature, Assets: mustJSON(assetsObj), Trigger: mustJSON(trigger), Resumes: resumesL}
	s := &scenario{Family: "process-env/" + feature, Index: idx, Params: p, Nontrivial: true}
	s.run = func() (out map[string][]byte, err error) {
		out, err = runEngine(p.Engine)
		if err != nil {
			return nil, err
		}
		if p.Modifier != "" {
			func() {
				defer func() {
					if r := recover(); r != nil {
						out["modifier"] = []byte(fmt.Sprint("panic: ", r))
					}
				}()
				m, merr := modifiers.ReadModifier(nil, []byte(p.Modifier), assets.IgnoreMissing)
				if merr != nil {
					out["modifier"] = []byte("ERR: " + merr.Error())
				} else {
					out["modifier"] = jsonx.MustMarshal(m)
				}
			}()
		}
		return out, nil
	}
	return s
}

// ------------------------------------------------------------------------------------------------
// family: engine/cold-vs-warm-flow-cache — ONE SessionAssets for all executions of the scenario: the first execution finds
// the flow cache cold, the repetitions find it warm.  The parent flow (current spec) enters a child that is stored BELOW
// the current spec version (13.0.0 with `templating`, or a legacy v11 definition) and is therefore migrated when it is
// first loaded, in the middle of the sprint.  "Same assets, trigger, resumes, clock, UUID source and random source":
// what is cached is not an input.
func coldWarmScenario(g *gen, idx int) *scenario {
	childUUID := g.uuid()
	var childDef obj
	kind := hx.Pick(g.r, []string{"spec-13.0-templating", "spec-13.0-templating", "legacy-v11"})
	switch kind {
	case "spec-13.0-templating":
		childDef = obj{"uuid": childUUID, "name": "Stored child", "spec_version": "13.0.0", "language": "eng", "type": "messaging", "revision": 3,
			"expire_after_minutes": 30, "localization": obj{},
			"nodes": []any{obj{"uuid": g.uuid(), "actions": []any{
				obj{"uuid": g.uuid(), "type": "send_msg", "text": "Hi @contact.name",
					"templating": obj{"template": obj{"uuid": g.uuid(), "name": "greeting"}, "variables": []string{"@contact.name"}}},
				obj{"uuid": g.uuid(), "type": "send_msg", "text": "and " + g.word()}},
				"exits": []any{obj{"uuid": g.uuid()}}}}}
	default:
		rs, as := g.uuid(), g.uuid()
		childDef = obj{"metadata": obj{"uuid": childUUID, "name": "Stored child", "revision": 1, "expires": 10},
			"version": "11.12", "flow_type": "M", "base_language": "eng", "entry": rs,
			"rule_sets": []any{obj{"uuid": rs, "x": 0, "y": 0, "label": "Name", "ruleset_type": "expression", "operand": "@contact.name",
				"rules": []any{
					obj{"uuid": g.uuid(), "category": obj{"eng": "Has"}, "test": obj{"type": "contains_any", "test": obj{"eng": "ann bob"}}, "destination": as, "destination_type": "A"},
					obj{"uuid": g.uuid(), "category": obj{"eng": "Other"}, "test": obj{"type": "true"}, "destination": as, "destination_type": "A"}}}},
			"action_sets": []any{obj{"uuid": as, "x": 0, "y": 100, "destination": nil, "exit_uuid": g.uuid(),
				"actions": []any{obj{"type": "reply", "uuid": g.uuid(), "msg": obj{"eng": "Hello from the legacy child " + g.word()}}}}}}
	}
	parent := newFlowB(g, "Parent of stored child")
	parent.addNode([]any{obj{"uuid": g.uuid(), "type": "send_msg", "text": "before"},
		obj{"uuid": g.uuid(), "type": "enter_flow", "flow": obj{"uuid": childUUID, "name": "Stored child"}}}, nil, 1)
	parent.addNode([]any{obj{"uuid": g.uuid(), "type": "send_msg", "text": "after"}}, nil, 1)
	parentDef := parent.finish()
	assetsObj, _ := stdAssets(g, []any{parentDef, childDef}, 0, nil, obj{})
	trigger := obj{"type": "manual", "triggered_on": "2024-01-01T00:00:00.000000000-00:00", "environment": envJSON,
		"flow": obj{"uuid": parent.uuid, "name": parent.name}, "contact": contactJSON(g, map[string]string{}, nil)}
	p := &engineParams{Feature: "cold-vs-warm-flow-cache:" + kind, Assets: mustJSON(assetsObj), Trigger: mustJSON(trigger)}
	s := &scenario{Family: "engine/cold-vs-warm-flow-cache", Index: idx, Params: p, Nontrivial: true}
	var shared flows.SessionAssets
	s.run = func() (map[string][]byte, error) { return runEngineShared(p, &shared) }
	return s
}

// ------------------------------------------------------------------------------------------------
// family: process-state/earlier-environment — what a session produces must not depend on which OTHER sessions the process
// ran before it.  The scenario's own session has an environment WITHOUT a number_format (the defaults) and formats /
// parses numbers; after every execution the same process reads and runs ANOTHER session whose environment spells out a
// number format of its own ("," / "." on even executions, "'" / " " on odd ones), as a host serving several
// workspaces does.  Execution n+1 therefore follows a different earlier session than execution n and than the first one;
// the other session's output is not part of the scenario's output.
func earlierEnvScenario(g *gen, idx int) *scenario {
	f := newFlowB(g, "Earlier environment")
	amount := fmt.Sprintf("%d.%03d", g.r.Range(1000, 9999999), g.r.Intn(1000))
	f.addNode([]any{obj{"uuid": g.uuid(), "type": "send_msg",
		"text": fmt.Sprintf("You owe @(format_number(%s, 2)) / @(%s) / @(format_number(%s)) / @(has_number(\"1.234,5\").match) / @(has_number(\"1,234.5\").match) / @(number(\"12 345,6\"))", amount, amount, amount)}}, nil, 1)
	r, _, ne := f.switchRouter("@input.text", [][2]any{{"has_number_gt", []string{"1000"}}, {"has_number", []string{}}}, true, "Amount")
	f.addRouterNode([]any{}, r, ne)
	f.addNode([]any{obj{"uuid": g.uuid(), "type": "send_msg", "text": "Got @results.amount.value as @results.amount.category: @(format_number(results.amount.value)) @(json(run.results.amount))"}}, nil, 1)
	def := f.finish()
	assetsObj, _ := stdAssets(g, []any{def}, 0, nil, obj{})
	env := obj{"allowed_languages": []string{"eng"}, "date_format": "YYYY-MM-DD", "time_format": "hh:mm", "timezone": "Africa/Kigali"} // no number_format
	mkTrigger := func(e obj) json.RawMessage {
		return mustJSON(obj{"type": "manual", "triggered_on": "2024-01-01T00:00:00.000000000-00:00", "environment": e,
			"flow": obj{"uuid": f.uuid, "name": f.name}, "contact": contactJSON(g, map[string]string{}, nil)})
	}
	answer := hx.Pick(g.r, []string{"1.234,5", "1,234.5", "2'500", "12 345,6", "1234.5"})
	p := &engineParams{Feature: "earlier-environment", Assets: mustJSON(assetsObj), Trigger: mkTrigger(env), Resumes: []string{answer}}
	others := make([]*engineParams, 2)
	for i, nf := range []obj{{"decimal_symbol": ",", "digit_grouping_symbol": "."}, {"decimal_symbol": "'", "digit_grouping_symbol": " "}} {
		e := obj{"number_format": nf}
		for k, v := range env {
			e[k] = v
		}
		others[i] = &engineParams{Feature: "other-session", Assets: p.Assets, Trigger: mkTrigger(e), Resumes: []string{answer}}
	}
	s := &scenario{Family: "process-state/earlier-environment", Index: idx, Params: p, Nontrivial: true}
	executions := 0
	s.run = func() (map[string][]byte, error) {
		out, err := runEngine(p)
		// another session of the same process, with its own number format; what it produces is not compared
		runEngine(others[executions%2])
		executions++
		return out, err
	}
	return s
}

// ------------------------------------------------------------------------------------------------
// family: names/flow-resolution — what a flow NAME resolves to (SessionAssets.ResolveFlow -> flowAssets.FindByName, as the
// contact query `flow = "..."` does) with case-variant and equal names, after the namesakes were loaded in varying order

type nameParams struct {
	Feature string          `json:"feature"`
	Assets  json.RawMessage `json:"assets"`
	Load    []string        `json:"load"`
	Names   []string        `json:"names"`
}

func flowNameScenario(g *gen, idx int) *scenario {
	names := []string{"Registration", "registration", "REGISTRATION", "Survey", "Survey", "Other"}
	var defs []any
	var uuids_ []string
	for i, n := range names {
		fb := newFlowB(g, n)
		fb.addNode([]any{obj{"uuid": g.uuid(), "type": "send_msg", "text": fmt.Sprintf("flow %d", i)}}, nil, 1)
		defs = append(defs, fb.finish())
		uuids_ = append(uuids_, fb.uuid)
	}
	assetsObj, _ := stdAssets(g, defs, 0, nil, obj{})
	// load a PRNG-chosen subset, in PRNG-chosen order, before resolving the names
	var load []string
	order := make([]int, len(uuids_))
	for i := range order {
		order[i] = i
	}
	for i := len(order) - 1; i > 0; i-- {
		j := g.r.Intn(i + 1)
		order[i], order[j] = order[j], order[i]
	}
	for _, i := range order {
		if g.r.Chance(2, 3) {
			load = append(load, uuids_[i])
		}
	}
	p := &nameParams{Feature: "flow-resolution", Assets: mustJSON(assetsObj), Load: load, Names: []string{"registration", "Registration", "survey", "other", "missing"}}
	s := &scenario{Family: "names/flow-resolution", Index: idx, Params: p, Nontrivial: true}
	s.run = func() (map[string][]byte, error) {
		resetSources(false)
		src, err := static.NewSource(p.Assets)
		if err != nil {
			return nil, err
		}
		env := envs.NewBuilder().Build()
		sa, err := engine.NewSessionAssets(env, src, nil)
		if err != nil {
			return nil, err
		}
		for _, u := range p.Load {
			if _, err := sa.Flows().Get(assets.FlowUUID(u)); err != nil {
				return nil, err
			}
		}
		var sb strings.Builder
		for _, n := range p.Names {
			fl, err := sa.Flows().FindByName(n)
			if fl != nil {
				fmt.Fprintf(&sb, "%s -> %s %s\n", n, fl.UUID(), fl.Name())
			} else {
				fmt.Fprintf(&sb, "%s -> none %v\n", n, err != nil)
			}
			if q, err := contactql.ParseQuery(env, fmt.Sprintf("flow = %q", n), sa.(contactql.Resolver)); err == nil {
				fmt.Fprintf(&sb, "query -> %s\n", q.String())
			} else {
				fmt.Fprintf(&sb, "query -> error\n")
			}
		}
		return map[string][]byte{"resolved": []byte(sb.String())}, nil
	}
	return s
}
