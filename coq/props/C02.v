(* C02 — Persisting a session between waits is transparent.
   Statements only; proofs are in proofs/PersistProofs.v.  Models: model/Persist.v (persist = MarshalJSON,
   restore = readSession/ReadRun, the per-call fields batchStart/currentResume/parentRun) over model/Engine.v. *)
From Coq Require Import List NArith ZArith Bool.
From Verif Require Import model.Lang model.Engine model.Persist model.PersistFields proofs.PersistProofs.
Import ListNotations.

(* Clause 1 of the statement for the modelled members: whenever the marshalled session can be read back, the session
   read back marshals to the same value (no reachability hypothesis).  With run UUID = creation index this is close to
   definitional; the informative half is c02_reread_succeeds_iff.  Byte-level marshalling (omitempty, null vs [],
   defaults) is checked by the direct oracle only. *)
Theorem c02_marshal_fixpoint : forall lv lv',
  restore (persist lv) = Restored lv' -> persist lv' = persist lv.
Proof. exact marshal_fixpoint. Qed.
Print Assumptions c02_marshal_fixpoint.

(* In the model, reading back succeeds exactly when every run's parent was created before it (ReadRun resolves
   parent_uuid among the runs read so far); otherwise it is the error "unable to find run with UUID".  The real
   ReadSession has further failure paths that the model does not have — validation of members outside the core flow
   language, and since goflow f4c75dd "error reading parent run from trigger" when the run summary stored in a
   flow_action trigger cannot be re-read; the latter is an assumption of this check (checks/C02.json), the former are
   covered by the direct oracle (the reread-fails classes). *)
Theorem c02_reread_succeeds_iff : forall lv,
  (exists lv', restore (persist lv) = Restored lv') <-> parents_precede (s_runs (lv_core lv)).
Proof. exact reread_succeeds_iff. Qed.
Print Assumptions c02_reread_succeeds_iff.

(* What is read back: the same persisted state; pushedFlow empty; batchStart false, currentResume nil, parentRun loaded
   again from the trigger when it carries a run summary (readSession calls prepareForSprint).  These four are exactly
   the members that are not persisted. *)
Theorem c02_reread_value : forall lv,
  parents_precede (s_runs (lv_core lv)) ->
  restore (persist lv) =
  Restored {| lv_core := set_pushed (lv_core lv) None; lv_batch_trigger := lv_batch_trigger lv;
              lv_tr := {| t_batch := false; t_resume := None; t_parent := is_flow_action (s_trigger (lv_core lv)) |} |}.
Proof. exact restore_persist_known. Qed.
Print Assumptions c02_reread_value.

(* The per-call fields are re-derived: what the actions and templates of a resumed sprint can read of
   batchStart / currentResume / parentRun does not depend on their values before the call (so it is the same
   after a restart), provided parentRun was only ever loaded from the trigger.  This is the statement that was
   false before the fix recorded as `fixed: property=C02 … batch-trigger` (batchStart survived a wait in memory
   but not on disk). *)
Theorem c02_context_rederived : forall a s tr1 tr2 r,
  tr_ok (s_trigger s) tr1 -> tr_ok (s_trigger s) tr2 ->
  context_in_resume a s tr1 r = context_in_resume a s tr2 r.
Proof. exact context_rederived. Qed.
Print Assumptions c02_context_rederived.

(* Clause 2, one resume, for every session a host can hold (made by NewSession, advanced by accepted or rejected
   resumes, re-read any number of times): reading it back succeeds, yields the same engine state, and the same
   resume then gives the same engine result (outcome, events, segments, session), the same persisted session and
   the same readable per-call fields.  Rests on the engine invariant EngineInv.post_inv (no pushed flow after a
   normal sprint end, parents precede children, trigger never replaced), proved in proofs/EngineInv.v. *)
Theorem c02_resume_bisim : forall a tmo lv r, reachable a tmo lv ->
  exists lv', restore (persist lv) = Restored lv' /\
    lv_core lv' = lv_core lv /\
    fst (live_resume a lv' r tmo) = fst (live_resume a lv r tmo) /\
    outcome_of (lv_batch_trigger lv') (fst (live_resume a lv' r tmo)) (snd (live_resume a lv' r tmo))
      = outcome_of (lv_batch_trigger lv) (fst (live_resume a lv r tmo)) (snd (live_resume a lv r tmo)) /\
    context_in_resume a (lv_core lv') (lv_tr lv') r = context_in_resume a (lv_core lv) (lv_tr lv) r.
Proof. exact resume_bisim_full. Qed.
Print Assumptions c02_resume_bisim.

(* Clause 2 over whole histories and every restart subset: for every asset store, trigger, batch flag, list of
   resumes [rs] and restart pattern [bs] (restart before the i-th resume iff the i-th boolean is true), every call
   has the same outcome — events, segments, resulting persisted session, or the same rejection / error — and its
   actions read the same per-call fields as when the session is never re-read; in particular reading back never
   fails along a history (in the model: see the note at c02_reread_succeeds_iff). *)
Theorem c02_any_restart_subset : forall a tmo t f batch rs bs,
  run_history_v a tmo t f batch (with_pattern bs rs) = run_history_v a tmo t f batch (never rs).
Proof. exact any_restart_subset_full. Qed.
Print Assumptions c02_any_restart_subset.

(* the visible results above are the model's observations with the context column added: same outcomes as the
   function the correspondence check runs (PersistCorr.run_case) *)
Theorem c02_visible_outcomes : forall a tmo ops lv,
  map v_outcome (run_resumes_v a tmo lv ops) = map o_outcome (run_resumes a tmo lv ops).
Proof. exact run_resumes_v_outcomes. Qed.
Print Assumptions c02_visible_outcomes.

(* [resume_applies] (which decides whether a call has a context column, and where the model assigns currentResume /
   clears batchStart) is the guard chain of Engine.resume_session: when it holds the engine goes on to resume.Apply
   and the sprint; when it does not, the call is an engine rejection or fails the session with one failure event —
   no action or template runs, so nothing could have read the per-call fields. *)
Theorem c02_resume_applies_true : forall a s r tmo,
  resume_applies a s r = true ->
  exists wi pos n, waiting_run s = Some wi /\ path_location a s wi = Some (pos, n) /\
                   resume_session a s r tmo = proceeds a s r tmo wi pos n.
Proof. exact resume_applies_true. Qed.
Print Assumptions c02_resume_applies_true.

Theorem c02_no_context_no_action : forall a s tr r tmo,
  context_in_resume a s tr r = None ->
  match resume_session a s r tmo with
  | Rejected _ => True
  | Resumed (ROk x) => exists wi c, sp_events (sprint_ x) = [(Some wi, {| ev_step := None; ev_kind := EFailure c |})] /\ sp_segments (sprint_ x) = []
  | Resumed _ => False
  end.
Proof. exact no_context_no_action. Qed.
Print Assumptions c02_no_context_no_action.

(* Tie to the source (tables regenerated by translators/c02fields.py on every run): every member of goflow's session,
   run and step structs is classified as persisted under a key that MarshalJSON assigns and the reader uses / rebuilt on
   read / per-call / exempt / host-supplied; every envelope key carries a classified member (or is the legacy key
   `wait`, neither written nor read).  A new struct member, a new or renamed key, a key no longer written or no longer
   read re-opens this obligation. *)
Theorem c02_fields_classified :
  kind_ok session_tables session_classes session_legacy_keys = true /\
  kind_ok run_tables run_classes [] = true /\
  kind_ok step_tables step_classes [] = true.
Proof. exact fields_classified. Qed.
Print Assumptions c02_fields_classified.

(* the unpersisted members that a read resets are exactly three (currentResume, batchStart, pushedFlow: all carried by the
   model); the ones it rebuilds from persisted state are runsByUUID and parentRun; the statement's two exemptions are
   webhook and legacyExtra *)
Theorem c02_per_call_and_exempt_members :
  names_with is_per_call session_classes = per_call_members /\
  names_with is_rebuilt session_classes = rebuilt_session_members /\
  names_with is_per_call run_classes = [] /\
  names_with is_exempt run_classes = exempt_members /\
  names_with is_exempt session_classes = [].
Proof. exact per_call_and_exempt_members. Qed.
Print Assumptions c02_per_call_and_exempt_members.

(* Since goflow f4c75dd readSession loads the parent run of a flow_action trigger: for every session a host can hold,
   the session read back has parentRun loaded exactly when the session that was written had (not only from the next
   engine call on); batchStart and currentResume remain the two members that are reset by a read and re-derived at the
   next accepted resume (c02_context_rederived, c02_no_context_no_action). *)
Theorem c02_reread_keeps_parent : forall a tmo lv lv',
  reachable a tmo lv -> restore (persist lv) = Restored lv' -> t_parent (lv_tr lv') = t_parent (lv_tr lv).
Proof. exact reread_keeps_parent. Qed.
Print Assumptions c02_reread_keeps_parent.

(* No engine call changes whether the trigger's parent run is loaded (NewSession and ReadSession have loaded it whenever
   the trigger carries a run summary), and a REJECTED resume leaves the whole Go session — persisted state, trigger's batch
   flag, ParentRun() — as it was.  (The C10 sentence "a rejected resume leaves the session exactly as it was" for the one
   unpersisted member a rejected resume could touch; before goflow f4c75dd a re-read session flipped it from nil to loaded.) *)
Theorem c02_resume_keeps_parent : forall a tmo lv r,
  reachable a tmo lv -> t_parent (snd (live_resume a lv r tmo)) = t_parent (lv_tr lv).
Proof. exact resume_keeps_parent. Qed.
Print Assumptions c02_resume_keeps_parent.

Theorem c02_rejected_resume_leaves_session : forall a tmo lv r code,
  reachable a tmo lv -> fst (live_resume a lv r tmo) = Rejected code ->
  exists lv', after_call lv (fst (live_resume a lv r tmo)) (snd (live_resume a lv r tmo)) = Some lv' /\
              lv_core lv' = lv_core lv /\ lv_batch_trigger lv' = lv_batch_trigger lv /\
              t_parent (lv_tr lv') = t_parent (lv_tr lv).
Proof. exact rejected_resume_leaves_session. Qed.
Print Assumptions c02_rejected_resume_leaves_session.
