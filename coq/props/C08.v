(* C08 -- Engine output is a deterministic function of its inputs: results never depend on Go map iteration order.
   Statements only; proofs are in proofs/MapOrder{Proofs,Loop,Pipelines,Sites}.v.
   Model: model/MapOrder.v (a Go map = association list with duplicate-free keys, `range` = ANY permutation),
   model/MapRangeExceptions.v (committed exception table), gen/MapRangeSites.v (GENERATED from the goflow working
   tree on every run: every place where non-test code observes map iteration order, with a shape descriptor).
   Every invariance theorem quantifies over all maps (any size), all visiting orders (all permutations) and all
   functions standing for the code that does not touch the map (rendering, case mapping, JSON encoding ...). *)
From Coq Require Import List String NArith ZArith Bool Permutation.
From Verif Require Import model.MapOrder model.MapRangeExceptions gen.MapRangeSites
  proofs.MapOrderProofs proofs.MapOrderLoop proofs.MapOrderPipelines proofs.MapOrderSites.
From Verif Require model.FlowCache proofs.FlowCacheProofs.
Import ListNotations.

(* ---- the finite obligation over the generated site table ---------------------------------------------- *)

(* every map-order observation site of the current tree has an order-insensitive shape or is a reviewed
   exception with exactly the reviewed shape *)
Theorem c08_sites_classified : forallb (classified_ok map_range_exceptions) map_range_sites = true.
Proof. exact sites_classified. Qed.
Print Assumptions c08_sites_classified.

(* the same census over the packages of github.com/nyaruka/gocommon that goflow imports (read from the module cache): every
   site has an accepted shape, is a reviewed exception, or is a KNOWN finding (three today: urns.unescape, the dates
   locale matcher, dates.parseError) that goflow cannot repair and the driver's probes report on every run *)
Theorem c08_dep_sites_classified : forallb (classified_ok dep_map_range_exceptions) dep_map_range_sites = true.
Proof. exact dep_sites_classified. Qed.
Print Assumptions c08_dep_sites_classified.

(* structural keys do not pre-approve a second loop: every exception entry is used by AT MOST ONE site (a site is claimed
   by the first entry that matches it), and every reviewed ambient use by at most one call *)
Theorem c08_exceptions_cover_one_site_each :
  one_site_per_entry map_range_exceptions map_range_sites = true /\
  one_site_per_entry dep_map_range_exceptions dep_map_range_sites = true /\
  one_call_per_allowed ambient_allowed ambient_calls = true.
Proof. exact exceptions_cover_one_site_each. Qed.
Print Assumptions c08_exceptions_cover_one_site_each.

(* every reason used by the exception table stands for a proved statement (see reason_statement) *)
Theorem c08_exceptions_justified : forall e, In e (map_range_exceptions ++ dep_map_range_exceptions) -> reason_statement (x_reason e).
Proof. exact exceptions_justified. Qed.
Print Assumptions c08_exceptions_justified.

(* library code takes time, UUIDs and randomness only from the injectable sources (no time.Now, math/rand global
   functions, crypto/rand, os.Getpid ... in non-test code of the current tree) *)
Theorem c08_no_ambient_sources : forallb (ambient_ok ambient_allowed) ambient_calls = true.
Proof. exact no_ambient_sources. Qed.
Print Assumptions c08_no_ambient_sources.

(* ---- what an accepted shape means --------------------------------------------------------------------- *)

(* a loop body made of accepted statement kinds ends in the same state (maps as lookup functions, slices as
   multisets, scalars as values) for every visiting order, from every initial state *)
Theorem c08_safe_body_perm_invariant :
  forall (K V I : Type) (keq : K -> K -> bool) (ieq : I -> I -> bool),
  (forall a b, keq a b = true <-> a = b) -> (forall a b, ieq a b = true -> a = b) ->
  forall (body : list (stmt K V I)) (st : list (cell K I)) (l1 l2 : list (K * V)),
  body_safe K V I keq ieq body = true -> NoDup (map fst l1) -> Permutation l1 l2 ->
  state_equiv K I keq (run_loop K V I keq body st l1) (run_loop K V I keq body st l2).
Proof. exact safe_body_perm_invariant. Qed.
Print Assumptions c08_safe_body_perm_invariant.

(* a slice sorted by a total order that separates its items is then the same list *)
Theorem c08_sorted_slice_equal : forall (A : Type) (leb : A -> A -> bool),
  (forall a b, leb a b = true \/ leb b a = true) ->
  (forall a b c, leb a b = true -> leb b c = true -> leb a c = true) ->
  forall l1 l2, Permutation l1 l2 ->
  (forall x y, In x l1 -> In y l1 -> leb x y = true -> leb y x = true -> x = y) ->
  isort leb l1 = isort leb l2.
Proof. exact @isort_perm_invariant. Qed.
Print Assumptions c08_sorted_slice_equal.

(* search loops (return a constant as soon as a pair satisfies p) *)
Theorem c08_search_loop_perm_invariant : forall (K V R : Type) (p : K -> V -> bool) (c1 c2 : R) l1 l2,
  Permutation l1 l2 -> search_loop K V p c1 c2 l1 = search_loop K V p c1 c2 l2.
Proof. exact @search_loop_perm_invariant. Qed.
Print Assumptions c08_search_loop_perm_invariant.

(* the rejected kinds ARE order-dependent (so the accepted set is not arbitrary) *)
Theorem c08_assign_outer_refuted :
  exists (body : list (stmt N N N)) (l1 l2 : list (N * N)),
    NoDup (map fst l1) /\ Permutation l1 l2 /\
    run_loop N N N N.eqb body [CFlag None] l1 <> run_loop N N N N.eqb body [CFlag None] l2.
Proof. exact assign_outer_refuted. Qed.
Print Assumptions c08_assign_outer_refuted.

Theorem c08_append_unsorted_refuted :
  exists (body : list (stmt N N N)) (l1 l2 : list (N * N)),
    body_safe N N N N.eqb N.eqb body = true /\ NoDup (map fst l1) /\ Permutation l1 l2 /\
    run_loop N N N N.eqb body [CList []] l1 <> run_loop N N N N.eqb body [CList []] l2.
Proof. exact append_unsorted_refuted. Qed.
Print Assumptions c08_append_unsorted_refuted.

Theorem c08_first_match_refuted :
  exists (p : N * N -> bool) (l1 l2 : list (N * N)),
    NoDup (map fst l1) /\ Permutation l1 l2 /\ first_match p (fun kv => kv) l1 <> first_match p (fun kv => kv) l2.
Proof. exact first_match_refuted. Qed.
Print Assumptions c08_first_match_refuted.

Theorem c08_stable_sort_ties_refuted :
  exists (l1 l2 : list (N * N)),
    NoDup (map fst l1) /\ Permutation l1 l2 /\
    collect_then_stable_sort (fun a b => N.leb (snd a) (snd b)) (fun kv => kv) l1
    <> collect_then_stable_sort (fun a b => N.leb (snd a) (snd b)) (fun kv => kv) l2.
Proof. exact stable_sort_ties_refuted. Qed.
Print Assumptions c08_stable_sort_ties_refuted.

Theorem c08_build_map_collision_refuted :
  exists (l1 l2 : list (N * N)),
    NoDup (map fst l1) /\ Permutation l1 l2 /\
    lookup N.eqb 0%N (build_map N.eqb (fun _ => 0%N) (fun _ v => v) l1)
    <> lookup N.eqb 0%N (build_map N.eqb (fun _ => 0%N) (fun _ v => v) l2).
Proof. exact build_map_collision_refuted. Qed.
Print Assumptions c08_build_map_collision_refuted.

(* ---- the pipelines named by the property ----------------------------------------------------------------- *)

(* excellent/types/object.go *)
Theorem c08_perm_invariant_xobject_properties : forall (V : Type) (l1 l2 : list (str * V)),
  Permutation l1 l2 -> xobject_properties l1 = xobject_properties l2.
Proof. exact @xobject_properties_perm_invariant. Qed.
Print Assumptions c08_perm_invariant_xobject_properties.

Theorem c08_perm_invariant_xobject_entries : forall (V : Type) (l1 l2 : list (str * V)),
  NoDup (map fst l1) -> Permutation l1 l2 -> xobject_entries l1 = xobject_entries l2.
Proof. exact @xobject_entries_perm_invariant. Qed.
Print Assumptions c08_perm_invariant_xobject_entries.

Theorem c08_perm_invariant_xobject_marshal : forall (V J : Type) keep (tojson : V -> J) (l1 l2 : list (str * V)),
  NoDup (map fst l1) -> Permutation l1 l2 -> xobject_marshal keep tojson l1 = xobject_marshal keep tojson l2.
Proof. exact @xobject_marshal_perm_invariant. Qed.
Print Assumptions c08_perm_invariant_xobject_marshal.

Theorem c08_perm_invariant_xobject_get : forall (V : Type) (lower : str -> str) key (l1 l2 : list (str * V)),
  NoDup (map fst l1) -> Permutation l1 l2 -> xobject_get lower key l1 = xobject_get lower key l2.
Proof. exact @xobject_get_perm_invariant. Qed.
Print Assumptions c08_perm_invariant_xobject_get.

(* ... and WHICH property Get returns: one whose lower-cased name is the lower-cased key, the smallest such *)
Theorem c08_xobject_get_spec : forall (V : Type) (lower : str -> str) key (props : list (str * V)),
  match xobject_get lower key props with
  | Some (m, _) => In m (map fst props) /\ lower m = lower key
                   /\ forall p, In p (map fst props) -> lower p = lower key -> str_leb m p = true
  | None => forall p, In p (map fst props) -> lower p <> lower key
  end.
Proof. exact @xobject_get_spec. Qed.
Print Assumptions c08_xobject_get_spec.

(* flows/results.go, flows/field.go *)
Theorem c08_perm_invariant_results_format : forall (l1 l2 : list (str * result)),
  Permutation l1 l2 -> results_format l1 = results_format l2.
Proof. exact results_format_perm_invariant. Qed.
Print Assumptions c08_perm_invariant_results_format.

Theorem c08_perm_invariant_results_context : forall (X : Type) (ctx : result -> X) (of_text : str -> X) (l1 l2 : list (str * result)),
  NoDup (map fst l1) -> Permutation l1 l2 -> results_context ctx of_text l1 = results_context ctx of_text l2.
Proof. exact @results_context_perm_invariant. Qed.
Print Assumptions c08_perm_invariant_results_context.

Theorem c08_perm_invariant_field_values_context :
  forall (Val X : Type) (to_x : Val -> option X) field_name render of_text (l1 l2 : list (str * Val)),
  NoDup (map fst l1) -> Permutation l1 l2 ->
  field_values_context to_x field_name render of_text l1 = field_values_context to_x field_name render of_text l2.
Proof. exact @field_values_context_perm_invariant. Qed.
Print Assumptions c08_perm_invariant_field_values_context.

(* flows/runs/legacy.go *)
Theorem c08_perm_invariant_legacy_extra : forall snakify values (l1 l2 : list (str * result)),
  NoDup (map fst l1) -> Permutation l1 l2 ->
  legacy_add_results snakify values l1 = legacy_add_results snakify values l2.
Proof. exact legacy_add_results_perm_invariant. Qed.
Print Assumptions c08_perm_invariant_legacy_extra.

(* flows/definition/localization.go -> flows/inspect *)
Theorem c08_perm_invariant_localization_languages : forall (T : Type) (l1 l2 : list (str * T)),
  Permutation l1 l2 -> localization_languages l1 = localization_languages l2.
Proof. exact @localization_languages_perm_invariant. Qed.
Print Assumptions c08_perm_invariant_localization_languages.

Theorem c08_perm_invariant_inspect_translations : forall (T : Type) (item : T -> list str) (l1 l2 : list (str * T)),
  NoDup (map fst l1) -> Permutation l1 l2 -> inspect_translations item l1 = inspect_translations item l2.
Proof. exact @inspect_translations_perm_invariant. Qed.
Print Assumptions c08_perm_invariant_inspect_translations.

Theorem c08_perm_invariant_inspect_dependencies : forall (T : Type) (item : T -> list str) ref_key (l1 l2 : list (str * T)),
  NoDup (map fst l1) -> Permutation l1 l2 -> inspect_dependencies item ref_key l1 = inspect_dependencies item ref_key l2.
Proof. exact @inspect_dependencies_perm_invariant. Qed.
Print Assumptions c08_perm_invariant_inspect_dependencies.

(* flows/inspect/issues/base.go *)
Theorem c08_perm_invariant_issues_check : forall (Issue : Type) (node_pos : Issue -> N) (l1 l2 : list (str * list Issue)),
  NoDup (map fst l1) -> Permutation l1 l2 -> issues_check node_pos l1 = issues_check node_pos l2.
Proof. exact @issues_check_perm_invariant. Qed.
Print Assumptions c08_perm_invariant_issues_check.

(* flows/definition/migrations/base.go *)
Theorem c08_perm_invariant_migrate_versions : forall (F : Type) from to (l1 l2 : list (version * F)),
  Permutation l1 l2 -> migrate_versions from to l1 = migrate_versions from to l2.
Proof. exact @migrate_versions_perm_invariant. Qed.
Print Assumptions c08_perm_invariant_migrate_versions.

(* the registered versions of the current tree are pairwise different (generated table) *)
Theorem c08_registered_versions_distinct : NoDup registered_versions.
Proof. exact registered_versions_distinct. Qed.
Print Assumptions c08_registered_versions_distinct.

Theorem c08_perm_invariant_object_properties : forall (V : Type) (l1 l2 : list (str * V)),
  Permutation l1 l2 -> object_properties l1 = object_properties l2.
Proof. exact @object_properties_perm_invariant. Qed.
Print Assumptions c08_perm_invariant_object_properties.

Theorem c08_perm_invariant_remap_copy : forall (l1 l2 : list (str * str)),
  NoDup (map fst l1) -> Permutation l1 l2 -> forall k, lookup str_eqb k (remap_copy l1) = lookup str_eqb k (remap_copy l2).
Proof. exact remap_copy_perm_invariant. Qed.
Print Assumptions c08_perm_invariant_remap_copy.

(* services (after fix 2c75f12) *)
Theorem c08_perm_invariant_luis_intents : forall (l1 l2 : list (str * N)),
  NoDup (map fst l1) -> Permutation l1 l2 -> luis_intents l1 = luis_intents l2.
Proof. exact luis_intents_perm_invariant. Qed.
Print Assumptions c08_perm_invariant_luis_intents.

Theorem c08_perm_invariant_wit_entities : forall (E : Type) base_name (l1 l2 : list (str * E)),
  NoDup (map fst l1) -> Permutation l1 l2 -> wit_entities base_name l1 = wit_entities base_name l2.
Proof. exact @wit_entities_perm_invariant. Qed.
Print Assumptions c08_perm_invariant_wit_entities.

Theorem c08_perm_invariant_dtone_pick : forall (A P : Type) (matching : str -> A -> option P) (l1 l2 : list (str * A)),
  NoDup (map fst l1) -> Permutation l1 l2 -> dtone_pick matching l1 = dtone_pick matching l2.
Proof. exact @dtone_pick_perm_invariant. Qed.
Print Assumptions c08_perm_invariant_dtone_pick.

(* ---- the same pipelines without their sort (the code before the fix commits; what removing a sort re-creates) *)

Theorem c08_xobject_get_first_match_refuted :
  exists (lower : str -> str) key (l1 l2 : list (str * N)),
    NoDup (map fst l1) /\ Permutation l1 l2 /\ xobject_get_first lower key l1 <> xobject_get_first lower key l2.
Proof. exact xobject_get_first_refuted. Qed.
Print Assumptions c08_xobject_get_first_match_refuted.

Theorem c08_legacy_extra_unsorted_refuted :
  exists (l1 l2 : list (str * result)),
    NoDup (map fst l1) /\ Permutation l1 l2 /\
    legacy_add_results_unsorted (fun s => s) [] l1 <> legacy_add_results_unsorted (fun s => s) [] l2.
Proof. exact legacy_add_results_unsorted_refuted. Qed.
Print Assumptions c08_legacy_extra_unsorted_refuted.

Theorem c08_inspect_translations_unsorted_refuted :
  exists (l1 l2 : list (str * list str)),
    NoDup (map fst l1) /\ Permutation l1 l2 /\
    inspect_translations_unsorted (fun t => t) l1 <> inspect_translations_unsorted (fun t => t) l2.
Proof. exact inspect_translations_unsorted_refuted. Qed.
Print Assumptions c08_inspect_translations_unsorted_refuted.

Theorem c08_issues_check_unsorted_refuted :
  exists (l1 l2 : list (str * list (N * N))),
    NoDup (map fst l1) /\ Permutation l1 l2 /\ issues_check_unsorted fst l1 <> issues_check_unsorted fst l2.
Proof. exact issues_check_unsorted_refuted. Qed.
Print Assumptions c08_issues_check_unsorted_refuted.

Theorem c08_luis_intents_unsorted_refuted :
  exists (l1 l2 : list (str * N)),
    NoDup (map fst l1) /\ Permutation l1 l2 /\ luis_intents_unsorted l1 <> luis_intents_unsorted l2.
Proof. exact luis_intents_unsorted_refuted. Qed.
Print Assumptions c08_luis_intents_unsorted_refuted.

Theorem c08_wit_entities_unsorted_refuted :
  exists (l1 l2 : list (str * N)),
    NoDup (map fst l1) /\ Permutation l1 l2 /\
    wit_entities_unsorted (fun _ => [108]%N) l1 <> wit_entities_unsorted (fun _ => [108]%N) l2.
Proof. exact wit_entities_unsorted_refuted. Qed.
Print Assumptions c08_wit_entities_unsorted_refuted.

Theorem c08_dtone_pick_unsorted_refuted :
  exists (l1 l2 : list (str * N)),
    NoDup (map fst l1) /\ Permutation l1 l2 /\
    dtone_pick_unsorted (fun _ a => Some a) l1 <> dtone_pick_unsorted (fun _ a => Some a) l2.
Proof. exact dtone_pick_unsorted_refuted. Qed.
Print Assumptions c08_dtone_pick_unsorted_refuted.

(* ---- incidental process state other than map order: the lazily filled flow cache (hunt2 f1) ------------------------ *)

(* PARTIAL.  model/FlowCache.v: the session's UUID source is a counter, reading a stored definition takes `draws d` UUIDs
   from it (`draws` stands for code: the migrations calling uuids.NewV4; no case compares it).  When the flow a session enters
   needs no UUIDs to be read (it is stored at the current spec version), the UUID a session gives to a child run does not depend on what other look-ups filled the cache with ...
   (hypothesis on the ENTERED flow only: flows stored below the current spec elsewhere in the assets do not matter) *)
Theorem c08_enter_flow_cache_independent_partial : forall draws src ops u ctr,
  NoDup (map FlowCache.a_uuid src) ->
  (forall a, FlowCache.by_uuid src u = Some a -> draws (FlowCache.a_def a) = 0) ->
  FlowCache.enter_flow draws src (FlowCache.after src ops) u ctr = FlowCache.enter_flow draws src [] u ctr.
Proof. exact FlowCacheProofs.enter_flow_cache_independent. Qed.
Print Assumptions c08_enter_flow_cache_independent_partial.

(* the hypothesis is exactly the negation of the known finding: for a flow that exists and was loaded before, warm = cold
   IF AND ONLY IF reading it draws no UUID *)
Theorem c08_enter_flow_differs_iff_draws : forall draws src ops u ctr a,
  NoDup (map FlowCache.a_uuid src) -> FlowCache.by_uuid src u = Some a -> FlowCache.cached (FlowCache.after src ops) u <> None ->
  (FlowCache.enter_flow draws src (FlowCache.after src ops) u ctr = FlowCache.enter_flow draws src [] u ctr
   <-> draws (FlowCache.a_def a) = 0).
Proof. exact FlowCacheProofs.enter_flow_differs_iff_draws. Qed.
Print Assumptions c08_enter_flow_differs_iff_draws.

(* ... and it DOES when a definition is migrated on first load (known finding flow-cache:lazy-migration-draws-uuids:
   13.x migrations of templating and every legacy migration call uuids.NewV4 on the global source) *)
Theorem c08_lazy_migration_draws_uuids_refuted :
  exists draws src ops u ctr, NoDup (map FlowCache.a_uuid src) /\
    FlowCache.enter_flow draws src (FlowCache.after src ops) u ctr <> FlowCache.enter_flow draws src [] u ctr.
Proof. exact FlowCacheProofs.lazy_migration_draws_refuted. Qed.
Print Assumptions c08_lazy_migration_draws_uuids_refuted.

(* ---- the known dependency findings are statements, not only table rows (review round 2) ------------------------------ *)

(* c08_dep_sites_classified passes although three of the nine dependency sites are order-DEPENDENT: they are exactly these
   (classes of KNOWN_FINDINGS.txt), and there is none inside goflow *)
Theorem c08_known_findings_listed :
  known_classes map_range_exceptions = [] /\
  known_classes dep_map_range_exceptions =
    ["dates:locale-match-map-order"; "dates:parse-error-ambiguous-layout-token"; "urns:percent-escape-map-order"]%string.
Proof. exact known_findings_listed. Qed.
Print Assumptions c08_known_findings_listed.

(* "results never depend on map iteration order" is FALSE for gocommon urns.unescape on the input of the known line: the path
   a%2523b parses to a#b or to a%23b depending on the visiting order of the escape table *)
Theorem c08_urns_unescape_refuted :
  exists l1 l2, Permutation l1 l2 /\ NoDup (map fst l1) /\
    urns_unescape l1 path_a_2523_b = [97; 35; 98]%N /\ urns_unescape l2 path_a_2523_b = [97; 37; 50; 51; 98]%N.
Proof. exact urns_unescape_refuted. Qed.
Print Assumptions c08_urns_unescape_refuted.

(* ... and for the layout token named in the error of parse_time(text, "tt:mm"): `t` or `tt` *)
Theorem c08_dates_parse_error_token_refuted :
  exists l1 l2 : list (str * str), Permutation l1 l2 /\ NoDup (map fst l1) /\
    first_match (fun kv => str_eqb (snd kv) [49; 53]%N) fst l1 = Some [116]%N /\
    first_match (fun kv => str_eqb (snd kv) [49; 53]%N) fst l2 = Some [116; 116]%N.
Proof. exact dates_parse_error_token_refuted. Qed.
Print Assumptions c08_dates_parse_error_token_refuted.
