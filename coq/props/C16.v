(* C16 -- Definition migration yields valid, equivalent, stable flows.
   Statements only; proofs are in proofs/MigrateProofs.v, proofs/MigrateSitesProofs.v.
   Model: model/Migrate.v (13.x migrations on JSON trees), model/MigrateSites.v; tables: gen/MigrationTable.v,
   gen/AssertSites.v (regenerated from the goflow source on every run).
   [tx] is the expression refactoring Migrate13_3 applies (refactor.Template): every theorem holds for any function. *)
From Coq Require Import List NArith Bool String.
From Verif Require Import lib.Json gen.MigrationTable gen.AssertSites model.Migrate model.MigrateSites
  proofs.MigrateProofs proofs.MigrateSitesProofs.
Import ListNotations.

(* a definition already at the current version (or newer) is returned untouched: the very input, no UUID drawn *)
Theorem c16_untouched : forall tx j to fresh v,
  header_version j = Some v -> vle current_spec_version v = true ->
  migrate_to tx j to fresh = (MSame, fresh).
Proof. exact untouched. Qed.
Print Assumptions c16_untouched.

(* a definition with a readable 13.x header is never refused by the migrations: it comes back as it is, or migrated *)
Theorem c16_migrates : forall tx j to fresh v,
  header_version j = Some v ->
  migrate_to tx j to fresh = (MSame, fresh) \/ exists j' fresh', migrate_to tx j to fresh = (MOut j', fresh').
Proof. exact migrates. Qed.
Print Assumptions c16_migrates.

(* the version stamp: a migrated definition's header reads as a registered version that is newer than the source's and
   within the target; for MigrateToLatest it is the current version *)
Theorem c16_stamped : forall tx j to fresh j' fresh',
  migrate_to tx j to fresh = (MOut j', fresh') ->
  exists from v, header_version j = Some from /\ header_version j' = Some v
    /\ In v (map fst registered) /\ vlt from v = true
    /\ match to with None => v = current_spec_version | Some t => vle v t = true end.
Proof. exact stamped. Qed.
Print Assumptions c16_stamped.

(* migrating again -- to whatever target -- returns the migrated definition untouched *)
Theorem c16_idempotent : forall tx j fresh j' fresh',
  migrate_to_latest tx j fresh = (MOut j', fresh') ->
  forall tx' to fresh2, migrate_to tx' j' to fresh2 = (MSame, fresh2).
Proof. exact idempotent. Qed.
Print Assumptions c16_idempotent.

(* the flow's uuid, its nodes in their order (entry node first), every node's uuid and its whole exits array (every
   exit uuid and destination) are the same JSON before and after -- for every definition, valid or not *)
Theorem c16_graph_preserved : forall tx j to fresh j' fresh',
  migrate_to tx j to fresh = (MOut j', fresh') -> graph j' = graph j.
Proof. exact graph_preserved. Qed.
Print Assumptions c16_graph_preserved.

(* finite obligations over the registration table generated from the source *)
Theorem c16_registered_known : registered_known = true.
Proof. exact registered_known_true. Qed.
Print Assumptions c16_registered_known.

Theorem c16_registered_le_current : registered_le_current = true.
Proof. exact registered_le_current_true. Qed.
Print Assumptions c16_registered_le_current.

Theorem c16_registered_roundtrip : registered_roundtrip = true.
Proof. exact registered_roundtrip_true. Qed.
Print Assumptions c16_registered_roundtrip.

Theorem c16_catalog_paths_nonempty : catalog_paths_nonempty = true.
Proof. exact catalog_paths_nonempty_true. Qed.
Print Assumptions c16_catalog_paths_nonempty.

(* rejection clause, the part that is a property of the source text: every type assertion, index and slice expression
   in migrations/, legacy/ and utils/jsonpath has a form that cannot panic or is an accepted site *)
Theorem c16_assert_sites_total : forall x, In x assert_sites -> form_safe (s_form x) = true \/ site_accepted x = true.
Proof. exact every_site_total. Qed.
Print Assumptions c16_assert_sites_total.

Theorem c16_migrations_asserts_checked : migrations_asserts_checked = true.
Proof. exact migrations_asserts_checked_true. Qed.
Print Assumptions c16_migrations_asserts_checked.

Theorem c16_sites_cover_packages : sites_cover_packages = true.
Proof. exact sites_cover_packages_true. Qed.
Print Assumptions c16_sites_cover_packages.
