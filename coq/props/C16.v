(* C16 -- Definition migration yields valid, equivalent, stable flows.
   Statements only; proofs are in proofs/MigrateProofs.v, proofs/MigrateSitesProofs.v.
   Model: model/Migrate.v (13.x migrations on JSON trees), model/MigrateSites.v; tables: gen/MigrationTable.v,
   gen/AssertSites.v (regenerated from the goflow source on every run).
   [tx] is the expression refactoring Migrate13_3 applies (refactor.Template): every theorem holds for any function. *)
From Coq Require Import List NArith Bool String.
From Verif Require Import lib.Json gen.MigrationTable gen.AssertSites model.Migrate model.MigrateValid model.MigrateSites
  proofs.MigrateProofs proofs.MigrateValidProofs proofs.MigrateStepwiseProofs proofs.MigrateRewriteProofs proofs.MigrateFrameProofs proofs.MigrateFullProofs
  proofs.MigrateCensusProofs proofs.MigrateOrphanProofs proofs.MigrateSitesProofs.
Import ListNotations.

(* a definition already at the current version (or newer) is returned untouched: the very input, no UUID drawn *)
Theorem c16_untouched : forall tx j to fresh v,
  header_version j = Some v -> vle current_spec_version v = true ->
  migrate_to tx j to fresh = (MSame, fresh).
Proof. exact untouched. Qed.
Print Assumptions c16_untouched.

(* a definition with a readable 13.x header is never refused by the migrations: it comes back as it is, or migrated *)
Theorem c16_migrates : forall tx j to fresh v,
  header_version j = Some v ->
  migrate_to tx j to fresh = (MSame, fresh) \/ exists j' fresh', migrate_to tx j to fresh = (MOut j', fresh').
Proof. exact migrates. Qed.
Print Assumptions c16_migrates.

(* the version stamp: a migrated definition's header reads as a registered version that is newer than the source's and
   within the target; for MigrateToLatest it is the current version *)
Theorem c16_stamped : forall tx j to fresh j' fresh',
  migrate_to tx j to fresh = (MOut j', fresh') ->
  exists from v, header_version j = Some from /\ header_version j' = Some v
    /\ In v (map fst registered) /\ vlt from v = true
    /\ match to with None => v = current_spec_version | Some t => vle v t = true end.
Proof. exact stamped. Qed.
Print Assumptions c16_stamped.

(* migrating again -- to whatever target -- returns the migrated definition untouched *)
Theorem c16_idempotent : forall tx j fresh j' fresh',
  migrate_to_latest tx j fresh = (MOut j', fresh') ->
  forall tx' to fresh2, migrate_to tx' j' to fresh2 = (MSame, fresh2).
Proof. exact idempotent. Qed.
Print Assumptions c16_idempotent.

(* stepwise = direct: migrating to an intermediate target v1 and then on to a target at or beyond v1 (or to the latest
   version) gives exactly what migrating there in one go gives -- same tree, same UUIDs drawn in the same order; when the
   second hop has nothing left to do it returns its input, which is then the direct result *)
Theorem c16_stepwise_eq_direct : forall tx j v1 to2 fresh j1 fresh1,
  match to2 with Some t => vle v1 t = true | None => True end ->
  migrate_to tx j (Some v1) fresh = (MOut j1, fresh1) ->
  migrate_to tx j to2 fresh
  = match migrate_to tx j1 to2 fresh1 with (MSame, _) => (MOut j1, fresh1) | r => r end.
Proof. exact stepwise_eq_direct. Qed.
Print Assumptions c16_stepwise_eq_direct.

(* the flow's uuid, its nodes in their order (entry node first), every node's uuid and its whole exits array (every
   exit uuid and destination) are the same JSON before and after -- for every definition, valid or not *)
Theorem c16_graph_preserved : forall tx j to fresh j' fresh',
  migrate_to tx j to fresh = (MOut j', fresh') -> graph j' = graph j.
Proof. exact graph_preserved. Qed.
Print Assumptions c16_graph_preserved.

(* a definition that is valid at its version loads at the current version after MigrateToLatest.
   "Valid" (model/MigrateValid.v) restates definition.ReadFlow's checks on every member some migration writes: header,
   language, localization, result / category names, template references (valid_source_with / valid_current) AND the checks
   that depend on the text of a template member Migrate13_3 rewrites: required texts, attachments, "exactly one of id and
   matcher" references (texts_ok) -- minus, for a source version, what later migrations establish.
   Hypothesis on the refactoring function, [tx_keeps]: it keeps empty texts empty, non-empty texts non-empty and does not
   change whether a text is an acceptable attachment.  It is checked against the real refactor.Template on every text of
   every generated definition on every run (model/MigrateCorr.v), and is satisfiable (Example tx_keeps_identity).
   PARTIAL: the hypothesis on the source is the strict variant, which in addition wants the result_name of
   call_classifier, call_resthook, call_webhook, open_ticket and transfer_airtime actions within the 64 characters of 13.6
   already in the source.  Missing for the full statement: Migrate13_6 does not shorten those (finding F12, see
   c16_valid_after_refuted).  Satisfiable: Examples valid_after_applies, valid_after_full_applies.
   Everything else ReadFlow checks is on members the migrations leave as they are: c16_frame. *)
Theorem c16_valid_after_partial : forall tx, tx_keeps tx -> forall j fresh j' fresh',
  valid_source_full true j = true ->
  migrate_to_latest tx j fresh = (MOut j', fresh') ->
  valid_current_full j' = true.
Proof. exact valid_after_full. Qed.
Print Assumptions c16_valid_after_partial.

(* the same without the template-text checks needs no hypothesis on tx *)
Theorem c16_valid_after_core_partial : forall tx j fresh j' fresh',
  valid_source_with true j = true ->
  migrate_to_latest tx j fresh = (MOut j', fresh') ->
  valid_current j' = true.
Proof. exact valid_after. Qed.
Print Assumptions c16_valid_after_core_partial.

(* the full statement is false of the code as it is: a definition valid at 13.5 whose migrated form the reader refuses *)
Theorem c16_valid_after_refuted :
  exists j, valid_source_full false j = true
    /\ match fst (migrate_to_latest (fun x => x) j []) with MOut j' => valid_current_full j' = false | _ => False end.
Proof. exact valid_after_full_refuted. Qed.
Print Assumptions c16_valid_after_refuted.

(* the frame, for every migration, every target and every tx (flow_frame, proofs/MigrateFrameProofs.v):
   - flow: every member other than nodes, localization, language, spec_version is the same JSON;
   - node: every member other than actions, router is the same JSON; actions and router correspond one to one;
   - action, BY ITS TYPE t (the type itself never changes): let fp(t) = action_fp t -- templating, template,
     template_variables when t = send_msg (13.1, 13.4, 13.5), name and category when t = set_run_result (13.6), nothing for
     any other type -- and hd(t) = row_heads catalog_actions t, the first steps of the catalogue paths of t's own row (the
     only members Migrate13_3 can reach in an action of that type; regenerated from specdata/templates.json on every run).
     A member outside fp(t) and hd(t) is the SAME JSON; a member outside fp(t) keeps its shape (constructors, array
     lengths, object keys in order) and each of its texts is the original with tx applied zero or more times.
     So e.g. set_contact_name.name (in hd, not in fp) can only change by tx; call_webhook.result_name, open_ticket.topic,
     the name of any action that is not a set_run_result or set_contact_name ... (neither) cannot change at all
     (Examples frame_examples);
   - router: the same with fp = result_name, categories (13.6) and hd = row_heads catalog_routers (type of the router). *)
Theorem c16_frame : forall tx j to fresh j' fresh',
  migrate_to tx j to fresh = (MOut j', fresh') ->
  exists f f', j = JObj f /\ j' = JObj f' /\ flow_frame tx f f'.
Proof. exact migrate_frame. Qed.
Print Assumptions c16_frame.

(* what the per-type frame says about one action: corollary of c16_frame's definition, for direct use *)
Theorem c16_action_frame : forall tx a a',
  action_frame tx a a' ->
  type_of a' = type_of a
  /\ (forall k, ~ In k (action_fp (type_of a)) -> ~ In k (row_heads catalog_actions (type_of a)) -> olookup k a' = olookup k a)
  /\ (forall k, ~ In k (action_fp (type_of a)) -> orel tx (olookup k a) (olookup k a')).
Proof. exact action_frame_says. Qed.
Print Assumptions c16_action_frame.

(* templates preserved, PARTIAL, for an arbitrary tx: Migrate13_3 gives back every member of the definition other than
   `localization` in its shape, every text in it being the original with tx applied zero or more times (more than once
   only if two catalogue paths of one action reached the same text).  `localization` is excepted because translations of
   catalogued members are re-written as arrays of texts (a non-text element becomes ""), as the Go code does.
   Missing for the full statement: (i) that refactor.Template's output evaluates like its input with @webhook read as
   @webhook.json is property C11's subject, not modelled here; (ii) that the catalogue lists every template position is a
   fact about goflow's data, checked for routers and waits by c16_catalog_covers_router_templates and on the
   implementation by the direct oracle (every text of nodes and localization evaluated before and after the step to 13.3);
   what happens to `localization` is the subject of c16_translations_rewritten_once. *)
Theorem c16_templates_preserved_partial : forall tx fresh f k,
  k <> k_localization -> orel tx (olookup k f) (olookup k (fst (migrate_13_3 tx fresh f))).
Proof. exact migrate_13_3_parametric. Qed.
Print Assumptions c16_templates_preserved_partial.

(* translations (repair 9753d74): on a catalogue path that names a member m of the action / router itself, Migrate13_3
   rewrites the translations of (uuid of the object, m) exactly once -- the localization afterwards is
   rewrite_translations applied once, whether the object has m in the base language (then the transform reaches them and
   the step for unreachable translations stays away) or not (then only that step does); and rewriting once means: in every
   language the translation of (uuid, m) is the old one with tx applied to each text (c16_translation_rewritten).
   Hypotheses: the path parses to the single step m and splits at its last dot into ("", m) (true of e.g.
   ".quick_replies[*]", Example rewritten_once_applies), m is not `*` or `uuid`, the object has a uuid and unique keys. *)
Theorem c16_translations_rewritten_once : forall tx p m loc o,
  steps_of p = Some [m] ->
  split_last_dot (trim_suffix star_suffix (s p)) = Some ([], m) ->
  str_eqb m star = false -> str_eqb m k_uuid = false -> nonempty m = true ->
  nonempty (object_uuid o) = true -> NoDup (map fst o) ->
  fst (rewrite_path tx loc o p) = option_map (rewrite_translations tx (object_uuid o) m) loc.
Proof. exact translations_rewritten_once. Qed.
Print Assumptions c16_translations_rewritten_once.

(* the same one level down: a catalogue path <k>.<m> where member k of the action holds an object c with unique keys (the
   templating object and its variables: ".templating.variables[*]", Example rewritten_once_below_applies): the
   translations of (uuid of c, m) are rewritten exactly once when c has a uuid, whether or not c has m, and the
   localization is otherwise untouched.  Paths through an array of containers (".cases[*].arguments[*]",
   ".groups[*].name_match") are not covered by a theorem: correspondence and direct oracle. *)
Theorem c16_translations_rewritten_once_below : forall tx p parent k m loc o c,
  steps_of p = Some [k; m] ->
  split_last_dot (trim_suffix star_suffix (s p)) = Some (parent, m) -> parent <> [] ->
  parse_path (dollar ++ parent) = Some [k] ->
  str_eqb k star = false -> str_eqb m star = false -> str_eqb m k_uuid = false -> nonempty m = true ->
  NoDup (map fst o) -> NoDup (map fst c) -> olookup k o = Some (JObj c) ->
  fst (rewrite_path tx loc o p)
  = if nonempty (object_uuid c) then option_map (rewrite_translations tx (object_uuid c) m) loc else loc.
Proof. exact translations_rewritten_once_below. Qed.
Print Assumptions c16_translations_rewritten_once_below.

Theorem c16_translation_rewritten : forall tx uuid prop lt,
  get_translation uuid prop (rewrite_language tx uuid prop lt) = option_map (map tx) (get_translation uuid prop lt).
Proof. exact rewrite_language_get. Qed.
Print Assumptions c16_translation_rewritten.

(* with the identity in place of tx nothing but `localization` changes at all *)
Theorem c16_13_3_identity : forall fresh f k,
  k <> k_localization -> olookup k (fst (migrate_13_3 idtx fresh f)) = olookup k f.
Proof. exact migrate_13_3_only_through_tx. Qed.
Print Assumptions c16_13_3_identity.

(* finite obligation behind c16_valid_after_partial, over the generated template catalogue: no path Migrate13_3 rewrites
   starts at, or below `templating` reaches, a member that valid_current looks at *)
Theorem c16_catalog_frame : catalog_frame = true.
Proof. exact catalog_frame_true. Qed.
Print Assumptions c16_catalog_frame.

(* finite obligation behind c16_valid_after_partial, over the generated registration table and for every source version:
   the functions MigrateToLatest selects, in their order, establish every requirement of the current version *)
Theorem c16_latest_establishes_all : forall from,
  run_flags (map snd (select_versions registered from None)) (vle v13_2 from, vle v13_5 from, vle v13_6 from)
  = Some (true, true, true).
Proof. exact latest_flags. Qed.
Print Assumptions c16_latest_establishes_all.

(* templates, census: every template member of a router or a wait found in the code (EnumerateTemplates methods,
   engine:"evaluated" tags of flows/routers and flows/routers/waits) is reached by a path of every router row of the
   catalogue Migrate13_3 uses *)
Theorem c16_catalog_covers_router_templates : catalog_covers_router_templates = true.
Proof. exact catalog_covers_router_templates_true. Qed.
Print Assumptions c16_catalog_covers_router_templates.

(* read / marshal / read, census: no member of flows/** that gets a non-zero default before unmarshalling is left out
   of the marshalled form when it is zero *)
Theorem c16_read_defaults_survive_marshal : read_defaults_survive_marshal = true.
Proof. exact read_defaults_survive_marshal_true. Qed.
Print Assumptions c16_read_defaults_survive_marshal.

(* finite obligation behind c16_valid_after_partial: no catalogue path starts at the `type` member *)
Theorem c16_heads_avoid_type : heads_avoid_type = true.
Proof. exact heads_avoid_type_true. Qed.
Print Assumptions c16_heads_avoid_type.

(* finite obligations over the registration table generated from the source *)
Theorem c16_registered_known : registered_known = true.
Proof. exact registered_known_true. Qed.
Print Assumptions c16_registered_known.

Theorem c16_registered_le_current : registered_le_current = true.
Proof. exact registered_le_current_true. Qed.
Print Assumptions c16_registered_le_current.

Theorem c16_registered_roundtrip : registered_roundtrip = true.
Proof. exact registered_roundtrip_true. Qed.
Print Assumptions c16_registered_roundtrip.

Theorem c16_catalog_paths_nonempty : catalog_paths_nonempty = true.
Proof. exact catalog_paths_nonempty_true. Qed.
Print Assumptions c16_catalog_paths_nonempty.

Theorem c16_catalog_paths_dotted : catalog_paths_dotted = true.
Proof. exact catalog_paths_dotted_true. Qed.
Print Assumptions c16_catalog_paths_dotted.

(* rejection clause, the part that is a property of the source text: every type assertion, index and slice expression
   in migrations/, legacy/ and utils/jsonpath has a form that cannot panic or is an accepted site *)
Theorem c16_assert_sites_total : forall x, In x assert_sites -> form_safe (s_form x) = true \/ site_accepted x = true.
Proof. exact every_site_total. Qed.
Print Assumptions c16_assert_sites_total.

Theorem c16_migrations_asserts_checked : migrations_asserts_checked = true.
Proof. exact migrations_asserts_checked_true. Qed.
Print Assumptions c16_migrations_asserts_checked.

Theorem c16_sites_cover_packages : sites_cover_packages = true.
Proof. exact sites_cover_packages_true. Qed.
Print Assumptions c16_sites_cover_packages.
