(* C10 — A rejected resume leaves the session untouched.
   Statements only; proofs are in proofs/EngineProofs.v.  Model: model/Engine.v (resume_session).

   [resume_session a s r tmo] resumes session [s] against asset store [a] — ANY store, in particular one in
   which flows or nodes were deleted or changed since the session last ran (faults between sprints).
   Its result is [Rejected code] (engine error: the Go method returns before its first assignment to the
   session, so the model returns no new state: the caller keeps [s]) or [Resumed result]. *)
From Coq Require Import List NArith ZArith Bool.
From Verif Require Import model.Lang model.Engine proofs.EngineProofs.
Import ListNotations.
Open Scope N_scope.

(* which resumes a wait accepts: msg wait — msg, run_expiration, and wait_timeout iff it has a timeout;
   dial wait — dial only *)
Theorem c10_accept_table : forall (w : wait) (r : resume),
  accepts w r = true <->
  match w_type w with
  | WMsg => match r with RMsg _ => True | RExpiration => True | RTimeout => w_timeout w <> None | RDial => False end
  | WDial => r = RDial
  end.
Proof. exact accept_table. Qed.
Print Assumptions c10_accept_table.

(* a resume is rejected with an engine error exactly in the three situations of the statement, with
   exactly these codes: 101 the session is not waiting; 102 it is waiting but no run is; 103 the
   wait at the waiting run's location does not accept this type of resume (and none of the conditions
   that make resumption impossible holds — those fail the session instead, see below) *)
Theorem c10_rejected_iff : forall (a : assets) (s : session) (r : resume) (tmo : text) (code : N),
  resume_session a s r tmo = Rejected code <->
  (code = 101 /\ s_status s <> SWaiting) \/
  (code = 102 /\ s_status s = SWaiting /\ Forall (fun rn => r_status rn <> RWaiting) (s_runs s)) \/
  (code = 103 /\ s_status s = SWaiting /\
     exists wi pos n w, waiting_run s = Some wi /\ ~ flow_unusable a s wi /\ ~ resume_limit_reached a s /\
                        resume_site a s wi (Some (pos, n, w)) /\ accepts w r = false).
Proof. exact reject_iff. Qed.
Print Assumptions c10_rejected_iff.

(* flow unusable (missing, or it has become a voice flow and the session has no call), resume limit reached,
   vanished node / empty path, node without router or wait: the call returns normally (no Go error, no
   panic), the session is failed, the sprint is exactly one failure event logged by the waiting run, every
   run that was active or waiting is failed and exited, and nothing else changes *)
Theorem c10_impossible_fails : forall (a : assets) (s : session) (r : resume) (tmo : text) (wi : nat),
  s_status s = SWaiting -> waiting_run s = Some wi ->
  flow_unusable a s wi \/ resume_limit_reached a s \/ resume_site a s wi None ->
  exists x', resume_session a s r tmo = Resumed (ROk x') /\ ended_as_failed s wi x'.
Proof. exact impossible_fails. Qed.
Print Assumptions c10_impossible_fails.

(* (this theorem unfolds the model's own guard [run_flow_unusable]: it documents what "unusable" is; it is not an
   independent specification - the independent check of the clause is the direct oracle's class voice-flow-without-call)
   what "unusable" is: the flow asset of the waiting run is gone, or it is now a voice flow while the session was
   not triggered with a call (in the model: the type of the trigger's flow, kept in s_type, is not voice) *)
Theorem c10_flow_unusable_iff : forall (a : assets) (s : session) (wi : nat),
  flow_unusable a s wi <->
  match get_run s wi with Some rn => get_flow a (r_flow rn) = None | None => True end \/
  (exists rn f, get_run s wi = Some rn /\ get_flow a (r_flow rn) = Some f /\ f_type f = 2 /\ s_type s <> 2).
Proof. exact flow_unusable_iff. Qed.
Print Assumptions c10_flow_unusable_iff.

(* the three cases are exhaustive: a waiting session with a waiting run is rejected (103), failed, or resumed *)
Theorem c10_resume_site_total : forall (a : assets) (s : session) (wi : nat), exists o, resume_site a s wi o.
Proof. exact resume_site_total. Qed.
Print Assumptions c10_resume_site_total.

(* No resume of a reachable session ends with a Go error, a panic or a hang, whatever happened to the
   asset store since the session last ran (flows or nodes deleted or changed), as long as the store it
   is resumed against consists of validated definitions: the result is an engine error (session
   untouched) or a session that is waiting, completed or failed. *)
From Verif Require Import proofs.EngineInv proofs.EngineFuel proofs.EngineNoErr.

Theorem c10_resume_outcomes : forall (a : assets) (s : session) (r : resume) (tmo : text),
  valid_assets a -> reachable s ->
  (exists code, resume_session a s r tmo = Rejected code) \/
  (exists x', resume_session a s r tmo = Resumed (ROk x') /\
              (s_status (session_ x') = SWaiting \/ s_status (session_ x') = SCompleted \/ s_status (session_ x') = SFailed)).
Proof.
  intros a s r tmo Hv Hr. destruct (resume_session a s r tmo) as [code|res] eqn:E; [left; eauto|right].
  destruct res as [x'|y| |].
  - exists x'. split; auto. eapply resume_settled; eauto.
  - exfalso. eapply reachable_resume_no_go_error; eauto.
  - exfalso. eapply resume_no_panic; eauto.
  - exfalso. eapply reachable_resume_fuel_suffices; eauto.
Qed.
Print Assumptions c10_resume_outcomes.

(* "The session is left exactly as it was and no events are produced."  [resume_m] is the model of Resume in
   state-passing form: it returns the state the method leaves behind in every case (model/Engine.v; every
   assignment of the Go method is placed where the Go code has it).  [resume_session] is [resume_m] with that
   state dropped; and whenever the outcome is an engine error the state left behind is the session the method
   was called on, with an empty sprint - for every session, every asset store, every resume. *)
Theorem c10_resume_m_agrees : forall (a : assets) (s : session) (r : resume) (tmo : text),
  resume_session a s r tmo = match snd (resume_m a s r tmo) with OErr c => Rejected c | ORes res => Resumed res end.
Proof. exact resume_m_agrees. Qed.
Print Assumptions c10_resume_m_agrees.

Theorem c10_rejected_unchanged : forall (a : assets) (s : session) (r : resume) (tmo : text) (x' : st) (code : N),
  resume_m a s r tmo = (x', OErr code) -> session_ x' = s /\ sp_events (sprint_ x') = [] /\ sp_segments (sprint_ x') = [].
Proof.
  intros a s r tmo x' code H. rewrite (resume_m_rejected_unchanged a s r tmo x' code H). repeat split.
Qed.
Print Assumptions c10_rejected_unchanged.

(* ---- additions after review (docs/reviews/C10.md) --------------------------------------------------------------- *)

(* resume_m agrees with resume_session on ALL outcomes (c10_resume_m_agrees above is the general statement: for
   every store, session, resume), and when the call returns a session, the state it leaves behind is that session *)
Theorem c10_resume_m_state : forall (a : assets) (s : session) (r : resume) (tmo : text) (x' y : st),
  resume_m a s r tmo = (x', ORes (ROk y)) -> x' = y.
Proof. exact resume_m_ok_state. Qed.
Print Assumptions c10_resume_m_state.

(* prepareForSprint is the only thing Resume does before its checks ([resume_mp], model/Engine.v, threads its
   transient parentRun flag).  Since goflow f4c75dd NewSession AND ReadSession have already loaded the parent run
   whenever the trigger carries one, i.e. every session a host can hold has [loaded = trigger_has_run (s_trigger s)];
   for those a rejected resume changes NOTHING, the transient flag included (hunt2 C10 f2 judged the flip from
   unloaded to loaded a violation: ParentRun() and @parent.* are visible through the API). *)
Theorem c10_rejected_changes_nothing : forall (a : assets) (s : session) (loaded : bool) (r : resume) (tmo : text)
    (x' : st) (loaded' : bool) (code : N),
  loaded = trigger_has_run (s_trigger s) ->
  resume_mp a s loaded r tmo = (x', loaded', OErr code) ->
  x' = {| session_ := s; sprint_ := empty_sprint |} /\ loaded' = loaded.
Proof.
  intros a s loaded r tmo x' loaded' code Hl H.
  destruct (resume_mp_rejected _ _ _ _ _ _ _ _ H) as (Hx & Hl' & _). split; [exact Hx|].
  rewrite Hl', Hl. destruct (trigger_has_run (s_trigger s)); reflexivity.
Qed.
Print Assumptions c10_rejected_changes_nothing.

(* without that premise (a session whose parent run was NOT loaded, which the engine before f4c75dd produced by
   ReadSession) the flag does flip: this is the repaired defect, stated so that it cannot be mistaken for harmless *)
Theorem c10_unloaded_parent_flips : forall (a : assets) (s : session) (r : resume) (tmo : text) (x' : st) (loaded' : bool) (code : N),
  trigger_has_run (s_trigger s) = true ->
  resume_mp a s false r tmo = (x', loaded', OErr code) -> loaded' = true.
Proof.
  intros a s r tmo x' loaded' code Ht H. destruct (resume_mp_rejected _ _ _ _ _ _ _ _ H) as (_ & Hl' & _).
  rewrite Hl', Ht. reflexivity.
Qed.
Print Assumptions c10_unloaded_parent_flips.

(* The premise holds for every session a host can hold - made by NewSession, advanced by accepted or rejected resumes,
   written and read back any number of times: proved on the C02 side over the model of persist/restore
   (proofs/PersistProofs.v, [reachable] of model/Persist.v; its transient token t_parent IS compared with the real
   engine after every call, model/PersistCorr.v).  Re-exported here in property terms: a rejected resume of such a
   session leaves the session, the batch flag and the parent-run flag as they were. *)
From Verif Require model.Persist proofs.PersistProofs.

Theorem c10_rejected_leaves_held_session : forall (a : assets) (tmo : text) (lv : Persist.live) (r : resume) (code : N),
  PersistProofs.reachable a tmo lv -> fst (Persist.live_resume a lv r tmo) = Rejected code ->
  exists lv', Persist.after_call lv (fst (Persist.live_resume a lv r tmo)) (snd (Persist.live_resume a lv r tmo)) = Some lv' /\
              Persist.lv_core lv' = Persist.lv_core lv /\ Persist.lv_batch_trigger lv' = Persist.lv_batch_trigger lv /\
              Persist.t_parent (Persist.lv_tr lv') = Persist.t_parent (Persist.lv_tr lv).
Proof. exact PersistProofs.rejected_resume_leaves_session. Qed.
Print Assumptions c10_rejected_leaves_held_session.

Theorem c10_held_session_parent_loaded : forall (a : assets) (tmo : text) (lv : Persist.live),
  PersistProofs.reachable a tmo lv ->
  Persist.t_parent (Persist.lv_tr lv) = Persist.is_flow_action (s_trigger (Persist.lv_core lv)).
Proof. exact PersistProofs.reachable_parent_exact. Qed.
Print Assumptions c10_held_session_parent_loaded.

(* the fifth way a resume can end failed - "unable to resolve router exit" after resume.Apply (FRouteError), the one
   that comes with extra events - cannot happen on validated definitions: findResumeExit does not fail *)
From Verif Require Import proofs.EnginePaths.

Theorem c10_route_error_unreachable : forall (a : assets) (s : session) (r : resume) (tmo : text)
    (wi pos : nat) (n : node) (rt : router) (w : wait) (y : st),
  valid_assets a -> path_location a s wi = Some (pos, n) -> n_router n = Some rt -> rt_wait rt = Some w ->
  accepts w r = true ->
  find_resume_exit a (apply_resume (resume_x0 s) wi (Some (wi, pos)) r) wi (is_timeout r) tmo <> FreErr y.
Proof. exact route_error_unreachable. Qed.
Print Assumptions c10_route_error_unreachable.

(* ================================================================================================== *)
(* Proof extension: the rejections characterised from the property sentence, and the converse of       *)
(* c10_impossible_fails                                                                                *)
(* ================================================================================================== *)
From Verif Require Import proofs.EngineEvents.

(* [rejected_by_statement a s r] (proofs/EngineEvents.v) is written from the sentence over the session and the store
   alone: the session is not waiting, or it is waiting and no run is, or it is waiting and the wait at the waiting
   run's location does not accept this type of resume while none of the conditions that make resumption impossible
   holds:
       s_status s <> SWaiting \/
       (s_status s = SWaiting /\ Forall (fun rn => r_status rn <> RWaiting) (s_runs s)) \/
       (s_status s = SWaiting /\ exists wi pos n w, waiting_run s = Some wi /\ ~ impossible a s wi /\
                                   resume_site a s wi (Some (pos, n, w)) /\ accepts w r = false)
   The engine rejects a resume with an engine error EXACTLY then - in all three forms of the model. *)
Theorem c10_rejected_iff_statement : forall (a : assets) (s : session) (r : resume) (tmo : text),
  (exists code, resume_session a s r tmo = Rejected code) <-> rejected_by_statement a s r.
Proof. exact rejected_iff_statement. Qed.
Print Assumptions c10_rejected_iff_statement.

Theorem c10_engine_error_iff_statement : forall (a : assets) (s : session) (loaded : bool) (r : resume) (tmo : text),
  (exists x' loaded' code, resume_mp a s loaded r tmo = (x', loaded', OErr code)) <-> rejected_by_statement a s r.
Proof. exact resume_mp_error_iff_statement. Qed.
Print Assumptions c10_engine_error_iff_statement.

(* so the premise of c10_rejected_changes_nothing is the sentence's: a resume that the statement says is rejected
   returns an engine error and leaves the session, the sprint and (for a session whose parent run is loaded as
   start / ReadSession load it) the transient flag exactly as they were *)
Theorem c10_rejected_by_statement_changes_nothing : forall (a : assets) (s : session) (loaded : bool) (r : resume) (tmo : text),
  rejected_by_statement a s r -> loaded = trigger_has_run (s_trigger s) ->
  exists code, resume_mp a s loaded r tmo = ({| session_ := s; sprint_ := empty_sprint |}, loaded, OErr code).
Proof.
  intros a s loaded r tmo Hrej Hl.
  destruct (proj2 (resume_mp_error_iff_statement a s loaded r tmo) Hrej) as (x' & l' & code & H).
  destruct (c10_rejected_changes_nothing a s loaded r tmo x' l' code Hl H) as [-> ->]. exists code. exact H.
Qed.
Print Assumptions c10_rejected_by_statement_changes_nothing.

(* The converse of c10_impossible_fails.  For a well-formed waiting session: a resume that is not rejected ends as
   "failed without having run anything" - its sprint is exactly one failure event of the waiting run (naming no step) -
   EXACTLY when one of the conditions that make resumption impossible holds (flow missing or unusable, resume limit
   reached, vanished node / empty path, node without router or wait). *)
Theorem c10_failed_without_running_iff_impossible : forall (a : assets) (s : session) (r : resume) (tmo : text) (wi : nat) (x' : st),
  post_inv s -> s_status s = SWaiting -> waiting_run s = Some wi ->
  resume_session a s r tmo = Resumed (ROk x') ->
  (flow_unusable a s wi \/ resume_limit_reached a s \/ resume_site a s wi None
   <-> exists c, sp_events (sprint_ x') = [(Some wi, {| ev_step := None; ev_kind := EFailure c |})]).
Proof. exact failed_without_running_iff_impossible. Qed.
Print Assumptions c10_failed_without_running_iff_impossible.

(* The trichotomy: every resume of a well-formed waiting session falls into exactly one of the three situations of
   the statement, each with its own outcome - rejected with an engine error; impossible: failed with exactly one
   failure event and nothing else changed; otherwise the resume is applied: whatever the call returns, its sprint
   begins with the resume's own event (msg_received / wait_timed_out / run_expired / dial_ended) on the step the
   waiting run was at. *)
Theorem c10_resume_trichotomy : forall (a : assets) (s : session) (r : resume) (tmo : text) (wi : nat),
  post_inv s -> s_status s = SWaiting -> waiting_run s = Some wi ->
  (rejected_by_statement a s r /\ ~ impossible a s wi /\ exists code, resume_session a s r tmo = Rejected code) \/
  (impossible a s wi /\ ~ rejected_by_statement a s r /\
     exists x', resume_session a s r tmo = Resumed (ROk x') /\ ended_as_failed s wi x') \/
  (~ rejected_by_statement a s r /\ ~ impossible a s wi /\
     exists pos n w, resume_site a s wi (Some (pos, n, w)) /\ accepts w r = true /\
       forall x', resume_session a s r tmo = Resumed (ROk x') ->
         exists new, sp_events (sprint_ x') = (Some wi, {| ev_step := Some (wi, pos); ev_kind := resume_kind r |}) :: new).
Proof. exact resume_trichotomy. Qed.
Print Assumptions c10_resume_trichotomy.
