(* C14 — Contact queries round-trip through text and cannot be injected into.
   Statements only; proofs are in proofs/CqlQuoteProofs.v, CqlLexProofs.v, CqlSimplifyProofs.v, CqlParseProofs.v,
   CqlRegexProofs.v, CqlGrammarFacts.v, CqlLexPrintProofs.v, CqlParserProofs.v, CqlRoundTripProofs.v,
   CqlTemplateProofs.v, CqlRegexSound.v, CqlAcceptedProofs.v.
   Models: model/CqlPrinter.v (Condition.String, BoolCombination.String, Stringify, QuoteValue, Simplify),
   model/CqlParser.v (lexer = the token rules regenerated from antlr/ContactQL.g4 into gen/GrammarCQL.v, run by the
   maximal-munch tokenizer of lib/RegexLM.v; parser; visitor; ParseQuery), lib/Quote.v (strconv.Quote/Unquote).

   [p] is unicode.IsPrint (an arbitrary table with p(newline) = false); [e] carries the external functions
   (unicode.ToLower, urns.Parse, urns.IsValidScheme, the phone-number parser, the word segmenter, validate):
   every theorem holds for all of them. *)
From Coq Require Import List NArith Bool.
From Verif Require Import lib.Quote lib.RegexLM model.CqlSyntax gen.GrammarCQL model.CqlPrinter model.CqlParser
  proofs.CqlQuoteProofs proofs.CqlLexProofs proofs.CqlSimplifyProofs proofs.CqlParseProofs
  proofs.CqlLexPrintProofs proofs.CqlParserProofs proofs.CqlRoundTripProofs proofs.CqlTemplateProofs proofs.CqlRegexSound proofs.CqlAcceptedProofs.
Import ListNotations.
Open Scope N_scope.

(* -- the escaping -------------------------------------------------------------------------------------- *)

(* strconv.Unquote inverts QuoteValue (= ContactQueryEscaping) on every valid code-point list: quotes,
   backslash runs of any length incl. trailing ones, control and non-printable characters, non-BMP *)
Theorem c14_unquote_quote_value : forall p v,
  p 10 = false -> valid_codepoints v -> unquote (quote_value p v) = UOk v.
Proof. exact unquote_quote_value. Qed.
Print Assumptions c14_unquote_quote_value.

(* the shape the lexer depends on, for EVERY code-point list and IsPrint table: inside the outer quotes every
   quote is directly preceded by a backslash, and the character before the closing quote is not a backslash *)
Theorem c14_quote_value_shape : forall p v,
  exists body, quote_value p v = 34 :: body ++ [34]
               /\ quotes_preceded 34 body = true /\ last body 34 <> 92.
Proof. exact quote_value_shape. Qed.
Print Assumptions c14_quote_value_shape.

(* -- no injection ---------------------------------------------------------------------------------------- *)

(* Whatever text follows an escaped value, the lexer cuts exactly the escaped value off as ONE STRING token and
   goes on with the rest as if the value were not there; the visitor reads the token back as v.  (v arbitrary:
   `" OR id = 1 OR name = "`, backslash runs, parentheses, keywords.)  Nothing of v can reach the token stream
   of the rest, so the number, operators and structure of the conditions are those of the template. *)
Theorem c14_no_injection : forall p v rest,
  p 10 = false -> valid_codepoints v ->
  cql_lex (quote_value p v ++ rest) =
    match cql_lex rest with
    | LexOk ts => LexOk ((STRING, quote_value p v) :: ts)
    | o => o
    end
  /\ literal_value (STRING, quote_value p v) = LVal v.
Proof. exact no_injection_head. Qed.
Print Assumptions c14_no_injection.

(* the same inside a template: a condition `property operator <escaped value>` followed by ANY remaining template
   text lexes to exactly its three tokens and then the tokens of the remainder — for every property that can be
   written (attribute, fields.<key>, urns.<scheme>), each of the seven operators, every value *)
Theorem c14_no_injection_condition : forall p pt key o v t, key_ok pt key -> op_ok o ->
  cql_lex (prop_prefix pt ++ key ++ [32] ++ oper_text o ++ [32] ++ quote_value p v ++ t)
  = pushl [(PROPERTY, prop_prefix pt ++ key); (COMPARATOR, oper_text o); (STRING, quote_value p v)] (cql_lex t).
Proof. exact lex_cond_escaped. Qed.
Print Assumptions c14_no_injection_condition.

(* Independence from the text BEFORE the value.  [lex_before n 34 pre = Some tp] is a certificate computed from the
   template prefix alone (every token boundary in it is decided before or at the quote that follows; it fails exactly
   when the prefix leaves a STRING candidate open): then for every value and every remaining text the prefix lexes to
   its own tokens tp, the value is ONE STRING token, the rest lexes by itself. *)
Theorem c14_no_injection_template : forall p pre tp, lex_before (length pre) 34 pre = Some tp ->
  forall v rest,
  cql_lex (pre ++ quote_value p v ++ rest) = pushl (tp ++ [(STRING, quote_value p v)]) (cql_lex rest).
Proof. exact lex_template. Qed.
Print Assumptions c14_no_injection_template.

(* ... and the parser never reads the text of a STRING token: for any two values the outcome is the same — a syntax
   error for both, or parse trees equal up to the text of that one literal: same number of conditions, same
   properties, operators and boolean structure.  A substituted value can not add, drop or alter conditions. *)
Theorem c14_template_structure : forall p pre tp, lex_before (length pre) 34 pre = Some tp ->
  forall v1 v2 rest,
  match cql_lex rest with
  | LexOk tr =>
      cql_lex (pre ++ quote_value p v1 ++ rest) = LexOk (tp ++ (STRING, quote_value p v1) :: tr)
      /\ cql_lex (pre ++ quote_value p v2 ++ rest) = LexOk (tp ++ (STRING, quote_value p v2) :: tr)
      /\ pres_sim (parse_tokens (tp ++ (STRING, quote_value p v1) :: tr)) (parse_tokens (tp ++ (STRING, quote_value p v2) :: tr))
  | other => cql_lex (pre ++ quote_value p v1 ++ rest) = other /\ cql_lex (pre ++ quote_value p v2 ++ rest) = other
  end.
Proof. exact template_structure. Qed.
Print Assumptions c14_template_structure.

(* before the lexer: ParseQuery's preprocessing (TrimSpace, phone-number rewrite) only trims a text that contains a
   double quote — every template instance with an escaped value *)
Theorem c14_preprocess_quoted : forall e s, In 34 s -> preprocess e s = trim s.
Proof. exact preprocess_quoted. Qed.
Print Assumptions c14_preprocess_quoted.

(* after the parser, IMPLICIT position: one escaped literal becomes exactly one condition, never a combination or an
   error — but the VALUE chooses property and operator there (name ~ / name =, tel ~ for phone-like digits, a URN
   condition for scheme:path, id = n for a number under URN redaction), by design of implicit conditions: "same
   properties and operators" in c14_template_structure is a statement about the parse tree *)
Theorem c14_implicit_one_condition : forall e v, exists pt key o v', visit_implicit e v = Cond pt key o v'.
Proof. exact visit_implicit_one_condition. Qed.
Print Assumptions c14_implicit_one_condition.

Example c14_implicit_value_chooses_condition :
  visit_implicit (env_example true ascii_lower) [53] = Cond PAttr AttributeID OpEqual [53]
  /\ visit_implicit (env_example false ascii_lower) [53] = Cond PAttr AttributeName OpEqual [53]
  /\ visit_implicit (env_example false ascii_lower) [49; 50; 51; 52; 53] = Cond PURN k_tel OpContains [49; 50; 51; 52; 53].
Proof. exact implicit_value_chooses_condition. Qed.
Print Assumptions c14_implicit_value_chooses_condition.

(* the visitor side of it: type, key and operator of an EXPLICIT condition do not depend on the literal's value *)
Theorem c14_condition_shape : forall e pr c, exists pt key o, forall v, fst (visit_condition e pr c v) = Cond pt key o v.
Proof. exact visit_condition_shape. Qed.
Print Assumptions c14_condition_shape.

(* certificates exist for ordinary prefixes and not for one that leaves a quote open *)
Example c14_template_certificates :
  lex_before (length tpl1) 34 tpl1 = Some [(PROPERTY, [110; 97; 109; 101]); (COMPARATOR, [61])]
  /\ lex_before (length tpl2) 34 tpl2
     = Some [(LPAREN, [40]); (PROPERTY, [102; 105; 101; 108; 100; 115; 46; 97; 103; 101]); (COMPARATOR, [62]);
             (PROPERTY, [49; 48]); (OR, [79; 82]); (PROPERTY, [110; 97; 109; 101]); (COMPARATOR, [33; 61])]
  /\ lex_before (length tpl_open) 34 tpl_open = None.
Proof. exact lex_before_examples. Qed.
Print Assumptions c14_template_certificates.

(* all of this is about the WHOLE escaped value: a cut inside it (truncation of the evaluated template, repaired in
   /repo) loses the closing quote and turns the rest of the value into query text *)
Example c14_truncation_breaks_quoting :
  let p := fun c => (32 <=? c) && (c <? 127) in
  let v := [97; 34; 32; 79; 82; 32; 105; 100; 32; 61; 32; 49; 32; 120; 120; 120; 120] in
  cql_lex (tpl1 ++ firstn 18 (quote_value p v))
  = LexOk [(PROPERTY, [110; 97; 109; 101]); (COMPARATOR, [61]); (STRING, [34; 97; 92; 34]); (OR, [79; 82]);
           (PROPERTY, [105; 100]); (COMPARATOR, [61]); (PROPERTY, [49]); (PROPERTY, [120; 120; 120])]
  /\ cql_lex (tpl1 ++ quote_value p v) = LexOk [(PROPERTY, [110; 97; 109; 101]); (COMPARATOR, [61]); (STRING, quote_value p v)].
Proof. exact truncation_breaks_quoting. Qed.
Print Assumptions c14_truncation_breaks_quoting.

(* the lexing half needs no hypothesis at all *)
Theorem c14_lex_quoted_value : forall p v rest,
  cql_lex (quote_value p v ++ rest) =
  match cql_lex rest with
  | LexOk ts => LexOk ((STRING, quote_value p v) :: ts)
  | o => o
  end.
Proof. exact lex_quoted_value. Qed.
Print Assumptions c14_lex_quoted_value.

(* the theorem is about QuoteValue, not about strconv.Quote: with plain strconv.Quote (the code before the
   repair of F11) a value ending in a backslash swallows the text up to the next quote — same lexer model *)
Example c14_plain_quote_swallows :
  let p := fun c => (32 <=? c) && (c <? 127) in
  cql_lex (quote p [97; 92] ++ [32; 65; 78; 68; 32; 34; 98; 34])
  = LexOk [(STRING, [34; 97; 92; 92; 34; 32; 65; 78; 68; 32; 34]); (PROPERTY, [98]); (ERROR, [34])]
  /\ cql_lex (quote_value p [97; 92] ++ [32; 65; 78; 68; 32; 34; 98; 34])
  = LexOk [(STRING, [34; 97; 92; 120; 53; 99; 34]); (AND, [65; 78; 68]); (STRING, [34; 98; 34])].
Proof. exact plain_quote_swallows. Qed.
Print Assumptions c14_plain_quote_swallows.

(* the grammar facts the lexer theorems rest on, re-checked against the regenerated table on every run *)
Theorem c14_grammar_string_rule :
  map (fun r => r_kind r) lexer_rules = [LPAREN; RPAREN; AND; OR; COMPARATOR; STRING; PROPERTY; TEXT; WS; ERROR]
  /\ r_re (rule_at 5) = reSTRING /\ r_skip (rule_at 5) = false.
Proof. exact grammar_string_rule. Qed.
Print Assumptions c14_grammar_string_rule.

(* -- normal form ------------------------------------------------------------------------------------------ *)

Theorem c14_simplify_idem : forall q q', simplify q = Some q' -> simplify q' = Some q'.
Proof. exact simplify_idem. Qed.
Print Assumptions c14_simplify_idem.

(* what ParseQuery accepts has a non-nil root in Simplify's normal form (every combination has at least two
   children, none of them a combination with the same operator) *)
Theorem c14_parse_is_simplified : forall e s root, parse_query e s = QOk root ->
  exists q, root = Some q /\ simplified q /\ simplify q = Some q.
Proof. exact parse_query_simplified. Qed.
Print Assumptions c14_parse_is_simplified.

(* -- round trip ---------------------------------------------------------------------------------------------- *)

(* A valid query in normal form, built programmatically with ARBITRARY text values (any valid code-point lists),
   formats to a text that ParseQuery accepts and turns back into exactly that query: same conditions, operators,
   values and boolean structure.  Any arity and nesting, both redaction policies, every IsPrint table p with
   p(newline) = false, every environment e.  [valid_tree e q] asks of each condition: the key can be written as a
   property (an attribute of the table; for fields and URN schemes a non-empty run of the grammar's key characters),
   lower-casing leaves key and operator text alone, the operator is one of the seven constants, the value is valid
   UTF-8, the validator accepts the condition, and under URN redaction a URN condition has an empty value.
   The proof goes through the whole pipeline of ParseQuery: TrimSpace and the phone-number rewrite leave the text
   alone, the lexer (regenerated grammar table) yields the expected tokens, the precedence parser rebuilds the
   tree left-nested, the visitor re-reads every property, operator and literal, and Simplify flattens it to q. *)
Theorem c14_print_parse : forall p e, p 10 = false -> forall q,
  valid_tree e q -> simplified q -> parse_query e (stringify p (Some q)) = QOk (Some q).
Proof. exact print_parse. Qed.
Print Assumptions c14_print_parse.

(* the same without the normal-form hypothesis: ANY valid tree that NewBoolCombination can build without an empty
   combination (nested same-operator combinations, single-child combinations, any arity) formats to a text that
   ParseQuery turns into Simplify of the tree.  (`Comb b []` prints `()`, which Stringify strips to the empty text:
   not a query, in Go as in the model.) *)
Theorem c14_print_parse_any_tree : forall p e, p 10 = false -> forall q,
  valid_tree e q -> nonempty_combs q -> parse_query e (stringify p (Some q)) = QOk (simplify q).
Proof. exact print_parse_gen. Qed.
Print Assumptions c14_print_parse_any_tree.

(* the hypotheses are satisfiable: a three-level OR/AND/OR tree whose values are an injection attempt
   (`" OR id = 1 OR name = "`), two backslashes, the keyword OR, bare numbers and the empty value; a field keyed `or` *)
Example c14_print_parse_example : forall redact,
  valid_tree (env_example redact ascii_lower) q_example /\ simplified q_example
  /\ parse_query (env_example redact ascii_lower) (stringify ascii_print (Some q_example)) = QOk (Some q_example).
Proof. exact q_example_ok. Qed.
Print Assumptions c14_print_parse_example.

(* Sentence 1.  FULL STATEMENT (false, see c14_parse_print_parse_refuted): for every text s that ParseQuery accepts,
   parse_query e (stringify p (parse result)) gives the same query, for every environment.
   PARTIAL: it holds for every valid-UTF-8 text s ALL OF WHOSE CHARACTERS satisfy [lowok e] — lower-casing keeps the
   character in the grammar's key / letter class and is idempotent on it — in every environment whose tables satisfy
   [env_ok]: lower_ascii (ToLower is the ASCII map on ASCII), schemes_ok (every valid URN scheme is a non-empty run of
   key characters fixed by lower-casing), urn_ok / phone_ok (the URN parser returns valid code points, the phone
   parser ASCII).  The per-character hypothesis is the negation of the known finding and nothing more: for Go's
   unicode.ToLower it fails exactly for the 80 key characters of the BMP whose lower-case forms the grammar's tables
   lack (U+13A0 ...; c14_lowok_fails_on_known_character), so for the real tables the theorem covers every text that
   contains none of them — ASCII texts unconditionally (lowok_ascii follows from lower_ascii).  Everything else about
   accepted queries is proved: token texts belong to their rules' languages (soundness of the derivative matcher),
   so property texts have the shape (letters+ .)? keychars+ and comparators are among 19 texts; the parser only
   assembles tokens; the visitor's five condition forms and four implicit forms each yield a condition that can be
   written again; Unquote returns valid code points; Simplify keeps valid trees valid. *)
Theorem c14_accepted_is_valid : forall e, env_ok e -> forall s q,
  valid_codepoints s -> Forall (lowok e) s -> parse_query e s = QOk (Some q) -> valid_tree e q.
Proof. exact accepted_valid. Qed.
Print Assumptions c14_accepted_is_valid.

Theorem c14_parse_print_parse_partial : forall p e s q, p 10 = false -> env_ok e -> valid_codepoints s ->
  Forall (lowok e) s ->
  parse_query e s = QOk (Some q) -> parse_query e (stringify p (Some q)) = QOk (Some q).
Proof. exact parse_print_parse_env. Qed.
Print Assumptions c14_parse_print_parse_partial.

(* the hypotheses are satisfiable (ASCII lower-casing, one scheme; every character is lowok there), under both
   redaction policies *)
Example c14_env_ok_example : forall redact, env_ok (env_example redact ascii_lower)
  /\ forall c, lowok (env_example redact ascii_lower) c.
Proof. exact env_example_ok. Qed.
Print Assumptions c14_env_ok_example.

(* ... and the character of the known finding is where lowok fails *)
Example c14_lowok_fails_on_known_character : ~ lowok (env_example false cherokee_lower) 5024.
Proof. exact lowok_fails_on_cherokee. Qed.
Print Assumptions c14_lowok_fails_on_known_character.

(* `fields.X = 1` with X = U+13A0 is accepted; the key is lower-cased to U+AB70 as Go does; the formatted query
   `fields.<U+AB70> = 1` is a syntax error (listed in KNOWN_FINDINGS.txt,
   class reparse:property-key-lowercases-outside-grammar-letters) *)
Theorem c14_parse_print_parse_refuted :
  let e := env_example false cherokee_lower in
  let s := [102; 105; 101; 108; 100; 115; 46; 5024; 32; 61; 32; 49] in
  let q := Cond PField [43888] OpEqual [49] in
  parse_query e s = QOk (Some q)
  /\ stringify ascii_print (Some q) = [102; 105; 101; 108; 100; 115; 46; 43888; 32; 61; 32; 49]
  /\ parse_query e (stringify ascii_print (Some q)) = QSyntax.
Proof. exact parse_print_parse_counterexample. Qed.
Print Assumptions c14_parse_print_parse_refuted.

(* starting from query TEXT (implicit conditions, the alias `has`/`IS`, juxtaposition, bare literals, a literal
   ending in a backslash, both redaction policies): accepted, and the formatted query parses to the same query *)
Example c14_reparse_from_text :
  parse_query (env_example false ascii_lower) text_example1
  = QOk (Some (Comb BAnd [Cond PAttr AttributeName OpContains [98; 111; 98];
                          Comb BOr [Cond PField [97; 103; 101] OpGreaterThan [49; 48];
                                    Cond PAttr AttributeName OpContains [120; 32; 121]];
                          Cond PURN k_tel OpContains [43; 49; 50; 51; 52; 53]]))
  /\ reparses (env_example false ascii_lower) text_example1 = true
  /\ parse_query (env_example false ascii_lower) text_example2 = QOk (Some (Cond PAttr AttributeName OpEqual [97; 92]))
  /\ reparses (env_example false ascii_lower) text_example2 = true
  /\ reparses (env_example false ascii_lower) text_example3 = true
  /\ reparses (env_example true ascii_lower) text_example2 = true.
Proof. exact text_examples. Qed.
Print Assumptions c14_reparse_from_text.

(* the tokens of a formatted tree, whatever follows it after a space, a closing parenthesis or the end *)
Theorem c14_lex_printed : forall p q, lexable q -> forall t, rest_ok t ->
  cql_lex (print p q ++ t) = pushl (toks p q) (cql_lex t).
Proof. exact lex_node. Qed.
Print Assumptions c14_lex_printed.

(* -- the model's fuel -------------------------------------------------------------------------------------------- *)

(* lexer and parser are total: the out-of-fuel results of the model are unreachable *)
Theorem c14_parse_query_no_fuel : forall e s, parse_query e s <> QFuel.
Proof. exact parse_query_no_fuel. Qed.
Print Assumptions c14_parse_query_no_fuel.
