(* C14 — Contact queries round-trip through text and cannot be injected into.
   Statements only; proofs are in proofs/CqlQuoteProofs.v, CqlLexProofs.v, CqlSimplifyProofs.v, CqlParseProofs.v.
   Models: model/CqlPrinter.v (Condition.String, BoolCombination.String, Stringify, QuoteValue, Simplify),
   model/CqlParser.v (lexer = the token rules regenerated from antlr/ContactQL.g4 into gen/GrammarCQL.v, run by the
   maximal-munch tokenizer of lib/RegexLM.v; parser; visitor; ParseQuery), lib/Quote.v (strconv.Quote/Unquote).

   [p] is unicode.IsPrint (an arbitrary table with p(newline) = false); [e] carries the external functions
   (unicode.ToLower, urns.Parse, urns.IsValidScheme, the phone-number parser, the word segmenter, validate):
   every theorem holds for all of them. *)
From Coq Require Import List NArith Bool.
From Verif Require Import lib.Quote lib.RegexLM model.CqlSyntax gen.GrammarCQL model.CqlPrinter model.CqlParser
  proofs.CqlQuoteProofs proofs.CqlLexProofs proofs.CqlSimplifyProofs proofs.CqlParseProofs.
Import ListNotations.
Open Scope N_scope.

(* -- the escaping -------------------------------------------------------------------------------------- *)

(* strconv.Unquote inverts QuoteValue (= ContactQueryEscaping) on every valid code-point list: quotes,
   backslash runs of any length incl. trailing ones, control and non-printable characters, non-BMP *)
Theorem c14_unquote_quote_value : forall p v,
  p 10 = false -> valid_codepoints v -> unquote (quote_value p v) = UOk v.
Proof. exact unquote_quote_value. Qed.
Print Assumptions c14_unquote_quote_value.

(* the shape the lexer depends on, for EVERY code-point list and IsPrint table: inside the outer quotes every
   quote is directly preceded by a backslash, and the character before the closing quote is not a backslash *)
Theorem c14_quote_value_shape : forall p v,
  exists body, quote_value p v = 34 :: body ++ [34]
               /\ quotes_preceded 34 body = true /\ last body 34 <> 92.
Proof. exact quote_value_shape. Qed.
Print Assumptions c14_quote_value_shape.

(* -- no injection ---------------------------------------------------------------------------------------- *)

(* Whatever text follows an escaped value, the lexer cuts exactly the escaped value off as ONE STRING token and
   goes on with the rest as if the value were not there; the visitor reads the token back as v.  (v arbitrary:
   `" OR id = 1 OR name = "`, backslash runs, parentheses, keywords.)  Nothing of v can reach the token stream
   of the rest, so the number, operators and structure of the conditions are those of the template. *)
Theorem c14_no_injection : forall p v rest,
  p 10 = false -> valid_codepoints v ->
  cql_lex (quote_value p v ++ rest) =
    match cql_lex rest with
    | LexOk ts => LexOk ((STRING, quote_value p v) :: ts)
    | o => o
    end
  /\ literal_value (STRING, quote_value p v) = LVal v.
Proof. exact no_injection_head. Qed.
Print Assumptions c14_no_injection.

(* the lexing half needs no hypothesis at all *)
Theorem c14_lex_quoted_value : forall p v rest,
  cql_lex (quote_value p v ++ rest) =
  match cql_lex rest with
  | LexOk ts => LexOk ((STRING, quote_value p v) :: ts)
  | o => o
  end.
Proof. exact lex_quoted_value. Qed.
Print Assumptions c14_lex_quoted_value.

(* the theorem is about QuoteValue, not about strconv.Quote: with plain strconv.Quote (the code before the
   repair of F11) a value ending in a backslash swallows the text up to the next quote — same lexer model *)
Example c14_plain_quote_swallows :
  let p := fun c => (32 <=? c) && (c <? 127) in
  cql_lex (quote p [97; 92] ++ [32; 65; 78; 68; 32; 34; 98; 34])
  = LexOk [(STRING, [34; 97; 92; 92; 34; 32; 65; 78; 68; 32; 34]); (PROPERTY, [98]); (ERROR, [34])]
  /\ cql_lex (quote_value p [97; 92] ++ [32; 65; 78; 68; 32; 34; 98; 34])
  = LexOk [(STRING, [34; 97; 92; 120; 53; 99; 34]); (AND, [65; 78; 68]); (STRING, [34; 98; 34])].
Proof. exact plain_quote_swallows. Qed.
Print Assumptions c14_plain_quote_swallows.

(* the grammar facts the lexer theorems rest on, re-checked against the regenerated table on every run *)
Theorem c14_grammar_string_rule :
  map (fun r => r_kind r) lexer_rules = [LPAREN; RPAREN; AND; OR; COMPARATOR; STRING; PROPERTY; TEXT; WS; ERROR]
  /\ r_re (rule_at 5) = reSTRING /\ r_skip (rule_at 5) = false.
Proof. exact grammar_string_rule. Qed.
Print Assumptions c14_grammar_string_rule.

(* -- normal form ------------------------------------------------------------------------------------------ *)

Theorem c14_simplify_idem : forall q q', simplify q = Some q' -> simplify q' = Some q'.
Proof. exact simplify_idem. Qed.
Print Assumptions c14_simplify_idem.

(* what ParseQuery accepts has a non-nil root in Simplify's normal form (every combination has at least two
   children, none of them a combination with the same operator) *)
Theorem c14_parse_is_simplified : forall e s root, parse_query e s = QOk root ->
  exists q, root = Some q /\ simplified q /\ simplify q = Some q.
Proof. exact parse_query_simplified. Qed.
Print Assumptions c14_parse_is_simplified.
