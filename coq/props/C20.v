(* C20 — Flow inspection over-approximates what a run can do.
   Statements only; proofs are in proofs/InspectProofs.v.  Model: model/Inspect.v (inspection of a flow, and
   execution as the set of traces the step acceptor accepts); table: gen/ActionResults.v (regenerated from the
   Go source on every check).  [A] is any list of flows, [tr] any trace: no bound on flows, nodes, actions,
   runs, steps or resumes. *)
From Coq Require Import List NArith Bool String.
From Verif Require Import model.ActionRow gen.ActionResults model.Inspect model.InspectExec.
From Verif Require Import proofs.InspectProofs proofs.InspectExecProofs proofs.InspectExecAccepts proofs.InspectExecAcceptsAll.
Import ListNotations.
Open Scope N_scope.

(* ---- results.  Full statement (false on the current source, F16):
        forall A tr, valid A -> accepts A tr -> every saved (flow, (name, category)) is result_covered.
      What is missing for it: open_ticket declares the result it saves.  *)

(* corollary — every result a step of an accepted execution saves is in the inspection of the run's flow under the
   key the run stores it under, with its category listed (or saved without category): for flows without open_ticket *)
Theorem c20_results_covered_partial : forall names A tr,
  forallb valid_flow A = true -> no_open_ticket A = true -> accepts names A tr = true ->
  forall fid nc, In (fid, nc) (saved_results tr) ->
  exists f, lookup_flow A fid = Some f /\ result_covered f nc.
Proof. exact results_covered_partial. Qed.
Print Assumptions c20_results_covered_partial.

(* the sharp form: every result a step of an accepted execution saves is covered by the inspection of the run's flow,
   OR it is exactly F16 — saved by an open_ticket action of that flow under its result_name.  Other results of
   sessions whose flows contain an open_ticket somewhere are covered like all others. *)
Theorem c20_results_covered_or_f16 : forall names A tr,
  forallb valid_flow A = true -> accepts names A tr = true ->
  forall fid nc, In (fid, nc) (saved_results tr) ->
  exists f, lookup_flow A fid = Some f /\ (result_covered f nc \/ saved_by_open_ticket f nc).
Proof. exact results_covered_or_f16. Qed.
Print Assumptions c20_results_covered_or_f16.

(* witness: a flow with one open_ticket action; its execution saves "Ticket", the inspection has no results *)
Theorem c20_results_covered_refuted :
  exists A tr, forallb valid_flow A = true /\ accepts [] A tr = true /\
    exists fid nc f, In (fid, nc) (saved_results tr) /\ lookup_flow A fid = Some f /\ ~ result_covered f nc.
Proof. exact results_covered_refuted. Qed.
Print Assumptions c20_results_covered_refuted.

(* the exclusion is exactly the open_ticket row of the source-derived table: every other saver action type declares
   what it saves, with every category it can save (finite obligation, recomputed from the regenerated table) *)
Theorem c20_only_open_ticket_undeclared : forall s,
  saver_ok s = match s with SvOpenTicket => false | _ => true end.
Proof. exact saver_ok_table. Qed.
Print Assumptions c20_only_open_ticket_undeclared.

(* ... and the result list is exact the other way: keys pairwise different, each declared by an action or router
   of some node of the flow *)
Theorem c20_results_exact : forall f,
  NoDup (map rs_key (inspect_results f))
  /\ forall s, In s (inspect_results f) ->
        exists n i, In n (f_nodes f) /\ In i (node_result_infos n) /\ rs_key s = ri_key i.
Proof. exact inspect_results_exact. Qed.
Print Assumptions c20_results_exact.

(* ---- waiting exits: the exit through which a resumed step leaves its wait node is listed *)
Theorem c20_waiting_exits : forall names A tr,
  forallb valid_flow A = true -> accepts names A tr = true ->
  forall fid e, In (fid, e) (resumed_exits tr) ->
  exists f, lookup_flow A fid = Some f /\ In e (waiting_exits f).
Proof. exact waiting_exits_listed. Qed.
Print Assumptions c20_waiting_exits.

(* ... and nothing else is: a listed exit belongs to a node whose router has a wait *)
Theorem c20_waiting_exits_exact : forall f e, In e (waiting_exits f) ->
  exists n, In n (f_nodes f) /\ node_has_wait n = true /\ In e (map e_id (n_exits n)).
Proof. exact waiting_exits_only_waits. Qed.
Print Assumptions c20_waiting_exits_exact.

(* ---- dependencies.  Full statement (false on the current source, hunt findings 2 and 3):
        forall names A tr, accepts -> every carried (flow, reference) is in dependencies of that flow.
      What is missing: inspection would have to list the asset an expression-free name_match / email_match /
      legacy_vars value names and the default topic of an open_ticket without topic (needs name-only dependencies). *)

(* sharp form: a reference carried by a step of an accepted execution is listed as a dependency of the run's flow, OR
   it is exactly such an implicitly named asset of a node of that flow *)
Theorem c20_dependencies_or_implicit : forall names A tr,
  accepts names A tr = true ->
  forall fid r, In (fid, r) (assets_touched tr) ->
  exists f, lookup_flow A fid = Some f
    /\ ((In r (dependencies f) /\ ref_variable r = false) \/ touched_implicitly names f r).
Proof. exact dependencies_or_implicit. Qed.
Print Assumptions c20_dependencies_or_implicit.

(* corollary: flows none of whose nodes names an asset implicitly *)
Theorem c20_dependencies_partial : forall names A tr,
  no_implicit names A -> accepts names A tr = true ->
  forall fid r, In (fid, r) (assets_touched tr) ->
  exists f, lookup_flow A fid = Some f /\ In r (dependencies f) /\ ref_variable r = false.
Proof. exact dependencies_listed_partial. Qed.
Print Assumptions c20_dependencies_partial.

(* witnesses, one per listed known class, each on the input of its known: line (flows w_* in proofs/InspectProofs.v);
   dependency_gap k names f tr: f valid, tr accepted, tr carries a reference of kind k that is not in dependencies f
   and that f names implicitly *)
Theorem c20_dependencies_refuted_default_topic : exists names tr, dependency_gap KTopic names w_default_topic tr.
Proof. exact gap_default_topic. Qed.
Print Assumptions c20_dependencies_refuted_default_topic.

Theorem c20_dependencies_refuted_group_name_match :
  no_open_ticket [w_group_name_match] = true /\ exists names tr, dependency_gap KGroup names w_group_name_match tr.
Proof. exact gap_group_name_match. Qed.
Print Assumptions c20_dependencies_refuted_group_name_match.

Theorem c20_dependencies_refuted_label_name_match :
  no_open_ticket [w_label_name_match] = true /\ exists names tr, dependency_gap KLabel names w_label_name_match tr.
Proof. exact gap_label_name_match. Qed.
Print Assumptions c20_dependencies_refuted_label_name_match.

Theorem c20_dependencies_refuted_user_email_match : exists names tr, dependency_gap KUser names w_user_email_match tr.
Proof. exact gap_user_email_match. Qed.
Print Assumptions c20_dependencies_refuted_user_email_match.

Theorem c20_dependencies_refuted_legacy_var :
  no_open_ticket [w_legacy_var] = true /\ exists names tr, dependency_gap KGroup names w_legacy_var tr.
Proof. exact gap_legacy_var. Qed.
Print Assumptions c20_dependencies_refuted_legacy_var.

(* ... the list has no duplicates and only references written in some node of the flow *)
Theorem c20_dependencies_exact : forall f,
  NoDup (dependencies f) /\ forall r, In r (dependencies f) -> exists n, In n (f_nodes f) /\ In r (node_asset_refs n).
Proof. exact dependencies_exact. Qed.
Print Assumptions c20_dependencies_exact.

(* ---- the table (all action and router types in the source).  Full statement
        forall r, In r action_results -> row_declares_what_it_saves r = true   is false: *)
Theorem c20_actions_declare_refuted : exists r, In r action_results /\ row_declares_what_it_saves r = false.
Proof. exact actions_declare_refuted. Qed.
Print Assumptions c20_actions_declare_refuted.

(* ... it holds for every row but open_ticket's: same name expression, every saved category declared *)
Theorem c20_actions_declare_partial : forall r, In r action_results ->
  is_open_ticket_row r = false -> row_declares_what_it_saves r = true.
Proof. exact actions_declare_partial. Qed.
Print Assumptions c20_actions_declare_partial.

(* every type in the source that can save a result is one the model covers *)
Theorem c20_saving_types_modelled : forall r, In r action_results -> ar_saves r = true -> row_is_modelled r = true.
Proof. exact saving_types_modelled. Qed.
Print Assumptions c20_saving_types_modelled.

(* results are written through the known doors only (typed census of the whole module) *)
Theorem c20_save_sites_known : save_result_sites <> [] /\ forall sc, In sc save_result_sites -> site_known sc = true.
Proof. exact save_sites_known. Qed.
Print Assumptions c20_save_sites_known.

(* the table is complete: per registered type, the extraction visited exactly what go/types finds reachable *)
Theorem c20_rows_complete : forall r, In r action_results -> row_complete r = true.
Proof. exact rows_complete. Qed.
Print Assumptions c20_rows_complete.

(* which savers save only under a non-empty result_name, and that every declaring saver declares exactly under a
   non-empty result_name (both hand-written in the model), is what the source says *)
Theorem c20_guards_as_in_source : forall s,
  sv_guarded s = guarded_in_table s
  /\ (sv_declares s = true -> decl_guard_in_table s = [["NAME_NONEMPTY"]]%string).
Proof. exact guards_as_in_source. Qed.
Print Assumptions c20_guards_as_in_source.

(* ---- the same three clauses for what the EXECUTABLE model engine does (model/InspectExec.v: visit, actions, push
   of a child flow, wait, resume by msg or wait timeout, routing, return to the parent), for every instantiation of
   its oracles (which category the tests pick, which outcome an action has, which written references its events
   carry), every fuel, start flow and resume history — not relative to an acceptor: [exec] computes the trace *)
Theorem c20_engine_results_covered_or_f16 : forall names A pick act touch msg_trigger fuel fid history,
  forallb valid_flow A = true ->
  forall fl nc, In (fl, nc) (saved_results (exec names A pick act touch msg_trigger fuel fid history)) ->
  exists f, lookup_flow A fl = Some f /\ (result_covered f nc \/ saved_by_open_ticket f nc).
Proof. exact engine_results_covered_or_f16. Qed.
Print Assumptions c20_engine_results_covered_or_f16.

Theorem c20_engine_waiting_exits : forall names A pick act touch msg_trigger fuel fid history,
  forallb valid_flow A = true ->
  forall fl e, In (fl, e) (resumed_exits (exec names A pick act touch msg_trigger fuel fid history)) ->
  exists f, lookup_flow A fl = Some f /\ In e (waiting_exits f).
Proof. exact engine_waiting_exits. Qed.
Print Assumptions c20_engine_waiting_exits.

(* (the engine carries only assets the node it visits names, by reference, template path, literal name or default —
   [touch] selects among them — so this clause is the static fact that extraction and de-duplication lose no fixed
   reference, plus the exact exception) *)
Theorem c20_engine_dependencies_or_implicit : forall names A pick act touch msg_trigger fuel fid history,
  forall fl r, In (fl, r) (assets_touched (exec names A pick act touch msg_trigger fuel fid history)) ->
  exists f, lookup_flow A fl = Some f
    /\ ((In r (dependencies f) /\ ref_variable r = false) \/ touched_implicitly names f r).
Proof. exact engine_dependencies_or_implicit. Qed.
Print Assumptions c20_engine_dependencies_or_implicit.

(* ---- engine traces are accepted traces: EVERY trace the executable engine computes — all oracles, fuel, start flow,
   resume history, child runs included — is accepted by the step acceptor of Inspect.v, position check included (a step
   continues where the previous step of its run left; a run starts at the first node of its flow, a child run under an
   enter_flow of that flow on the node its parent is paused on; the parent goes on from the step it was paused on after
   the child's steps), when the flows have pairwise different ids (evaluated for every case in InspectCorr.check).
   Hence c20_results_covered_or_f16, c20_waiting_exits and c20_dependencies_or_implicit apply to every engine trace by
   theorem, and the acceptor's position_ok / node_enters have a theorem. *)
Theorem c20_engine_traces_accepted : forall names A pick act touch msg_trigger fuel fid history,
  distinct_flow_ids A = true ->
  accepts names A (exec names A pick act touch msg_trigger fuel fid history) = true.
Proof. exact engine_traces_accepted. Qed.
Print Assumptions c20_engine_traces_accepted.
