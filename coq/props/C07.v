(* C07 — Routers take the exit their definition prescribes.
   Statements only; proofs, the specification vocabulary (passed_over, matches, skip_events, through, result_for,
   category_with, exit_with, ... written from the sentences of the property) and Examples showing that the
   hypotheses are satisfiable (Module Demo) are in proofs/RouterProofs.v.  Model: model/Router.v.

   Every theorem is universally quantified over
     value      the type of Excellent values,
     eval_tpl   template evaluation (value, "an error was logged", number of warnings),
     to_xtext   conversion of a value to text (None: it fails - the value is an error or too large to render),
     registered which test ids are registered,   test   the test functions themselves,
     lc         the localisation context (C18),    max_result_chars, max_template_chars   the engine options that cut
                the saved value and the saved input,
   and over all routers: any number and order of cases, any categories (duplicates included), any default. *)
From Coq Require Import List NArith ZArith QArith Qround Bool.
From Verif Require Import model.Lang model.Router proofs.LangProofs proofs.RouterProofs.
Import ListNotations.
Open Scope N_scope.

(* "A switch router leaves by the exit of the category of the first case, in definition order, whose test matches the
   evaluated operand with its localized and evaluated arguments, otherwise by the default category's exit."
     passed_over operand c : the test of c is registered and returns an error or a result that is not truthy;
     matches operand c m x : the test of c is registered and returns a truthy result with match m and extra x;
     through b prev cat v i x evs : exit = c_exit cat, operand i, result (if named) = (c_name cat, v, i, x), events evs
                                    followed by run_result_changed when value/category changed.
   Cases passed over leave only their events (argument evaluation; an error event for an erroring test). *)
Theorem c07_first_match :
  forall (value : Type) (eval_tpl : text -> value * (bool * nat)) (to_xtext : value -> option text)
         (registered : test_id -> bool) (test : test_id -> value -> list value -> test_result value)
         (lc : lctx) (max_result_chars max_template_chars : nat)
         (b : base_router) (operand_tpl : text) (cases : list case_def) (default : uuid) (prev : option result),
  let operand := operand_of value eval_tpl operand_tpl in
  let input := operand_text value eval_tpl to_xtext operand_tpl in
  let passed := passed_over value eval_tpl registered test lc operand in
  let skipped := flat_map (skip_events value eval_tpl test lc operand) in
  let R := route_switch value eval_tpl to_xtext registered test lc max_result_chars max_template_chars b operand_tpl cases default prev in
  (forall pre c post m x mt cat,
      cases = pre ++ c :: post -> Forall passed pre -> matches value eval_tpl registered test lc operand c m x ->
      opt_to_xtext value to_xtext m = Some mt -> category_with b (k_cat c) cat ->
      R = through lc max_result_chars max_template_chars b prev cat mt input (extra_json x)
                  (operand_events value eval_tpl operand_tpl ++ skipped pre
                   ++ arg_events value eval_tpl lc c ++ extra_events c x))
  /\ (forall cat,
      Forall passed cases -> category_with b default cat ->
      R = through lc max_result_chars max_template_chars b prev cat input input None
                  (operand_events value eval_tpl operand_tpl ++ skipped cases
                   ++ default_events value eval_tpl to_xtext operand_tpl))
  /\ (Forall passed cases -> default = no_uuid ->
      R = {| ro_res := RExit no_uuid input; ro_saved := None;
             ro_events := operand_events value eval_tpl operand_tpl ++ skipped cases |})
  /\ (Forall passed cases
      \/ exists pre c post, cases = pre ++ c :: post /\ Forall passed pre
           /\ (registered (k_test c) = false
               \/ (registered (k_test c) = true /\ case_result value eval_tpl test lc operand c = TOther)
               \/ exists m x, matches value eval_tpl registered test lc operand c m x)).
Proof. exact switch_first_match_spec. Qed.
Print Assumptions c07_first_match.

(* for routers the engine accepts (every test registered, every case and the default name a category) and tests that
   keep to their contract (error, or test result whose match converts to text), the three branches above are all
   there is *)
Theorem c07_switch_total :
  forall (value : Type) (eval_tpl : text -> value * (bool * nat)) (to_xtext : value -> option text)
         (registered : test_id -> bool) (test : test_id -> value -> list value -> test_result value) (lc : lctx)
         (b : base_router) (operand_tpl : text) (cases : list case_def) (default : uuid),
  let operand := operand_of value eval_tpl operand_tpl in
  let passed := passed_over value eval_tpl registered test lc operand in
  well_formed_switch registered b cases default ->
  tests_behave value eval_tpl to_xtext test lc operand cases ->
  (exists pre c post m x mt cat,
      cases = pre ++ c :: post /\ Forall passed pre /\ matches value eval_tpl registered test lc operand c m x
      /\ opt_to_xtext value to_xtext m = Some mt /\ category_with b (k_cat c) cat)
  \/ (Forall passed cases /\ exists cat, category_with b default cat)
  \/ (Forall passed cases /\ default = no_uuid).
Proof. exact switch_total_spec. Qed.
Print Assumptions c07_switch_total.

(* the inputs the real code rejects at the deciding case: unregistered test (error), a test result that is neither an
   error nor a test result (panic), a match that does not convert to text (error), a category that does not exist
   (error) — none of them selects an exit *)
Theorem c07_switch_rejects :
  forall (value : Type) (eval_tpl : text -> value * (bool * nat)) (to_xtext : value -> option text)
         (registered : test_id -> bool) (test : test_id -> value -> list value -> test_result value)
         (lc : lctx) (max_result_chars max_template_chars : nat)
         (b : base_router) (operand_tpl : text) (cases : list case_def) (default : uuid) (prev : option result)
         (pre : list case_def) (c : case_def) (post : list case_def),
  let operand := operand_of value eval_tpl operand_tpl in
  let R := route_switch value eval_tpl to_xtext registered test lc max_result_chars max_template_chars b operand_tpl cases default prev in
  cases = pre ++ c :: post ->
  Forall (passed_over value eval_tpl registered test lc operand) pre ->
  let evs := operand_events value eval_tpl operand_tpl ++ flat_map (skip_events value eval_tpl test lc operand) pre in
  (registered (k_test c) = false -> R = {| ro_res := RError; ro_saved := None; ro_events := evs |})
  /\ (registered (k_test c) = true -> case_result value eval_tpl test lc operand c = TOther ->
      R = {| ro_res := RPanic; ro_saved := None; ro_events := evs ++ arg_events value eval_tpl lc c |})
  /\ (forall m x, matches value eval_tpl registered test lc operand c m x -> opt_to_xtext value to_xtext m = None ->
      R = {| ro_res := RError; ro_saved := None;
             ro_events := evs ++ arg_events value eval_tpl lc c ++ extra_events c x |})
  /\ (forall m x mt, matches value eval_tpl registered test lc operand c m x ->
      opt_to_xtext value to_xtext m = Some mt ->
      k_cat c <> no_uuid -> find_category (b_categories b) (k_cat c) = None ->
      R = {| ro_res := RError; ro_saved := None;
             ro_events := evs ++ arg_events value eval_tpl lc c ++ extra_events c x |}).
Proof. exact route_switch_errors. Qed.
Print Assumptions c07_switch_rejects.

(* "When a result name is set the saved result carries that category's name, the test's match (the operand itself for
   the default category) as value and the operand as input" — as far as the engine's limits let it: the value is cut to
   max_result_chars (c07_truncate), the input to max_template_chars with an ellipsis (c07_input_cut), an extra of 10000
   bytes or more is dropped (c07_extra_bound); the operand returned to the engine (segment) is NOT cut
   (c07_segment_operand).  The localized category name is C18's choice (c07_category_localized). *)
Theorem c07_result :
  forall (value : Type) (eval_tpl : text -> value * (bool * nat)) (to_xtext : value -> option text)
         (registered : test_id -> bool) (test : test_id -> value -> list value -> test_result value)
         (lc : lctx) (max_result_chars max_template_chars : nat)
         (b : base_router) (operand_tpl : text) (cases : list case_def) (default : uuid) (prev : option result),
  let operand := operand_of value eval_tpl operand_tpl in
  let input := operand_text value eval_tpl to_xtext operand_tpl in
  let passed := passed_over value eval_tpl registered test lc operand in
  let R := route_switch value eval_tpl to_xtext registered test lc max_result_chars max_template_chars b operand_tpl cases default prev in
  let localized c := category_localized (lc_contact lc) (lc_allowed lc) (lc_base lc) (c_tr_name c) in
  (b_result_name b = [] -> ro_saved R = None)
  /\ (forall pre c post m x mt cat,
      b_result_name b <> [] ->
      cases = pre ++ c :: post -> Forall passed pre -> matches value eval_tpl registered test lc operand c m x ->
      opt_to_xtext value to_xtext m = Some mt -> category_with b (k_cat c) cat ->
      let r := {| r_name := b_result_name b; r_value := truncate max_result_chars mt; r_category := c_name cat;
                  r_category_localized := localized cat; r_input := truncate_ellipsis max_template_chars input;
                  r_extra := bound_extra (extra_json x) |} in
      ro_saved R = Some r
      /\ ro_res R = RExit (c_exit cat) input
      /\ ro_events R = (operand_events value eval_tpl operand_tpl
                        ++ flat_map (skip_events value eval_tpl test lc operand) pre
                        ++ arg_events value eval_tpl lc c ++ extra_events c x)
                       ++ (if result_changed prev r then [EvResultChanged r] else []))
  /\ (forall cat,
      b_result_name b <> [] ->
      Forall passed cases -> category_with b default cat ->
      let r := {| r_name := b_result_name b; r_value := truncate max_result_chars input; r_category := c_name cat;
                  r_category_localized := localized cat; r_input := truncate_ellipsis max_template_chars input;
                  r_extra := None |} in
      ro_saved R = Some r /\ ro_res R = RExit (c_exit cat) input)
  /\ (Forall passed cases -> default = no_uuid -> ro_saved R = None).
Proof. exact switch_result_spec. Qed.
Print Assumptions c07_result.

Theorem c07_truncate : forall (limit : nat) (t : text),
  ((length t <= limit)%nat -> truncate limit t = t) /\ ((limit < length t)%nat -> truncate limit t = firstn limit t).
Proof. exact truncate_spec. Qed.
Print Assumptions c07_truncate.

(* MaxTemplateChars on the saved input *)
Theorem c07_input_cut : forall (limit : nat) (t : text),
  ((length t <= limit)%nat -> truncate_ellipsis limit t = t)
  /\ ((limit < length t)%nat -> (3 <= limit)%nat -> truncate_ellipsis limit t = firstn (limit - 3) t ++ [46; 46; 46])
  /\ ((limit < length t)%nat -> (limit < 3)%nat -> truncate_ellipsis limit t = firstn limit t)
  /\ (length (truncate_ellipsis limit t) <= limit)%nat.
Proof. exact truncate_ellipsis_spec. Qed.
Print Assumptions c07_input_cut.

(* the extra (marshalled JSON) is kept iff it has fewer than 10000 bytes in UTF-8 *)
Theorem c07_extra_bound : forall x : option text,
  bound_extra x = match x with
                  | Some j => if N.ltb (utf8_len j) 10000 then Some j else None
                  | None => None
                  end.
Proof. exact bound_extra_spec. Qed.
Print Assumptions c07_extra_bound.

Theorem c07_category_localized : forall (lc : lctx) (c : category),
  exists out used,
    spec_pick (lc_contact lc) (lc_allowed lc) (lc_base lc) [[]] (c_tr_name c) out used
    /\ category_localized (lc_contact lc) (lc_allowed lc) (lc_base lc) (c_tr_name c) = hd [] out.
Proof. exact category_localized_spec. Qed.
Print Assumptions c07_category_localized.

(* "a timeout resume leaves by the wait's timeout category" — for every router kind, whatever cases, operand, default
   or draw; the result's value is the text timed_out_on handed in by the caller (which text that is: c07_timeout_value),
   its input empty, the segment has no operand *)
Theorem c07_timeout :
  forall (value : Type) (eval_tpl : text -> value * (bool * nat)) (to_xtext : value -> option text)
         (registered : test_id -> bool) (test : test_id -> value -> list value -> test_result value)
         (lc : lctx) (max_result_chars max_template_chars : nat)
         (site : call_site) (flow_nodes : list uuid) (nd : node) (r : router) (d : draw) (timed_out_on : text)
         (prev : option result) (u : uuid) (c : category),
  n_router nd = Some r ->
  b_timeout (router_base r) = Some u -> category_with (router_base r) u c -> c_exit c <> no_uuid ->
  let b := router_base r in
  let res := result_for lc max_result_chars max_template_chars b c timed_out_on [] None in
  let v := visit value eval_tpl to_xtext registered test lc max_result_chars max_template_chars site flow_nodes nd true d timed_out_on prev in
  route_timeout lc max_result_chars max_template_chars b timed_out_on prev = through lc max_result_chars max_template_chars b prev c timed_out_on [] None []
  /\ vo_outcome v = NLeft
  /\ vo_step_exit v = c_exit c
  /\ vo_saved v = (if named b then Some res else None)
  /\ vo_events v = (if named b && result_changed prev res then [EvResultChanged res] else [])
  /\ (forall ex op dest, vo_segment v = Some (ex, op, dest) -> ex = c_exit c /\ op = []).
Proof. exact timeout_spec. Qed.
Print Assumptions c07_timeout.

(* "a random router by category floor(r*n) for its random draw r": r = d_mant / 10^d_scale (draw_Q) *)
Theorem c07_random :
  forall (lc : lctx) (max_result_chars max_template_chars : nat) (b : base_router) (d : draw) (prev : option result),
  let n := N.of_nat (length (b_categories b)) in
  let idx := random_index d n in
  (0 <= draw_Q d < 1)%Q -> 0 < n ->
  Qfloor (draw_Q d * inject_Z (Z.of_N n)) = Z.of_N idx
  /\ idx < n
  /\ exists c, nth_error (b_categories b) (N.to_nat idx) = Some c
       /\ route_random lc max_result_chars max_template_chars b d prev
          = through lc max_result_chars max_template_chars b prev c (N_to_text idx) (draw_text d) None [].
Proof. exact random_spec. Qed.
Print Assumptions c07_random.

(* "a node without a router by its first exit" *)
Theorem c07_no_router :
  forall (value : Type) (eval_tpl : text -> value * (bool * nat)) (to_xtext : value -> option text)
         (registered : test_id -> bool) (test : test_id -> value -> list value -> test_result value)
         (lc : lctx) (max_result_chars max_template_chars : nat)
         (site : call_site) (flow_nodes : list uuid) (nd : node) (is_timeout : bool) (d : draw) (timed_out_on : text)
         (prev : option result),
  n_router nd = None ->
  let v := visit value eval_tpl to_xtext registered test lc max_result_chars max_template_chars site flow_nodes nd is_timeout d
                 timed_out_on prev in
  vo_outcome v = NLeft /\ vo_saved v = None /\ vo_events v = []
  /\ match n_exits nd with
     | e :: _ =>
         vo_step_exit v = e_uuid e
         /\ vo_segment v = (if negb (N.eqb (e_dest e) no_uuid) && existsb (N.eqb (e_dest e)) flow_nodes
                            then Some (e_uuid e, [], e_dest e) else None)
     | [] => vo_step_exit v = no_uuid /\ vo_segment v = None
     end.
Proof. exact no_router_spec. Qed.
Print Assumptions c07_no_router.

(* "a router that selects no category fails the run instead of choosing arbitrarily": no case matches and there is no
   default — the run fails with a failure event, the step keeps no exit, no segment, nothing saved *)
Theorem c07_no_category_fails :
  forall (value : Type) (eval_tpl : text -> value * (bool * nat)) (to_xtext : value -> option text)
         (registered : test_id -> bool) (test : test_id -> value -> list value -> test_result value)
         (lc : lctx) (max_result_chars max_template_chars : nat)
         (site : call_site) (flow_nodes : list uuid) (nd : node) (b : base_router) (operand_tpl : text)
         (cases : list case_def) (d : draw) (timed_out_on : text) (prev : option result),
  let operand := operand_of value eval_tpl operand_tpl in
  n_router nd = Some (Switch b operand_tpl cases no_uuid) ->
  Forall (passed_over value eval_tpl registered test lc operand) cases ->
  let v := visit value eval_tpl to_xtext registered test lc max_result_chars max_template_chars site flow_nodes nd false d
                 timed_out_on prev in
  vo_outcome v = NRunFailed /\ vo_step_exit v = no_uuid /\ vo_segment v = None /\ vo_saved v = None
  /\ vo_events v = operand_events value eval_tpl operand_tpl
                   ++ flat_map (skip_events value eval_tpl test lc operand) cases ++ [EvFailure].
Proof. exact no_category_fails_spec. Qed.
Print Assumptions c07_no_category_fails.

(* ... and so does every other way a router can answer with the empty exit *)
Theorem c07_no_category_fails_general :
  forall (value : Type) (eval_tpl : text -> value * (bool * nat)) (to_xtext : value -> option text)
         (registered : test_id -> bool) (test : test_id -> value -> list value -> test_result value)
         (lc : lctx) (max_result_chars max_template_chars : nat)
         (site : call_site) (flow_nodes : list uuid) (nd : node) (r : router) (is_timeout : bool) (d : draw)
         (timed_out_on : text) (prev : option result) (operand : text),
  let out := router_out value eval_tpl to_xtext registered test lc max_result_chars max_template_chars r is_timeout d timed_out_on prev in
  n_router nd = Some r ->
  ro_res out = RExit no_uuid operand ->
  let v := visit value eval_tpl to_xtext registered test lc max_result_chars max_template_chars site flow_nodes nd is_timeout d
                 timed_out_on prev in
  vo_outcome v = NRunFailed /\ vo_step_exit v = no_uuid /\ vo_segment v = None
  /\ vo_events v = ro_events out ++ [EvFailure].
Proof. exact no_category_fails_general. Qed.
Print Assumptions c07_no_category_fails_general.

(* exit in the path = exit in the segment = exit of the saved category, for every node, router, input and draw *)
Theorem c07_consistency :
  forall (value : Type) (eval_tpl : text -> value * (bool * nat)) (to_xtext : value -> option text)
         (registered : test_id -> bool) (test : test_id -> value -> list value -> test_result value)
         (lc : lctx) (max_result_chars max_template_chars : nat)
         (site : call_site) (flow_nodes : list uuid) (nd : node) (is_timeout : bool) (d : draw) (timed_out_on : text)
         (prev : option result),
  let v := visit value eval_tpl to_xtext registered test lc max_result_chars max_template_chars site flow_nodes nd is_timeout d
                 timed_out_on prev in
  (vo_outcome v = NLeft ->
     (forall ex op dest, vo_segment v = Some (ex, op, dest) ->
        ex = vo_step_exit v /\ dest <> no_uuid /\ In dest flow_nodes
        /\ exists e, exit_with nd ex e /\ e_dest e = dest)
     /\ (forall e, exit_with nd (vo_step_exit v) e -> e_dest e <> no_uuid -> In (e_dest e) flow_nodes ->
         exists op, vo_segment v = Some (vo_step_exit v, op, e_dest e))
     /\ (n_router nd <> None -> vo_step_exit v <> no_uuid)
     /\ (forall res, vo_saved v = Some res ->
         exists r c, n_router nd = Some r /\ In c (b_categories (router_base r))
           /\ r_category res = c_name c /\ c_exit c = vo_step_exit v
           /\ r_name res = b_result_name (router_base r)
           /\ r_category_localized res
              = category_localized (lc_contact lc) (lc_allowed lc) (lc_base lc) (c_tr_name c)))
  /\ (vo_outcome v <> NLeft -> vo_step_exit v = no_uuid /\ vo_segment v = None).
Proof. exact consistency_spec. Qed.
Print Assumptions c07_consistency.

(* the operand logged with the segment: the router's operand text (switch), the draw (random), nothing for a timeout
   resume or a node without router *)
Theorem c07_segment_operand :
  forall (value : Type) (eval_tpl : text -> value * (bool * nat)) (to_xtext : value -> option text)
         (registered : test_id -> bool) (test : test_id -> value -> list value -> test_result value)
         (lc : lctx) (max_result_chars max_template_chars : nat)
         (site : call_site) (flow_nodes : list uuid) (nd : node) (is_timeout : bool) (d : draw) (timed_out_on : text)
         (prev : option result) (ex : uuid) (op : text) (dest : uuid),
  vo_segment (visit value eval_tpl to_xtext registered test lc max_result_chars max_template_chars site flow_nodes nd is_timeout d
                    timed_out_on prev) = Some (ex, op, dest) ->
  op = match n_router nd with
       | None => []
       | Some r =>
           if is_timeout then []
           else match r with
                | Switch _ operand_tpl _ _ => operand_text value eval_tpl to_xtext operand_tpl
                | Random _ => draw_text d
                end
       end.
Proof. exact segment_operand_spec. Qed.
Print Assumptions c07_segment_operand.

(* which time a timeout result records (the statement of C07 is silent on it): RouteTimeout scans the run's events and
   keeps the time of the run's FIRST wait_timed_out event — for a run that timed out before, not the time of the timeout
   being handled, although the comment in base.go says "last" (observation, see Demo.second_timeout_records_first).
   For an EMPTY list the model hands on the formatted zero time: a default nothing checks (a timeout resume logs its
   wait_timed_out event before routing, so the list is never empty where RouteTimeout runs) *)
Theorem c07_timeout_value :
  forall (value : Type) (eval_tpl : text -> value * (bool * nat)) (to_xtext : value -> option text)
         (registered : test_id -> bool) (test : test_id -> value -> list value -> test_result value)
         (lc : lctx) (max_result_chars max_template_chars : nat)
         (site : call_site) (flow_nodes : list uuid) (nd : node) (r : router) (d : draw) (times : list text)
         (prev : option result) (u : uuid) (c : category),
  n_router nd = Some r ->
  b_timeout (router_base r) = Some u -> category_with (router_base r) u c -> c_exit c <> no_uuid ->
  b_result_name (router_base r) <> [] ->
  scan_timeouts times = hd zero_time_text times
  /\ vo_saved (visit value eval_tpl to_xtext registered test lc max_result_chars max_template_chars site flow_nodes nd true d
                     (scan_timeouts times) prev)
     = Some (result_for lc max_result_chars max_template_chars (router_base r) c (hd zero_time_text times) [] None).
Proof. exact timeout_value_statement. Qed.
Print Assumptions c07_timeout_value.

(* "leaves by": the exit a router answers is the exit of the step — also when no result is saved — with the segment
   that exit prescribes *)
Theorem c07_leaves :
  forall (value : Type) (eval_tpl : text -> value * (bool * nat)) (to_xtext : value -> option text)
         (registered : test_id -> bool) (test : test_id -> value -> list value -> test_result value)
         (lc : lctx) (max_result_chars max_template_chars : nat)
         (site : call_site) (flow_nodes : list uuid) (nd : node) (r : router) (is_timeout : bool) (d : draw)
         (timed_out_on : text) (prev : option result) (u : uuid) (op : text),
  n_router nd = Some r ->
  ro_res (router_out value eval_tpl to_xtext registered test lc max_result_chars max_template_chars r is_timeout d timed_out_on prev)
  = RExit u op ->
  u <> no_uuid ->
  let out := router_out value eval_tpl to_xtext registered test lc max_result_chars max_template_chars r is_timeout d timed_out_on prev in
  let v := visit value eval_tpl to_xtext registered test lc max_result_chars max_template_chars site flow_nodes nd is_timeout d
                 timed_out_on prev in
  vo_outcome v = NLeft /\ vo_step_exit v = u /\ vo_saved v = ro_saved out /\ vo_events v = ro_events out
  /\ (forall e, exit_with nd u e ->
        vo_segment v = if negb (N.eqb (e_dest e) no_uuid) && existsb (N.eqb (e_dest e)) flow_nodes
                       then Some (u, (if is_timeout then [] else op), e_dest e) else None)
  /\ ((forall e, ~ exit_with nd u e) -> vo_segment v = None).
Proof. exact leaves_spec. Qed.
Print Assumptions c07_leaves.

(* the one remaining branch of the model: a deciding case WITHOUT a category (Validate rejects such a definition) falls
   to the default with the operand as value but keeps the case's extra; without default no category is selected *)
Theorem c07_case_without_category :
  forall (value : Type) (eval_tpl : text -> value * (bool * nat)) (to_xtext : value -> option text)
         (registered : test_id -> bool) (test : test_id -> value -> list value -> test_result value)
         (lc : lctx) (max_result_chars max_template_chars : nat)
         (b : base_router) (operand_tpl : text) (cases : list case_def) (default : uuid) (prev : option result)
         (pre : list case_def) (c : case_def) (post : list case_def) (m : option value) (x : extra_v) (mt : text),
  let operand := operand_of value eval_tpl operand_tpl in
  let input := operand_text value eval_tpl to_xtext operand_tpl in
  let R := route_switch value eval_tpl to_xtext registered test lc max_result_chars max_template_chars b operand_tpl cases default prev in
  cases = pre ++ c :: post -> Forall (passed_over value eval_tpl registered test lc operand) pre ->
  matches value eval_tpl registered test lc operand c m x ->
  opt_to_xtext value to_xtext m = Some mt -> k_cat c = no_uuid ->
  let evs := operand_events value eval_tpl operand_tpl ++ flat_map (skip_events value eval_tpl test lc operand) pre
             ++ arg_events value eval_tpl lc c ++ extra_events c x in
  (default = no_uuid -> R = {| ro_res := RExit no_uuid input; ro_saved := None; ro_events := evs |})
  /\ (forall cat, category_with b default cat ->
      R = through lc max_result_chars max_template_chars b prev cat input input (extra_json x)
                  (evs ++ default_events value eval_tpl to_xtext operand_tpl)).
Proof. exact case_without_category_spec. Qed.
Print Assumptions c07_case_without_category.

(* the texts in c07_random's conclusion: the saved value N_to_text idx consists of ASCII digits, denotes idx and has no
   leading zero
   (fmt.Sprintf("%d")); draw_text (Decimal.String()) is shown on examples in proofs/RouterProofs.v *)
Theorem c07_index_text : forall n : N,
  Forall is_digit (N_to_text n) /\ digits_value 0 (N_to_text n) = n
  /\ (n = 0 -> N_to_text n = [48]) /\ (n <> 0 -> hd 48 (N_to_text n) <> 48).
Proof. exact N_to_text_spec. Qed.
Print Assumptions c07_index_text.
