(* C09 -- Sessions can run concurrently over shared assets: no data races, and each session produces the result it
   produces alone.  Statements only; proofs are in proofs/ConcProofs.v and proofs/ConcSites.v.
   Model: model/Conc.v (goroutines as step lists over a shared store, ALL schedules, happens-before = program order +
   unlock -> later lock), gen/SharedState.v (GENERATED from the goflow working tree on every run: lock discipline,
   writes to package-level variables, writes to fields of shared types), model/SharedStateAllow.v (committed lists).

   PARTIAL: the theorems are about the access discipline extracted from the source.  That the extraction sees every
   shared write is not proved (reflection, third-party libraries, aliases of package-level values, the judgement
   which types are private to one session): the -race driver run is the check of that, and it samples schedules. *)
From Coq Require Import List String NArith Bool Arith.
From Verif Require Import model.Conc model.SharedStateAllow gen.SharedState model.ConcCorr model.FlowCache
  proofs.ConcProofs proofs.ConcHB proofs.ConcSites proofs.FlowCacheProofs.
Import ListNotations.
Local Open Scope nat_scope.

(* ---- the schedule theorems (for every number of goroutines, every program, every schedule) ---------------- *)

(* no data race: goroutines that look flows up in the locked cache and read loaded definitions *)
Theorem c09_race_free_partial : forall load progs sched,
  Forall (Forall disciplined) progs -> g_races (run load sched (init true progs)) = [].
Proof. exact race_free. Qed.
Print Assumptions c09_race_free_partial.

(* same result as alone: a prefix of the solo observations at any time, all of them once finished *)
Theorem c09_solo_equiv_partial : forall load progs sched t p,
  Forall (Forall disciplined) progs -> nth_error progs t = Some p ->
  let c := run load sched (init true progs) in
  (exists rest, solo_out load p [] = (thread_out c t ++ rest)%list) /\
  (thread_done c t = true -> thread_out c t = solo_out load p []).
Proof. exact solo_equiv. Qed.
Print Assumptions c09_solo_equiv_partial.

(* the race reports of the instrumented semantics are sound for the relational definition: for EVERY program, lock
   discipline and schedule, a run without a report has no two conflicting accesses by different goroutines that are
   unordered by happens-before (transitive closure of program order and Unlock -> every later Lock) *)
Theorem c09_no_report_no_race : forall load locked progs sched,
  g_races (run load sched (init locked progs)) = [] -> ~ relational_race (run load sched (init locked progs)).
Proof. exact no_report_no_race. Qed.
Print Assumptions c09_no_report_no_race.

(* hence race freedom in the relational sense *)
Theorem c09_race_free_relational_partial : forall load progs sched,
  Forall (Forall disciplined) progs -> ~ relational_race (run load sched (init true progs)).
Proof. exact race_free_relational. Qed.
Print Assumptions c09_race_free_relational_partial.

(* one definition object per flow: every flow is loaded at most once per cold cache, whatever the schedule *)
Theorem c09_single_load_partial : forall load progs sched u,
  Forall (Forall disciplined) progs -> loads_of u (run load sched (init true progs)) <= 1.
Proof. exact single_load. Qed.
Print Assumptions c09_single_load_partial.

(* `solo_out` is what the program observes when its goroutine is the only one (it finishes, with that output) *)
Theorem c09_solo_run_spec : forall load p,
  Forall disciplined p ->
  let c := run load (repeat 0 (4 * List.length p)) (init true [p]) in
  thread_done c 0 = true /\ thread_out c 0 = solo_out load p [].
Proof. exact solo_run_spec. Qed.
Print Assumptions c09_solo_run_spec.

(* two goroutines, a schedule that interleaves inside the look-ups (goroutine 1 waits for the mutex while 0 loads):
   both finish with the outputs they have alone *)
Theorem c09_contended_schedule_example :
  Forall (Forall disciplined) [[OGet 1; ORead 1; OGet 2]; [OGet 2; OGet 1; ORead 1; ORead 2]]
  /\ let c := run (fun u => u + 100) (List.concat (repeat [0; 1; 1] 12))
                  (init true [[OGet 1; ORead 1; OGet 2]; [OGet 2; OGet 1; ORead 1; ORead 2]]) in
     thread_done c 0 = true /\ thread_done c 1 = true /\ thread_out c 0 = [101] /\ thread_out c 1 = [101; 102]
     /\ map ev_tid (g_hist c) = [1; 1; 1; 0; 1; 1; 0; 1; 0; 0; 0].
Proof. exact disciplined_programs_exist. Qed.
Print Assumptions c09_contended_schedule_example.

(* ---- the three hypotheses, discharged against the generated tables -------------------------------------------- *)

Theorem c09_locked_cache : locked_cache mutex_methods = true.
Proof. exact code_locked_cache. Qed.
Print Assumptions c09_locked_cache.

Theorem c09_no_shared_lazy : d_shared_lazy code_discipline = [].
Proof. exact code_no_shared_lazy. Qed.
Print Assumptions c09_no_shared_lazy.

Theorem c09_no_def_writes : d_def_writes code_discipline = [].
Proof. exact code_no_def_writes. Qed.
Print Assumptions c09_no_def_writes.

Theorem c09_code_discipline_ok : discipline_ok code_discipline = true.
Proof. exact code_discipline_ok. Qed.
Print Assumptions c09_code_discipline_ok.

(* ... hence, for the discipline of the current tree *)
Theorem c09_race_free_current_tree_partial : forall load progs sched,
  forallb (forallb (op_allowed code_discipline)) progs = true ->
  g_races (run load sched (init (d_locked code_discipline) progs)) = [].
Proof. exact race_free_current_tree. Qed.
Print Assumptions c09_race_free_current_tree_partial.

Theorem c09_solo_equiv_current_tree_partial : forall load progs sched t p,
  forallb (forallb (op_allowed code_discipline)) progs = true -> nth_error progs t = Some p ->
  let c := run load sched (init (d_locked code_discipline) progs) in
  (exists rest, solo_out load p [] = (thread_out c t ++ rest)%list) /\
  (thread_done c t = true -> thread_out c t = solo_out load p []).
Proof. exact solo_equiv_current_tree. Qed.
Print Assumptions c09_solo_equiv_current_tree_partial.

(* ---- each hypothesis is needed: without it a schedule with a race / a different result exists ---------------- *)

Theorem c09_unlocked_cache_refuted :
  exists (progs : list (list op)) (sched : list nat), g_races (run (fun u => u) sched (init false progs)) <> [].
Proof. exact unlocked_cache_refuted. Qed.
Print Assumptions c09_unlocked_cache_refuted.

Theorem c09_shared_lazy_refuted :
  exists (progs : list (list op)) (sched : list nat), g_races (run (fun u => u) sched (init true progs)) <> [].
Proof. exact shared_lazy_refuted. Qed.
Print Assumptions c09_shared_lazy_refuted.

(* the first two are data races in the relational sense as well (no lock operation orders the two accesses) *)
Theorem c09_unlocked_cache_relational_race :
  exists (progs : list (list op)) (sched : list nat), relational_race (run (fun u => u) sched (init false progs)).
Proof. exact unlocked_cache_relational_race. Qed.
Print Assumptions c09_unlocked_cache_relational_race.

Theorem c09_shared_lazy_relational_race :
  exists (progs : list (list op)) (sched : list nat), relational_race (run (fun u => u) sched (init true progs)).
Proof. exact shared_lazy_relational_race. Qed.
Print Assumptions c09_shared_lazy_relational_race.

Theorem c09_def_write_refuted :
  exists (progs : list (list op)) (sched : list nat), g_races (run (fun u => u) sched (init true progs)) <> [].
Proof. exact def_write_refuted. Qed.
Print Assumptions c09_def_write_refuted.

Theorem c09_def_write_solo_refuted :
  exists (progs : list (list op)) (sched : list nat) (p : list op),
    nth_error progs 1 = Some p /\
    let c := run (fun u => u) sched (init true progs) in
    thread_done c 1 = true /\ thread_out c 1 <> solo_out (fun u => u) p [].
Proof. exact def_write_solo_refuted. Qed.
Print Assumptions c09_def_write_solo_refuted.

(* ---- the flow cache is a function of the source (clause "the same result it produces when run alone") ---------- *)

(* look-ups run under the mutex, so concurrent sessions amount to some sequence of look-ups; whatever look-ups other
   sessions performed before (any number, any order, by uuid or by name), a look-up answers what it answers from a cold
   cache.  PARTIAL: for sources whose assets have pairwise different uuids (c09_duplicate_asset_uuid_refuted shows
   the condition is needed; the static source does not enforce it) *)
Theorem c09_cache_transparent_partial : forall src ops o,
  NoDup (map a_uuid src) ->
  snd (do_op src (after src ops) o) = snd (do_op src [] o).
Proof. exact cache_transparent. Qed.
Print Assumptions c09_cache_transparent_partial.

(* ... which is the source's answer: the asset with that uuid / the first asset with that name *)
Theorem c09_cold_cache_answers_source : forall src u n,
  snd (get src [] u) = option_map a_def (by_uuid src u) /\ snd (FlowCache.find src [] n) = option_map a_def (by_name src n).
Proof. exact cold_answers. Qed.
Print Assumptions c09_cold_cache_answers_source.

Theorem c09_duplicate_asset_uuid_refuted :
  exists src ops u, snd (do_op src (after src ops) (LGet u)) <> snd (do_op src [] (LGet u)).
Proof. exact duplicate_asset_uuid_refuted. Qed.
Print Assumptions c09_duplicate_asset_uuid_refuted.

(* the code before fix C09_flow_cache_keys (hunt findings f1, f2): cached under the uuid inside the definition ... *)
Theorem c09_get_keyed_by_inner_uuid_refuted :
  exists src ops u, NoDup (map a_uuid src) /\
    snd (do_op_old src (after_old src ops) (LGet u)) <> snd (do_op_old src [] (LGet u)).
Proof. exact get_keyed_by_inner_uuid_refuted. Qed.
Print Assumptions c09_get_keyed_by_inner_uuid_refuted.

(* ... and a name resolved from the cache first: dependent on what other sessions loaded, and on map order *)
Theorem c09_find_cache_first_refuted :
  exists src ops n, NoDup (map a_uuid src) /\
    snd (do_op_old src (after_old src ops) (LFind n)) <> snd (do_op_old src [] (LFind n)).
Proof. exact find_cache_first_refuted. Qed.
Print Assumptions c09_find_cache_first_refuted.

Theorem c09_find_cache_first_map_order_refuted :
  exists src (c1 c2 : cache) n,
    (forall k, cached c1 k = cached c2 k) /\ snd (find_old src c1 n) <> snd (find_old src c2 n).
Proof. exact find_cache_first_map_order_refuted. Qed.
Print Assumptions c09_find_cache_first_map_order_refuted.
