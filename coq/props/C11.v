(* C11 — Printing and re-parsing an expression preserves its meaning.
   Statements only; proofs are in proofs/ExPrintProofs.v, ExRoundtrip.v, ExTokok.v, ExLexerProofs.v, ExC11.v.
   Models: model/ExLexer.v + gen/GrammarE3.v (generated lexer; rule table regenerated from the .g4 on every run),
   model/ExParser.v (generated parser + visitor.go), model/ExPrinter.v (Expression.String of tree.go),
   lib/Quote.v (strconv.Quote/Unquote).  The arguments lower, printable stand for unicode.ToLower and
   unicode.IsPrint; the hypotheses on them are facts of those Go tables. *)
From Coq Require Import List NArith Bool.
From Verif Require Import lib.Quote model.ExSyntax model.ExLexer model.ExParser model.ExPrinter model.ExScanner
  model.ExRefactor model.ExTemplate proofs.ExPrintProofs proofs.ExRoundtrip proofs.ExScannerProofs
  proofs.ExRefactorProofs proofs.ExRender proofs.ExParserTotal proofs.ExGlue proofs.ExTreeWf proofs.ExTokName proofs.ExC11.
Import ListNotations.
Open Scope N_scope.

(* "Printing is a fixed point after one round": norm t (context-reference names lower-cased, number literals
   re-rendered from their decimal value, text literals re-quoted with the same value, everything else — Parentheses
   nodes included — unchanged) prints like t, and normalising again changes nothing.  For every tree.  That norm t
   IS what re-parsing the printed form yields is the content of c11_reparse_tokens / c11_roundtrip_partial below. *)
Theorem c11_print_fixpoint : forall (lower : N -> N) (printable : N -> bool) e,
  (forall c, lower (lower c) = lower c) ->
  print lower printable (norm lower e) = print lower printable e
  /\ norm lower (norm lower e) = norm lower e.
Proof. exact print_fixpoint_stmt. Qed.
Print Assumptions c11_print_fixpoint.

(* Token-level round trip, for EVERY source text (valid code points) that the lexer and parser models accept:
   (Lemma A) the tokens of the source are, kind by kind, the tokens ptoks t that Expression.String() writes for the
   tree t (numbers may change between INTEGER and DECIMAL: 1.0 is printed 1), and parsing those printed tokens
   yields exactly norm t — same operators, same grouping, same Parentheses nodes, same lookups and arguments.
   No bound on size or depth; precedence and associativity come from gen/GrammarE3.v.
   PARTIAL with respect to the property sentence: this is about the token list the printer writes; that lexing the
   printed TEXT gives back these tokens is the separate statement on spacing (see checks/C11.json level_note). *)
Theorem c11_reparse_tokens : forall (lower : N -> N) (printable : N -> bool) inp ts t,
  printable 10 = false -> valid_codepoints inp ->
  lex inp = LOk ts -> parse_tokens ts = POk t ->
  alike ts (ptoks lower printable t)
  /\ parse_tokens (ptoks lower printable t) = POk (norm lower t).
Proof. exact reparse_tokens_stmt. Qed.
Print Assumptions c11_reparse_tokens.

(* Second sentence, identity transformation that reports "unchanged" (refactor.Template then keeps the original
   expression text): for EVERY NUL-free template — any body text, e-mail addresses, "@@", expressions with syntax
   errors, unterminated "@(" — and every allowed-top-level list (nil included) the output IS the template: the
   scanner with SetUnescapeBody(false) is lossless.  (errs counts the expressions that do not parse; inside only
   records whether some text literal has raw byte escapes — the output is the template in every case.) *)
Theorem c11_identity_rewrite_verbatim : forall (isln : N -> bool) (lower : N -> N) (printable : N -> bool) tops s,
  isln 0 = false -> isln 46 = false -> nulfree s ->
  exists errs inside,
    refactor_template isln lower printable (fun _ => None) tops s = Ok (s, errs, inside).
Proof. exact identity_verbatim_stmt. Qed.
Print Assumptions c11_identity_rewrite_verbatim.

(* What refactor.Template writes for an expression without reporting an error for it is the expression as it was, or
   text that the parser accepts (second hunt, finding C11/1, repaired: the printed result of a transformation is
   read back; before, `webhook + 1 + ... + 1` exactly as deep as Parse allows was rewritten to `webhook.json + ...`,
   one level too deep, without an error).  NOTE on the nesting limit: excellent.Parse rejects expressions nested
   deeper than MaxParseDepth = 2500 levels, the parser MODEL (parse_tokens) has no such limit.  All theorems of this
   file that conclude "the printed text parses" speak about the model, i.e. about the real parser for expressions
   whose printed form stays within the limit: printing keeps the nesting of the source (norm and a rename to a NAME
   leave erase - the shape - unchanged, c11_rename_exact), a rename to a path of k segments adds k-1 levels at the
   renamed leaf, so the hypothesis in terms of the real code is: nesting of the source <= MaxParseDepth - (k-1).  At
   the limit itself the read-back step makes refactor.Template report the error and keep the expression. *)
Theorem c11_refactor_output_parses : forall (lower : N -> N) (printable : N -> bool) (tx : expr -> option expr) src s,
  refactor_expression lower printable tx src = ROk s ->
  s = src \/ exists ts t, lex s = LOk ts /\ parse_tokens ts = POk t.
Proof. exact refactor_output_parses_stmt. Qed.
Print Assumptions c11_refactor_output_parses.

(* Second sentence, renaming: ContextRefRename(from, to) — the renaming proper is modelled by rename, with is_from n =
   (n and from have the same lower case, as in evaluation; since the repair of hunt finding C11/2, before: EqualFold) —
   renames exactly the FREE context references that match, in place (frefs: the references not inside an
   anonymous function that has a parameter named like `from`, in source order); the references bound by such a
   parameter (brefs) are left as they are (since /repo 881a989; before, they were renamed too and the meaning of
   `(webhook) => webhook` changed — finding, repaired); and nothing else changes: the tree with reference names
   blanked (erase) is identical — operators, lookups, literals, parameter lists, Parentheses.  When no free reference
   matches the tree is untouched.  Stated for ANY is_from.  The whole transformation: c11_rename_transformation.
   Tree level; the tie to the text refactor.Template returns is the correspondence run (model/ExRefactorCorr.v) —
   and, for a target that is a NAME, c11_rename_reparse. *)
Theorem c11_rename_exact : forall (is_from : ExSyntax.text -> bool) (to : ExSyntax.text) e,
  frefs is_from (rename is_from to e) = map (fun n => if is_from n then to else n) (frefs is_from e)
  /\ brefs is_from (rename is_from to e) = brefs is_from e
  /\ erase (rename is_from to e) = erase e
  /\ (existsb is_from (frefs is_from e) = false -> rename is_from to e = e).
Proof. exact rename_exact_stmt. Qed.
Print Assumptions c11_rename_exact.

(* The whole transformation function ContextRefRename(from, to) returns (rename_tx): it reports "unchanged" exactly
   when no free reference is named like `from` (then, by c11_identity_rewrite_verbatim, the template text is kept
   verbatim); otherwise it leaves the tree  rename (avoid e)  where avoid is the step that protects the renamed
   references from capture in the OTHER direction (hunt finding C11/1, repaired): every anonymous-function parameter
   named like a name the replacement refers to (target_names: webhook for webhook.json) that has a reference to be
   renamed in its body is given a name nothing else uses, together with the references to it.  When no such
   parameter exists (captures = false for every name of the replacement) avoid changes NOTHING and the transformation
   is exactly the renaming of c11_rename_exact. *)
Theorem c11_rename_transformation : forall (lower : N -> N) (from to : ExSyntax.text) e,
  let isf := is_from lower from in
  let e1 := avoid lower from to (target_names lower to) (used_names lower e) e in
  (existsb isf (frefs isf e) = false -> rename_tx lower from to e = None)
  /\ (existsb isf (frefs isf e) = true -> rename_tx lower from to e = Some (rename isf to e1))
  /\ ((forall m, In m (target_names lower to) -> captures lower from m false e = false) -> e1 = e).
Proof. exact rename_tx_stmt. Qed.
Print Assumptions c11_rename_transformation.

(* ... and after that step NOTHING is captured: in the tree the references are renamed in, no anonymous function with
   a parameter named like a name of the replacement contains a reference that is renamed — for every expression,
   every `from` and every replacement (lower = unicode.ToLower: idempotent, and '_' is its own lower case).  Witness
   rename_capture_witness: foreach(array(1, 2), (bar) => foo & bar), foo renamed to bar, gives
   foreach(array(1, 2), (bar_) => bar & bar_).  Not a theorem: that the parameters given a new name keep binding the
   same references (the new name is not used elsewhere: pick_fresh_spec) — the driver's binding-aware comparison
   and evaluation in the moved context check that on every generated template. *)
Theorem c11_rename_avoids_capture : forall (lower : N -> N) (from to : ExSyntax.text) e,
  (forall c, lower (lower c) = lower c) -> lower 95 = 95 ->
  forall m, In m (target_names lower to) ->
    captures lower from m false (avoid lower from to (target_names lower to) (used_names lower e) e) = false.
Proof. exact rename_avoids_capture_stmt. Qed.
Print Assumptions c11_rename_avoids_capture.

(* ... and that step never MERGES parameters (second hunt, finding C11/2: before its repair two parameters that differ
   only by case, (Bar, bar), both became bar_ and the second argument replaced the first): each parameter keeps its own
   spelling and gets the suffix of the fresh name appended, so in every anonymous function whose parameters have
   pairwise different spellings they still have afterwards (distinct_params).  c11_rename_avoids_capture holds for
   either version of the step - it speaks about capture only, and no hypothesis of it excluded that input; this is
   the statement that does.  Witness rename_case_variant_witness: ((Bar, bar) => foo & bar)("1", "2"), foo renamed to
   bar, gives ((Bar_, bar_) => bar & bar_)("1", "2").  Which of two case variants a reference resolves to (the first
   in A-Z order, XObject.Get) is unchanged because both get the same suffix; that part is the driver's oracle. *)
Theorem c11_rename_keeps_parameters : forall (lower : N -> N) (from to : ExSyntax.text) e,
  (forall c, lower (lower c) = lower c) -> lower 95 = 95 ->
  distinct_params e = true ->
  distinct_params (avoid lower from to (target_names lower to) (used_names lower e) e) = true.
Proof. exact rename_keeps_parameters_stmt. Qed.
Print Assumptions c11_rename_keeps_parameters.

(* The WHOLE rename pipeline reads back (review 2, N1 and N3).  For every source text the models accept, with the side
   conditions of c11_roundtrip_source on the source tree (lower-cased reference names are NAME lexemes and no keywords,
   no text value ends in a backslash), a new name whose lower case is a NAME lexeme and no keyword (pname_ok), and the
   names the replacement refers to likewise (target_names; for a replacement that is a NAME this is the same condition):
   the tree ContextRefRename really leaves, rename_full t = rename (avoid t) - the alpha steps of the capture-avoiding
   step INCLUDED, i.e. also on the inputs of hunt findings C11/1 and second-wave C11/2 - is printed to a text that lexes,
   parses back to exactly norm (rename_full t), and whose tokens are kind by kind the tokens of the source (so rule
   nesting is that of the source).  Proof: the simultaneous induction over the six parser functions of c11_reparse_tokens,
   generalised to a name-map STATE that follows the alpha steps (proofs/ExRoundtrip.v: greparse_tokens with state,
   proofs/ExRenameFull.v: the instance), and the glue conditions carried through the renaming (proofs/ExRenameGlue.v:
   parameters only get underscores appended, new references are name ++ underscores).  Hypotheses on lower: idempotent,
   fixes the underscore (facts of unicode.ToLower, swept over all code points on every run).  Witness that the
   hypotheses hold where the alpha step fires: rename_full_source_witness. *)
Theorem c11_rename_full_reparse : forall (lower : N -> N) (printable : N -> bool) (from to : ExSyntax.text) inp ts t,
  printable 10 = false -> (forall c, lower (lower c) = lower c) -> lower 95 = 95 -> valid_codepoints inp ->
  lex inp = LOk ts -> parse_tokens ts = POk t ->
  refs_ok lower t = true -> texts_ok t = true ->
  pname_ok (map lower to) = true -> (forall n, In n (target_names lower to) -> pname_ok n = true) ->
  let r := rename_full lower from to t in
  exists ts', lex (print lower printable r) = LOk ts' /\ parse_tokens ts' = POk (norm lower r) /\ alike ts ts'.
Proof. exact rename_full_source_stmt. Qed.
Print Assumptions c11_rename_full_reparse.

(* ... and therefore NO SPURIOUS ERROR: under the same conditions, when some free reference is named like `from`,
   refactor.expression with the rename transformation returns exactly the printed renamed tree - its read-back step
   succeeds; it answers neither with an error nor outside the model.  (This is the converse with content that
   c11_refactor_output_parses lacked.) *)
Theorem c11_rename_no_spurious_error : forall (lower : N -> N) (printable : N -> bool) (from to : ExSyntax.text) inp ts t,
  printable 10 = false -> (forall c, lower (lower c) = lower c) -> lower 95 = 95 -> valid_codepoints inp ->
  lex inp = LOk ts -> parse_tokens ts = POk t ->
  refs_ok lower t = true -> texts_ok t = true ->
  pname_ok (map lower to) = true -> (forall n, In n (target_names lower to) -> pname_ok n = true) ->
  existsb (is_from lower from) (frefs (is_from lower from) t) = true ->
  refactor_expression lower printable (rename_tx lower from to) inp = ROk (print lower printable (rename_full lower from to t)).
Proof. exact rename_no_spurious_error_source_stmt. Qed.
Print Assumptions c11_rename_no_spurious_error.

(* "evaluates to the same value": PARTIAL — on the expression fragment model/ExTemplate.v evaluates (text
   literals, null, context properties, parentheses, &) the normalised tree evaluates exactly like the original in
   every context (context lookup is case-insensitive).  Missing: numbers, the other operators, lookups, function
   calls — there the statement is carried by the direct oracle R1 (5 random contexts per expression). *)
Theorem c11_eval_preserved_partial : forall (lower : N -> N) ctx e,
  (forall c, lower (lower c) = lower c) ->
  eval_frag lower ctx (norm lower e) = eval_frag lower ctx e.
Proof. exact eval_preserved_stmt. Qed.
Print Assumptions c11_eval_preserved_partial.

(* First sentence, on TEXT: for every source text (valid code points) that the lexer and parser models accept, with
   tree t, IF the printed text is glue-free — glue_free t, a decidable condition on the items Expression.String()
   writes: every printed token is a lexeme of its kind and the character after it cannot extend it (a NAME is not
   a keyword and is not followed by a name character, an INTEGER not by a digit or ".digit", a text literal whose
   value ends in a backslash is not followed by a later quote, "=" "<" ">" are not followed by the character that
   would make "=>" "<=" ">=", a space is followed by something that is not white space) — THEN lexing the printed
   text succeeds, parsing it yields exactly norm t, and printing that is the same text (fixed point after one
   round).  PARTIAL: the side condition is needed (next theorem); it holds e.g. for the repaired `foo.1 .2`
   (Example glue_free_witness). *)
Theorem c11_roundtrip_partial : forall (lower : N -> N) (printable : N -> bool) inp ts t,
  printable 10 = false -> (forall c, lower (lower c) = lower c) -> valid_codepoints inp ->
  lex inp = LOk ts -> parse_tokens ts = POk t ->
  glue_free lower printable t = true ->
  exists ts', lex (print lower printable t) = LOk ts'
              /\ parse_tokens ts' = POk (norm lower t)
              /\ print lower printable (norm lower t) = print lower printable t.
Proof. exact roundtrip_stmt. Qed.
Print Assumptions c11_roundtrip_partial.

(* The full statement (without glue_free) is refuted by two parseable sources whose printed text is a syntax
   error: the name U+13A0 (its lower-case form U+AB70 is not a letter of the grammar) and  "a\x5c" & "b"  (the value
   of the first literal ends in a backslash; printed with a trailing backslash-backslash-quote the TEXT rule reads on
   to the next quote).  Both are known findings (grammar-rooted). *)
Theorem c11_roundtrip_refuted :
  exists (lower : N -> N) (printable : N -> bool) inp1 inp2,
    printable 10 = false /\ (forall c, lower (lower c) = lower c) /\ valid_codepoints inp1 /\ valid_codepoints inp2 /\
    (exists ts t, lex inp1 = LOk ts /\ parse_tokens ts = POk t /\
       exists ts', lex (print lower printable t) = LOk ts' /\ parse_tokens ts' = PSyntax) /\
    (exists ts t, lex inp2 = LOk ts /\ parse_tokens ts = POk t /\
       exists ts', lex (print lower printable t) = LOk ts' /\ parse_tokens ts' = PSyntax).
Proof. exact roundtrip_refuted. Qed.
Print Assumptions c11_roundtrip_refuted.

(* Totality of the parser model: for EVERY token list the fuel parse_tokens passes (6 * length + 10) is enough — the
   model never answers "out of fuel"; so "accepted by the models" (the hypothesis parse_tokens ts = POk t of the
   theorems above) excludes nothing but syntax errors and literals outside the code-point model.  The LEXER half is
   not proved total: lex inp = LOk ts is a hypothesis of every round-trip theorem and no lemma excludes the answers
   LFuel / LNoRule (review 2, N5). *)
Theorem c11_parse_total : forall ts,
  (exists t, parse_tokens ts = POk t) \/ parse_tokens ts = PSyntax \/ parse_tokens ts = POutside.
Proof. exact parse_total_stmt. Qed.
Print Assumptions c11_parse_total.

(* Renaming tied to the output: for every accepted source with tree t, the tokens Expression.String() writes for the
   RENAMED tree parse back to exactly norm (rename t) — same shape, the free matching references carrying the new name
   (lower-cased), the bound ones and everything else as before; and when the printed text of the renamed tree is
   glue-free (in particular the new name must be a NAME lexeme and no keyword) the TEXT refactor.Template writes for
   the expression lexes and parses to that tree.  Not covered: a dotted target such as the production call's
   to = "webhook.json" (13_x.go:192), whose printed form `webhook.json` deliberately re-parses as a dot lookup on
   `webhook` — glue_free is false for it (not a NAME lexeme); that case is tied by the correspondence run only. *)
Theorem c11_rename_reparse : forall (lower : N -> N) (printable : N -> bool) (is_from : ExSyntax.text -> bool) (to : ExSyntax.text) inp ts t,
  printable 10 = false -> valid_codepoints inp ->
  lex inp = LOk ts -> parse_tokens ts = POk t ->
  parse_tokens (ptoks lower printable (rename is_from to t)) = POk (norm lower (rename is_from to t))
  /\ (glue_free lower printable (rename is_from to t) = true ->
      exists ts', lex (print lower printable (rename is_from to t)) = LOk ts'
                  /\ parse_tokens ts' = POk (norm lower (rename is_from to t))).
Proof. exact rename_reparse_stmt. Qed.
Print Assumptions c11_rename_reparse.

(* First sentence, on text, with the side condition stated on the SOURCE tree (this sizes the "partial" of
   c11_roundtrip_partial): for every source text (valid code points) that the models accept, with tree t, if
     (i)  refs_ok lower t: the LOWER-CASED name of every context reference is still a NAME lexeme and no keyword, and
     (ii) texts_ok t: no text literal's value ends in a backslash,
   then the printed text lexes, parses to exactly norm t, and prints to the same text again.  Everything else the
   printer writes can never glue, for the trees the parser builds from the lexer's tokens: operator and punctuation
   symbols, numbers after re-rendering, true/false/null, the separating space between numeric lookups (205f8a3),
   and the names copied from the source — parameters of anonymous functions and non-numeric lookups are NAME
   tokens, hence names and no keywords (proofs/ExTokName.v: had the text been true/false/null, that earlier rule of
   the same length would have won) — and containers of lookups and calls are atoms, literals carry lexemes
   (proofs/ExTreeWf.v).  (i) fails for the Cherokee witness, (ii) for the backslash witness of
   c11_roundtrip_refuted (Example source_conditions_witness), i.e. exactly the two known findings; (ii) is slightly
   stronger than necessary (a value ending in a backslash is harmless when no quote follows it in the printed text). *)
Theorem c11_roundtrip_source : forall (lower : N -> N) (printable : N -> bool) inp ts t,
  printable 10 = false -> (forall c, lower (lower c) = lower c) -> valid_codepoints inp ->
  lex inp = LOk ts -> parse_tokens ts = POk t ->
  refs_ok lower t = true -> texts_ok t = true ->
  exists ts', lex (print lower printable t) = LOk ts'
              /\ parse_tokens ts' = POk (norm lower t)
              /\ print lower printable (norm lower t) = print lower printable t.
Proof. exact roundtrip_source_stmt. Qed.
Print Assumptions c11_roundtrip_source.
