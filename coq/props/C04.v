(* C04 — Expression and template evaluation is total.
   Statements only; proofs are in proofs/ExEvalProofs.v and proofs/ExArgIndexProofs.v.
   Model: model/ExValues.v, model/ExEval.v (hand-written, tied by correspondence), model/ExArgIndex.v +
   gen/ArgIndex.v (tables regenerated from /repo by translators/cmd/argindex on every run).

   [call_function wclass regex ext f args] is XFUNCTIONS[f].Call(env, args) of the model: wrapper (arity check,
   conversions) + body; result [Ret v] (v may be the error value VErr), [Panic c] (c = class of the Go panic) or
   [NoFuel].  wclass / regex / ext are the unmodelled Unicode classes, regexp library and remaining functions:
   every statement holds for all of them. *)
From Coq Require Import ZArith NArith List Bool String.
From Verif Require Import lib.Dec model.NumText model.ExValues model.ExEval model.ExArgIndex gen.ArgIndex
  proofs.ExEvalProofs proofs.ExEvalBudget proofs.ExArgIndexProofs model.ExLambda proofs.ExLambdaProofs.
Import ListNotations.

(* ---- (a) the modelled builtins never panic: ALL argument lists of ALL lengths, all panic classes ---- *)

Theorem c04_word_no_panic : forall wclass regex ext args c,
  call_function wclass regex ext FWord args <> Panic c.
Proof. exact word_no_panic. Qed.
Print Assumptions c04_word_no_panic.

Theorem c04_word_slice_no_panic : forall wclass regex ext args c,
  call_function wclass regex ext FWordSlice args <> Panic c.
Proof. exact word_slice_no_panic. Qed.
Print Assumptions c04_word_slice_no_panic.

Theorem c04_field_no_panic : forall wclass regex ext args c,
  call_function wclass regex ext FField args <> Panic c.
Proof. exact field_no_panic. Qed.
Print Assumptions c04_field_no_panic.

Theorem c04_text_slice_no_panic : forall wclass regex ext args c,
  call_function wclass regex ext FTextSlice args <> Panic c.
Proof. exact text_slice_no_panic. Qed.
Print Assumptions c04_text_slice_no_panic.

Theorem c04_char_no_panic : forall wclass regex ext args c,
  call_function wclass regex ext FChar args <> Panic c.
Proof. exact char_no_panic. Qed.
Print Assumptions c04_char_no_panic.

Theorem c04_repeat_no_panic : forall wclass regex ext args c,
  call_function wclass regex ext FRepeat args <> Panic c.
Proof. exact repeat_no_panic. Qed.
Print Assumptions c04_repeat_no_panic.

Theorem c04_replace_no_panic : forall wclass regex ext args c,
  call_function wclass regex ext FReplace args <> Panic c.
Proof. exact replace_no_panic. Qed.
Print Assumptions c04_replace_no_panic.

Theorem c04_round_no_panic : forall wclass regex ext args c,
  call_function wclass regex ext FRound args <> Panic c.
Proof. exact round_no_panic. Qed.
Print Assumptions c04_round_no_panic.

Theorem c04_round_up_no_panic : forall wclass regex ext args c,
  call_function wclass regex ext FRoundUp args <> Panic c.
Proof. exact round_up_no_panic. Qed.
Print Assumptions c04_round_up_no_panic.

Theorem c04_round_down_no_panic : forall wclass regex ext args c,
  call_function wclass regex ext FRoundDown args <> Panic c.
Proof. exact round_down_no_panic. Qed.
Print Assumptions c04_round_down_no_panic.

Theorem c04_max_no_panic : forall wclass regex ext args c,
  call_function wclass regex ext FMax args <> Panic c.
Proof. exact max_no_panic. Qed.
Print Assumptions c04_max_no_panic.

Theorem c04_min_no_panic : forall wclass regex ext args c,
  call_function wclass regex ext FMin args <> Panic c.
Proof. exact min_no_panic. Qed.
Print Assumptions c04_min_no_panic.

(* ARGUMENT HANDLING ONLY: the model replaces the body's computation (FormatCustom / dates.NewDate / NewTimeOfDay /
   time.Add, AddDate, ToXDateTime's parser) by a constant of the right kind; what is proved is that the wrapper,
   the conversions and the guards before it never panic *)
Theorem c04_format_number_args_no_panic : forall wclass regex ext args c,
  call_function wclass regex ext FFormatNumber args <> Panic c.
Proof. exact format_number_no_panic. Qed.
Print Assumptions c04_format_number_args_no_panic.

(* ARGUMENT HANDLING ONLY: the model replaces the body's computation (FormatCustom / dates.NewDate / NewTimeOfDay /
   time.Add, AddDate, ToXDateTime's parser) by a constant of the right kind; what is proved is that the wrapper,
   the conversions and the guards before it never panic *)
Theorem c04_date_from_parts_args_no_panic : forall wclass regex ext args c,
  call_function wclass regex ext FDateFromParts args <> Panic c.
Proof. exact date_from_parts_no_panic. Qed.
Print Assumptions c04_date_from_parts_args_no_panic.

(* ARGUMENT HANDLING ONLY: the model replaces the body's computation (FormatCustom / dates.NewDate / NewTimeOfDay /
   time.Add, AddDate, ToXDateTime's parser) by a constant of the right kind; what is proved is that the wrapper,
   the conversions and the guards before it never panic *)
Theorem c04_time_from_parts_args_no_panic : forall wclass regex ext args c,
  call_function wclass regex ext FTimeFromParts args <> Panic c.
Proof. exact time_from_parts_no_panic. Qed.
Print Assumptions c04_time_from_parts_args_no_panic.

(* ARGUMENT HANDLING ONLY: the model replaces the body's computation (FormatCustom / dates.NewDate / NewTimeOfDay /
   time.Add, AddDate, ToXDateTime's parser) by a constant of the right kind; what is proved is that the wrapper,
   the conversions and the guards before it never panic *)
Theorem c04_datetime_add_args_no_panic : forall wclass regex ext args c,
  call_function wclass regex ext FDateTimeAdd args <> Panic c.
Proof. exact datetime_add_no_panic. Qed.
Print Assumptions c04_datetime_add_args_no_panic.

Theorem c04_array_no_panic : forall wclass regex ext args c,
  call_function wclass regex ext FArray args <> Panic c.
Proof. exact array_no_panic. Qed.
Print Assumptions c04_array_no_panic.

Theorem c04_object_no_panic : forall wclass regex ext args c,
  call_function wclass regex ext FObject args <> Panic c.
Proof. exact object_no_panic. Qed.
Print Assumptions c04_object_no_panic.

Theorem c04_extract_object_no_panic : forall wclass regex ext args c,
  call_function wclass regex ext FExtractObject args <> Panic c.
Proof. exact extract_object_no_panic. Qed.
Print Assumptions c04_extract_object_no_panic.

Theorem c04_regex_match_no_panic : forall wclass regex ext args c,
  call_function wclass regex ext FRegexMatch args <> Panic c.
Proof. exact regex_match_no_panic. Qed.
Print Assumptions c04_regex_match_no_panic.

Theorem c04_has_group_no_panic : forall wclass regex ext args c,
  call_function wclass regex ext FHasGroup args <> Panic c.
Proof. exact has_group_no_panic. Qed.
Print Assumptions c04_has_group_no_panic.

Theorem c04_text_no_panic : forall wclass regex ext args c,
  call_function wclass regex ext FText args <> Panic c.
Proof. exact text_no_panic. Qed.
Print Assumptions c04_text_no_panic.

Theorem c04_number_no_panic : forall wclass regex ext args c,
  call_function wclass regex ext FNumber args <> Panic c.
Proof. exact number_no_panic. Qed.
Print Assumptions c04_number_no_panic.

Theorem c04_boolean_no_panic : forall wclass regex ext args c,
  call_function wclass regex ext FBoolean args <> Panic c.
Proof. exact boolean_no_panic. Qed.
Print Assumptions c04_boolean_no_panic.

Theorem c04_and_no_panic : forall wclass regex ext args c,
  call_function wclass regex ext FAnd args <> Panic c.
Proof. exact and_no_panic. Qed.
Print Assumptions c04_and_no_panic.

Theorem c04_or_no_panic : forall wclass regex ext args c,
  call_function wclass regex ext FOr args <> Panic c.
Proof. exact or_no_panic. Qed.
Print Assumptions c04_or_no_panic.

Theorem c04_if_no_panic : forall wclass regex ext args c,
  call_function wclass regex ext FIf args <> Panic c.
Proof. exact if_no_panic. Qed.
Print Assumptions c04_if_no_panic.

Theorem c04_abs_no_panic : forall wclass regex ext args c,
  call_function wclass regex ext FAbs args <> Panic c.
Proof. exact abs_no_panic. Qed.
Print Assumptions c04_abs_no_panic.

Theorem c04_count_no_panic : forall wclass regex ext args c,
  call_function wclass regex ext FCount args <> Panic c.
Proof. exact count_no_panic. Qed.
Print Assumptions c04_count_no_panic.

Theorem c04_default_no_panic : forall wclass regex ext args c,
  call_function wclass regex ext FDefault args <> Panic c.
Proof. exact default_no_panic. Qed.
Print Assumptions c04_default_no_panic.

Theorem c04_join_no_panic : forall wclass regex ext args c,
  call_function wclass regex ext FJoin args <> Panic c.
Proof. exact join_no_panic. Qed.
Print Assumptions c04_join_no_panic.

Theorem c04_reverse_no_panic : forall wclass regex ext args c,
  call_function wclass regex ext FReverse args <> Panic c.
Proof. exact reverse_no_panic. Qed.
Print Assumptions c04_reverse_no_panic.

Theorem c04_sum_no_panic : forall wclass regex ext args c,
  call_function wclass regex ext FSum args <> Panic c.
Proof. exact sum_no_panic. Qed.
Print Assumptions c04_sum_no_panic.

Theorem c04_concat_no_panic : forall wclass regex ext args c,
  call_function wclass regex ext FConcat args <> Panic c.
Proof. exact concat_no_panic. Qed.
Print Assumptions c04_concat_no_panic.

Theorem c04_is_error_no_panic : forall wclass regex ext args c,
  call_function wclass regex ext FIsError args <> Panic c.
Proof. exact is_error_no_panic. Qed.
Print Assumptions c04_is_error_no_panic.

Theorem c04_text_length_no_panic : forall wclass regex ext args c,
  call_function wclass regex ext FTextLength args <> Panic c.
Proof. exact text_length_no_panic. Qed.
Print Assumptions c04_text_length_no_panic.

Theorem c04_text_compare_no_panic : forall wclass regex ext args c,
  call_function wclass regex ext FTextCompare args <> Panic c.
Proof. exact text_compare_no_panic. Qed.
Print Assumptions c04_text_compare_no_panic.

(* ---- builtins that reach Decimal.Mul / Decimal.QuoRem: the zero-divisor and arity guards hold (no bounds or
   division-by-zero panic for any arguments); what is NOT excluded is the decimal library's own panic when
   exponents are more than 2^31 apart (proofs/ExEvalProofs.v quorem_exponent_panics: a model-level witness; no
   evaluation produces such numbers since * and ^ limit exponents to +-100000, an invariant NOT proved here) ---- *)

Theorem c04_mod_panics_only_on_exponent_overflow_partial : forall wclass regex ext args c,
  call_function wclass regex ext FMod args = Panic c -> c = PExponent.
Proof. exact mod_exponent_only. Qed.
Print Assumptions c04_mod_panics_only_on_exponent_overflow_partial.

Theorem c04_mean_panics_only_on_exponent_overflow_partial : forall wclass regex ext args c,
  call_function wclass regex ext FMean args = Panic c -> c = PExponent.
Proof. exact mean_exponent_only. Qed.
Print Assumptions c04_mean_panics_only_on_exponent_overflow_partial.

Theorem c04_percent_panics_only_on_exponent_overflow_partial : forall wclass regex ext args c,
  call_function wclass regex ext FPercent args = Panic c -> c = PExponent.
Proof. exact percent_exponent_only. Qed.
Print Assumptions c04_percent_panics_only_on_exponent_overflow_partial.

(* F4a: mod with a zero divisor is an error VALUE *)
Theorem c04_mod_zero_divisor_is_error : forall wclass regex ext x y dx dy,
  to_number x = Ok dx -> to_number y = Ok dy -> mant dy = 0%Z ->
  call_function wclass regex ext FMod [x; y] = Ret VErr.
Proof. exact mod_zero_divisor. Qed.
Print Assumptions c04_mod_zero_divisor_is_error.

(* the / operator: a zero divisor is an error value *)
Theorem c04_divide_by_zero_is_error : forall frac_pow x y n1 n2,
  to_number x = Ok n1 -> to_number y = Ok n2 -> mant n2 = 0%Z -> eval_binop frac_pow ODiv x y = Ret VErr.
Proof. exact eval_div_zero. Qed.
Print Assumptions c04_divide_by_zero_is_error.

(* ---- THE EXPONENT INVARIANT of the arithmetic (proof extension; review-2 findings N2 / N5).
   vbound B v: every number that v denotes - as a number, as a numeric text, through an object default, inside an array
   or object - has its decimal exponent within +-B.
   (1) Every operator except & keeps it, for ANY B >= 100000 (maxNumberExponent) and all operands: + and - give the
   smaller of the two exponents, * and ^ (whole power, after canonical form) are guarded to +-100000, / and a negative
   power give -16, comparisons give booleans.  One invariant preserved by every operator, instead of a guard restated
   per operator.  (& builds a text: its bound is the length theorem c04_concatenation_result_bounded; a non-integral
   power has an unmodelled value.) ---- *)
Theorem c04_arithmetic_keeps_exponent_bound : forall frac_pow B op x y v,
  (max_number_exponent <= B)%Z -> vbound B x = true -> vbound B y = true -> op <> OConcat ->
  (op = OPow -> forall n2, to_number y = Ok n2 -> dec_is_integer (dec_canonical n2) = true) ->
  eval_binop frac_pow op x y = Ret v -> vbound B v = true.
Proof. exact arithmetic_keeps_exponent_bound. Qed.
Print Assumptions c04_arithmetic_keeps_exponent_bound.

(* (2) ... and so does every TREE of them: for the arithmetic fragment of the evaluator (arith: literals, context
   references, dot and index lookups, unary minus, + - * /, the comparisons, = and !=, ^ with a whole-number literal
   power; no calls, no &), over literals and a context within +-B, every value the evaluator returns is within +-B,
   however deep the tree.  No evaluation of this fragment builds an exponent beyond the larger of 100000 and what it
   was given. *)
Theorem c04_arithmetic_tree_keeps_exponent_bound : forall wclass regex ext frac_pow lookup_function B ctx e v,
  (max_number_exponent <= B)%Z -> vbound B (VObject None ctx) = true -> arith e -> literals_within B e ->
  eval wclass regex ext frac_pow lookup_function ctx e = Ret v -> vbound B v = true.
Proof. exact arithmetic_tree_keeps_exponent_bound. Qed.
Print Assumptions c04_arithmetic_tree_keeps_exponent_bound.

(* (3) Hence, for that fragment over a context and literals within +-10^9, the evaluator NEVER panics (no class
   excepted) and never runs out of the model's fuel: the FULL statement, with no hypothesis on the unmodelled functions
   or on the series part of ^ (the fragment uses neither) - what c04_eval_panics_only_on_exponent_overflow_partial
   leaves open for the whole language.  The fragment and the hypotheses are inhabited
   (Example arithmetic_fragment_inhabited). *)
Theorem c04_arithmetic_tree_never_panics : forall wclass regex ext frac_pow lookup_function ctx e,
  vbound exponent_budget (VObject None ctx) = true -> arith e -> literals_within exponent_budget e ->
  eval wclass regex ext frac_pow lookup_function ctx e <> NoFuel /\
  forall c, eval wclass regex ext frac_pow lookup_function ctx e <> Panic c.
Proof. exact arithmetic_tree_never_panics_statement. Qed.
Print Assumptions c04_arithmetic_tree_never_panics.

(* array lookup: an index outside [-count, count) is an error value; inside, never a panic *)
Theorem c04_index_out_of_range_is_error : forall items l index dot,
  to_integer l = Ok index -> (zlen items <= index \/ index < - zlen items)%Z ->
  resolve_lookup (VArray items) l dot = Ret VErr.
Proof. exact resolve_lookup_out_of_range. Qed.
Print Assumptions c04_index_out_of_range_is_error.

Theorem c04_lookup_no_panic : forall container lookup dot c, resolve_lookup container lookup dot <> Panic c.
Proof. exact lookup_no_panic. Qed.
Print Assumptions c04_lookup_no_panic.

(* ToInteger: whatever passes is an int32 — the test is applied to the int64-WRAPPED integer part *)
Theorem c04_to_integer_in_int32 : forall v i, to_integer v = Ok i -> (int32_min <= i <= int32_max)%Z.
Proof. exact to_integer_range. Qed.
Print Assumptions c04_to_integer_in_int32.

(* a rejected argument count is an error value *)
Theorem c04_arity_rejected_is_error : forall min max f args,
  ~ admitted min max (List.length args) -> min_max_args min max f args = Ret VErr.
Proof. exact arity_rejected_is_error. Qed.
Print Assumptions c04_arity_rejected_is_error.

(* ---- function values (foreach) and the tree evaluator, by induction over the expression: whatever the
   context and the expression, the only panic left is the decimal exponent overflow.
   This is a statement about PROPAGATION: no node of the tree adds a panic to what the called functions can do.
   PARTIAL: (0) the context is a finite static object: lazily built objects/arrays (run and contact context, JSON)
   are Go closures outside the model; (1) hypothesis ext_well_behaved on the functions outside the modelled set
   and frac_pow_well_behaved on the series part of non-integral powers: they return, or panic with
   the exponent class only (they are covered by the sweep only; satisfiable: ext_hypothesis_satisfiable);
   (2) anonymous functions are outside the expression type; (3) the exponent class itself ---- *)

Theorem c04_call_panics_only_on_exponent_overflow_partial : forall wclass regex ext,
  ext_well_behaved ext ->
  forall f args c, call_function wclass regex ext f args = Panic c -> c = PExponent.
Proof. exact call_function_exponent_only. Qed.
Print Assumptions c04_call_panics_only_on_exponent_overflow_partial.

Theorem c04_eval_panics_only_on_exponent_overflow_partial : forall wclass regex ext frac_pow lookup_function,
  ext_well_behaved ext -> frac_pow_well_behaved frac_pow ->
  forall ctx e, eval wclass regex ext frac_pow lookup_function ctx e <> NoFuel /\
                forall c, eval wclass regex ext frac_pow lookup_function ctx e = Panic c -> c = PExponent.
Proof. exact eval_statement. Qed.
Print Assumptions c04_eval_panics_only_on_exponent_overflow_partial.

(* WHERE the remaining class can come from: [eval_b B] is the same evaluator with an exponent budget — every value
   passed between two nodes (literal, context value, lookup key, parameter, operand, result) must denote only numbers
   with decimal exponent within +-B, as a number, as numeric text, through an object default or inside a container;
   None = budget exceeded.  With B = 10^9: a panic OF ANY CLASS (or running out of fuel) of the evaluator implies
   that the budget was exceeded, i.e. that some intermediate value carries an exponent beyond +-10^9 (a numeric
   text of a gigabyte: * and ^ limit exponents to +-100000, / and mean give -16).  Without such a size bound the
   statement is false of the model and of the decimal library: a number with an exponent near -2^31 handed in by the
   CALLER (a context value; model-level witness quorem_exponent_panics) makes Decimal.QuoRem panic.  An EXPRESSION can
   no longer build such a number from a bounded context: repeat gives at most 10^5 characters, &, replace and join at
   most 10^6 bytes, ToXText refuses beyond 10^6, JSON exponents are limited to 1000, * and ^ to +-10^5 (the former
   witness number("0." & repeat("0", 2147483000) & "1") / 1E1000 is an error VALUE since 72c2828 / 664d88e, in goflow
   and in the model).  That no evaluation over a context within the budget leaves the budget is therefore plausible
   in this model, but it is NOT proved here: the statement below stays conditional on the budget.  Hypotheses: the 79 unmodelled functions and the series part of ^ do not panic
   (satisfiable: budget_hypotheses_satisfiable); they are covered by the sweep only. *)
Theorem c04_eval_panic_exceeds_exponent_budget : forall wclass regex ext frac_pow lookup_function,
  ext_total ext -> frac_pow_total frac_pow ->
  forall ctx e,
    (exists c, eval wclass regex ext frac_pow lookup_function ctx e = Panic c)
    \/ eval wclass regex ext frac_pow lookup_function ctx e = NoFuel ->
    eval_b wclass regex ext frac_pow lookup_function exponent_budget ctx e = None.
Proof. exact eval_panic_exceeds_budget. Qed.
Print Assumptions c04_eval_panic_exceeds_exponent_budget.

(* within budget the budgeted evaluator IS the evaluator (so the statement above is about eval, not a weaker copy) *)
Theorem c04_budgeted_eval_agrees : forall wclass regex ext frac_pow lookup_function B ctx e r,
  eval_b wclass regex ext frac_pow lookup_function B ctx e = Some r ->
  eval wclass regex ext frac_pow lookup_function ctx e = r.
Proof. exact eval_b_agrees. Qed.
Print Assumptions c04_budgeted_eval_agrees.

(* none of the above is true because the model ran out of fuel: the fuel-bounded loops of the model (object
   pairs, has_group, nesting of foreach) always finish *)
Theorem c04_builtins_never_out_of_fuel : forall wclass regex ext f args,
  exponent_free f = true -> call_function wclass regex ext f args <> NoFuel.
Proof. exact builtin_fuel. Qed.
Print Assumptions c04_builtins_never_out_of_fuel.

Theorem c04_call_never_out_of_fuel : forall wclass regex ext,
  ext_well_behaved ext -> forall f args, call_function wclass regex ext f args <> NoFuel.
Proof. exact call_function_fuel. Qed.
Print Assumptions c04_call_never_out_of_fuel.

(* every operator other than / and ^ : no panic of any class, for all operands (Multiply checks the exponent) *)
Theorem c04_operators_no_panic : forall frac_pow op x y c,
  op <> ODiv -> op <> OPow -> eval_binop frac_pow op x y <> Panic c.
Proof. exact binop_no_panic_statement. Qed.
Print Assumptions c04_operators_no_panic.

(* ^ with a WHOLE power (after canonical form): no panic of any class for any base — the three guards of
   operators.Exponent keep PowBigInt's multiplications and the DivRound of a negative power inside int32 *)
Theorem c04_power_integral_no_panic : forall frac_pow x y n2 c,
  to_number y = Ok n2 -> dec_is_integer (dec_canonical n2) = true -> eval_binop frac_pow OPow x y <> Panic c.
Proof. exact power_integral_no_panic. Qed.
Print Assumptions c04_power_integral_no_panic.

(* ^ with ANY power. PARTIAL: for a non-integral power the whole-part computation is modelled and adds no panic;
   the series part of the library (Ln, ExpTaylor, final Mul) is NOT modelled and is assumed to panic at most with
   the exponent class (frac_pow_well_behaved; satisfiable: frac_pow_hypothesis_satisfiable); it is exercised by the
   sweep only *)
Theorem c04_power_panics_only_on_exponent_overflow_partial : forall frac_pow x y c,
  frac_pow_well_behaved frac_pow -> eval_binop frac_pow OPow x y = Panic c -> c = PExponent.
Proof. exact power_exponent_only. Qed.
Print Assumptions c04_power_panics_only_on_exponent_overflow_partial.

(* a product whose decimal exponent would leave +-100000 is an error value
   (`@(0.1 ^ 100000 * 0.1 ^ 100000)`; before the repair `@(0.1 ^ 2000000000 * 0.1 ^ 2000000000)` panicked) *)
Theorem c04_multiply_out_of_range_is_error : forall frac_pow x y n1 n2, to_number x = Ok n1 -> to_number y = Ok n2 ->
  (dexp (dec_canonical n1) + dexp (dec_canonical n2) < - max_number_exponent
   \/ max_number_exponent < dexp (dec_canonical n1) + dexp (dec_canonical n2))%Z ->
  eval_binop frac_pow OMul x y = Ret VErr.
Proof. exact multiply_out_of_range. Qed.
Print Assumptions c04_multiply_out_of_range_is_error.

(* a power whose decimal exponent would leave +-100000 is an error value (`@(0.001 ^ 999999999)` panicked) *)
Theorem c04_power_out_of_range_is_error : forall frac_pow x y n1 n2, to_number x = Ok n1 -> to_number y = Ok n2 ->
  (dexp (dec_canonical n1) * dec_trunc (dec_canonical n2) < - max_number_exponent
   \/ max_number_exponent < dexp (dec_canonical n1) * dec_trunc (dec_canonical n2))%Z ->
  eval_binop frac_pow OPow x y = Ret VErr.
Proof. exact pow_out_of_range. Qed.
Print Assumptions c04_power_out_of_range_is_error.

(* the limits and results of * and ^ depend on the VALUE of a number, not on how it was written: numerically equal
   decimals (0.10 and 0.1, 1E3 and 1000) have the same canonical form, on which both operators work
   (before the repair `@(0.10 ^ 60000)` was an error and `@(0.1 ^ 60000)` a number) *)
Theorem c04_canonical_form_respects_numeric_equality : forall a b, dec_eq a b -> dec_canonical a = dec_canonical b.
Proof. exact canonical_respects_equality. Qed.
Print Assumptions c04_canonical_form_respects_numeric_equality.

Theorem c04_canonical_form_is_equal_number : forall d, is_canonical (dec_canonical d) /\ dec_eq (dec_canonical d) d.
Proof. exact dec_canonical_spec. Qed.
Print Assumptions c04_canonical_form_is_equal_number.

Theorem c04_multiply_power_respect_numeric_equality : forall frac_pow op a a' b b',
  (op = OMul \/ op = OPow) -> dec_eq a a' -> dec_eq b b' ->
  eval_binop frac_pow op (VNum a) (VNum b) = eval_binop frac_pow op (VNum a') (VNum b').
Proof. exact mul_pow_respect_equality. Qed.
Print Assumptions c04_multiply_power_respect_numeric_equality.

(* mod, mean, percent and / : NO panic of any class when the decimal exponents of the numeric arguments are
   within +-10^9 (the library's exponent-overflow panic needs two exponents about 2^31 apart:
   c04_exponent_panic_needs_huge_exponents).  Every number an evaluation produces has an exponent within
   max(100000, length of a text) — that last fact is not proved, which is why the evaluator theorem is _partial *)
Theorem c04_mod_no_panic : forall wclass regex ext args c,
  Forall arg_exp_ok args -> call_function wclass regex ext FMod args <> Panic c.
Proof. exact mod_full. Qed.
Print Assumptions c04_mod_no_panic.

Theorem c04_mean_no_panic : forall wclass regex ext args c,
  Forall arg_exp_ok args -> call_function wclass regex ext FMean args <> Panic c.
Proof. exact mean_full. Qed.
Print Assumptions c04_mean_no_panic.

Theorem c04_percent_no_panic : forall wclass regex ext args c,
  Forall arg_exp_ok args -> call_function wclass regex ext FPercent args <> Panic c.
Proof. exact percent_full. Qed.
Print Assumptions c04_percent_no_panic.

Theorem c04_divide_no_panic : forall frac_pow x y c,
  arg_exp_ok x -> arg_exp_ok y -> eval_binop frac_pow ODiv x y <> Panic c.
Proof. exact divide_full_statement. Qed.
Print Assumptions c04_divide_no_panic.

Theorem c04_exponent_panic_needs_huge_exponents : forall x y p,
  dec_quorem x y p = inl PExponent -> (2147483647 - Z.abs p <= Z.abs (dexp x) + Z.abs (dexp y))%Z.
Proof. exact quorem_exponent_panic_needs_huge_exponents. Qed.
Print Assumptions c04_exponent_panic_needs_huge_exponents.

(* repeat: never more than 100000 characters; an over-limit request is an error value *)
Theorem c04_repeat_result_bounded : forall t count s,
  repeat_body t count = Ret (VText s) -> (zlen s <= max_repeat_length)%Z.
Proof. exact repeat_body_bounded. Qed.
Print Assumptions c04_repeat_result_bounded.

Theorem c04_repeat_over_limit_is_error : forall t count,
  t <> [] -> (max_repeat_length < zlen t * count)%Z -> repeat_body t count = Ret VErr.
Proof. exact repeat_body_over_limit. Qed.
Print Assumptions c04_repeat_over_limit_is_error.

(* ---- size limits (664d88e, 1fba51e, 18919b0, e7a2eae).  Each of these theorems restates a guard of the model ("the limit is
   there, beyond it the result is the error value"); none is the property's clause "time bounded by sizes".  A text that &, replace or join returns is at most 1000000 bytes (UTF-8 length:
   `(x) => x & x` applied 36 times asked for 64 GB); concat returns at most 1000000 items; the digits of the canonical
   factors of a product add up to at most 100000 (`(x) => x * x` applied 40 times doubled the digits each time: the
   exponent limit did not see it); what foreach collects costs at most 1000000 in total; a value that is converted
   to text (ToXText) is nil, a text (returned as it is, 18919b0) or costs at most 1000000, where the cost (value_cost:
   types.spendSize) counts every value, the bytes of texts and property names and the digits of numbers (not the
   nesting depth, e7a2eae) — a value can hold the
   same sub-value many times over, so neither its memory nor the expression that built it bound what is written ---- *)
Theorem c04_concatenation_result_bounded : forall frac_pow x y, text_within (eval_binop frac_pow OConcat x y).
Proof. exact concat_op_within. Qed.
Print Assumptions c04_concatenation_result_bounded.

Theorem c04_replace_result_bounded : forall wclass regex ext args, text_within (call_function wclass regex ext FReplace args).
Proof. exact replace_result_within. Qed.
Print Assumptions c04_replace_result_bounded.

Theorem c04_join_result_bounded : forall wclass regex ext args, text_within (call_function wclass regex ext FJoin args).
Proof. exact join_result_within. Qed.
Print Assumptions c04_join_result_bounded.

Theorem c04_concat_result_bounded : forall x y items,
  concat_body x y = Ret (VArray items) -> (zlen items <= max_render_size)%Z.
Proof. exact concat_body_within. Qed.
Print Assumptions c04_concat_result_bounded.

Theorem c04_multiply_digits_bounded : forall x y p, mul_body x y = Ret (VNum p) ->
  (num_digits (dec_canonical x) + num_digits (dec_canonical y) <= max_number_exponent)%Z.
Proof. exact mul_body_digits. Qed.
Print Assumptions c04_multiply_digits_bounded.

Theorem c04_foreach_result_bounded : forall wclass regex ext args out,
  call_function wclass regex ext FForEach args = Ret (VArray out) -> (items_cost out <= max_render_size)%Z.
Proof. exact foreach_result_within. Qed.
Print Assumptions c04_foreach_result_bounded.

Theorem c04_converted_value_within_size_budget : forall v t,
  to_text v = Ok t -> v = VNil \/ (exists s, v = VText s) \/ (value_cost false 0 v <= max_render_size)%Z.
Proof. exact to_text_within_budget. Qed.
Print Assumptions c04_converted_value_within_size_budget.

(* ---- work bounded by argument size + result size.  What is counted: the model's own loop for repeat (repeat_loop
   returns the number of cells it wrote: an instrumented execution, not a formula), and DECLARED costs for the
   big-integer primitives, which are atomic in Gallina: Decimal.rescale = digit cells of the coefficient + length
   of the power-of-ten factor it builds (round, round_up, round_down, ToInteger/IntPart of repeat, round*, char;
   + - and the comparisons bring both operands to the smaller exponent).  PARTIAL: cells, not machine time;
   numeric TEXT arguments are assumed at least as long as the number they denote (numbers_sized; true of decimal
   numerals, not proved; satisfiable: numbers_sized_satisfiable); *, /, ^, rendering and the other builtins are
   not counted — "time bounded by size" for them rests on the sweep's watchdog ---- *)
Theorem c04_work_bound_partial : forall wclass regex ext f args, numbers_sized args ->
  (work f args <= work_constant * (args_size args + res_size (call_function wclass regex ext f args) + 1))%N.
Proof. exact work_bound_statement. Qed.
Print Assumptions c04_work_bound_partial.

Theorem c04_binop_work_bound_partial : forall op x y, numbers_sized [x; y] ->
  (binop_work op x y <= 2 * (value_size x + value_size y))%N.
Proof. exact binop_work_bound. Qed.
Print Assumptions c04_binop_work_bound_partial.

(* ---- (b) obligations over the tables regenerated from the source ---- *)

Theorem c04_arg_index_safe : forallb (site_ok registrations) arg_index_sites = true.
Proof. exact arg_index_safe. Qed.
Print Assumptions c04_arg_index_safe.

Theorem c04_arg_index_sites_owned : forallb (site_owned registrations) arg_index_sites = true.
Proof. exact arg_index_sites_owned. Qed.
Print Assumptions c04_arg_index_sites_owned.

(* the same for constant indexes into other slices (words[0], states[0], possibilities[0], ...) of builtin.go and
   tests.go: the len guards around each site imply the index for every length (two sites justified by name: exactly the site
   X[0] of each name, and exactly one such site each; any other index or a slice of those names is checked like the
   rest, Example exemption_is_pinned) *)
Theorem c04_local_index_sites_safe :
  forallb local_site_ok local_index_sites = true /\ local_sites_exempt_once local_index_sites = true.
Proof. exact local_index_sites_safe. Qed.
Print Assumptions c04_local_index_sites_safe.

Theorem c04_dynamic_index_sites_covered : dynamic_ok dynamic_sites = true.
Proof. exact dynamic_sites_covered. Qed.
Print Assumptions c04_dynamic_index_sites_covered.

Theorem c04_model_registry_in_source : registry_matches registrations = true.
Proof. exact model_registry_in_source. Qed.
Print Assumptions c04_model_registry_in_source.

Theorem c04_rounding_places_guarded :
  max_rounding_places_src = max_rounding_places /\ forallb snd rounding_guarded = true
  /\ List.length rounding_guarded = 3%nat.
Proof. exact rounding_places_guarded. Qed.
Print Assumptions c04_rounding_places_guarded.

Theorem c04_base_arity_checks_as_model :
  forallb snd base_arity_checks = true /\ List.length base_arity_checks = 3%nat.
Proof. exact base_arity_checks_as_model. Qed.
Print Assumptions c04_base_arity_checks_as_model.

Theorem c04_operator_guards_in_source :
  max_number_exponent_src = max_number_exponent /\ max_text_length_src = max_text_length
  /\ max_render_size_src = max_render_size /\ max_repeat_length_src = max_repeat_length
  /\ forallb snd operator_guards = true
  /\ List.length operator_guards = 11%nat.
Proof. exact operator_guards_in_source. Qed.
Print Assumptions c04_operator_guards_in_source.

Theorem c04_evaluation_limits_in_source :
  max_anon_function_depth_src = Z.of_nat max_anon_function_depth /\ max_anon_function_calls_src = Z.of_N max_anon_function_calls
  /\ max_evaluation_work_src = max_evaluation_work /\ function_call_work_src = function_call_work.
Proof. exact evaluation_limits_in_source. Qed.
Print Assumptions c04_evaluation_limits_in_source.

(* meaning of site_ok for a registration with a maximum: every admitted count, not a sample *)
Theorem c04_site_ok_sound_bounded : forall s r sh total,
  site_ok_for s r = true -> site_shift s r = Some sh -> (0 <= r_max r)%Z ->
  (r_min r <= total <= r_max r)%Z ->
  forallb (guard_holds (total - sh)) (s_guards s) = true -> in_range s (total - sh) = true.
Proof. exact site_ok_for_sound_bounded. Qed.
Print Assumptions c04_site_ok_sound_bounded.

(* ... and for a registration without a maximum (MinArgsCheck, unwrapped functions): EVERY count >= the minimum,
   although only finitely many are evaluated *)
Theorem c04_site_ok_sound_unbounded : forall s r sh total,
  site_ok_for s r = true -> site_shift s r = Some sh -> (r_max r < 0)%Z -> (sh <= Z.max (r_shift r) 0)%Z ->
  (r_min r <= total)%Z ->
  forallb (guard_holds (total - sh)) (s_guards s) = true -> in_range s (total - sh) = true.
Proof. exact site_ok_for_sound_unbounded. Qed.
Print Assumptions c04_site_ok_sound_unbounded.

(* ---- application of function VALUES (model/ExLambda.v: literals, +, variables, anonymous functions, application of
   any expression; state-passing evaluator with fuel, the depth and call limits of f1d4764 as arguments).
   An anonymous function can be applied to itself, so evaluation is not structurally recursive and, WITHOUT the
   limits, does not terminate: ((f) => f(f))((f) => f(f)) exhausts every fuel (goflow before f1d4764: the process
   died of stack overflow) ---- *)
Theorem c04_anonymous_functions_without_limits_diverge_refuted : forall fuel st,
  fst (leval_unlimited fuel st ENil omega) = LNoFuel.
Proof. exact omega_never_returns. Qed.
Print Assumptions c04_anonymous_functions_without_limits_diverge_refuted.

(* WITH the limits (100 nested, 100000 total calls; the model also has the work budget of e14c6f8) every closed
   expression of the fragment returns a value (possibly the error value) with fuel (100 + 2) * (height + 2), whatever
   is left of the budget: termination of the model evaluator is a theorem, not a property of its definition.  The
   depth limit is what the proof uses; the constants 100 and 100000 are read from excellent/tree.go on every run
   (c04_evaluation_limits_in_source) *)
Theorem c04_anonymous_function_evaluation_returns : forall e w,
  exists v st', leval_limited ((max_anon_function_depth + 2) * (height e + 2)) (LState 0 0 w) ENil e = (LRet v, st').
Proof. exact limited_eval_returns. Qed.
Print Assumptions c04_anonymous_function_evaluation_returns.

(* ... and it never makes more than 100000 calls of anonymous functions (the bound on the work) *)
Theorem c04_anonymous_function_calls_bounded : forall fuel e w,
  (calls (snd (leval_limited fuel (LState 0 0 w) ENil e)) <= max_anon_function_calls)%N.
Proof. exact limited_eval_calls_bounded. Qed.
Print Assumptions c04_anonymous_function_calls_bounded.

(* ---- the work budget (e14c6f8; model/ExLambda.v: the state also holds what is left of 5000000; operands, arguments
   and results are charged their size, every call 100 before it is made; once the budget is used up everything is
   the error value).  Every call of an anonymous function has been paid for: 100 * calls <= 5000000, i.e. at most
   50000 calls per evaluation started with the full budget.  The constants are read from the source
   (c04_evaluation_limits_in_source); the charging of texts, arrays and objects and the work reported by regex_match / has_pattern
   are not modelled (oracle only) ---- *)
Theorem c04_anonymous_function_calls_paid_from_work_budget : forall fuel e,
  (function_call_work * Z.of_N (calls (snd (leval_limited fuel lstate0 ENil e))) <= max_evaluation_work)%Z.
Proof. exact limited_eval_calls_paid. Qed.
Print Assumptions c04_anonymous_function_calls_paid_from_work_budget.
