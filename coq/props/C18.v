(* C18 — Localized text is chosen by the documented language fallback.
   Statements only; proofs are in proofs/LangProofs.v.  Model: model/Lang.v. *)
From Coq Require Import List NArith Bool.
From Verif Require Import model.Lang proofs.LangProofs.
Import ListNotations.
Open Scope N_scope.

(* the text / array the code picks is the one the documented preference chain prescribes, for every
   contact language, allowed-language list, base language, base value and translation table *)
Theorem c18_get_text_spec : forall contact_lang allowed base native tr,
  let '(out, used) := get_text contact_lang allowed base native tr in
  spec_pick contact_lang allowed base native tr out used.
Proof. exact get_text_spec. Qed.
Print Assumptions c18_get_text_spec.

(* text, attachments and quick replies are resolved independently *)
Theorem c18_independent : forall contact_lang allowed base m,
  o_text (evaluate_message contact_lang allowed base m)
    = hd [] (fst (get_text contact_lang allowed base [m_text m] (tr_text m)))
  /\ o_atts (evaluate_message contact_lang allowed base m)
    = fst (get_text contact_lang allowed base (m_atts m) (tr_atts m))
  /\ o_qrs (evaluate_message contact_lang allowed base m)
    = fst (get_text contact_lang allowed base (m_qrs m) (tr_qrs m)).
Proof. exact evaluate_message_independent. Qed.
Print Assumptions c18_independent.

(* the reported language is the text's; for a text-less message the attachments', then the quick replies' *)
Theorem c18_locale : forall contact_lang allowed base m,
  let o := evaluate_message contact_lang allowed base m in
  (o_text o <> [] -> o_lang o = snd (get_text contact_lang allowed base [m_text m] (tr_text m)))
  /\ (o_text o = [] -> o_atts o <> [] ->
      o_lang o = snd (get_text contact_lang allowed base (m_atts m) (tr_atts m)))
  /\ (o_text o = [] -> o_atts o = [] -> o_qrs o <> [] ->
      o_lang o = snd (get_text contact_lang allowed base (m_qrs m) (tr_qrs m)))
  /\ (o_text o = [] -> o_atts o = [] -> o_qrs o = [] -> o_lang o = nil_lang).
Proof. exact evaluate_message_locale. Qed.
Print Assumptions c18_locale.

(* router case arguments use the same chain; a translation of another length than the base is ignored *)
Theorem c18_router_args : forall contact_lang allowed base args tr,
  let '(out, used) := get_text contact_lang allowed base args tr in
  spec_pick contact_lang allowed base args tr out used
  /\ case_arguments contact_lang allowed base args tr
     = if Nat.eqb (length out) (length args) then out else args.
Proof. exact case_arguments_spec. Qed.
Print Assumptions c18_router_args.

(* the single-text accessor never indexes an empty array *)
Theorem c18_single_text_nonempty : forall contact_lang allowed base native tr,
  fst (get_text contact_lang allowed base [native] tr) <> [].
Proof. exact get_text_single_nonempty. Qed.
Print Assumptions c18_single_text_nonempty.
