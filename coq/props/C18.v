(* C18 — Localized text is chosen by the documented language fallback.
   Statements only; proofs are in proofs/LangProofs.v.  Model: model/Lang.v. *)
From Coq Require Import List NArith Bool.
From Verif Require Import model.Lang proofs.LangProofs.
Import ListNotations.
Open Scope N_scope.

(* the text / array the code picks is the one the documented preference chain prescribes, for every
   contact language, allowed-language list, base language, base value and translation table *)
Theorem c18_get_text_spec : forall contact_lang allowed base native tr,
  let '(out, used) := get_text contact_lang allowed base native tr in
  spec_pick contact_lang allowed base native tr out used.
Proof. exact get_text_spec. Qed.
Print Assumptions c18_get_text_spec.

(* text, attachments and quick replies are resolved independently *)
Theorem c18_independent : forall contact_lang allowed base m,
  o_text (evaluate_message contact_lang allowed base m)
    = hd [] (fst (get_text contact_lang allowed base [m_text m] (tr_text m)))
  /\ o_atts (evaluate_message contact_lang allowed base m)
    = fst (get_text contact_lang allowed base (m_atts m) (tr_atts m))
  /\ o_qrs (evaluate_message contact_lang allowed base m)
    = fst (get_text contact_lang allowed base (m_qrs m) (tr_qrs m)).
Proof. exact evaluate_message_independent. Qed.
Print Assumptions c18_independent.

(* the reported language is the text's; for a text-less message the attachments', then the quick replies' *)
Theorem c18_locale : forall contact_lang allowed base m,
  let o := evaluate_message contact_lang allowed base m in
  (o_text o <> [] -> o_lang o = snd (get_text contact_lang allowed base [m_text m] (tr_text m)))
  /\ (o_text o = [] -> o_atts o <> [] ->
      o_lang o = snd (get_text contact_lang allowed base (m_atts m) (tr_atts m)))
  /\ (o_text o = [] -> o_atts o = [] -> o_qrs o <> [] ->
      o_lang o = snd (get_text contact_lang allowed base (m_qrs m) (tr_qrs m)))
  /\ (o_text o = [] -> o_atts o = [] -> o_qrs o = [] -> o_lang o = nil_lang).
Proof. exact evaluate_message_locale. Qed.
Print Assumptions c18_locale.

(* router case arguments use the same chain; a translation of another length than the base is ignored *)
Theorem c18_router_args : forall contact_lang allowed base args tr,
  let '(out, used) := get_text contact_lang allowed base args tr in
  spec_pick contact_lang allowed base args tr out used
  /\ case_arguments contact_lang allowed base args tr
     = if Nat.eqb (length out) (length args) then out else args.
Proof. exact case_arguments_spec. Qed.
Print Assumptions c18_router_args.

(* the single-text accessor never indexes an empty array *)
Theorem c18_single_text_nonempty : forall contact_lang allowed base native tr,
  fst (get_text contact_lang allowed base [native] tr) <> [].
Proof. exact get_text_single_nonempty. Qed.
Print Assumptions c18_single_text_nonempty.

(* the single-text accessor (GetText: say_msg, play_audio, send_email, category names, set_run_result) returns the
   first element of what the chain picks for the singleton base value, which is never an empty array *)
Theorem c18_get_text1_spec : forall contact_lang allowed base native tr,
  exists out used,
    spec_pick contact_lang allowed base [native] tr out used
    /\ out <> []
    /\ get_text1 contact_lang allowed base native tr = (hd [] out, used).
Proof. exact get_text1_spec. Qed.
Print Assumptions c18_get_text1_spec.

(* category names: the localized name saved with a router result is the chain's choice for the category's name
   (base value "": an untranslated category has no localized name) *)
Theorem c18_category_name : forall contact_lang allowed base tr,
  exists out used,
    spec_pick contact_lang allowed base [[]] tr out used
    /\ category_localized contact_lang allowed base tr = hd [] out.
Proof. exact category_localized_spec. Qed.
Print Assumptions c18_category_name.

(* set_run_result: the localized category is the chain's choice for the category, reported as "" exactly when that
   choice is the category itself *)
Theorem c18_set_run_result_category : forall contact_lang allowed base category tr,
  exists out used,
    spec_pick contact_lang allowed base [category] tr out used
    /\ (hd [] out = category ->
        set_run_result_category_localized contact_lang allowed base category tr = [])
    /\ (hd [] out <> category ->
        set_run_result_category_localized contact_lang allowed base category tr = hd [] out).
Proof. exact set_run_result_category_spec. Qed.
Print Assumptions c18_set_run_result_category.

(* "text, attachments and quick replies are resolved independently", as non-interference: two messages that agree
   on the base value and the translations of one property get the same value for it, whatever the other two hold
   (c18_independent above is the same fact in the form "each is its own get_text call" and holds by construction
   of the model; this form would fail for a model that leaks between the properties) *)
Theorem c18_noninterference : forall contact_lang allowed base m m',
  (m_text m = m_text m' -> tr_text m = tr_text m' ->
   o_text (evaluate_message contact_lang allowed base m) = o_text (evaluate_message contact_lang allowed base m'))
  /\ (m_atts m = m_atts m' -> tr_atts m = tr_atts m' ->
   o_atts (evaluate_message contact_lang allowed base m) = o_atts (evaluate_message contact_lang allowed base m'))
  /\ (m_qrs m = m_qrs m' -> tr_qrs m = tr_qrs m' ->
   o_qrs (evaluate_message contact_lang allowed base m) = o_qrs (evaluate_message contact_lang allowed base m')).
Proof. exact evaluate_message_noninterference. Qed.
Print Assumptions c18_noninterference.

(* callers that pass an explicit language list (send_broadcast): the first language of `langs ++ [base]` that is
   the base language or has a non-empty translation wins *)
Theorem c18_explicit_languages : forall langs base native tr,
  exists pre post used out,
    get_text_in langs base native tr = (out, used)
    /\ langs ++ [base] = pre ++ used :: post
    /\ Forall (fun l => ~ wins base tr l) pre
    /\ wins base tr used
    /\ yields base native tr used out.
Proof. exact get_text_in_spec. Qed.
Print Assumptions c18_explicit_languages.

(* a broadcast carries one content per language — the flow language and every language the localization has
   entries for — and each property of it is, independently, the stored translation of that language when it has a
   non-empty one and the base value otherwise (always the base value for the flow language itself) *)
Theorem c18_broadcast_translations : forall base loc_langs m l o,
  In (l, o) (broadcast_translations base loc_langs m) ->
  In l (base :: loc_langs)
  /\ o_text o = hd [] (fst (get_text_in [l; base] base [m_text m] (tr_text m)))
  /\ o_atts o = fst (get_text_in [l; base] base (m_atts m) (tr_atts m))
  /\ o_qrs o = fst (get_text_in [l; base] base (m_qrs m) (tr_qrs m)).
Proof. exact broadcast_translations_spec. Qed.
Print Assumptions c18_broadcast_translations.

Theorem c18_broadcast_language_value : forall l base native tr,
  (l = base -> get_text_in [l; base] base native tr = (native, base))
  /\ (l <> base -> forall ts, lookup tr l = Some ts -> stored_nonempty ts ->
      get_text_in [l; base] base native tr = (ts, l))
  /\ (l <> base -> ~ has_translation tr l -> get_text_in [l; base] base native tr = (native, base)).
Proof. exact get_text_in_pair. Qed.
Print Assumptions c18_broadcast_language_value.

(* the other senders of localized text.  An email carries the evaluation of the chain's choice for its subject and,
   independently, for its body (for any evaluation functions); it is skipped exactly when one of them is empty as
   evaluated *)
Theorem c18_send_email : forall ev_s ev_b contact_lang allowed base subject body tr_subject tr_body,
  exists outs useds outb usedb,
    spec_pick contact_lang allowed base [subject] tr_subject outs useds
    /\ spec_pick contact_lang allowed base [body] tr_body outb usedb
    /\ ((ev_s (hd [] outs) = [] \/ ev_b (hd [] outb) = []) ->
        send_email_texts_gen ev_s ev_b contact_lang allowed base subject body tr_subject tr_body = None)
    /\ (ev_s (hd [] outs) <> [] -> ev_b (hd [] outb) <> [] ->
        send_email_texts_gen ev_s ev_b contact_lang allowed base subject body tr_subject tr_body
        = Some (ev_s (hd [] outs), ev_b (hd [] outb))).
Proof. exact send_email_gen_spec. Qed.
Print Assumptions c18_send_email.

(* a spoken message (say_msg), for any evaluation [ev] of its text and any rule [keep] about which audio URLs fit into an
   attachment (the code drops a URL with which "audio:<url>" is longer than 2048 bytes): text and audio URL are each
   the chain's choice; the locale names the language actually used for its text, and for a message whose text is empty
   (as evaluated) the language of its audio URL *)
Theorem c18_say_msg : forall ev keep contact_lang allowed base txt audio tr_txt tr_audio,
  exists outt usedt outa useda,
    spec_pick contact_lang allowed base [txt] tr_txt outt usedt
    /\ spec_pick contact_lang allowed base [audio] tr_audio outa useda
    /\ (ev (hd [] outt) = [] -> keep (hd [] outa) = [] ->
        say_msg_out_gen ev keep contact_lang allowed base txt audio tr_txt tr_audio = None)
    /\ (ev (hd [] outt) <> [] ->
        say_msg_out_gen ev keep contact_lang allowed base txt audio tr_txt tr_audio
        = Some {| i_text := ev (hd [] outt); i_audio := keep (hd [] outa); i_lang := usedt |})
    /\ (ev (hd [] outt) = [] -> keep (hd [] outa) <> [] ->
        say_msg_out_gen ev keep contact_lang allowed base txt audio tr_txt tr_audio
        = Some {| i_text := []; i_audio := keep (hd [] outa); i_lang := useda |}).
Proof. exact say_msg_gen_spec. Qed.
Print Assumptions c18_say_msg.

(* a played recording (play_audio) is a text-less message, for any evaluation [ev] of the URL and any attachment rule
   [keep]: the locale names the language used for its attachment; it is skipped when nothing is left of the URL *)
Theorem c18_play_audio : forall ev keep contact_lang allowed base audio tr_audio,
  exists out used,
    spec_pick contact_lang allowed base [audio] tr_audio out used
    /\ (keep (ev (hd [] out)) = [] -> play_audio_out_gen ev keep contact_lang allowed base audio tr_audio = None)
    /\ (keep (ev (hd [] out)) <> [] ->
        play_audio_out_gen ev keep contact_lang allowed base audio tr_audio
        = Some {| i_text := []; i_audio := keep (ev (hd [] out)); i_lang := used |}).
Proof. exact play_audio_gen_spec. Qed.
Print Assumptions c18_play_audio.

(* messages whose values are templates: whatever the evaluation of the localized values gives, each part of the
   message is the evaluation of its own chain choice, and the language reported is the one used for the text of the
   message AS CREATED — for a message created without text (e.g. a text that evaluates to ""), its attachments'
   language, then its quick replies' *)
Theorem c18_independent_evaluated : forall ev_text ev_atts ev_qrs contact_lang allowed base m,
  let o := evaluate_message_gen ev_text ev_atts ev_qrs contact_lang allowed base m in
  o_text o = ev_text (hd [] (fst (get_text contact_lang allowed base [m_text m] (tr_text m))))
  /\ o_atts o = ev_atts (fst (get_text contact_lang allowed base (m_atts m) (tr_atts m)))
  /\ o_qrs o = ev_qrs (fst (get_text contact_lang allowed base (m_qrs m) (tr_qrs m))).
Proof. exact evaluate_message_gen_independent. Qed.
Print Assumptions c18_independent_evaluated.

Theorem c18_locale_evaluated : forall ev_text ev_atts ev_qrs contact_lang allowed base m,
  let o := evaluate_message_gen ev_text ev_atts ev_qrs contact_lang allowed base m in
  (o_text o <> [] -> o_lang o = snd (get_text contact_lang allowed base [m_text m] (tr_text m)))
  /\ (o_text o = [] -> o_atts o <> [] ->
      o_lang o = snd (get_text contact_lang allowed base (m_atts m) (tr_atts m)))
  /\ (o_text o = [] -> o_atts o = [] -> o_qrs o <> [] ->
      o_lang o = snd (get_text contact_lang allowed base (m_qrs m) (tr_qrs m)))
  /\ (o_text o = [] -> o_atts o = [] -> o_qrs o = [] -> o_lang o = nil_lang).
Proof. exact evaluate_message_gen_locale. Qed.
Print Assumptions c18_locale_evaluated.

(* a message built from a channel template: its variables are the evaluations (any [ev]) of the chain's choice for the
   action's template variables, one by one, padded with "" / cut to the number of variables of the template
   translation *)
Theorem c18_template_variables : forall ev contact_lang allowed base n vars tr,
  exists out used,
    spec_pick contact_lang allowed base vars tr out used
    /\ length (template_variables_gen ev contact_lang allowed base n vars tr) = n
    /\ (forall i, (i < n)%nat -> (i < length out)%nat ->
          nth i (template_variables_gen ev contact_lang allowed base n vars tr) [] = ev (nth i out []))
    /\ (forall i, (i < n)%nat -> (length out <= i)%nat ->
          nth i (template_variables_gen ev contact_lang allowed base n vars tr) [] = []).
Proof. exact template_variables_gen_spec. Qed.
Print Assumptions c18_template_variables.

(* what a host gets for one recipient of a broadcast (BroadcastTranslations.ForContact over the event's contents).
   FULL STATEMENT (what C18 asks): for every recipient, the content equals what the chain gives that recipient:
     forall rl allowed base loc_langs m,
       let o := for_contact rl allowed base (broadcast_translations base loc_langs m) in
       let w := evaluate_message rl allowed base m in
       o_text o = o_text w /\ o_atts o = o_atts w /\ o_qrs o = o_qrs w /\ o_lang o = o_lang w.
   It is FALSE of the code (and of the model): the event's entry of a partially translated language is filled with
   the base content, which then shadows the environment's default language — a known finding
   (broadcast-for-contact:*:untranslated-part-filled-with-base).  Proved: the refutation, and the part that holds. *)
Theorem c18_broadcast_for_contact_refuted :
  exists rl allowed base loc_langs m,
    let o := for_contact rl allowed base (broadcast_translations base loc_langs m) in
    let w := evaluate_message rl allowed base m in
    o_text o <> o_text w /\ o_lang o <> o_lang w /\ o_qrs o = o_qrs w.
Proof. exact for_contact_refuted. Qed.
Print Assumptions c18_broadcast_for_contact_refuted.

(* ... the same for the attachments and quick replies (known classes broadcast-for-contact:attachments / :quick-replies):
   a recipient whose language has only a text translation gets the base attachments and quick replies where the chain
   gives those of the environment's default language *)
Theorem c18_broadcast_for_contact_refuted_parts :
  exists rl allowed base loc_langs m,
    let o := for_contact rl allowed base (broadcast_translations base loc_langs m) in
    let w := evaluate_message rl allowed base m in
    o_atts o <> o_atts w /\ o_qrs o <> o_qrs w /\ o_text o = o_text w.
Proof.
  exists 4, [3; 4; 1], 1, [3; 4],
    {| m_text := [72]; m_atts := [[98]]; m_qrs := [[121]];
       tr_text := [(3, [[104]]); (4, [[107]])]; tr_atts := [(3, [[99]])]; tr_qrs := [(3, [[115]])] |}.
  vm_compute. repeat split; discriminate.
Qed.
Print Assumptions c18_broadcast_for_contact_refuted_parts.

(* ... and for a content without text (known class broadcast-for-contact:locale:text-less-content-reports-no-language):
   ForContact reports no language where the statement prescribes the language of the attachments *)
Theorem c18_broadcast_for_contact_refuted_textless :
  exists rl allowed base loc_langs m,
    let o := for_contact rl allowed base (broadcast_translations base loc_langs m) in
    let w := evaluate_message rl allowed base m in
    o_text o = [] /\ o_atts o = o_atts w /\ o_atts o <> [] /\ o_lang o = nil_lang /\ o_lang w <> nil_lang.
Proof.
  exists 3, [3; 1], 1, [3],
    {| m_text := []; m_atts := [[98]]; m_qrs := []; tr_text := []; tr_atts := [(3, [[99]])]; tr_qrs := [] |}.
  vm_compute. repeat split; discriminate.
Qed.
Print Assumptions c18_broadcast_for_contact_refuted_textless.

(* the part that holds: a recipient whose language is allowed and COMPLETELY translated (a non-empty translation of
   each of the three parts, the first text not empty) gets exactly what the chain gives that contact, language
   included.  The known classes need a language of the recipient's chain that is only partly translated. *)
Theorem c18_broadcast_for_contact_partial : forall rl allowed base loc_langs m t ts a as_ q qs,
  rl <> nil_lang -> lang_in rl allowed = true -> rl <> base -> lang_in rl loc_langs = true ->
  item_translation (tr_text m) rl = t :: ts -> t <> [] ->
  item_translation (tr_atts m) rl = a :: as_ ->
  item_translation (tr_qrs m) rl = q :: qs ->
  let o := for_contact rl allowed base (broadcast_translations base loc_langs m) in
  let w := evaluate_message rl allowed base m in
  o_text o = t /\ o_text w = t /\ o_atts o = o_atts w /\ o_qrs o = o_qrs w /\ o_lang o = rl /\ o_lang w = rl.
Proof. exact for_contact_complete_language. Qed.
Print Assumptions c18_broadcast_for_contact_partial.

(* ... and without any localization a recipient gets the base content *)
Theorem c18_broadcast_for_contact_no_localization : forall rl allowed base m,
  let o := for_contact rl allowed base (broadcast_translations base [] m) in
  o_text o = m_text m /\ o_atts o = m_atts m /\ o_qrs o = m_qrs m.
Proof. exact for_contact_no_localization. Qed.
Print Assumptions c18_broadcast_for_contact_no_localization.

(* router case arguments are evaluated one by one after the choice *)
Theorem c18_router_args_evaluated : forall ev contact_lang allowed base args tr,
  length (fst (get_text contact_lang allowed base args tr)) = length args ->
  case_arguments_gen ev contact_lang allowed base args tr
  = map ev (fst (get_text contact_lang allowed base args tr)).
Proof. exact case_arguments_gen_spec. Qed.
Print Assumptions c18_router_args_evaluated.

(* router case arguments against the statement, which knows no length rule ("the first of these that is the base
   language or has a non-empty translation wins", quantified over translations of a different length than the base).
   FULL STATEMENT:  forall contact_lang allowed base args tr,
                      case_arguments contact_lang allowed base args tr = fst (get_text contact_lang allowed base args tr).
   It is false of the code: a translation of another length is replaced by the base arguments (c18_router_args above
   states what the code does) — known finding router-arguments:translation-of-other-length-replaced-by-base. *)
Theorem c18_router_args_partial : forall contact_lang allowed base args tr,
  length (fst (get_text contact_lang allowed base args tr)) = length args ->
  case_arguments contact_lang allowed base args tr = fst (get_text contact_lang allowed base args tr).
Proof. exact case_arguments_partial. Qed.
Print Assumptions c18_router_args_partial.

Theorem c18_router_args_refuted :
  exists contact_lang allowed base args tr,
    case_arguments contact_lang allowed base args tr <> fst (get_text contact_lang allowed base args tr)
    /\ case_arguments contact_lang allowed base args tr = args
    /\ item_translation tr (env_default allowed) <> [].
Proof. exact case_arguments_refuted. Qed.
Print Assumptions c18_router_args_refuted.
