(* C01 — Session state machine is well-formed after every sprint.
   Statements only; proofs are in proofs/EngineProofs.v.  Model: model/Engine.v (start, resume_session).

   Clause 1 of the statement ("after every engine call that returns without error the session is
   waiting, completed or failed — never still active").  An engine call of the model returns without
   error exactly when its result is [ROk]. *)
From Coq Require Import List NArith ZArith Bool.
From Verif Require Import model.Lang model.Engine proofs.EngineProofs.
Import ListNotations.
Open Scope N_scope.

(* for every asset store (any flow graphs), trigger and flow: a session that was started is settled *)
Theorem c01_status_after_start : forall (a : assets) (t : trigger) (flow : id) (x' : st),
  start a t flow = ROk x' ->
  s_status (session_ x') = SWaiting \/ s_status (session_ x') = SCompleted \/ s_status (session_ x') = SFailed.
Proof. exact start_settled. Qed.
Print Assumptions c01_status_after_start.

(* for every session whatsoever (reachable or not), every asset store (also one that changed since
   the session was last run) and every resume: a resume that returns without error leaves the session settled *)
Theorem c01_status_after_resume : forall (a : assets) (s : session) (r : resume) (tmo : text) (x' : st),
  resume_session a s r tmo = Resumed (ROk x') ->
  s_status (session_ x') = SWaiting \/ s_status (session_ x') = SCompleted \/ s_status (session_ x') = SFailed.
Proof. exact resume_settled. Qed.
Print Assumptions c01_status_after_resume.

(* Clauses 2 (as far as it concerns the runs' statuses and ancestry) and 4, for every history:
   [reachable] = started by any trigger on any flows, then resumed any number of times with any
   resumes, each call against ANY asset store (so also stores that changed between sprints).
   [status_wellformed] (proofs/EngineInv.v) says, for the session after the last call:
     - it is waiting, completed or failed;
     - it is waiting exactly when exactly one run is waiting, and then every active run is an ancestor
       of that run;
     - otherwise no run is active or waiting;
     - exited_on is set exactly for completed, failed and expired runs;
     - (presupposed by the statement) parents precede their children and nothing is left pushed.
   The other clauses - "the waiting run sits on a node whose router has a wait", the path walk, the events -
   are covered by the theorems further down. *)
From Verif Require Import proofs.EngineInv.

Theorem c01_status_wellformed : forall s : session, reachable s -> status_wellformed s.
Proof. exact reachable_wellformed. Qed.
Print Assumptions c01_status_wellformed.

(* the invariant behind it is inductive for ANY session that satisfies it (not only reachable ones),
   e.g. a session that was written to storage and read back *)
Theorem c01_invariant_preserved : forall (a : assets) (s : session) (r : resume) (tmo : text) (x' : st),
  post_inv s -> resume_session a s r tmo = Resumed (ROk x') -> post_inv (session_ x') /\ status_wellformed (session_ x').
Proof.
  intros a s r tmo x' H E. destruct (resume_post a s r tmo x' H E) as [P _]. split; [exact P|apply post_inv_wellformed; exact P].
Qed.
Print Assumptions c01_invariant_preserved.

(* Clause 5, second half ("every event a run records during a sprint ... appears, in the same relative
   order, in that sprint's event list"), in the stronger two-way form: after a call that returned
   without error, each run's event list is its list before the call followed by exactly those events of
   the sprint that this run logged, in the sprint's order; and every event of the sprint was logged by
   a run of the session.  ([logged evs ri] = the events of [evs] owned by run ri, in order.) *)
From Verif Require Import proofs.EngineEvents.

Theorem c01_events_after_start : forall (a : assets) (t : trigger) (flow : id) (x' : st),
  start a t flow = ROk x' ->
  (forall ri, events_of (session_ x') ri = logged (sp_events (sprint_ x')) ri) /\
  (forall oe, In oe (sp_events (sprint_ x')) -> exists ri, fst oe = Some ri /\ (ri < length (s_runs (session_ x')))%nat).
Proof.
  intros a t flow x' H. destruct (start_accounts a t flow x' H) as [F E]. split.
  - intros ri. rewrite E. unfold events_of; simpl. destruct ri; reflexivity.
  - intros oe Hin. rewrite Forall_forall in F. destruct (F oe Hin) as [K _]. exact K.
Qed.
Print Assumptions c01_events_after_start.

Theorem c01_events_after_resume : forall (a : assets) (s : session) (r : resume) (tmo : text) (x' : st),
  reachable s -> resume_session a s r tmo = Resumed (ROk x') ->
  (forall ri, events_of (session_ x') ri = events_of s ri ++ logged (sp_events (sprint_ x')) ri) /\
  (forall oe, In oe (sp_events (sprint_ x')) -> exists ri, fst oe = Some ri /\ (ri < length (s_runs (session_ x')))%nat).
Proof.
  intros a s r tmo x' Hr H. destruct (reachable_resume_accounts a s r tmo x' Hr H) as [F E]. split; [exact E|].
  intros oe Hin. rewrite Forall_forall in F. destruct (F oe Hin) as [K _]. exact K.
Qed.
Print Assumptions c01_events_after_resume.

(* Clause 3 (path walk), for histories over one store of validated definitions ([valid_assets]: every
   exit's destination is a node of its flow and case / default / timeout categories exist;
   [valid_cat_exits]: every category's exit is an exit of its node - what flow validation guarantees; the
   boolean forms are checked on every generated asset store by the correspondence run).  Both hypotheses are
   needed: without them a category may name an exit the node does not have (the step then records an exit that
   "belongs" to no node) or an exit may lead to a node that does not exist (a Go error).
   Every step of every run is on a node of the run's flow; a step's exit (when it has one) is an exit of
   that node and leads to the node of the next step; only the last step may lack an exit. *)
From Verif Require Import proofs.EngineNoErr proofs.EnginePaths.

Theorem c01_path_walk : forall (a : assets) (s : session),
  valid_assets a -> valid_cat_exits a -> reachable_in a s ->
  forall i r, nth_error (s_runs s) i = Some r ->
  exists f, get_flow a (r_flow r) = Some f /\          (* on an unchanged store the run's flow is always found *)
  forall k stp, nth_error (r_path r) k = Some stp ->
  exists n, get_node f (st_node stp) = Some n /\
    match st_exit stp with
    | None => S k = length (r_path r)
    | Some eid => exists e, find_exit (n_exits n) eid = Some e /\
                  forall stp', nth_error (r_path r) (S k) = Some stp' -> e_dest e = Some (st_node stp')
    end.
Proof.
  intros a s Hv Hvc Hr i r Hi. destruct (reachable_flows_known a s Hr i r Hi) as (f & Hf). exists f. split; [exact Hf|].
  intros k stp Hk. exact (reachable_paths a s Hv Hvc Hr i r f Hi Hf k stp Hk).
Qed.
Print Assumptions c01_path_walk.

(* Clause 2, second half: after a call (against any store) that returns without error, every waiting run - there
   is exactly one when the session is waiting, none otherwise - is located on a node of that store whose router
   has a wait ([path_location] is the model of run.PathLocation); no validity hypothesis is needed: the run
   became waiting on a node the engine had just looked up in this store *)
Theorem c01_waiting_run_on_wait_node : forall (a : assets) (s : session) (r : resume) (tmo : text) (x' : st),
  reachable s -> resume_session a s r tmo = Resumed (ROk x') ->
  forall i rn, nth_error (s_runs (session_ x')) i = Some rn -> r_status rn = RWaiting ->
  exists pos n, path_location a (session_ x') i = Some (pos, n) /\ wait_of n <> None.
Proof.
  intros a s r tmo x' Hr H. apply (resume_waiting_on_wait a s r tmo x' (reachable_post s Hr) H).
Qed.
Print Assumptions c01_waiting_run_on_wait_node.

Theorem c01_waiting_run_on_wait_node_start : forall (a : assets) (t : trigger) (flow : id) (x' : st),
  start a t flow = ROk x' ->
  forall i rn, nth_error (s_runs (session_ x')) i = Some rn -> r_status rn = RWaiting ->
  exists pos n, path_location a (session_ x') i = Some (pos, n) /\ wait_of n <> None.
Proof. intros a t flow x' H. apply (start_waiting_on_wait a t flow x' H). Qed.
Print Assumptions c01_waiting_run_on_wait_node_start.

(* Clause 5, first half: every event a run has recorded names, when it names a step, a step of that run:
   its step reference is (this run, a position inside this run's path) - for every reachable session
   (calls against ANY asset store). *)
From Verif Require Import proofs.EngineRefs.

Theorem c01_event_steps : forall (s : session), reachable s ->
  forall i r e, nth_error (s_runs s) i = Some r -> In e (r_events r) ->
  ev_step e = None \/ exists pos, ev_step e = Some (i, pos) /\ (pos < length (r_path r))%nat.
Proof. intros s Hr i r e Hi He. exact (reachable_refs s Hr i r Hi e He). Qed.
Print Assumptions c01_event_steps.
