(* C01 — Session state machine is well-formed after every sprint.
   Statements only; proofs are in proofs/EngineProofs.v.  Model: model/Engine.v (start, resume_session).

   Clause 1 of the statement ("after every engine call that returns without error the session is
   waiting, completed or failed — never still active").  An engine call of the model returns without
   error exactly when its result is [ROk]. *)
From Coq Require Import List NArith ZArith Bool.
From Verif Require Import model.Lang model.Engine proofs.EngineProofs.
Import ListNotations.
Open Scope N_scope.

(* for every asset store (any flow graphs), trigger and flow: a session that was started is settled *)
Theorem c01_status_after_start : forall (a : assets) (t : trigger) (flow : id) (x' : st),
  start a t flow = ROk x' ->
  s_status (session_ x') = SWaiting \/ s_status (session_ x') = SCompleted \/ s_status (session_ x') = SFailed.
Proof. exact start_settled. Qed.
Print Assumptions c01_status_after_start.

(* for every session whatsoever (reachable or not), every asset store (also one that changed since
   the session was last run) and every resume: a resume that returns without error leaves the session settled *)
Theorem c01_status_after_resume : forall (a : assets) (s : session) (r : resume) (tmo : text) (x' : st),
  resume_session a s r tmo = Resumed (ROk x') ->
  s_status (session_ x') = SWaiting \/ s_status (session_ x') = SCompleted \/ s_status (session_ x') = SFailed.
Proof. exact resume_settled. Qed.
Print Assumptions c01_status_after_resume.
