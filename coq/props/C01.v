(* placeholder replaced below *)
