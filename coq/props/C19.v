(* C19 — Redacted URNs are invisible to expressions.
   Statements only; proofs are in proofs/RedactProofs.v.  Model: model/Redact.v (tied to /repo by
   gen/ContextKeys.v and by the differential run of harness/cmd/c19).

   urn_twin u v      same scheme, same channel affinity, same derived country; path/display/printed forms free
   session_twin s t  t is s with URNs replaced by twins (contact, input, parent's and child's contact)
   A template evaluation is any function of (root context, merged environment). *)
From Coq Require Import List String ZArith Bool.
From Verif Require Import model.Redact proofs.RedactProofs gen.ContextKeys proofs.RedactKeys.
Import ListNotations.
Open Scope string_scope.

(* Full statement (FALSE of the model and of the code, see c19_noninterference_refuted):
     forall e s t, redact e = true -> session_twin s t -> root_context e s = root_context e t.
   Proved under the extra hypothesis session_choice s t: channel resolution (ChannelAssets.GetForURN, role send)
   picks the same channel for every pair of twin URNs.  What is missing without it: with >= 2 tel send channels
   usable for one country the channel, hence @contact.channel, is picked by digit-prefix overlap with the path. *)
Theorem c19_noninterference_partial : forall e s t,
  redact e = true -> session_twin s t -> session_choice s t ->
  root_context e s = root_context e t /\ merged_env e s = merged_env e t /\
  forall (Out : Type) (template : xv -> env_view -> Out),
    template (root_context e s) (merged_env e s) = template (root_context e t) (merged_env e t).
Proof. exact noninterference_partial_all. Qed.
Print Assumptions c19_noninterference_partial.

(* Full statement whenever no tel URN of the session (contact, parent's and child's contact) has more than one
   candidate channel: unambiguous_tel s = for every tel URN u, at most one tel send channel passes GetForURN's
   filter for u's derived country.  No hypothesis on paths. *)
Theorem c19_noninterference_unambiguous_tel : forall e s t,
  redact e = true -> unambiguous_tel s -> session_twin s t ->
  forall (Out : Type) (template : xv -> env_view -> Out),
    template (root_context e s) (merged_env e s) = template (root_context e t) (merged_env e t).
Proof. exact noninterference_unambiguous. Qed.
Print Assumptions c19_noninterference_unambiguous_tel.

(* in particular for deployments with at most one tel send channel per country (any number of countries), when
   the country of every tel URN can be derived *)
Theorem c19_one_tel_channel_per_country : forall s,
  one_tel_channel_per_country (s_channels s) -> tel_countries_known s -> unambiguous_tel s.
Proof. exact per_country_unambiguous. Qed.
Print Assumptions c19_one_tel_channel_per_country.

(* the unrestricted statement is false: two tel channels of one country, twins with different leading digits *)
Theorem c19_noninterference_refuted :
  exists e s t, redact e = true /\ session_twin s t /\ root_context e s <> root_context e t.
Proof. exact noninterference_refuted_witness. Qed.
Print Assumptions c19_noninterference_refuted.

(* ... and the extent of the dependence, for ALL channel sets: with every member named "channel" erased (blank) the
   root contexts of twin sessions are equal under the policy; the merged environment can differ too, but only in
   its country and only when the countries of the channels chosen for the twins differ (it does: RedactProofs
   merged_country_depends_on_path, countries RW / UG) *)
Theorem c19_noninterference_up_to_channel : forall e s t, redact e = true -> session_twin s t ->
  blank "channel" (root_context e s) = blank "channel" (root_context e t) /\
  v_redact (merged_env e s) = v_redact (merged_env e t) /\
  (chosen_country s = chosen_country t -> merged_env e s = merged_env e t).
Proof. exact up_to_channel_all. Qed.
Print Assumptions c19_noninterference_up_to_channel.

(* The theorems above are about twin session STATES.  Does a flow keep twin states twin?  Only two actions look at
   the contact's URNs (contact.go HasURN/AddURN, UpdatePreferredChannel):
   set_contact_channel always does; add_contact_urn does when the candidate is held by both twins or by neither, and
   does NOT otherwise (listed known finding: the action is an equality test on the hidden path, visible through
   count(contact.urns)). *)
Theorem c19_set_channel_preserves_twins : forall ch us vs, Forall2 urn_twin us vs ->
  Forall2 urn_twin (update_preferred_channel ch us) (update_preferred_channel ch vs).
Proof. exact update_preferred_channel_twin. Qed.
Print Assumptions c19_set_channel_preserves_twins.

(* set_contact_channel changes affinities and order only: every URN afterwards is one held before, as stored *)
Theorem c19_set_channel_keeps_urns : forall ch us,
  List.length (update_preferred_channel ch us) = List.length us /\
  Forall (fun v => exists u, In u us /\ same_but_affinity u v) (update_preferred_channel ch us).
Proof. exact update_preferred_channel_keeps_urns. Qed.
Print Assumptions c19_set_channel_keeps_urns.

(* full statement (FALSE, next theorem): forall us vs u, Forall2 urn_twin us vs -> Forall2 urn_twin (add_urn us u) (add_urn vs u).
   Extra hypothesis: the candidate is held by both or by neither. *)
Theorem c19_add_urn_preserves_twins_partial : forall us vs u, Forall2 urn_twin us vs ->
  has_urn us u = has_urn vs u -> Forall2 urn_twin (add_urn us u) (add_urn vs u).
Proof. exact add_urn_twin. Qed.
Print Assumptions c19_add_urn_preserves_twins_partial.

Theorem c19_add_urn_refuted :
  exists e s t c d u, redact e = true /\ session_twin s t /\
    s_contact s = Some c /\ s_contact t = Some d /\
    ~ Forall2 urn_twin (add_urn (c_urns c) u) (add_urn (c_urns d) u) /\
    root_context e (set_contact_urns s (fun us => add_urn us u))
      <> root_context e (set_contact_urns t (fun us => add_urn us u)).
Proof. exact add_urn_refuted_witness. Qed.
Print Assumptions c19_add_urn_refuted.

(* contacts without a name are shown by id (and named ones by name, whatever the policy) wherever a contact or
   a run is rendered: @contact, @run.contact, @run, @parent.contact, @parent, @child.contact, @child *)
Theorem c19_format_by_id : forall e c,
  (redact e = true -> c_name c = "" -> contact_format e c = itoa (c_id c)) /\
  (c_name c <> "" -> contact_format e c = c_name c).
Proof. exact format_by_id_or_name. Qed.
Print Assumptions c19_format_by_id.

Theorem c19_shown_by_id_everywhere : forall e s c, redact e = true -> c_name c = "" ->
  (s_contact s = Some c ->
     default_of (lookup (root_context e s) [Key "contact"]) = Some (xtext (itoa (c_id c))) /\
     default_of (lookup (root_context e s) [Key "run"; Key "contact"]) = Some (xtext (itoa (c_id c))) /\
     default_of (lookup (root_context e s) [Key "run"]) =
       Some (xtext (itoa (c_id c) ++ "@" ++ match s_flow_name s with Some f => f | None => "<missing>" end))) /\
  (forall r, s_parent s = Some r -> r_contact r = Some c ->
     default_of (lookup (root_context e s) [Key "parent"; Key "contact"]) = Some (xtext (itoa (c_id c))) /\
     default_of (lookup (root_context e s) [Key "parent"]) =
       Some (xtext (itoa (c_id c) ++ "@" ++ match r_flow_name r with Some f => f | None => "<missing>" end))) /\
  (forall r, s_child s = Some r -> r_contact r = Some c ->
     default_of (lookup (root_context e s) [Key "child"; Key "contact"]) = Some (xtext (itoa (c_id c))) /\
     default_of (lookup (root_context e s) [Key "child"]) =
       Some (xtext (itoa (c_id c) ++ "@" ++ match r_flow_name r with Some f => f | None => "<missing>" end))).
Proof. exact shown_by_id_everywhere. Qed.
Print Assumptions c19_shown_by_id_everywhere.

(* without the policy the same expression (@contact.urns[i]) shows each side its own URN *)
Theorem c19_visible_without_policy : forall e s t c d i u v,
  redact e = false -> s_contact s = Some c -> s_contact t = Some d ->
  nth_error (c_urns c) i = Some u -> nth_error (c_urns d) i = Some v -> u_plain u <> u_plain v ->
  lookup (root_context e s) [Key "contact"; Key "urns"; Idx i] = Some (xtext (u_plain u)) /\
  lookup (root_context e t) [Key "contact"; Key "urns"; Idx i] = Some (xtext (u_plain v)) /\
  lookup (root_context e s) [Key "contact"; Key "urns"; Idx i] <> lookup (root_context e t) [Key "contact"; Key "urns"; Idx i].
Proof. exact visible_without_policy. Qed.
Print Assumptions c19_visible_without_policy.

(* a query mentioning a URN value (scheme = v, urn ~ v, urns.scheme = v, anywhere in a combination) is rejected *)
Theorem c19_query_rejected : forall e r, redact e = true ->
  mentions_urn_value (snd (visit e r)) = true -> fst (parse_query e r) <> None.
Proof. exact query_rejected. Qed.
Print Assumptions c19_query_rejected.

(* bare values never become URN conditions under the policy *)
Theorem c19_implicit_never_urn : forall e v ai up pl nt, redact e = true ->
  mentions_urn_value (visit_implicit e v ai up pl nt) = false.
Proof. exact visit_implicit_no_urn. Qed.
Print Assumptions c19_implicit_never_urn.

(* every query accepted under the policy evaluates equally on twin URN lists *)
Theorem c19_accepted_queries_blind : forall e r other us vs, redact e = true ->
  fst (parse_query e r) = None -> Forall2 urn_twin us vs ->
  eval_query other us (snd (parse_query e r)) = eval_query other vs (snd (parse_query e r)).
Proof. exact accepted_queries_blind. Qed.
Print Assumptions c19_accepted_queries_blind.

(* gen obligations over gen/ContextKeys.v (regenerated from /repo on every run): every key of every context map
   of a modelled type is in the model's key table with the same URN-derivation class and vice versa; every
   other context map in the source has no URN-derived key *)
Theorem c19_context_keys_covered : keys_covered source_context_keys = true.
Proof. exact context_keys_covered. Qed.
Print Assumptions c19_context_keys_covered.

(* ... the same for what the evaluator is handed besides the context (methods of the environment types under flows/:
   only DefaultCountry / DefaultLocale touch URNs, and env_view carries the country) and for the functions that
   return an XValue directly (only the two transcribed URN sinks touch URNs) *)
Theorem c19_environment_and_value_builders_covered :
  rows_eqb model_env_methods source_env_methods = true /\
  rows_eqb model_value_builders source_value_builders = true.
Proof. exact env_and_values_covered. Qed.
Print Assumptions c19_environment_and_value_builders_covered.

(* ... and for WHO READS the contact's URNs during a run (functions under flows/actions, flows/modifiers, flows/routers
   calling a URN-touching method of Contact, ContactURN, URNList, ChannelAssets, sessionEnvironment): exactly the rows
   Redact.v accounts for — of these only URNsModifier.Apply (add_contact_urn) and ChannelModifier.Apply
   (set_contact_channel) change the state depending on held URNs, the others feed events or the known sinks *)
Theorem c19_urn_readers_covered : pairs_eqb model_urn_readers source_urn_readers = true.
Proof. exact urn_readers_covered. Qed.
Print Assumptions c19_urn_readers_covered.

(* ... and the tree the model builds has exactly the keys of that table at every transcribed builder *)
Theorem c19_model_tree_has_table_keys : forall e chans c i r s ch,
  xv_keys (contact_context e chans c) = dflt_first (table_keys "flows.Contact.Context") /\
  xv_keys (input_context e i) = dflt_first (table_keys "inputs.MsgInput.Context") /\
  xv_keys (related_context e chans r) = dflt_first (table_keys "runs.relatedRunContext.Context") /\
  xv_keys (run_context e s) = dflt_first (table_keys "runs.run.Context") /\
  xv_keys (root_context e s) = dflt_first (table_keys "runs.run.RootContext") /\
  xv_keys (channel_context ch) = dflt_first (table_keys "flows.Channel.Context") /\
  xv_keys (urns_map_context e (c_urns c)) = all_schemes e.
Proof. exact model_tree_has_table_keys. Qed.
Print Assumptions c19_model_tree_has_table_keys.
