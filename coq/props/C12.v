(* C12 — Literal text and string literals are represented faithfully.
   Statements only; proofs are in proofs/ExScanner*.v, proofs/ExLexerProofs.v, proofs/ExTemplateProofs.v.
   Models: model/ExScanner.v (xscanner, xinput, VisitTemplate loop), model/ExLexer.v + gen/GrammarE3.v (generated
   lexer, rule table regenerated from the .g4 on every run), model/ExParser.v (generated parser + visitor),
   lib/Quote.v (strconv.Quote/Unquote), model/ExTemplate.v (Evaluator.Template on the text fragment).
   The arguments isln, lower, printable of the theorems stand for Go library tables: isln = unicode.IsLetter||IsNumber, lower =
   unicode.ToLower, printable = unicode.IsPrint; the hypotheses on them are facts of those tables. *)
From Coq Require Import List NArith Bool.
From Verif Require Import lib.Quote model.ExSyntax model.ExLexer model.ExParser model.ExScanner model.ExTemplate
  model.ExPrinter proofs.ExScannerBound proofs.QuoteProofs proofs.ExScannerProofs proofs.ExEmbedded proofs.ExRoundtrip proofs.ExRender
  proofs.ExGlue proofs.ExTokName proofs.ExTemplateProofs.
Import ListNotations.
Open Scope N_scope.

(* Sentence 1.  Template text outside expressions passes through unchanged: for every NUL-free text t that
   contains no expression start (no_start: reading left to right and pairing "@@", no '@' is followed by '(' or
   by a name whose lower-cased first path segment is one of the allowed top levels), for EVERY allowed-top-level
   list and EVERY expression evaluator, Evaluator.Template returns exactly unescape_at t ("@@" -> "@", every
   other rune, every other '@' included, stays) and collects no error.  E-mail addresses, mentions, a trailing
   '@', "@." are instances (Example body_passthrough_witness).  Stated for a non-nil allowed list, which is what
   Evaluator.Template passes; with a nil list (refactor, HasExpressions) the lossless-scanner theorem
   c11_identity_rewrite_verbatim applies.  Body text in front of and after an expression: c12_template_embedded. *)
Theorem c12_body_passthrough : forall isln lower (eval_expr : text -> option text) tops t,
  isln eof = false -> isln r_dot = false -> isln r_at = false ->
  nulfree t -> no_start isln lower (Some tops) t = true ->
  template_with isln lower eval_expr tops t = Ok (unescape_at t, O).
Proof. exact body_passthrough_stmt. Qed.
Print Assumptions c12_body_passthrough.

(* The unread stack (fixed capacity 4 in input.go) never overflows: on EVERY input (any code points, NUL
   included), any allowed-top-level list (or nil), either unescape setting and any name-character /
   lower-casing tables, scanning the whole template returns normally (no index-out-of-range panic in
   `unread`, and the model's fuel is never exhausted) ... *)
Theorem c12_unread_bound : forall isln lower tops unescape s,
  exists toks, scan_all isln lower tops unescape s = Ok toks.
Proof. exact scan_all_ok. Qed.
Print Assumptions c12_unread_bound.

(* ... because every Scan call that starts with at most 2 unread runes ends with at most 2 (the proof
   shows `unread` is only reached with at most 1 rune on the stack), and consumes input unless it
   returns EOF. *)
Theorem c12_unread_bound_step : forall isln lower tops unescape i,
  (length (unread_runes i) <= 2)%nat ->
  exists ty w i', scan isln lower tops unescape i = Ok (ty, w, i')
                  /\ (length (unread_runes i') <= 2)%nat
                  /\ (ty <> EOF_T -> (mu i' < mu i)%nat).
Proof. exact scan_ok. Qed.
Print Assumptions c12_unread_bound_step.

(* Sentence 2.  Every string (valid code points, no NUL — quotes, backslashes including trailing ones,
   parentheses, '@', newlines, control and non-BMP characters) written as strconv.Quote(s) inside @( ) evaluates
   to exactly s, with no error, in every context: the scanner cuts out exactly the literal, the lexer reads it as
   one TEXT token, the parser builds a text literal, the visitor's Unquote returns s.  (Full statement since the
   repair of F10a, /repo d39e53d.) *)
Theorem c12_literal_faithful : forall isln lower printable ctx s,
  isln 0 = false -> printable 10 = false ->
  valid_codepoints s -> nulfree s ->
  template isln lower ctx ([64; 40] ++ quote printable s ++ [41]) = Ok (s, O).
Proof. exact literal_alone_stmt. Qed.
Print Assumptions c12_literal_faithful.

(* With a neighbour, @("s" & "t") evaluates to s ++ t.  PARTIAL: proved when s does not end in a backslash.
   Missing: s ending in a backslash — there the statement is FALSE of the model and of the code (F10b, the
   TEXT lexer rule is greedy over backslash-quote; known finding), see the next theorem. *)
Theorem c12_literal_neighbours_partial : forall isln lower printable ctx s t,
  isln 0 = false -> printable 10 = false ->
  valid_codepoints s -> nulfree s -> valid_codepoints t -> nulfree t ->
  ends_bs s = false ->
  template isln lower ctx ([64; 40] ++ (quote printable s ++ [32; 38; 32] ++ quote printable t) ++ [41])
    = Ok (s ++ t, O).
Proof. exact literal_neighbours_stmt. Qed.
Print Assumptions c12_literal_neighbours_partial.

(* the full statement is refuted: s = a\ (a, backslash), t = b gives a syntax error and empty output *)
Theorem c12_literal_neighbours_refuted :
  exists isln lower printable s t,
    isln 0 = false /\ printable 10 = false /\
    valid_codepoints s /\ nulfree s /\ valid_codepoints t /\ nulfree t /\
    template isln lower [] ([64; 40] ++ (quote printable s ++ [32; 38; 32] ++ quote printable t) ++ [41])
      <> Ok (s ++ t, O).
Proof. exact literal_neighbours_refuted. Qed.
Print Assumptions c12_literal_neighbours_refuted.

(* Sentence 1 with expressions present ("alone and embedded ... in a template"): in  b1 @( e ) b2  with b1 NUL-free
   body text without expression start that does not end in an unpaired '@' (at_open: it would pair with the '@' of
   "@("), e any expression text the scanner closes at that ')' (closed_expr; quoted literals and everything the
   printer writes glue-free are instances), and b2 ARBITRARY: the output is unescape_at b1, then the value of e
   (nothing, and one more error, if it is an error), then exactly what b2 evaluates to as a template of its own. *)
Theorem c12_template_embedded : forall isln lower (eval_expr : ExScanner.text -> option ExScanner.text) tops b1 e b2,
  isln 0 = false -> isln r_dot = false -> isln r_at = false ->
  nulfree b1 -> nulfree e -> nulfree b2 ->
  no_start isln lower (Some tops) b1 = true -> at_open b1 = false -> closed_expr e ->
  exists o2 n2, template_with isln lower eval_expr tops b2 = Ok (o2, n2) /\
    template_with isln lower eval_expr tops (b1 ++ r_at :: r_lparen :: e ++ r_rparen :: b2) =
    Ok (unescape_at b1 ++ (match eval_expr e with Some v => v | None => [] end) ++ o2,
        match eval_expr e with Some _ => n2 | None => S n2 end).
Proof. exact template_embedded_stmt. Qed.
Print Assumptions c12_template_embedded.

(* Sentence 1, an expression that never closes (hunt finding C12/1, repaired in scanner.go): b1 as above, then "@(",
   then e in which the scanner, started after the "@(", reaches the end of the input with a parenthesis still
   open (unterminated: parentheses inside text literals do not count, a literal still open at the end swallows the
   rest).  Nothing is evaluated, no error is collected, and the WHOLE input is body text: the output is
   unescape_at b1, "@(", unescape_at e.  No condition on what follows an '@' inside e: after the unterminated "@("
   nothing starts an expression any more.  Witness: template_unterminated_witness.
   The part about '@@' is sentence 1; that no later expression starts is what scanExpression does (it reads to the end of the
   input) - the property is silent on it, it is recorded here as the behaviour of the code, not as a requirement. *)
Theorem c12_body_after_unterminated : forall isln lower (eval_expr : ExScanner.text -> option ExScanner.text) tops b1 e,
  isln 0 = false -> isln r_dot = false -> isln r_at = false ->
  nulfree b1 -> nulfree e ->
  no_start isln lower (Some tops) b1 = true -> at_open b1 = false -> unterminated e ->
  template_with isln lower eval_expr tops (b1 ++ r_at :: r_lparen :: e) =
  Ok (unescape_at b1 ++ r_at :: r_lparen :: unescape_at e, O).
Proof. exact template_unterminated_stmt. Qed.
Print Assumptions c12_body_after_unterminated.

(* ... in particular when no closing parenthesis follows the "@(" at all *)
Theorem c12_body_after_unclosed_paren : forall isln lower (eval_expr : ExScanner.text -> option ExScanner.text) tops b1 e,
  isln 0 = false -> isln r_dot = false -> isln r_at = false ->
  nulfree b1 -> nulfree e ->
  no_start isln lower (Some tops) b1 = true -> at_open b1 = false -> ~ In r_rparen e ->
  template_with isln lower eval_expr tops (b1 ++ r_at :: r_lparen :: e) =
  Ok (unescape_at b1 ++ r_at :: r_lparen :: unescape_at e, O).
Proof. exact template_no_rparen_stmt. Qed.
Print Assumptions c12_body_after_unclosed_paren.

(* Sentence 2, embedded: the literal between arbitrary body text b1 (as above) and an arbitrary rest b2 *)
Theorem c12_literal_embedded : forall isln lower printable ctx b1 s b2,
  isln 0 = false -> isln r_dot = false -> isln r_at = false -> printable 10 = false ->
  valid_codepoints s -> nulfree s -> nulfree b1 -> nulfree b2 ->
  no_start isln lower (Some (map fst ctx)) b1 = true -> at_open b1 = false ->
  exists o2 n2, template isln lower ctx b2 = Ok (o2, n2) /\
    template isln lower ctx (b1 ++ [64; 40] ++ quote printable s ++ [41] ++ b2) = Ok (unescape_at b1 ++ s ++ o2, n2).
Proof. exact literal_embedded_stmt. Qed.
Print Assumptions c12_literal_embedded.

(* Sentence 2, "wherever the literal stands in an expression", lexer half: followed by ANY text rest (a closing
   parenthesis, a comma, an operator, a bracket, more literals ...), strconv.Quote(s) is read as ONE TEXT token, the
   rest is untouched, and the visitor's Unquote of that token is s — provided text_follow_ok s rest: s does not end
   in a backslash, or no quote occurs in rest.  That restriction is exactly F10b (refuted otherwise:
   c12_literal_neighbours_refuted); it is also the restriction under which sentence 3 (scanner and parser agree where
   an expression ends) can hold at all: the scanner closes a literal by backslash parity, the TEXT rule by longest
   match, and they differ precisely when a literal ends in an escaped backslash and a later quote exists.  The
   scanner half for quoted literals is quoted_closed / quoted_pair_closed (proofs/ExScannerProofs.v), used by the
   theorems above; for whole printed expressions: glue-free printed text lexes to the printed tokens
   (c11_roundtrip_partial). *)
Theorem c12_literal_one_token : forall printable s rest,
  printable 10 = false -> valid_codepoints s -> text_follow_ok s rest = true ->
  lex_one (quote printable s ++ rest) = Some (TEXT, false, quote printable s, rest)
  /\ text_value (quote printable s) = Some s.
Proof. exact literal_one_token_stmt. Qed.
Print Assumptions c12_literal_one_token.

(* Sentence 3 for what refactor.Template writes: for every accepted source with tree t whose context references,
   lower-cased, are still NAME lexemes and no keywords (refs_ok; the other printed names are NAME tokens of the source,
   proofs/ExTokName.v), the template scanner, started after "@(", closes exactly the printed expression
   at the ")" that follows it — whatever comes after (closed_expr), also when a text value ends in a backslash (the
   scanner closes literals by backslash parity) — and, when moreover no text value ends in a backslash (texts_ok), the
   lexer reads that same text as exactly the printed tokens: scanner and lexer/parser agree where the expression
   ends and how it is cut into tokens.  Together with c12_template_embedded (e := the printed text) this covers a
   rewritten expression embedded between arbitrary body text.  Not covered: arbitrary hand-written expression text
   (free white space, every lexeme form) — there the agreement is the differential run and oracles O4/O5; and it is
   false without texts_ok (F10b). *)
Theorem c12_scanner_lexer_agree_printed : forall (lower : N -> N) (printable : N -> bool) inp ts t,
  printable 10 = false -> valid_codepoints inp ->
  lex inp = LOk ts -> parse_tokens ts = POk t -> refs_ok lower t = true ->
  closed_expr (print lower printable t)
  /\ (texts_ok t = true -> lex (print lower printable t) = LOk (ptoks lower printable t)).
Proof. exact scanner_lexer_agree_printed_stmt. Qed.
Print Assumptions c12_scanner_lexer_agree_printed.

(* Sentence 3 as the property words it - for EVERY expression - is false (F10b; the inputs of the two known: lines
   scanner-lexer-agree / scanner-parser-agree:literal-ends-in-backslash-before-later-quote).  Write Q for a quote
   character.  (a) The scanner ends the expression  Qa\\Q & Q)Q  where the parser cannot (syntax error on exactly the
   text the scanner cut out); (b) the parser takes  Qa\\Q & Q  for one text literal where the scanner finds no end at
   all.  What holds is c12_literal_one_token and c12_scanner_lexer_agree_printed above. *)
Theorem c12_scanner_parser_agree_refuted :
  (exists e, closed_expr e /\ exists ts, lex e = LOk ts /\ parse_tokens ts = PSyntax)
  /\ (exists e v, unterminated e /\ lex e = LOk [tok TEXT e] /\ parse_tokens [tok TEXT e] = POk (EText v)).
Proof. exact scanner_parser_agree_refuted. Qed.
Print Assumptions c12_scanner_parser_agree_refuted.
