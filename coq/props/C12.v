(* C12 — Literal text and string literals are represented faithfully.
   Statements only; proofs are in proofs/ExScanner*.v.  Model: model/ExScanner.v (xscanner, xinput,
   VisitTemplate loop). *)
From Coq Require Import List NArith Bool.
From Verif Require Import model.ExScanner proofs.ExScannerBound.
Import ListNotations.
Open Scope N_scope.

(* The unread stack (fixed capacity 4 in input.go) never overflows: on EVERY input (any code points, NUL
   included), any allowed-top-level list (or nil), either unescape setting and any name-character /
   lower-casing tables, scanning the whole template returns normally (no index-out-of-range panic in
   `unread`, and the model's fuel is never exhausted) ... *)
Theorem c12_unread_bound : forall isln lower tops unescape s,
  exists toks, scan_all isln lower tops unescape s = Ok toks.
Proof. exact scan_all_ok. Qed.
Print Assumptions c12_unread_bound.

(* ... because every Scan call that starts with at most 2 unread runes ends with at most 2 (the proof
   shows `unread` is only reached with at most 1 rune on the stack), and consumes input unless it
   returns EOF. *)
Theorem c12_unread_bound_step : forall isln lower tops unescape i,
  (length (unread_runes i) <= 2)%nat ->
  exists ty w i', scan isln lower tops unescape i = Ok (ty, w, i')
                  /\ (length (unread_runes i') <= 2)%nat
                  /\ (ty <> EOF_T -> (mu i' < mu i)%nat).
Proof. exact scan_ok. Qed.
Print Assumptions c12_unread_bound_step.
