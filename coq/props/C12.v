(* C12 — Literal text and string literals are represented faithfully.
   Statements only; proofs are in proofs/ExScanner*.v, proofs/ExLexerProofs.v, proofs/ExTemplateProofs.v.
   Models: model/ExScanner.v (xscanner, xinput, VisitTemplate loop), model/ExLexer.v + gen/GrammarE3.v (generated
   lexer, rule table regenerated from the .g4 on every run), model/ExParser.v (generated parser + visitor),
   lib/Quote.v (strconv.Quote/Unquote), model/ExTemplate.v (Evaluator.Template on the text fragment).
   The arguments isln, lower, printable of the theorems stand for Go library tables: isln = unicode.IsLetter||IsNumber, lower =
   unicode.ToLower, printable = unicode.IsPrint; the hypotheses on them are facts of those tables. *)
From Coq Require Import List NArith Bool.
From Verif Require Import lib.Quote model.ExScanner model.ExTemplate proofs.ExScannerBound proofs.QuoteProofs
  proofs.ExScannerProofs proofs.ExTemplateProofs.
Import ListNotations.
Open Scope N_scope.

(* Sentence 1.  Template text outside expressions passes through unchanged: for every NUL-free text t that
   contains no expression start (no_start: reading left to right and pairing "@@", no '@' is followed by '(' or
   by a name whose lower-cased first path segment is one of the allowed top levels), for EVERY allowed-top-level
   list and EVERY expression evaluator, Evaluator.Template returns exactly unescape_at t ("@@" -> "@", every
   other rune, every other '@' included, stays) and collects no error.  E-mail addresses, mentions, a trailing
   '@', "@." are instances (Example body_passthrough_witness). *)
Theorem c12_body_passthrough : forall isln lower (eval_expr : text -> option text) tops t,
  isln eof = false -> isln r_dot = false -> isln r_at = false ->
  nulfree t -> no_start isln lower (Some tops) t = true ->
  template_with isln lower eval_expr tops t = Ok (unescape_at t, O).
Proof. exact body_passthrough_stmt. Qed.
Print Assumptions c12_body_passthrough.

(* The unread stack (fixed capacity 4 in input.go) never overflows: on EVERY input (any code points, NUL
   included), any allowed-top-level list (or nil), either unescape setting and any name-character /
   lower-casing tables, scanning the whole template returns normally (no index-out-of-range panic in
   `unread`, and the model's fuel is never exhausted) ... *)
Theorem c12_unread_bound : forall isln lower tops unescape s,
  exists toks, scan_all isln lower tops unescape s = Ok toks.
Proof. exact scan_all_ok. Qed.
Print Assumptions c12_unread_bound.

(* ... because every Scan call that starts with at most 2 unread runes ends with at most 2 (the proof
   shows `unread` is only reached with at most 1 rune on the stack), and consumes input unless it
   returns EOF. *)
Theorem c12_unread_bound_step : forall isln lower tops unescape i,
  (length (unread_runes i) <= 2)%nat ->
  exists ty w i', scan isln lower tops unescape i = Ok (ty, w, i')
                  /\ (length (unread_runes i') <= 2)%nat
                  /\ (ty <> EOF_T -> (mu i' < mu i)%nat).
Proof. exact scan_ok. Qed.
Print Assumptions c12_unread_bound_step.

(* Sentence 2.  Every string (valid code points, no NUL — quotes, backslashes including trailing ones,
   parentheses, '@', newlines, control and non-BMP characters) written as strconv.Quote(s) inside @( ) evaluates
   to exactly s, with no error, in every context: the scanner cuts out exactly the literal, the lexer reads it as
   one TEXT token, the parser builds a text literal, the visitor's Unquote returns s.  (Full statement since the
   repair of F10a, /repo d39e53d.) *)
Theorem c12_literal_faithful : forall isln lower printable ctx s,
  isln 0 = false -> printable 10 = false ->
  valid_codepoints s -> nulfree s ->
  template isln lower ctx ([64; 40] ++ quote printable s ++ [41]) = Ok (s, O).
Proof. exact literal_alone_stmt. Qed.
Print Assumptions c12_literal_faithful.

(* With a neighbour, @("s" & "t") evaluates to s ++ t.  PARTIAL: proved when s does not end in a backslash.
   Missing: s ending in a backslash — there the statement is FALSE of the model and of the code (F10b, the
   TEXT lexer rule is greedy over backslash-quote; known finding), see the next theorem. *)
Theorem c12_literal_neighbours_partial : forall isln lower printable ctx s t,
  isln 0 = false -> printable 10 = false ->
  valid_codepoints s -> nulfree s -> valid_codepoints t -> nulfree t ->
  ends_bs s = false ->
  template isln lower ctx ([64; 40] ++ (quote printable s ++ [32; 38; 32] ++ quote printable t) ++ [41])
    = Ok (s ++ t, O).
Proof. exact literal_neighbours_stmt. Qed.
Print Assumptions c12_literal_neighbours_partial.

(* the full statement is refuted: s = a\ (a, backslash), t = b gives a syntax error and empty output *)
Theorem c12_literal_neighbours_refuted :
  exists isln lower printable s t,
    isln 0 = false /\ printable 10 = false /\
    valid_codepoints s /\ nulfree s /\ valid_codepoints t /\ nulfree t /\
    template isln lower [] ([64; 40] ++ (quote printable s ++ [32; 38; 32] ++ quote printable t) ++ [41])
      <> Ok (s ++ t, O).
Proof. exact literal_neighbours_refuted. Qed.
Print Assumptions c12_literal_neighbours_refuted.
