(* C15 — Contact query evaluation is total and logically consistent.
   Statements only; proofs are in proofs/CqlEvalProofs.v.  Model: model/CqlEval.v (contactql/evaluator.go,
   contactql/parser.go validate + Simplify, flows/contact.go QueryProperty, flows/field.go QueryValue).

   Every theorem is universally quantified over the environment [e] (unicode lowering, the word segmenter,
   the date parser + local midnight, the language table) and the resolver [r]: nothing is assumed of them.
   [Panic] is the model's value for the Go panics of the evaluator (type assertions val.(decimal.Decimal),
   val.(time.Time), val.(string), the `default: panic` branches of the three comparison functions and
   evaluateNode on a nil root). *)
From Coq Require Import List NArith ZArith Bool.
From Verif Require Import model.CqlEval proofs.CqlEvalProofs.
From Verif Require lib.Quote model.CqlSyntax model.CqlPrinter model.CqlParser proofs.CqlAcceptedProofs proofs.CqlBridgeProofs.
Import ListNotations.

(* -- totality ---------------------------------------------------------------------------------------- *)

(* a query the validator admits never panics on a contact whose fields have the types the resolver declares *)
Theorem c15_no_panic : forall e r q c,
  validate e r q = None -> typed_contact r c -> eval_contact e r q c <> Panic.
Proof. exact eval_contact_no_panic. Qed.
Print Assumptions c15_no_panic.

(* the typing hypothesis is what Contact.QueryProperty delivers: every value it returns for a property has
   the Go type the evaluator asserts for the property's resolved value type *)
Theorem c15_query_property_typed : forall r c, typed_contact r c -> typed_qp r (query_property c).
Proof. exact query_property_typed. Qed.
Print Assumptions c15_query_property_typed.

(* what ParseQuery returns (the visitor's tree, validated, then simplified) is a non-nil query that evaluates
   to a boolean — the same boolean as the unsimplified tree *)
Theorem c15_parsed_query_total : forall e r q c,
  wf q -> validate e r q = None -> typed_contact r c ->
  exists q' b, simplify q = Some q' /\ eval_root e r (query_property c) (simplify q) = RBool b
               /\ eval_contact e r q' c = RBool b /\ eval_contact e r q c = RBool b.
Proof. exact parsed_query_total. Qed.
Print Assumptions c15_parsed_query_total.

(* [wf] is what the parser produces: every tree that the lexer, parser and visitor of the ParseQuery model
   (model/CqlParser.v, property C14) build for a query TEXT, read in this model's types, has no empty combination *)
Theorem c15_parsed_trees_wf : forall e s n m,
  CqlParser.parse_front e s = CqlParser.FTree n -> CqlBridgeProofs.conv n = Some m -> wf m.
Proof. exact CqlBridgeProofs.parsed_tree_wf. Qed.
Print Assumptions c15_parsed_trees_wf.

(* ... and the conversion never fails on them: for every valid-UTF-8 text whose characters lower-case inside the
   grammar's classes, in an environment with the ASCII lower-casing on ASCII (C14's env_ok / lowok), what the parser
   hands to the validator converts to a well-formed tree of this model *)
Theorem c15_parsed_trees_convert : forall e s n, CqlAcceptedProofs.env_ok e -> Quote.valid_codepoints s ->
  Forall (CqlAcceptedProofs.lowok e) s -> CqlParser.parse_front e s = CqlParser.FTree n ->
  exists m, CqlBridgeProofs.conv n = Some m /\ wf m.
Proof. exact CqlBridgeProofs.parsed_tree_converts. Qed.
Print Assumptions c15_parsed_trees_convert.

(* from the query TEXT: the tree built for a text, once this model's validator admits it, is simplified to the same
   root by the parser model's Simplify and by this model's (the two transcriptions agree under the conversion), and
   that root evaluates to a boolean on every typed contact *)
Theorem c15_parsed_text_total : forall e s n m e' r c,
  CqlParser.parse_front e s = CqlParser.FTree n -> CqlBridgeProofs.conv n = Some m ->
  validate e' r m = None -> typed_contact r c ->
  CqlBridgeProofs.Ro (CqlPrinter.simplify n) (simplify m)
  /\ exists b, eval_root e' r (query_property c) (simplify m) = RBool b.
Proof. exact CqlBridgeProofs.parsed_text_total. Qed.
Print Assumptions c15_parsed_text_total.

(* the validator is not vacuous and the evaluator does panic outside of what it admits *)
Example c15_panic_reachable :
  let e := {| e_lower := fun c => c; e_tokens := fun _ => []; e_day_start := fun _ => None;
              e_valid_lang := fun _ => true |} in
  let r := {| r_field := fun k => Some FNumber; r_group := fun _ => false; r_flow := fun _ => false |} in
  let qp := fun (_ : ptype) (_ : text) => [VNum dec_zero] in
  eval e r qp (Cond PField k_name OpContains [49; 50]%N) = Panic
  /\ validate e r (Cond PField k_name OpContains [49; 50]%N) = Some EUnsupportedContains
  /\ eval e r qp (Cond PAttr k_name OpGt [49]%N) = Panic.
Proof. exact panic_reachable. Qed.
Print Assumptions c15_panic_reachable.

(* -- AND / OR ---------------------------------------------------------------------------------------- *)

Theorem c15_and : forall e r qs c, validate e r (Comb BAnd qs) = None -> typed_contact r c ->
  (forall q, In q qs -> exists b, eval_contact e r q c = RBool b)
  /\ eval_contact e r (Comb BAnd qs) c = RBool (forallb (fun q => as_bool (eval_contact e r q c)) qs).
Proof. exact and_on_contact. Qed.
Print Assumptions c15_and.

Theorem c15_or : forall e r qs c, validate e r (Comb BOr qs) = None -> typed_contact r c ->
  (forall q, In q qs -> exists b, eval_contact e r q c = RBool b)
  /\ eval_contact e r (Comb BOr qs) c = RBool (existsb (fun q => as_bool (eval_contact e r q c)) qs).
Proof. exact or_on_contact. Qed.
Print Assumptions c15_or.

(* -- simplification ---------------------------------------------------------------------------------- *)

(* for every tree the parser can build (every combination has a child; any arity, any nesting), validated or
   not, any Queryable: Simplify returns a tree of the same value (panics included) in which every
   combination has at least two children *)
Theorem c15_simplify_sound : forall e r qp q, wf q ->
  exists q', simplify q = Some q' /\ big q' /\ eval e r qp q' = eval e r qp q.
Proof. exact simplify_sound. Qed.
Print Assumptions c15_simplify_sound.

(* why [wf] is there: a combination WITHOUT children (constructible with NewBoolCombination, never parsed)
   is dropped by Simplify although OR[] is false — outside the statement's quantifier, recorded here *)
Example c15_simplify_drops_empty_combinations :
  let e := {| e_lower := fun c => c; e_tokens := fun _ => []; e_day_start := fun _ => None;
              e_valid_lang := fun _ => true |} in
  let r := {| r_field := fun _ => None; r_group := fun _ => false; r_flow := fun _ => false |} in
  let qp := fun (_ : ptype) (_ : text) => [VText [98]%N] in
  let c := Cond PAttr k_name OpEq [98]%N in
  simplify (Comb BAnd [c; Comb BOr []]) = Some c
  /\ eval e r qp (Comb BAnd [c; Comb BOr []]) = RBool false
  /\ eval e r qp c = RBool true
  /\ simplify (Comb BAnd []) = None.
Proof. exact simplify_drops_empty_combinations. Qed.
Print Assumptions c15_simplify_drops_empty_combinations.

(* -- empty value ------------------------------------------------------------------------------------- *)

Theorem c15_empty_value : forall e r c pt key,
  eval_contact e r (Cond pt key OpEq []) c = RBool (no_vals (query_property c pt key))
  /\ eval_contact e r (Cond pt key OpNe []) c = RBool (negb (no_vals (query_property c pt key))).
Proof. exact empty_value_on_contact. Qed.
Print Assumptions c15_empty_value.

(* in terms of the contact itself *)
Theorem c15_empty_value_in_contact_terms : forall e r c key,
  eval_contact e r (Cond PField key OpEq []) c =
    RBool (match assoc key (c_fields c) with
           | None => true
           | Some (ft, fv) => match query_value ft fv with None => true | Some _ => false end
           end)
  /\ eval_contact e r (Cond PAttr k_name OpEq []) c = RBool (is_nil (c_name c))
  /\ eval_contact e r (Cond PAttr k_language OpEq []) c = RBool (is_nil (c_lang c))
  /\ eval_contact e r (Cond PUrn key OpEq []) c = RBool (negb (existsb (fun u => text_eqb (fst u) key) (c_urns c)))
  /\ eval_contact e r (Cond PAttr k_last_seen_on OpNe []) c = RBool (match c_last_seen c with Some _ => true | None => false end).
Proof. exact empty_value_in_contact_terms. Qed.
Print Assumptions c15_empty_value_in_contact_terms.

(* The empty-value sentence for the attribute `group`.  FULL STATEMENT (false): `group = ""` holds iff the contact is
   in no group.  PARTIAL (c15_empty_value above): it tests the emptiness of what Contact.QueryProperty returns — and
   QueryProperty resolves neither group nor id, status, flow, history (search-only attributes: contactql.Inspect
   reports allow_as_group = false for them, but ParseQuery, flows.NewGroup and EvaluateQuery accept them).  The
   evaluation of a group condition does not depend on the contact's groups (c15_group_not_resolved), so a member of a
   group satisfies `group = ""` (c15_empty_value_group_refuted; KNOWN_FINDINGS.txt class empty-value:attr:group). *)
Theorem c15_group_not_resolved : forall e r c o v,
  eval_contact e r (Cond PAttr k_group o v) c
  = eval_contact e r (Cond PAttr k_group o v)
      {| c_uuid := c_uuid c; c_name := c_name c; c_lang := c_lang c; c_urns := c_urns c; c_ticket := c_ticket c;
         c_created := c_created c; c_last_seen := c_last_seen c; c_fields := c_fields c; c_groups := [] |}.
Proof. exact group_not_resolved. Qed.
Print Assumptions c15_group_not_resolved.

Theorem c15_empty_value_group_refuted :
  exists e r c, c_groups c <> []
    /\ eval_contact e r (Cond PAttr k_group OpEq []) c = RBool true
    /\ eval_contact e r (Cond PAttr k_group OpNe []) c = RBool false
    /\ validate e r (Cond PAttr k_group OpEq []) = None.
Proof. exact empty_value_group_refuted. Qed.
Print Assumptions c15_empty_value_group_refuted.

(* -- numbers ------------------------------------------------------------------------------------------ *)

(* <= and >= are the unions, != is the negation of =, for a present or an absent value *)
Theorem c15_number_relations : forall e r c pt key v,
  typed_contact r c -> v <> [] -> resolve_value_type r pt key = Some FNumber ->
  exists lt eq gt,
    eval_contact e r (Cond pt key OpLt v) c = RBool lt /\ eval_contact e r (Cond pt key OpEq v) c = RBool eq
    /\ eval_contact e r (Cond pt key OpGt v) c = RBool gt
    /\ eval_contact e r (Cond pt key OpLe v) c = RBool (lt || eq)
    /\ eval_contact e r (Cond pt key OpGe v) c = RBool (gt || eq)
    /\ eval_contact e r (Cond pt key OpNe v) c = RBool (negb eq).
Proof. exact number_relations_on_contact. Qed.
Print Assumptions c15_number_relations.

(* a present value: exactly one of <, =, >;  an absent one: none of them and != holds *)
Theorem c15_trichotomy_number : forall e r c pt key v,
  typed_contact r c -> v <> [] -> resolve_value_type r pt key = Some FNumber ->
  (query_property c pt key <> [] ->
   exactly_one (eval_contact e r (Cond pt key OpLt v) c) (eval_contact e r (Cond pt key OpEq v) c)
               (eval_contact e r (Cond pt key OpGt v) c))
  /\ (query_property c pt key = [] ->
      eval_contact e r (Cond pt key OpLt v) c = RBool false /\ eval_contact e r (Cond pt key OpEq v) c = RBool false
      /\ eval_contact e r (Cond pt key OpGt v) c = RBool false /\ eval_contact e r (Cond pt key OpNe v) c = RBool true).
Proof. exact number_trichotomy_on_contact. Qed.
Print Assumptions c15_trichotomy_number.

(* the comparison is by numeric value (m * 10^e as a rational), not by notation *)
Theorem c15_number_by_value : forall a b k, (k <= d_e a)%Z -> (k <= d_e b)%Z ->
  dec_compare a b = (d_m a * 10 ^ (d_e a - k) ?= d_m b * 10 ^ (d_e b - k))%Z.
Proof. exact dec_compare_spec. Qed.
Print Assumptions c15_number_by_value.

(* The model's decimals are exact integers and cost nothing; Go's Decimal.Cmp rescales with big.Int at a cost of
   10^|exponent difference|.  What keeps evaluation feasible is the validator: a number condition it admits carries a
   literal whose exponent lies within +-1000 (ValueAsNumber's bound; before that repair `tickets > 1e300000000`
   was admitted and EvaluateQuery did not return). *)
Theorem c15_number_literal_bounded : forall e r pt key o v,
  validate_cond e r pt key o v = None -> resolve_value_type r pt key = Some FNumber ->
  ((is_eq o || is_ne o) && is_nil v = false) ->
  exists d, value_number v = Some d /\ value_as_number v = d
            /\ (- max_number_value_exponent <= d_e d <= max_number_value_exponent)%Z.
Proof. exact validated_number_bounded. Qed.
Print Assumptions c15_number_literal_bounded.

Example c15_huge_exponent_rejected :
  let e := {| e_lower := fun c => c; e_tokens := fun _ => []; e_day_start := fun _ => None;
              e_valid_lang := fun _ => true |} in
  let r := {| r_field := fun _ => None; r_group := fun _ => false; r_flow := fun _ => false |} in
  validate_cond e r PAttr k_tickets OpGt [49; 101; 51; 48; 48; 48; 48; 48; 48; 48; 48]%N = Some EInvalidNumber
  /\ validate_cond e r PAttr k_tickets OpGt [49; 101; 49; 48; 48; 48]%N = None.
Proof. exact huge_exponent_rejected. Qed.
Print Assumptions c15_huge_exponent_rejected.

(* ... and the contact side: a stored number that the reader accepts has an exponent within +-max(1000, length of its
   stored text) (model stored_number_ok, compared with the real flows.ReadContact in every run), so the two numbers
   a validated number condition makes Decimal.Cmp rescale are at most 1000 + max(1000, len) decimal places apart *)
Theorem c15_rescale_distance_bounded : forall e r pt key o v len ex,
  validate_cond e r pt key o v = None -> resolve_value_type r pt key = Some FNumber ->
  ((is_eq o || is_ne o) && is_nil v = false) -> stored_number_ok len ex = true ->
  (Z.abs (ex - d_e (value_as_number v)) <= 1000 + Z.max 1000 (Z.of_N len))%Z.
Proof. exact rescale_distance_bounded. Qed.
Print Assumptions c15_rescale_distance_bounded.

(* -- dates -------------------------------------------------------------------------------------------- *)

Theorem c15_date_relations : forall e r c pt key v,
  typed_contact r c -> v <> [] -> resolve_value_type r pt key = Some FDatetime ->
  exists lt eq gt,
    eval_contact e r (Cond pt key OpLt v) c = RBool lt /\ eval_contact e r (Cond pt key OpEq v) c = RBool eq
    /\ eval_contact e r (Cond pt key OpGt v) c = RBool gt
    /\ eval_contact e r (Cond pt key OpLe v) c = RBool (lt || eq)
    /\ eval_contact e r (Cond pt key OpGe v) c = RBool (gt || eq)
    /\ eval_contact e r (Cond pt key OpNe v) c = RBool (negb eq).
Proof. exact date_relations_on_contact. Qed.
Print Assumptions c15_date_relations.

Theorem c15_trichotomy_date : forall e r c pt key v,
  typed_contact r c -> v <> [] -> resolve_value_type r pt key = Some FDatetime ->
  (query_property c pt key <> [] ->
   exactly_one (eval_contact e r (Cond pt key OpLt v) c) (eval_contact e r (Cond pt key OpEq v) c)
               (eval_contact e r (Cond pt key OpGt v) c))
  /\ (query_property c pt key = [] ->
      eval_contact e r (Cond pt key OpLt v) c = RBool false /\ eval_contact e r (Cond pt key OpEq v) c = RBool false
      /\ eval_contact e r (Cond pt key OpGt v) c = RBool false /\ eval_contact e r (Cond pt key OpNe v) c = RBool true).
Proof. exact date_trichotomy_on_contact. Qed.
Print Assumptions c15_trichotomy_date.

(* Dates are compared by calendar day in the environment's zone.  The zone enters as an arbitrary
   [calendar] (local midnights and the local day of an instant).
   FULL STATEMENT (false of the code, see c15_date_by_calendar_day_refuted): the three conclusions below for every
   calendar and every queried day.
   PARTIAL: they hold when the QUERIED day d satisfies [day_ok cal d] (the instants before d's local midnight are
   exactly those of earlier local days, and the instants of local day d are exactly the interval between d's midnight
   and the next) and is 24 hours long.  Both hypotheses are about day d only: what is excluded is exactly a queried day
   on which the zone skips or repeats local time (23/25-hour days, a day that is not an interval) — the listed finding
   date-comparison:dst-transition-day (the code takes [local midnight, local midnight + 24h), gocommon
   dates.DayToUTCRange).  A transition on any OTHER day of the zone does not matter (c15_day_ok_other_days).
   The 24-hour hypothesis also excludes a queried date the zone skipped altogether when it moved across the date line
   (Pacific/Apia 2011-12-30, Pacific/Kiritimati 1994-12-31): such a day is 0 hours long, and the code answers the query
   for the following day — the listed finding date-comparison:queried-day-skipped-by-zone (c15_skipped_day_example). *)
Theorem c15_date_by_calendar_day_partial : forall (cal : calendar) e r c pt key v d t,
  day_ok cal d ->
  resolve_value_type r pt key = Some FDatetime -> v <> [] ->
  query_property c pt key = [VTime t] ->
  e_day_start e v = Some (midnight cal d) ->
  (midnight cal (d + 1) = midnight cal d + day_ns)%Z ->
  eval_contact e r (Cond pt key OpLt v) c = RBool (local_day cal t <? d)%Z
  /\ eval_contact e r (Cond pt key OpEq v) c = RBool (local_day cal t =? d)%Z
  /\ eval_contact e r (Cond pt key OpGt v) c = RBool (d <? local_day cal t)%Z.
Proof. exact date_by_calendar_day_local_on_contact. Qed.
Print Assumptions c15_date_by_calendar_day_partial.

(* the former, zone-wide hypothesis (every local day an interval, midnights increasing) implies the local one *)
Theorem c15_day_ok_from_calendar_ok : forall cal d, calendar_ok cal -> day_ok cal d.
Proof. exact calendar_ok_day_ok. Qed.
Print Assumptions c15_day_ok_from_calendar_ok.

(* a zone with a transition on ANOTHER day — clocks set back across midnight one minute into local day 1, as
   America/St_Johns did in 2007, so that local day 0 is not an interval and the zone-wide hypothesis fails —
   satisfies the local hypotheses on every day from the third on *)
Example c15_day_ok_other_days :
  ~ calendar_ok cal_back
  /\ forall d, (3 <= d)%Z -> day_ok cal_back d /\ (midnight cal_back (d + 1) = midnight cal_back d + day_ns)%Z.
Proof. split; [exact cal_back_not_calendar_ok|exact cal_back_day_ok]. Qed.
Print Assumptions c15_day_ok_other_days.

(* the hypotheses are satisfiable, e.g. by the uniform calendar, whose every day is 24 hours long *)
Example c15_calendar_example :
  calendar_ok cal_utc /\ forall d, (midnight cal_utc (d + 1) = midnight cal_utc d + day_ns)%Z.
Proof. exact cal_utc_ok. Qed.
Print Assumptions c15_calendar_example.

(* a zone that skips local day 1 altogether (as Pacific/Apia skipped 2011-12-30): no instant is on day 1; the day start
   the environment gives for it is the first instant after the gap, which is the midnight of day 2, so day 1 is 0 hours
   long and the 24-hour hypothesis of the partial theorem fails for it — for it only: every other day of the zone
   satisfies both hypotheses.  And the conclusion does fail there: a contact at noon of local day 2 satisfies `= day 1`
   (class date-comparison:queried-day-skipped-by-zone) *)
Example c15_skipped_day_example :
  (forall t, local_day cal_skip t <> 1%Z)
  /\ midnight cal_skip (1 + 1) <> (midnight cal_skip 1 + day_ns)%Z
  /\ (forall d, d <> 1%Z -> day_ok cal_skip d /\ (midnight cal_skip (d + 1) = midnight cal_skip d + day_ns)%Z)
  /\ exists (e : env) (r : resolver) (c : contact) (pt : ptype) (key v : text) (t : Z),
       resolve_value_type r pt key = Some FDatetime /\ v <> [] /\ query_property c pt key = [VTime t]
       /\ e_day_start e v = Some (midnight cal_skip 1)
       /\ local_day cal_skip t = 2%Z
       /\ eval_contact e r (Cond pt key OpEq v) c = RBool true
       /\ eval_contact e r (Cond pt key OpGt v) c = RBool false.
Proof.
  split; [exact cal_skip_day_never|]. split; [exact (proj2 cal_skip_day_empty)|].
  split; [exact cal_skip_other_days|exact date_skipped_day_fails_on_contact].
Qed.
Print Assumptions c15_skipped_day_example.

(* on a 25-hour day (clocks set back) an instant 24.5 hours after local midnight is on the queried calendar
   day, yet `=` is false and `>` is true *)
Theorem c15_date_by_calendar_day_refuted :
  exists (cal : calendar) (e : env) (r : resolver) (c : contact) (pt : ptype) (key v : text) (d t : Z),
    calendar_ok cal
    /\ resolve_value_type r pt key = Some FDatetime /\ v <> [] /\ query_property c pt key = [VTime t]
    /\ e_day_start e v = Some (midnight cal d)
    /\ local_day cal t = d
    /\ eval_contact e r (Cond pt key OpEq v) c = RBool false
    /\ eval_contact e r (Cond pt key OpGt v) c = RBool true.
Proof. exact date_by_calendar_day_fails_on_contact. Qed.
Print Assumptions c15_date_by_calendar_day_refuted.
