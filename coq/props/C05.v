(* stub *)
