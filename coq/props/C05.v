(* C05 — Sprints terminate within the configured limits.
   Statements only; proofs are in proofs/EngineProofs.v.  Model: model/Engine.v. *)
From Coq Require Import List NArith ZArith Bool.
From Verif Require Import model.Lang model.Engine proofs.EngineProofs.
Import ListNotations.
Open Scope N_scope.

(* Truncation to a configured limit (any integer, as engine.Builder accepts any int) is always defined
   (no negative slice bound = no Go panic), never yields more than max(limit,0) characters, and yields
   the text itself or a prefix of it, possibly followed by "...".  Texts are code-point lists: a cut
   cannot split a character. *)
Theorem c05_truncate_ellipsis : forall (s : text) (limit : Z),
  exists t, trunc_ellipsis s limit = Some t /\ (Z.of_nat (length t) <= Z.max limit 0)%Z /\
            (t = s \/ exists k, t = firstn k s \/ t = firstn k s ++ ellipsis).
Proof. exact trunc_ellipsis_spec. Qed.
Print Assumptions c05_truncate_ellipsis.

Theorem c05_truncate_plain : forall (s : text) (limit : Z),
  exists t, trunc s limit = Some t /\ (Z.of_nat (length t) <= Z.max limit 0)%Z /\ (t = s \/ exists k, t = firstn k s).
Proof. exact trunc_spec. Qed.
Print Assumptions c05_truncate_plain.

(* a text within the limit is left alone (truncation does not destroy short values) *)
Theorem c05_truncate_short_unchanged : forall (s : text) (limit : Z),
  (Z.of_nat (length s) <= limit)%Z -> trunc_ellipsis s limit = Some s /\ trunc s limit = Some s.
Proof. intros s limit H; split; [exact (trunc_ellipsis_short s limit H) | exact (trunc_short s limit H)]. Qed.
Print Assumptions c05_truncate_short_unchanged.

(* no engine call of the model panics, whatever the flows, option values, session and resume *)
Theorem c05_start_never_panics : forall (a : assets) (t : trigger) (flow : id), start a t flow <> RPanic.
Proof. exact start_no_panic. Qed.
Print Assumptions c05_start_never_panics.

Theorem c05_resume_never_panics : forall (a : assets) (s : session) (r : resume) (tmo : text),
  resume_session a s r tmo <> Resumed RPanic.
Proof. exact resume_no_panic. Qed.
Print Assumptions c05_resume_never_panics.

(* Termination of the main loop for EVERY flow graph (cycles, self-entering and mutually entering
   sub-flows, terminal enters, empty flows), every option value (any integers) and every history:
   the model's loop is recursion on fuel with a distinct out-of-fuel result; the fuel the model gives
   itself - linear in max(0, MaxStepsPerSprint) and in the number of runs - always suffices, so the
   out-of-fuel result never occurs: every engine call returns.  Proved with the measure
   2 * (steps that may still be counted) + depth of the current run + (1 if a flow is pushed), which
   decreases with every iteration of the loop (proofs/EngineFuel.v). *)
From Verif Require Import proofs.EngineInv proofs.EngineFuel.

Theorem c05_start_terminates : forall (a : assets) (t : trigger) (flow : id), start a t flow <> ROutOfFuel.
Proof. exact start_fuel_suffices. Qed.
Print Assumptions c05_start_terminates.

Theorem c05_resume_terminates : forall (a : assets) (s : session) (r : resume) (tmo : text),
  reachable s -> resume_session a s r tmo <> Resumed ROutOfFuel.
Proof. exact reachable_resume_fuel_suffices. Qed.
Print Assumptions c05_resume_terminates.

(* the bound itself: each iteration of the loop decreases the measure (so the number of iterations of a
   sprint is at most 2 * (max(0, MaxStepsPerSprint) + 1) + number of runs + 1) *)
Theorem c05_iteration_decreases_measure : forall (a : assets) (x : st) (l : lstate) (x' : st) (l' : lstate),
  term_inv a x l -> cuw_iter a x l = ICont x' l' -> term_inv a x' l' /\ (mu a x' l' < mu a x l)%nat.
Proof. exact cuw_iter_term. Qed.
Print Assumptions c05_iteration_decreases_measure.

(* Length limits: in every sprint of every history, the text of every msg_created event (CFL messages
   are never built from a channel template) has at most max(MaxTemplateChars, 0) characters and the value
   of every run_result_changed event at most max(MaxResultChars, 0) characters (characters = code
   points; a negative limit counts as 0 - see the level note). *)
From Verif Require Import proofs.EngineEvents.

Definition within_limits (a : assets) (k : ekind) : Prop :=
  match k with
  | EMsgCreated t => (Z.of_nat (length t) <= Z.max (max_template_chars (a_opts a)) 0)%Z
  | EResultChanged _ v _ => (Z.of_nat (length v) <= Z.max (max_result_chars (a_opts a)) 0)%Z
  | _ => True
  end.

Theorem c05_lengths_after_start : forall (a : assets) (t : trigger) (flow : id) (x' : st),
  start a t flow = ROk x' ->
  forall oe, In oe (sp_events (sprint_ x')) -> within_limits a (ev_kind (snd oe)).
Proof.
  intros a t flow x' H oe Hin. destruct (start_accounts a t flow x' H) as [F _].
  rewrite Forall_forall in F. destruct (F oe Hin) as [_ K]. exact K.
Qed.
Print Assumptions c05_lengths_after_start.

Theorem c05_lengths_after_resume : forall (a : assets) (s : session) (r : resume) (tmo : text) (x' : st),
  reachable s -> resume_session a s r tmo = Resumed (ROk x') ->
  forall oe, In oe (sp_events (sprint_ x')) -> within_limits a (ev_kind (snd oe)).
Proof.
  intros a s r tmo x' Hr H oe Hin. destruct (reachable_resume_accounts a s r tmo x' Hr H) as [F _].
  rewrite Forall_forall in F. destruct (F oe Hin) as [_ K]. exact K.
Qed.
Print Assumptions c05_lengths_after_resume.

(* Step bound: a sprint adds at most max(0, MaxStepsPerSprint) steps to the paths of the session, counted
   across all runs (not per run, and not restarted when a sub-flow is entered), for every flow graph.
   [tot s] = total number of steps in the paths of all runs of s. *)
From Verif Require Import proofs.EngineSteps.

Theorem c05_step_bound_start : forall (a : assets) (t : trigger) (flow : id) (x' : st),
  start a t flow = ROk x' -> (Z.of_nat (tot (session_ x')) <= Z.max 0 (max_steps (a_opts a)))%Z.
Proof. exact start_step_bound. Qed.
Print Assumptions c05_step_bound_start.

Theorem c05_step_bound_resume : forall (a : assets) (s : session) (r : resume) (tmo : text) (x' : st),
  reachable s -> resume_session a s r tmo = Resumed (ROk x') ->
  (Z.of_nat (tot (session_ x')) <= Z.of_nat (tot s) + Z.max 0 (max_steps (a_opts a)))%Z.
Proof. exact reachable_resume_step_bound. Qed.
Print Assumptions c05_step_bound_resume.

(* Hitting the limit: in the iteration in which the counter exceeds the limit the model fails the
   current run with a failure event (goto_node: `fail_run x ci (l_step l) FStepLimit`); from then on
   ([hit]: the counter is above the limit) the loop can only end with a FAILED session - never with a Go
   error, never with a panic (out of fuel is excluded by c05_*_terminates). *)
Theorem c05_limit_ends_failed : forall (a : assets) (t0 fuel : nat) (x : st) (l : lstate),
  step_inv a t0 x l -> hit a l ->
  match continue_until_wait fuel a x l with
  | ROk x' => s_status (session_ x') = SFailed
  | ROutOfFuel => True
  | _ => False
  end.
Proof. exact cuw_hit_ends_failed. Qed.
Print Assumptions c05_limit_ends_failed.

(* Resume bound.  [history a k s]: s was started and then resumed any number of times against the asset
   store a; k counts the resumes that went through - neither rejected with an engine error (those leave
   the session as it is) nor answered by failing the session because countWaits() had reached
   MaxResumesPerSession.  A session cannot be resumed more often than the configured maximum: *)
From Verif Require Import proofs.EngineResumes.

Theorem c05_resume_bound : forall (a : assets) (k : nat) (s : session),
  history a k s -> (Z.of_nat k <= Z.max 0 (max_resumes (a_opts a)))%Z.
Proof. exact resume_bound. Qed.
Print Assumptions c05_resume_bound.

(* the invariant behind it: the number of *_wait events never decreases and grows in every sprint that
   ends waiting, so a waiting session that went through k resumes has at least k + 1 of them *)
Theorem c05_waits_grow : forall (a : assets) (k : nat) (s : session),
  history a k s -> s_status s = SWaiting -> (k + 1 <= count_waits s)%nat.
Proof. exact history_waits. Qed.
Print Assumptions c05_waits_grow.

(* No Go error: for validated definitions ([valid_assets]: every exit's destination is a node of its flow,
   every case / default / timeout category exists - what flow validation guarantees of a loadable
   definition; the boolean form is checked on every generated asset store by the correspondence run) no
   engine call of the model returns a Go error - in particular not when the step limit is hit. *)
From Verif Require Import proofs.EngineNoErr.

Theorem c05_start_no_go_error : forall (a : assets) (t : trigger) (flow : id) (y : st),
  valid_assets a -> get_flow a flow <> None -> start a t flow <> RGoError y.
Proof. exact start_no_go_error. Qed.
Print Assumptions c05_start_no_go_error.

Theorem c05_resume_no_go_error : forall (a : assets) (s : session) (r : resume) (tmo : text) (y : st),
  valid_assets a -> reachable s -> resume_session a s r tmo <> Resumed (RGoError y).
Proof. exact reachable_resume_no_go_error. Qed.
Print Assumptions c05_resume_no_go_error.
