(* C05 — Sprints terminate within the configured limits.
   Statements only; proofs are in proofs/EngineProofs.v.  Model: model/Engine.v. *)
From Coq Require Import List NArith ZArith Bool.
From Verif Require Import model.Lang model.Engine proofs.EngineProofs.
Import ListNotations.
Open Scope N_scope.

(* Truncation to a configured limit (any integer, as engine.Builder accepts any int) is always defined
   (no negative slice bound = no Go panic), never yields more than max(limit,0) characters, and yields
   the text itself or a prefix of it, possibly followed by "...".  Texts are code-point lists: a cut
   cannot split a character. *)
Theorem c05_truncate_ellipsis : forall (s : text) (limit : Z),
  exists t, trunc_ellipsis s limit = Some t /\ (Z.of_nat (length t) <= Z.max limit 0)%Z /\
            (t = s \/ exists k, t = firstn k s \/ t = firstn k s ++ ellipsis).
Proof. exact trunc_ellipsis_spec. Qed.
Print Assumptions c05_truncate_ellipsis.

Theorem c05_truncate_plain : forall (s : text) (limit : Z),
  exists t, trunc s limit = Some t /\ (Z.of_nat (length t) <= Z.max limit 0)%Z /\ (t = s \/ exists k, t = firstn k s).
Proof. exact trunc_spec. Qed.
Print Assumptions c05_truncate_plain.

(* a text within the limit is left alone (truncation does not destroy short values) *)
Theorem c05_truncate_short_unchanged : forall (s : text) (limit : Z),
  (Z.of_nat (length s) <= limit)%Z -> trunc_ellipsis s limit = Some s /\ trunc s limit = Some s.
Proof. intros s limit H; split; [exact (trunc_ellipsis_short s limit H) | exact (trunc_short s limit H)]. Qed.
Print Assumptions c05_truncate_short_unchanged.

(* no engine call of the model panics, whatever the flows, option values, session and resume *)
Theorem c05_start_never_panics : forall (a : assets) (t : trigger) (flow : id), start a t flow <> RPanic.
Proof. exact start_no_panic. Qed.
Print Assumptions c05_start_never_panics.

Theorem c05_resume_never_panics : forall (a : assets) (s : session) (r : resume) (tmo : text),
  resume_session a s r tmo <> Resumed RPanic.
Proof. exact resume_no_panic. Qed.
Print Assumptions c05_resume_never_panics.

(* Termination of the main loop for EVERY flow graph (cycles, self-entering and mutually entering
   sub-flows, terminal enters, empty flows), every option value (any integers) and every history:
   the model's loop is recursion on fuel with a distinct out-of-fuel result; the fuel the model gives
   itself - linear in max(0, MaxStepsPerSprint) and in the number of runs - always suffices, so the
   out-of-fuel result never occurs: every engine call returns.  Proved with the measure
   2 * (steps that may still be counted) + depth of the current run + (1 if a flow is pushed), which
   decreases with every iteration of the loop (proofs/EngineFuel.v). *)
From Verif Require Import proofs.EngineInv proofs.EngineFuel.

Theorem c05_start_terminates : forall (a : assets) (t : trigger) (flow : id), start a t flow <> ROutOfFuel.
Proof. exact start_fuel_suffices. Qed.
Print Assumptions c05_start_terminates.

Theorem c05_resume_terminates : forall (a : assets) (s : session) (r : resume) (tmo : text),
  reachable s -> resume_session a s r tmo <> Resumed ROutOfFuel.
Proof. exact reachable_resume_fuel_suffices. Qed.
Print Assumptions c05_resume_terminates.

(* the bound itself: each iteration of the loop decreases the measure (so the number of iterations of a
   sprint is at most 2 * (max(0, MaxStepsPerSprint) + 1) + number of runs + 1) *)
Theorem c05_iteration_decreases_measure : forall (a : assets) (x : st) (l : lstate) (x' : st) (l' : lstate),
  term_inv a x l -> cuw_iter a x l = ICont x' l' -> term_inv a x' l' /\ (mu a x' l' < mu a x l)%nat.
Proof. exact cuw_iter_term. Qed.
Print Assumptions c05_iteration_decreases_measure.

(* Length limits: in every sprint of every history, the text of every msg_created event (CFL messages
   are never built from a channel template) has at most max(MaxTemplateChars, 0) characters and the value
   of every run_result_changed event at most max(MaxResultChars, 0) characters (characters = code
   points; a negative limit counts as 0 - see the level note). *)
From Verif Require Import proofs.EngineEvents.

Definition within_limits (a : assets) (k : ekind) : Prop :=
  match k with
  | EMsgCreated t => (Z.of_nat (length t) <= Z.max (max_template_chars (a_opts a)) 0)%Z
  | EResultChanged _ v _ => (Z.of_nat (length v) <= Z.max (max_result_chars (a_opts a)) 0)%Z
  | _ => True
  end.

Theorem c05_lengths_after_start : forall (a : assets) (t : trigger) (flow : id) (x' : st),
  start a t flow = ROk x' ->
  forall oe, In oe (sp_events (sprint_ x')) -> within_limits a (ev_kind (snd oe)).
Proof.
  intros a t flow x' H oe Hin. destruct (start_accounts a t flow x' H) as [F _].
  rewrite Forall_forall in F. destruct (F oe Hin) as [_ K]. exact K.
Qed.
Print Assumptions c05_lengths_after_start.

Theorem c05_lengths_after_resume : forall (a : assets) (s : session) (r : resume) (tmo : text) (x' : st),
  reachable s -> resume_session a s r tmo = Resumed (ROk x') ->
  forall oe, In oe (sp_events (sprint_ x')) -> within_limits a (ev_kind (snd oe)).
Proof.
  intros a s r tmo x' Hr H oe Hin. destruct (reachable_resume_accounts a s r tmo x' Hr H) as [F _].
  rewrite Forall_forall in F. destruct (F oe Hin) as [_ K]. exact K.
Qed.
Print Assumptions c05_lengths_after_resume.

(* Step bound: a sprint adds at most max(0, MaxStepsPerSprint) steps to the paths of the session, counted
   across all runs (not per run, and not restarted when a sub-flow is entered), for every flow graph.
   [tot s] = total number of steps in the paths of all runs of s. *)
From Verif Require Import proofs.EngineSteps.

Theorem c05_step_bound_start : forall (a : assets) (t : trigger) (flow : id) (x' : st),
  start a t flow = ROk x' -> (Z.of_nat (tot (session_ x')) <= Z.max 0 (max_steps (a_opts a)))%Z.
Proof. exact start_step_bound. Qed.
Print Assumptions c05_step_bound_start.

Theorem c05_step_bound_resume : forall (a : assets) (s : session) (r : resume) (tmo : text) (x' : st),
  reachable s -> resume_session a s r tmo = Resumed (ROk x') ->
  (Z.of_nat (tot (session_ x')) <= Z.of_nat (tot s) + Z.max 0 (max_steps (a_opts a)))%Z.
Proof. exact reachable_resume_step_bound. Qed.
Print Assumptions c05_step_bound_resume.

(* Hitting the limit: in the iteration in which the counter exceeds the limit the model fails the
   current run with a failure event (goto_node: `fail_run x ci (l_step l) FStepLimit`); from then on
   ([hit]: the counter is above the limit) the loop can only end with a FAILED session - never with a Go
   error, never with a panic (out of fuel is excluded by c05_*_terminates). *)
Theorem c05_limit_ends_failed : forall (a : assets) (t0 fuel : nat) (x : st) (l : lstate),
  step_inv a t0 x l -> hit a l ->
  match continue_until_wait fuel a x l with
  | ROk x' => s_status (session_ x') = SFailed
  | ROutOfFuel => True
  | _ => False
  end.
Proof. exact cuw_hit_ends_failed. Qed.
Print Assumptions c05_limit_ends_failed.

(* Resume bound.  [history a k s]: s was started and then resumed any number of times against the asset
   store a; k counts the resumes that went through - neither rejected with an engine error (those leave
   the session as it is) nor answered by failing the session because countWaits() had reached
   MaxResumesPerSession.  A session cannot be resumed more often than the configured maximum: *)
(* What the engine does with a resume that does NOT go through because the limit is reached is C10's
   c10_impossible_fails ([resume_limit_reached] is one of its three conditions): the call returns normally, the session
   is failed with exactly one failure event and nothing else changes - so "went through" below is observable: the
   session is not failed by the limit. *)
From Verif Require Import proofs.EngineResumes.

Theorem c05_resume_bound : forall (a : assets) (k : nat) (s : session),
  history a k s -> (Z.of_nat k <= Z.max 0 (max_resumes (a_opts a)))%Z.
Proof. exact resume_bound. Qed.
Print Assumptions c05_resume_bound.

(* the invariant behind it: the number of *_wait events never decreases and grows in every sprint that
   ends waiting, so a waiting session that went through k resumes has at least k + 1 of them *)
Theorem c05_waits_grow : forall (a : assets) (k : nat) (s : session),
  history a k s -> s_status s = SWaiting -> (k + 1 <= count_waits s)%nat.
Proof. exact history_waits. Qed.
Print Assumptions c05_waits_grow.

(* No Go error: for validated definitions ([valid_assets]: every exit's destination is a node of its flow,
   every case / default / timeout category exists - what flow validation guarantees of a loadable
   definition; the boolean form is checked on every generated asset store by the correspondence run) no
   engine call of the model returns a Go error - in particular not when the step limit is hit. *)
From Verif Require Import proofs.EngineNoErr.

Theorem c05_start_no_go_error : forall (a : assets) (t : trigger) (flow : id) (y : st),
  valid_assets a -> get_flow a flow <> None -> start a t flow <> RGoError y.
Proof. exact start_no_go_error. Qed.
Print Assumptions c05_start_no_go_error.

Theorem c05_resume_no_go_error : forall (a : assets) (s : session) (r : resume) (tmo : text) (y : st),
  valid_assets a -> reachable s -> resume_session a s r tmo <> Resumed (RGoError y).
Proof. exact reachable_resume_no_go_error. Qed.
Print Assumptions c05_resume_no_go_error.

(* ---- additions after review (docs/reviews/C05.md) --------------------------------------------------------------- *)

(* "Hitting the limit ends the session as failed with a failure event rather than ... returning a Go error",
   end to end (proofs/EngineLimit.v).
   (1) The iteration in which the step counter crosses the limit fails the current run and logs, as the last
       event of the sprint, a failure event of the step-limit kind on that run (naming the step the loop was on). *)
From Verif Require Import proofs.EngineLimit proofs.EngineResults proofs.EnginePaths.

Theorem c05_limit_crossing : forall (a : assets) (x : st) (l : lstate) (x' : st) (l' : lstate),
  term_inv a x l -> cuw_iter a x l = ICont x' l' -> ~ hit a l -> hit a l' ->
  exists c y, l_cur l' = Some c /\ nl x y /\ x' = fail_run y c (l_step l') FStepLimit /\
              sp_events (sprint_ x') = sp_events (sprint_ y) ++ [(Some c, {| ev_step := l_step l'; ev_kind := EFailure FStepLimit |})] /\
              st_at (shape (session_ x')) c = Some RFailed.
Proof. exact cuw_iter_crossing. Qed.
Print Assumptions c05_limit_crossing.

(* (2) Nothing else logs a failure event of that kind, and (3) a sprint that contains one ends FAILED: for every
       call that returns without error, if the sprint's events contain a step-limit failure then the session is
       failed.  (That such a call does not return a Go error / panic / run out of fuel instead is
       c05_limit_ends_failed, c05_*_no_go_error, c05_*_never_panics, c05_*_terminates.) *)
Theorem c05_limit_event_means_failed_start : forall (a : assets) (t : trigger) (flow : id) (x' : st),
  start a t flow = ROk x' ->
  (exists oe, In oe (sp_events (sprint_ x')) /\ ev_kind (snd oe) = EFailure FStepLimit) ->
  s_status (session_ x') = SFailed.
Proof.
  intros a t flow x' H (oe & Hin & Hk). apply (start_limit_event_failed a t flow x' H).
  unfold has_limit_event. apply existsb_exists. exists oe. split; [exact Hin|rewrite Hk; reflexivity].
Qed.
Print Assumptions c05_limit_event_means_failed_start.

Theorem c05_limit_event_means_failed_resume : forall (a : assets) (s : session) (r : resume) (tmo : text) (x' : st),
  reachable s -> resume_session a s r tmo = Resumed (ROk x') ->
  (exists oe, In oe (sp_events (sprint_ x')) /\ ev_kind (snd oe) = EFailure FStepLimit) ->
  s_status (session_ x') = SFailed.
Proof.
  intros a s r tmo x' Hr H (oe & Hin & Hk). apply (reachable_resume_limit_event_failed a s r tmo x' Hr H).
  unfold has_limit_event. apply existsb_exists. exists oe. split; [exact Hin|rewrite Hk; reflexivity].
Qed.
Print Assumptions c05_limit_event_means_failed_resume.

(* (4) Conversely, from a state in which the limit has been crossed and the event is in the sprint, the loop can
       only end with a failed session that still carries the event - never a Go error, never a panic. *)
Theorem c05_crossed_ends_failed : forall (a : assets) (t0 fuel : nat) (x : st) (l : lstate),
  step_inv a t0 x l -> hit a l -> has_limit_event (sp_events (sprint_ x)) = true ->
  match continue_until_wait fuel a x l with
  | ROk x' => s_status (session_ x') = SFailed /\ has_limit_event (sp_events (sprint_ x')) = true
  | ROutOfFuel => True
  | _ => False
  end.
Proof. exact cuw_crossed_ends_failed. Qed.
Print Assumptions c05_crossed_ends_failed.

(* "Every engine call returns normally": for validated definitions (and, for a start, a trigger whose flow exists)
   the result of a call is a session, or - for a resume - an engine error; not a Go error, not a panic, not
   non-termination.  The two places where the Go code would dereference a nil Flow (session.go: GetNode on the
   current run's flow) are modelled as Go-error results and are therefore excluded by this theorem too. *)
Theorem c05_start_returns_normally : forall (a : assets) (t : trigger) (flow : id),
  valid_assets a -> get_flow a flow <> None -> exists x', start a t flow = ROk x'.
Proof.
  intros a t flow Hv Hf. destruct (start a t flow) as [x'|y| |] eqn:E; [eauto| | |].
  - exfalso. eapply start_no_go_error; eauto.
  - exfalso. eapply start_no_panic; eauto.
  - exfalso. eapply start_fuel_suffices; eauto.
Qed.
Print Assumptions c05_start_returns_normally.

Theorem c05_resume_returns_normally : forall (a : assets) (s : session) (r : resume) (tmo : text),
  valid_assets a -> reachable s ->
  (exists code, resume_session a s r tmo = Rejected code) \/ (exists x', resume_session a s r tmo = Resumed (ROk x')).
Proof.
  intros a s r tmo Hv Hr. destruct (resume_session a s r tmo) as [code|res] eqn:E; [left; eauto|right].
  destruct res as [x'|y| |]; [eauto| | |].
  - exfalso. eapply reachable_resume_no_go_error; eauto.
  - exfalso. eapply resume_no_panic; eauto.
  - exfalso. eapply reachable_resume_fuel_suffices; eauto.
Qed.
Print Assumptions c05_resume_returns_normally.

(* The stored result values (not only those announced in events): in every session reached over one store, every
   result kept by a run has a value of at most max(MaxResultChars, 0) characters. *)
Theorem c05_stored_result_values : forall (a : assets) (s : session), reachable_in a s ->
  forall i r res, nth_error (s_runs s) i = Some r -> In res (r_results r) ->
  (Z.of_nat (length (res_value res)) <= Z.max (max_result_chars (a_opts a)) 0)%Z.
Proof. intros a s H i r res Hi Hin. exact (proj1 (reachable_results a s H i r res Hi Hin)). Qed.
Print Assumptions c05_stored_result_values.

(* What bounds the size of what a step stores: the input a result keeps (the operand of the router that saved it)
   has at most max(MaxTemplateChars, 0) characters, so a router that reads back its own result cannot make the
   session grow from visit to visit.  (In the modelled fragment the operand is always the text of the last input; the
   bound is the engine's, stated here because the step limit bounds a sprint only if one step's cost is bounded.) *)
Theorem c05_stored_result_inputs : forall (a : assets) (s : session), reachable_in a s ->
  forall i r res, nth_error (s_runs s) i = Some r -> In res (r_results r) ->
  (Z.of_nat (length (res_input res)) <= Z.max (max_template_chars (a_opts a)) 0)%Z.
Proof. intros a s H i r res Hi Hin. exact (proj2 (reachable_results a s H i r res Hi Hin)). Qed.
Print Assumptions c05_stored_result_inputs.

(* Truncation, exactly: a text longer than the limit keeps as many of its first characters as the limit allows *)
Theorem c05_truncate_exact : forall (s : text) (limit : Z),
  ((Z.max limit 0 < Z.of_nat (length s))%Z -> trunc s limit = Some (firstn (Z.to_nat (Z.max limit 0)) s)) /\
  ((3 <= limit)%Z -> (limit < Z.of_nat (length s))%Z ->
     trunc_ellipsis s limit = Some (firstn (Z.to_nat (limit - 3)) s ++ ellipsis) /\
     length (firstn (Z.to_nat (limit - 3)) s ++ ellipsis) = Z.to_nat limit).
Proof. intros s limit. split; [apply trunc_exact|apply trunc_ellipsis_exact]. Qed.
Print Assumptions c05_truncate_exact.


(* ---- the same for ANY well-formed session, not only those the model reaches ------------------------------------
   The argument of Resume is in practice a session read back from storage.  The resume theorems above are stated for
   [reachable s]; their proofs need only the invariant [post_inv s] (C01: c01_invariant_preserved - every call keeps
   it), which ReadSession does not check (assumption: a stored session the host hands back satisfies it). *)
Theorem c05_resume_terminates_post_inv : forall (a : assets) (s : session) (r : resume) (tmo : text),
  post_inv s -> resume_session a s r tmo <> Resumed ROutOfFuel.
Proof. exact resume_fuel_suffices. Qed.
Print Assumptions c05_resume_terminates_post_inv.

Theorem c05_resume_no_go_error_post_inv : forall (a : assets) (s : session) (r : resume) (tmo : text) (y : st),
  valid_assets a -> post_inv s -> resume_session a s r tmo <> Resumed (RGoError y).
Proof. exact resume_no_go_error. Qed.
Print Assumptions c05_resume_no_go_error_post_inv.

Theorem c05_resume_step_bound_post_inv : forall (a : assets) (s : session) (r : resume) (tmo : text) (x' : st),
  post_inv s -> resume_session a s r tmo = Resumed (ROk x') ->
  (Z.of_nat (tot (session_ x')) <= Z.of_nat (tot s) + Z.max 0 (max_steps (a_opts a)))%Z.
Proof. exact resume_step_bound. Qed.
Print Assumptions c05_resume_step_bound_post_inv.

Theorem c05_limit_event_means_failed_post_inv : forall (a : assets) (s : session) (r : resume) (tmo : text) (x' : st),
  post_inv s -> resume_session a s r tmo = Resumed (ROk x') ->
  has_limit_event (sp_events (sprint_ x')) = true -> s_status (session_ x') = SFailed.
Proof. exact resume_limit_event_failed. Qed.
Print Assumptions c05_limit_event_means_failed_post_inv.

(* ---- Proof extension: "hitting the limit ends the session as failed with a failure event" over failure KINDS ----
   No wording is involved: [has_limit_event] looks for an event of kind EFailure FStepLimit (the kind only the
   step-limit check logs, c05_limit_crossing).  If the sprint of a call that returned contains one, the session is
   failed AND the sprint contains exactly one such event ([count_limit] counts them): the limit is hit at most once per
   sprint, because after it no iteration has a destination any more. *)
Theorem c05_limit_exactly_once_start : forall (a : assets) (t : trigger) (f : id) (x' : st),
  start a t f = ROk x' -> has_limit_event (sp_events (sprint_ x')) = true ->
  s_status (session_ x') = SFailed /\ count_limit (sp_events (sprint_ x')) = 1%nat.
Proof. exact start_limit_exactly_once. Qed.
Print Assumptions c05_limit_exactly_once_start.

Theorem c05_limit_exactly_once_resume : forall (a : assets) (s : session) (r : resume) (tmo : text) (x' : st),
  post_inv s -> resume_session a s r tmo = Resumed (ROk x') -> has_limit_event (sp_events (sprint_ x')) = true ->
  s_status (session_ x') = SFailed /\ count_limit (sp_events (sprint_ x')) = 1%nat.
Proof. exact resume_limit_exactly_once. Qed.
Print Assumptions c05_limit_exactly_once_resume.

(* ... and never more than one, whether or not the session ends failed for another reason *)
Theorem c05_at_most_one_limit_event : forall (a : assets) (s : session) (r : resume) (tmo : text) (x' : st),
  post_inv s -> resume_session a s r tmo = Resumed (ROk x') -> (count_limit (sp_events (sprint_ x')) <= 1)%nat.
Proof. exact resume_limit_once. Qed.
Print Assumptions c05_at_most_one_limit_event.
