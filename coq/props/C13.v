(* C13 — Values survive their stored text and JSON forms.  Statements only; proofs are in proofs/.
   Models: model/NumText.v (numbers: XNumber.Render = decimal.String, ToXNumber on text, the "=" operator),
   model/Civil.v + model/DateText.v (datetimes, dates, times: Render, Format(env), ToXDateTime/ToXDate/ToXTime),
   model/JsonText.v (parse_json / json on JSON trees). *)
From Coq Require Import ZArith NArith List Bool.
From Verif Require Import lib.Dec lib.Json model.NumText model.Civil model.DateText model.JsonText.
From Verif Require Import proofs.NumTextProofs proofs.CivilProofs proofs.DateTextProofs proofs.JsonTextProofs.
Import ListNotations.

(* Every number renders to text that converts back to the same number.  For ALL decimals mant * 10^dexp of the
   type (any sign, any mantissa, exponent an int32: only the lower bound is needed): the conversion accepts the
   rendering (space trimming, the decimalRegexp test, NewFromString and its exponent range test all pass) and the
   number it yields is numerically equal (Decimal.Cmp = 0) to the one rendered. *)
Theorem c13_number_roundtrip : forall d : dec, (int32_min <= dexp d)%Z ->
  exists d', parse_number (render d) = Some d' /\ dec_eq d' d.
Proof. exact parse_number_render. Qed.
Print Assumptions c13_number_roundtrip.

(* the same without the type's range test, for every exponent whatsoever; the exponent of the re-read number lies
   between min(dexp d, 0) and 0, which is why an int32 exponent can never fail the range test *)
Theorem c13_number_roundtrip_any_exponent : forall (chk : Z -> bool) (d : dec), exists e,
  (Z.min (dexp d) 0 <= e <= 0)%Z /\
  exists d', dec_eq d' d /\ dexp d' = e /\
             parse_number_with chk (render d) = if chk e then Some d' else None.
Proof. exact parse_number_with_render. Qed.
Print Assumptions c13_number_roundtrip_any_exponent.

(* The "=" operator agrees with the canonical renderings: two numbers are "=" exactly when they render
   identically, and they render identically exactly when they are numerically equal (so the rendering is
   canonical: 1.50 and 1.5, 100e-2 and 1 give the same text; and injective on values). *)
Theorem c13_equal_agrees : forall a b : dec,
  (equal_num a b = true <-> render a = render b) /\ (render a = render b <-> dec_eq a b).
Proof. exact equal_agrees. Qed.
Print Assumptions c13_equal_agrees.

Theorem c13_equal_is_numeric : forall a b : dec, equal_num a b = dec_eqb a b.
Proof. exact equal_num_spec. Qed.
Print Assumptions c13_equal_is_numeric.

(* the rendering is the canonical decimal numeral - optional minus sign, integer digits without a superfluous leading
   zero, and only if needed a point and fraction digits ending in a non-zero digit: no exponent notation, no
   trailing zeros, no plus sign, no spaces, never minus zero *)
Theorem c13_render_canonical_form : forall d : dec, canonical_text (render d).
Proof. exact render_canonical_text. Qed.
Print Assumptions c13_render_canonical_form.

(* ToXText and the "=" operator as the code has them since the render size limit (types.MaxRenderSize = 10^6; a number
   is charged 1 + BitLen(coefficient)/3 + |exponent|): BELOW the limit ToXText is the rendering above, its text
   converts back to the number, and "=" on two numbers is numeric equality; ABOVE it ToXText and "=" are error values
   (1e-1000000 is the first power of ten refused: Example num_render_limit; KNOWN_FINDINGS
   number-text:value-over-render-size).  The theorems above speak about XNumber.Render, which has no limit. *)
Theorem c13_number_text_roundtrip : forall d : dec, num_render_ok d = true -> (int32_min <= dexp d)%Z ->
  exists t d', to_text_num d = Some t /\ parse_number t = Some d' /\ dec_eq d' d.
Proof. exact to_text_num_roundtrip. Qed.
Print Assumptions c13_number_text_roundtrip.

Theorem c13_equal_operator : forall a b : dec, num_render_ok a = true -> num_render_ok b = true ->
  equal_op_num a b = Some (dec_eqb a b).
Proof. exact equal_op_num_spec. Qed.
Print Assumptions c13_equal_operator.

Theorem c13_over_render_size_is_error : forall a b : dec,
  (num_render_ok a = false -> to_text_num a = None)
  /\ (num_render_ok a = false \/ num_render_ok b = false -> equal_op_num a b = None).
Proof. exact (fun a b => conj (to_text_num_over a) (equal_op_num_over a b)). Qed.
Print Assumptions c13_over_render_size_is_error.

(* "=" with a text operand: the text is compared as written, so a number equals a text that reads as a number
   exactly when the text is the canonical rendering of a numerically equal number (1 = "1", not 1 = "1.0").
   Scope of the "=" clause here: number x number and number x text; two datetimes are "=" iff their ISO renderings
   are the same text (one instant shown in two zones is not "="), which is definitional and not a theorem. *)
Theorem c13_equal_number_text : forall (a : dec) (s : text) (d : dec), num_render_ok a = true -> parse_number s = Some d ->
  exists r, equal_op_num_text a s = Some r /\ (r = true <-> s = render d /\ dec_eq a d).
Proof. exact equal_op_num_text_spec. Qed.
Print Assumptions c13_equal_number_text.

(* the stored JSON form of a number (flows.Value.Number in contact fields and session JSON): what XNumber.MarshalJSON
   writes - the number in full, however many digits - XNumber.UnmarshalJSON reads back as a numerically equal
   number, for ALL decimals of the type (the reader's exponent limit is max(1000, length of the token), so it never
   refuses a number written in full; it does refuse 1e300000000: Example num_unmarshal_huge_exponent) *)
Theorem c13_stored_number_roundtrip : forall d : dec, (int32_min <= dexp d)%Z ->
  exists d', num_unmarshal (num_marshal d) = Some d' /\ dec_eq d' d.
Proof. exact num_unmarshal_marshal. Qed.
Print Assumptions c13_stored_number_roundtrip.

(* ================================================================================================ *)
(* datetimes, dates, times.  An instant is a number of nanoseconds since the unix epoch; a time zone is ANY function
   [offset] from unix seconds to the UTC offset (seconds) in force, together with ANY function [zend] giving the end of
   the zone period an instant lies in (Time.ZoneBounds) - both universally quantified: no zone data is assumed.
   Years: 0..9999 in the zone the text is written in (the property speaks of 1..9999). *)
Open Scope Z_scope.

(* calendar arithmetic (time.Date / Time.Date()): day numbers and valid dates correspond one to one, all years *)
Theorem c13_civil_inverse :
  (forall y m d, valid_date y m d = true -> civil_from_days (days_from_civil y m d) = (y, m, d))
  /\ (forall z, let '(y, m, d) := civil_from_days z in days_from_civil y m d = z /\ valid_date y m d = true).
Proof. exact (conj civil_from_days_from_civil days_from_civil_from_days). Qed.
Print Assumptions c13_civil_inverse.

(* ISO form, exact statement: the rendering of ANY instant in ANY zone is accepted by ToXDateTime in ANY environment
   and yields the instant truncated to microseconds (the rendered precision) plus the seconds of the zone offset,
   which "Z07:00" does not write (0 for every zone whose offset is in whole minutes) *)
Theorem c13_iso_roundtrip_general : forall (offset offset' : Z -> Z) (zend : Z -> option Z) (e : env) (t : Z),
  in_year_range (f_year (fields_of offset t)) -> -86400 < offset (unix_of t) < 86400 ->
  datetime_from_string offset' zend e (iso offset t)
  = Some (t - t mod 1000 + (offset (unix_of t) - 60 * Z.quot (offset (unix_of t)) 60) * giga).
Proof. exact iso_roundtrip_general. Qed.
Print Assumptions c13_iso_roundtrip_general.

(* partial: the round trip proper needs the zone offset at the instant to be in whole minutes
   (missing for the full statement: zones in their local-mean-time era, see c13_iso_roundtrip_refuted) *)
Theorem c13_iso_roundtrip_partial : forall (offset offset' : Z -> Z) (zend : Z -> option Z) (e : env) (t : Z),
  in_year_range (f_year (fields_of offset t)) -> -86400 < offset (unix_of t) < 86400 ->
  offset (unix_of t) mod 60 = 0 ->
  datetime_from_string offset' zend e (iso offset t) = Some (t - t mod 1000).
Proof. exact iso_roundtrip. Qed.
Print Assumptions c13_iso_roundtrip_partial.

(* refuted without that hypothesis: offset -3:06:28 (America/Sao_Paulo before 1914), 1800-05-06T07:08:09.123456 local:
   the re-read instant is 28 s early (KNOWN_FINDINGS: iso-datetime-roundtrip:zone-offset-seconds-dropped) *)
Theorem c13_iso_roundtrip_refuted : exists (offset : Z -> Z) (e : env) (t : Z),
  in_year_range (f_year (fields_of offset t)) /\ -86400 < offset (unix_of t) < 86400
  /\ datetime_from_string offset (fun _ => None) e (iso offset t) = Some (t - 28 * giga).
Proof. exact (ex_intro _ lmt_zone (ex_intro _ _ (ex_intro _ lmt_instant iso_seconds_witness))). Qed.
Print Assumptions c13_iso_roundtrip_refuted.

(* environment formats (all 3 date formats x 4 time formats, am/pm markers "am"/"pm"), text level, full: Format(env)
   of ANY instant in ANY zone is accepted by ToXDateTime in the same environment, and the fields read back are
   exactly the rendered ones - year, month, day, hour, minute, and the second when the format has it - combined by
   time.Date in the environment's zone ([combine]: with the first instant after the gap when time.Date answers a
   skipped local time with an earlier one) *)
Theorem c13_envformat_roundtrip : forall (offset : Z -> Z) (zend : Z -> option Z) (e : env) (t : Z),
  std_markers e -> in_year_range (f_year (fields_of offset t)) ->
  let f := fields_of offset t in
  datetime_from_string offset zend e (format_datetime offset e t)
  = Some (combine offset zend (wall_of (f_year f) (f_month f) (f_day f) (f_hour f) (f_min f) (secs_of (e_tf e) (f_sec f))) 0).
Proof. exact format_datetime_roundtrip. Qed.
Print Assumptions c13_envformat_roundtrip.

(* partial: same wall-clock fields at the rendered precision, provided time.Date resolves the rendered local time to
   an instant that reads it (missing: rendered times that fall into a gap of the zone, and other am/pm markers) *)
Theorem c13_envformat_fields_partial : forall (offset : Z -> Z) (zend : Z -> option Z) (e : env) (t : Z),
  std_markers e -> in_year_range (f_year (fields_of offset t)) ->
  let f := fields_of offset t in
  resolves offset (wall_of (f_year f) (f_month f) (f_day f) (f_hour f) (f_min f) (secs_of (e_tf e) (f_sec f))) ->
  exists t', datetime_from_string offset zend e (format_datetime offset e t) = Some t'
             /\ fields_of offset t' = trunc_fields (e_tf e) f.
Proof. exact format_datetime_fields. Qed.
Print Assumptions c13_envformat_fields_partial.

(* the resolution hypothesis holds for every fixed-offset zone, and whenever the zone has one offset around the time *)
Theorem c13_resolves_when_stable : forall (offset : Z -> Z) (w c : Z),
  offset w = c -> offset (w - c) = c -> resolves offset w.
Proof. exact resolves_stable. Qed.
Print Assumptions c13_resolves_when_stable.

(* refuted without it: Asia/Tehran, 1935-06-13 00:04:30 (local clocks jumped from 00:00:00 +3:25:44 to 00:04:16 +3:30):
   "13-06-1935 00:04" reads back as 00:08:16.  East of UTC time.Date answers a skipped local time with a later one;
   west of UTC (Africa/Monrovia 1972-01-07, Example west_gap_example) it answers with an earlier one and
   DateTimeFromString now takes the first instant after the gap, which lies in the rendered minute
   (KNOWN_FINDINGS: ...:rendered-time-starts-in-zone-gap, the east-of-UTC half that remains) *)
Theorem c13_envformat_fields_refuted : exists (offset : Z -> Z) (zend : Z -> option Z) (e : env) (t : Z),
  std_markers e /\ in_year_range (f_year (fields_of offset t))
  /\ fields_of offset t = Fields 1935 6 13 0 4 30 0
  /\ exists t', datetime_from_string offset zend e (format_datetime offset e t) = Some t'
                /\ fields_of offset t' = Fields 1935 6 13 0 8 16 0.
Proof. exact (ex_intro _ tehran (ex_intro _ tehran_zend (ex_intro _ tehran_env (ex_intro _ tehran_instant gap_witness)))). Qed.
Print Assumptions c13_envformat_fields_refuted.

(* refuted for other am/pm markers: Arabic locale, 17:08 is written "5:08 <U+0645>" and read back as 05:08
   (KNOWN_FINDINGS: ...:localized-ampm-marker-not-recognised) *)
Theorem c13_envformat_localized_refuted :
  fields_of (fun _ => 0) (1588784889 * giga) = Fields 2020 5 6 17 8 9 0
  /\ exists t', datetime_from_string (fun _ => 0) (fun _ => None) ara_env (format_datetime (fun _ => 0) ara_env (1588784889 * giga)) = Some t'
                /\ fields_of (fun _ => 0) t' = Fields 2020 5 6 5 8 0 0.
Proof. exact localized_witness. Qed.
Print Assumptions c13_envformat_localized_refuted.

(* the re-read INSTANT: when both zone lookups of time.Date (at the rendered local time read as UTC, and one offset
   earlier) see the offset in force at t - i.e. the rendered local time lies neither in a gap nor in a repeated
   hour of the zone, nor within one offset's distance of such a transition - the result is t with exactly the
   unrendered part (nanoseconds, and the seconds for tt:mm and h:mm aa) removed.  Partial: missing are local
   times that occur twice (refuted below) and gaps (refuted above). *)
Theorem c13_envformat_instant_partial : forall (offset : Z -> Z) (zend : Z -> option Z) (e : env) (t c : Z),
  std_markers e -> in_year_range (f_year (fields_of offset t)) ->
  let f := fields_of offset t in
  let w := wall_of (f_year f) (f_month f) (f_day f) (f_hour f) (f_min f) (secs_of (e_tf e) (f_sec f)) in
  offset (unix_of t) = c -> offset w = c -> offset (w - c) = c ->
  datetime_from_string offset zend e (format_datetime offset e t)
  = Some ((unix_of t - (f_sec f - secs_of (e_tf e) (f_sec f))) * giga).
Proof. exact (format_datetime_instant_with (Tod 0 0 0 0)). Qed.
Print Assumptions c13_envformat_instant_partial.

(* refuted in a repeated hour, with the input of the known finding: Europe/Dublin 1992-10-25 (+1:00 until 01:00 UTC,
   then +0:00), MM-DD-YYYY h:mm:ss aa (no precision lost): 01:59:01 +01:00 is written "10-25-1992 1:59:01 am" and
   read back as 01:59:01 +00:00, 3600 s on, although time.Date "resolves" and all wall-clock fields agree
   (KNOWN_FINDINGS: envformat-datetime-roundtrip:repeated-hour-resolved-to-other-instant) *)
Theorem c13_envformat_instant_refuted : exists (offset : Z -> Z) (e : env) (t : Z),
  std_markers e /\ in_year_range (f_year (fields_of offset t))
  /\ (let f := fields_of offset t in
      resolves offset (wall_of (f_year f) (f_month f) (f_day f) (f_hour f) (f_min f) (secs_of (e_tf e) (f_sec f))))
  /\ datetime_from_string offset (fun _ => None) e (format_datetime offset e t) = Some (t + 3600 * giga)
  /\ fields_of offset (t + 3600 * giga) = fields_of offset t.
Proof. exact (ex_intro _ fold_zone (ex_intro _ fold_env (ex_intro _ fold_instant fold_witness))). Qed.
Print Assumptions c13_envformat_instant_refuted.

(* the other direction of the same finding: Pacific/Apia 1892-07-04, the day the date line moved, occurs twice; the
   later 01:53:52 -11:26:56 is written "04-07-1892 1:53 am" and read back as the EARLIER 01:53, 24 h before *)
Theorem c13_envformat_repeated_day_refuted :
  fields_of apia apia_instant = Fields 1892 7 4 1 53 52 0
  /\ datetime_from_string apia (fun _ => None) apia_env (format_datetime apia apia_env apia_instant)
     = Some (apia_instant - 52 * giga - 86400 * giga)
  /\ fields_of apia (apia_instant - 52 * giga - 86400 * giga) = Fields 1892 7 4 1 53 0 0.
Proof. exact repeated_day_witness. Qed.
Print Assumptions c13_envformat_repeated_day_refuted.

(* dates: Render (YYYY-MM-DD, whatever the environment) and Format(env) both read back as the same date *)
Theorem c13_date_roundtrip : forall (e : env) (y m d : Z), valid_date y m d = true -> in_year_range y ->
  date_from_string e (render_date (y, m, d)) = Some (y, m, d)
  /\ date_from_string e (format_date e (y, m, d)) = Some (y, m, d).
Proof. exact (fun e y m d V Hy => conj (date_from_string_render e y m d V Hy) (date_from_string_format e y m d V Hy)). Qed.
Print Assumptions c13_date_roundtrip.

(* times of day: Render (tt:mm:ss.ffffff) reads back truncated to microseconds, Format(env) to its minute or second *)
Theorem c13_time_roundtrip : forall (e : env) (h mi s ns : Z), valid_clock h mi s -> 0 <= ns < giga ->
  time_from_string (render_time (Tod h mi s ns)) = Some (Tod h mi s (ns / 1000 * 1000))
  /\ (std_markers e -> time_from_string (format_time e (Tod h mi s ns)) = Some (Tod h mi (secs_of (e_tf e) s) 0)).
Proof.
  exact (fun e h mi s ns Vc Hns => conj (render_time_roundtrip h mi s ns Vc Hns)
                                        (fun Hm => format_time_roundtrip e h mi s ns Hm Vc)).
Qed.
Print Assumptions c13_time_roundtrip.

(* ================================================================================================ *)
(* JSON.  Documents are trees (lib/Json.v: members in document order, duplicates kept); [jequiv] is JSON equivalence
   written from the meaning of documents: numerically equal numbers, arrays element by element, objects compared
   key by key on the LAST member of each key, in any order (proofs/JsonTextProofs.v). *)

(* partial: json(parse_json(doc)) succeeds and is JSON-equivalent to doc for every document - any strings, duplicate
   and case-variant keys, members named __default__ - whose numbers have a decimal exponent in -1000..1000, whose
   strings and keys have no half surrogate pair, and whose value stays within the render size limit of ToXJSON
   ([render_size]: 1 + dc * depth for every value - dc, the charge per level of nesting, is measured on the code by the
   driver on every run and is 1 today, the theorem holds for any -, the bytes of strings and keys, the digits of numbers; MaxRenderSize =
   10^6, read from the code on every run).  Missing for the full statement: exactly those three kinds of documents -
   c13_json_roundtrip_refuted, c13_json_number_out_of_range, c13_json_over_render_size.  NESTING is bounded by the
   third while dc = 1: 1413 arrays inside one another are written back, 1414 are not (c13_json_nesting_limit). *)
Theorem c13_json_roundtrip_partial : forall (dc : Z) (j : json), good j = true -> render_ok dc true (of_json j) = true ->
  exists j', json_roundtrip dc j = Some j' /\ jequiv j' j.
Proof. exact json_roundtrip_equiv. Qed.
Print Assumptions c13_json_roundtrip_partial.

(* refuted for all documents: [1e1001] is written back as [null]; {"k":"\ud800x","b":1} as {"b":1}
   (KNOWN_FINDINGS: json-roundtrip:number-exponent-beyond-1000, json-roundtrip:lone-surrogate-escape) *)
Theorem c13_json_roundtrip_refuted :
  (json_roundtrip 1 (JArr [JNum 1 1001]) = Some (JArr [JNull]) /\ ~ jequiv (JArr [JNull]) (JArr [JNum 1 1001]))
  /\ (json_roundtrip 1 (JObj [([107%N], JStr [55296%N; 120%N]); ([98%N], JNum 1 0)]) = Some (JObj [([98%N], JNum 1 0)])
      /\ ~ jequiv (JObj [([98%N], JNum 1 0)]) (JObj [([107%N], JStr [55296%N; 120%N]); ([98%N], JNum 1 0)])).
Proof. exact json_roundtrip_witnesses. Qed.
Print Assumptions c13_json_roundtrip_refuted.

(* the error branch, explicitly: such a number is an error value - json() fails on it at top level, writes null
   for it in an array and omits the member in an object *)
Theorem c13_json_number_out_of_range : forall m e : Z, exp_ok e = false ->
  json_roundtrip 1 (JNum m e) = None
  /\ json_roundtrip 1 (JArr [JNum m e]) = Some (JArr [JNull])
  /\ json_roundtrip 1 (JObj [([97%N], JNum m e)]) = Some (JObj []).
Proof. exact json_roundtrip_bad_number. Qed.
Print Assumptions c13_json_number_out_of_range.

(* the error branch of the size limit: such a document is not written at all (KNOWN_FINDINGS
   json-roundtrip:value-over-render-size) *)
Theorem c13_json_over_render_size : forall (dc : Z) (j : json), render_ok dc true (of_json j) = false -> json_roundtrip dc j = None.
Proof. exact json_roundtrip_over_size. Qed.
Print Assumptions c13_json_over_render_size.

Theorem c13_json_nesting_limit :
  good (nest 1412) = true /\ render_ok 1 true (of_json (nest 1412)) = true /\ json_roundtrip 1 (nest 1412) = Some (nest 1412)
  /\ good (nest 1413) = true /\ render_ok 1 true (of_json (nest 1413)) = false /\ json_roundtrip 1 (nest 1413) = None
  /\ json_roundtrip 0 (nest 1413) = Some (nest 1413).
Proof. exact nest_limit. Qed.
Print Assumptions c13_json_nesting_limit.

(* JSON equivalence is reflexive (and, by the Example in proofs/, not the full relation) *)
Theorem c13_jequiv_refl : forall j : json, jequiv j j.
Proof. exact jequiv_refl. Qed.
Print Assumptions c13_jequiv_refl.

(* ================================================================================================ *)
(* stored field values (flows/field.go FieldValues.Parse keeps the text and, beside it, the number and the datetime
   the text reads as; the datetime is read with fillTime = true - [fill] is ANY current time of day - and kept as it
   is once marshalled and read back: [as_stored], microseconds and a whole-minute zone offset).  The text form of a
   number stores that number; the ISO text of a datetime stores the instant the ISO theorem gives; an
   environment-format text stores the instant the environment-format theorem gives, as stored - the same instant
   whenever the zone offset there is in whole minutes. *)
Theorem c13_field_number : forall (fill : tod) (offset : Z -> Z) (zend : Z -> option Z) (e : env) (d : dec),
  (int32_min <= dexp d)%Z ->
  exists d' dt, field_parse fill offset zend e (render d) = Some (Some d', dt) /\ dec_eq d' d.
Proof. exact field_parse_number. Qed.
Print Assumptions c13_field_number.

Theorem c13_field_datetime : forall (fill : tod) (offset offset' : Z -> Z) (zend : Z -> option Z) (e : env) (t : Z),
  in_year_range (f_year (fields_of offset t)) -> -86400 < offset (unix_of t) < 86400 ->
  (exists n, field_parse fill offset' zend e (iso offset t)
             = Some (n, Some (t - t mod 1000 + (offset (unix_of t) - 60 * Z.quot (offset (unix_of t)) 60) * giga)))
  /\ (std_markers e ->
      let f := fields_of offset t in
      let r := combine offset zend (wall_of (f_year f) (f_month f) (f_day f) (f_hour f) (f_min f) (secs_of (e_tf e) (f_sec f))) 0 in
      exists n, field_parse fill offset zend e (format_datetime offset e t) = Some (n, Some (as_stored (offset (unix_of r)) r))).
Proof.
  exact (fun fill offset offset' zend e t Hy Hoff =>
           conj (field_parse_iso fill offset offset' zend e t Hy Hoff)
                (fun Hm => field_parse_format fill offset zend e t Hm Hy)).
Qed.
Print Assumptions c13_field_datetime.

Theorem c13_stored_datetime_whole_minutes : forall off r : Z, off mod 60 = 0 -> r mod 1000 = 0 -> as_stored off r = r.
Proof. exact as_stored_whole_minutes. Qed.
Print Assumptions c13_stored_datetime_whole_minutes.

(* the property-level statements for a stored datetime: the same instant at the rendered precision.  ISO text: in a
   zone with a whole-minute offset the field stores t truncated to microseconds.  Environment format: under the
   hypotheses of c13_envformat_instant_partial and a whole-minute offset the field stores t with exactly the unrendered
   part removed.  (Partial: the missing cases are those of the ToXDateTime theorems - offset seconds, gaps, repeated
   local times, other am/pm markers.) *)
Theorem c13_field_datetime_instant_partial : forall (fill : tod) (offset offset' : Z -> Z) (zend : Z -> option Z) (e : env) (t c : Z),
  in_year_range (f_year (fields_of offset t)) -> -86400 < offset (unix_of t) < 86400 ->
  offset (unix_of t) = c -> c mod 60 = 0 ->
  (exists n, field_parse fill offset' zend e (iso offset t) = Some (n, Some (t - t mod 1000)))
  /\ (std_markers e ->
      let f := fields_of offset t in
      let w := wall_of (f_year f) (f_month f) (f_day f) (f_hour f) (f_min f) (secs_of (e_tf e) (f_sec f)) in
      offset w = c -> offset (w - c) = c ->
      exists n, field_parse fill offset zend e (format_datetime offset e t)
                = Some (n, Some ((unix_of t - (f_sec f - secs_of (e_tf e) (f_sec f))) * giga))).
Proof.
  exact (fun fill offset offset' zend e t c Hy Hoff Hc H60 =>
           conj (field_parse_iso_instant fill offset offset' zend e t Hy Hoff (eq_ind_r (fun x => x mod 60 = 0) H60 Hc))
                (fun Hm H1 H2 => field_parse_format_instant fill offset zend e t c Hm Hy Hc H1 H2 H60)).
Qed.
Print Assumptions c13_field_datetime_instant_partial.

(* refuted at field level with the Dublin input: FieldValues.Parse stores the other instant of the repeated hour *)
Theorem c13_field_datetime_instant_refuted : forall fill : tod,
  exists n, field_parse fill fold_zone (fun _ => None) fold_env (format_datetime fold_zone fold_env fold_instant)
            = Some (n, Some (fold_instant + 3600 * giga)).
Proof. exact fold_field_witness. Qed.
Print Assumptions c13_field_datetime_instant_refuted.
