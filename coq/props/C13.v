(* C13 — Values survive their stored text and JSON forms.  Statements only; proofs are in proofs/.
   Models: model/NumText.v (numbers: XNumber.Render = decimal.String, ToXNumber on text, the "=" operator). *)
From Coq Require Import ZArith NArith List Bool.
From Verif Require Import lib.Dec model.NumText proofs.NumTextProofs.
Import ListNotations.

(* Every number renders to text that converts back to the same number.  For ALL decimals mant * 10^dexp of the
   type (any sign, any mantissa, exponent an int32: only the lower bound is needed): the conversion accepts the
   rendering (space trimming, the decimalRegexp test, NewFromString and its exponent range test all pass) and the
   number it yields is numerically equal (Decimal.Cmp = 0) to the one rendered. *)
Theorem c13_number_roundtrip : forall d : dec, (int32_min <= dexp d)%Z ->
  exists d', parse_number (render d) = Some d' /\ dec_eq d' d.
Proof. exact parse_number_render. Qed.
Print Assumptions c13_number_roundtrip.

(* the same without the type's range test, for every exponent whatsoever; the exponent of the re-read number lies
   between min(dexp d, 0) and 0, which is why an int32 exponent can never fail the range test *)
Theorem c13_number_roundtrip_any_exponent : forall (chk : Z -> bool) (d : dec), exists e,
  (Z.min (dexp d) 0 <= e <= 0)%Z /\
  exists d', dec_eq d' d /\ dexp d' = e /\
             parse_number_with chk (render d) = if chk e then Some d' else None.
Proof. exact parse_number_with_render. Qed.
Print Assumptions c13_number_roundtrip_any_exponent.

(* The "=" operator agrees with the canonical renderings: two numbers are "=" exactly when they render
   identically, and they render identically exactly when they are numerically equal (so the rendering is
   canonical: 1.50 and 1.5, 100e-2 and 1 give the same text; and injective on values). *)
Theorem c13_equal_agrees : forall a b : dec,
  (equal_num a b = true <-> render a = render b) /\ (render a = render b <-> dec_eq a b).
Proof. exact equal_agrees. Qed.
Print Assumptions c13_equal_agrees.

Theorem c13_equal_is_numeric : forall a b : dec, equal_num a b = dec_eqb a b.
Proof. exact equal_num_spec. Qed.
Print Assumptions c13_equal_is_numeric.
