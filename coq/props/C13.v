(* C13 — Values survive their stored text and JSON forms.  Statements only; proofs are in proofs/. *)
From Coq Require Import ZArith NArith List Bool.
From Verif Require Import lib.Dec model.NumText model.C13Corr.
Import ListNotations.
