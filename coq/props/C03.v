(* C03 — Every contact change is announced by an event that reproduces it.
   Statements only; proofs are in proofs/ModifiersBase.v (the caller's replay [replay]/[apply_event],
   [has_change_event], [same_contact]: the specification, written from the property sentence),
   proofs/GroupsProofs.v, proofs/ModifiersProofs.v, proofs/ModifiersSprint.v.
   Model: model/Contact.v, model/Modifiers.v ([apply] = modifiers.Apply, [run_sprint] = the contact-writing
   steps of one engine call).  Every theorem holds for every environment record [E] (URN library, assets, value
   parsers, query evaluation) and for contacts with any number of URNs, groups and fields.
   [wf_contact E c]: the stored membership of c is duplicate-free and names groups of the assets;
   [mod_wf E m]: a groups modifier names groups of the assets (in Go they are taken from them). *)
From Coq Require Import List NArith Bool.
From Verif Require Import model.Contact model.Modifiers proofs.ModifiersBase proofs.GroupsProofs
  proofs.ModifiersProofs proofs.ModifiersIdem proofs.ModifiersSprint proofs.ModifiersChan.
Import ListNotations.
Open Scope N_scope.

(* replaying the emitted events, in order, over the contact as it was before gives the contact afterwards as
   json.Marshal shows it ([erase] drops the channel pointers; that they are determined by the raw URNs is
   c03_channel_affinity_kept / c03_replay_modifier_exact below) — all nine modifiers, including the group
   re-evaluation that follows *)
Theorem c03_replay_modifier : forall E fresh m c c' evs modified,
  wf_contact E c -> mod_wf E m ->
  apply E fresh m c = (c', evs, modified) ->
  erase (replay evs c) = erase c'.
Proof. exact replay_modifier. Qed.
Print Assumptions c03_replay_modifier.

(* 'modified' is reported iff a change event was emitted iff the contact visibly changed (any MaxFieldChars,
   0 included: a value truncated to nothing is no value) *)
Theorem c03_modified_iff_changed : forall E fresh m c c' evs modified,
  wf_contact E c -> mod_wf E m ->
  apply E fresh m c = (c', evs, modified) ->
  (modified = true <-> has_change_event evs = true) /\ (modified = true <-> ~ same_contact c c').
Proof. exact modified_iff_changed. Qed.
Print Assumptions c03_modified_iff_changed.

(* applying the same modifier a second time (to the contact the first application left, group re-evaluation
   included) reports nothing, emits no change event and leaves the contact as it is.  [mod_env_ok] is what the
   proof needs from nyaruka/gocommon/urns, outside goflow: Normalize is stable up to Identity on the URNs an
   appending modifier makes valid; SetChannel is idempotent and keeps the scheme on the contact's URNs.  It is a
   computable test and is evaluated on every case of the correspondence run. *)
(* N.B. the environment's fields are FUNCTIONS: the theorem is about a deterministic URN library.  gocommon's unescape is
   not (known finding F3j: `ext:a%2523b` normalizes differently from call to call); that witness cannot be expressed
   in this model and is probed on the real code on every run instead. *)
Theorem c03_idempotent : forall E fresh fresh' m c c1 evs1 b1 c2 evs2 b2,
  wf_contact E c -> mod_wf E m -> mod_env_ok E m c = true ->
  apply E fresh m c = (c1, evs1, b1) ->
  apply E fresh' m c1 = (c2, evs2, b2) ->
  b2 = false /\ has_change_event evs2 = false /\ erase c2 = erase c1.
Proof. exact idempotent. Qed.
Print Assumptions c03_idempotent.

(* ... with the same environment both times (the witness below lets the two parsers differ on every text; that only a
   date WITHOUT time of day is affected in the code is the harness's knowledge, F3e).  If the clock moves in between, a date without time of day parses
   to another instant and the second application reports again (finding F3e, listed in KNOWN_FINDINGS.txt): the
   second environment differs from the first only in parse_dt *)
Theorem c03_idempotent_moving_clock_refuted :
  exists E p2 fresh m c c1 evs1 b1 c2 evs2,
    wf_contact E c /\ mod_wf E m /\ mod_env_ok E m c = true
    /\ apply E fresh m c = (c1, evs1, b1)
    /\ apply (with_parse_dt E p2) (fresh + 1) m c1 = (c2, evs2, true).
Proof. exact idempotent_moving_clock_refuted. Qed.
Print Assumptions c03_idempotent_moving_clock_refuted.

(* sprint clause on the step model: for every kind of engine call (start without / with a received message,
   resume with / without refreshed contact and message) and every sequence of contact-changing actions, the
   sprint's events replay to the session contact afterwards.  Named _partial because which steps a sprint
   performs (sprint_steps) is transcribed from session.go and tied by the engine-path correspondence, not
   derived from the engine model of C01/C05/C10 *)
Theorem c03_replay_sprint_partial : forall E k acts c c' evs,
  wf_contact E c -> kind_wf E k -> Forall (fun fm => mod_wf E (snd fm)) acts ->
  run_sprint E k acts c = (c', evs) ->
  same_contact (replay evs c) c'.
Proof. exact replay_sprint. Qed.
Print Assumptions c03_replay_sprint_partial.

(* any interleaving of the four kinds of contact writes replays, not only the engine's *)
Theorem c03_replay_steps : forall E ss c c' evs,
  wf_contact E c -> Forall (step_wf E) ss ->
  run_steps E ss c = (c', evs) ->
  same_contact (replay evs c) c' /\ wf_contact E c'.
Proof. exact replay_steps. Qed.
Print Assumptions c03_replay_steps.

(* where the replay takes last-seen from: the real msg_received event carries no time; the caller replays it with the
   time the message came in, known from the trigger (triggered_on) / resume (resumed_on) it handed to the engine.  The
   model's event is annotated with that time: every msg_received of a sprint carries exactly the input time of the
   engine call, and no modifier or re-evaluation emits one.  (That session.SetInput really stores input.CreatedOn() =
   that time is checked by the engine-path differential run and direct oracle, not by a theorem.) *)
Theorem c03_msg_received_time_partial : forall E k acts c c' evs t,
  wf_contact E c -> kind_wf E k -> Forall (fun fm => mod_wf E (snd fm)) acts ->
  run_sprint E k acts c = (c', evs) -> In (EMsgReceived t) evs -> kind_input k = Some t.
Proof. exact sprint_msg_time. Qed.
Print Assumptions c03_msg_received_time_partial.

(* ---- the whole contact, channel pointers included -------------------------------------------------------------------
   [chan_ok E c]: every channel pointer is the channel the raw URN names in its channel query, i.e. what reading the
   marshalled contact back (flows.ParseRawURN) produces.  Every modifier keeps it (the URNs modifier since fix F3g);
   [chan_env_ok]: SetChannel writes the channel it is given into the raw URN (computable, evaluated on every case). *)
Theorem c03_channel_affinity_kept : forall E fresh m c c' evs modified,
  chan_ok E c -> chan_env_ok E m c = true ->
  apply E fresh m c = (c', evs, modified) -> chan_ok E c'.
Proof. exact chan_ok_apply. Qed.
Print Assumptions c03_channel_affinity_kept.

(* hence the contact in memory is determined by its marshalled form ... *)
Theorem c03_determined_by_marshalled : forall E a b, chan_ok E a -> chan_ok E b -> erase a = erase b -> a = b.
Proof. exact determined_by_marshalled. Qed.
Print Assumptions c03_determined_by_marshalled.

(* ... the replayed contact, read back, IS the contact afterwards (no projection) ... *)
Theorem c03_replay_modifier_exact : forall E fresh m c c' evs modified,
  wf_contact E c -> mod_wf E m -> chan_ok E c -> chan_env_ok E m c = true ->
  apply E fresh m c = (c', evs, modified) ->
  reload E (replay evs c) = c' /\ chan_ok E c'.
Proof. exact replay_modifier_exact. Qed.
Print Assumptions c03_replay_modifier_exact.

(* ... and a modifier that reports no change leaves the contact in memory exactly as it was (with
   c03_modified_iff_changed: modified = false <-> nothing at all changed) *)
Theorem c03_unmodified_untouched : forall E fresh m c c' evs,
  wf_contact E c -> mod_wf E m -> chan_ok E c -> chan_env_ok E m c = true ->
  apply E fresh m c = (c', evs, false) -> c' = c.
Proof. exact unmodified_untouched. Qed.
Print Assumptions c03_unmodified_untouched.

(* a channel modifier (set_contact_channel) changes affinity and order only: the identities (scheme + path) of the
   contact's URNs are the same afterwards.  [chan_env_ok] now also says that SetChannel keeps the identity of a URN — true
   of the code since fix F3m (SetChannel replaces the channel query only; before, it re-normalized the stored path) and
   evaluated on every case of the correspondence run *)
Theorem c03_channel_keeps_identities : forall E ch c c1 evs modified i,
  chan_env_ok E (MChannel ch) c = true ->
  apply_channel E ch c = (c1, evs, modified) ->
  (In i (map (ident_of E) (c_urns c1)) <-> In i (map (ident_of E) (c_urns c))).
Proof. exact channel_keeps_identities. Qed.
Print Assumptions c03_channel_keeps_identities.

(* the engine as the code stands evaluates queries in two environments (session / contact-merged, model run_steps2 Es Em):
   the replay clause needs no agreement between them, only the same list of groups *)
Theorem c03_replay_steps2 : forall Es Em ss c c' evs,
  all_groups Es = all_groups Em ->
  wf_contact Em c -> Forall (step_wf Em) ss ->
  run_steps2 Es Em ss c = (c', evs) ->
  same_contact (replay evs c) c' /\ wf_contact Em c'.
Proof. exact replay_steps2. Qed.
Print Assumptions c03_replay_steps2.

Theorem c03_replay_sprint2_partial : forall Es Em k acts c c' evs,
  all_groups Es = all_groups Em ->
  wf_contact Em c -> kind_wf Em k -> Forall (fun fm => mod_wf Em (snd fm)) acts ->
  run_sprint2 Es Em k acts c = (c', evs) -> same_contact (replay evs c) c'.
Proof. exact replay_sprint2. Qed.
Print Assumptions c03_replay_sprint2_partial.
