(* C17 — Legacy expression migration preserves meaning.

   Model: model/Legacy.v (the textual migrator of flows/definition/legacy/expressions, statement by statement),
   model/LegacySyntax.v (lexers and parsers of both grammars), gen/LegacyTable.v (callMigrators,
   functionReturnTypes, precedence constants: regenerated from the source on every run).
   Specification: proofs/LegacyProofs.v [mt]: the intended Excellent3 tree of a legacy tree (each legacy node
   becomes the node, or the call the table's template/rename prescribes, over the intended trees of its operands
   in the template's positions; [wrap] only adds a pair of parentheses).  That the table's names, argument order and
   constants are the right ones is the separate obligation c17_table_meets_spec (independent specification).  [mt e = None] for inputs without an intended tree: a call with the
   wrong number of arguments, a function name, context reference or literal whose migrated spelling is not one
   Excellent3 token (e.g. a literal ending in a backslash).  The real code migrates such input to text that
   does not parse or evaluates to an error value; no theorem speaks about them.
   ctxmap (MigrateContextReference) and printable (unicode.IsPrint) are universally quantified. *)
From Coq Require Import List NArith Bool.
From Coq Require String.
Import String.StringSyntax.
From Verif Require Import model.LegacyTy gen.LegacyTable model.LegacySyntax model.Legacy model.LegacyCorr.
From Verif Require Import proofs.LegacyWf proofs.LegacySyntaxProofs proofs.LegacyProofs proofs.LegacyRescan.
From Verif Require model.ExScanner proofs.ExScannerProofs proofs.LegacyGrammarLink.
Import ListNotations.
Open Scope N_scope.

(* Table obligation, re-proved against the regenerated table on every run: every call migrator is closed —
   a renamed function has a well-formed name; a join uses an operator of the grammar with that operator's
   precedence; a template, parsed with its placeholders as atoms, is a precedence-stable tree in which every
   placeholder sits either in an argument position or under an operator for which asOperatorTemplate wraps it
   to at least the required precedence, and instantiating the template TEXT with printed operands is the print
   of that tree with the operand trees substituted.  A new template such as `%s * 2` without precedences
   makes this fail. *)
Theorem c17_templates_closed : Forall entry_closed legacy_table.
Proof. exact templates_closed. Qed.
Print Assumptions c17_templates_closed.

(* Second table obligation: for every legacy function (sample call with atomic operands) and operator, the
   migrated text parses to the expression an independent specification prescribes (new name, argument order,
   constants, zero-based positions, the date/time forms of + and -; proofs/LegacyProofs.v legacy_spec, 88 lines written
   from the function references, and legacy_spec_pinned, 25 lines whose target is what the migrator emits and goflow's
   tests pin although it does NOT compute the legacy value: each names the known: class that shows it), up to
   parentheses.  This pins WHICH expression a call becomes, not its value.  A swapped placeholder or a wrong rename breaks it. *)
Theorem c17_table_meets_spec : forallb spec_ok all_spec = true.
Proof. exact table_meets_spec. Qed.
Print Assumptions c17_table_meets_spec.

(* ... and that specification has a sample call for every key of the regenerated table and every number of
   arguments the migrator admits for it, so a new or changed callMigrators entry cannot escape it. *)
Theorem c17_spec_covers_table : forallb entry_covered legacy_table = true.
Proof. exact spec_covers_table. Qed.
Print Assumptions c17_spec_covers_table.

(* Printing a precedence-stable, lexically sane Excellent3 tree and parsing the text gives the tree back. *)
Theorem c17_print_parse : forall t, wf3b t = true -> lex_ok t = true -> parse3 (print3 t) = Some t.
Proof. exact parse3_print3. Qed.
Print Assumptions c17_print_parse.

(* The legacy parser only builds precedence-stable trees (the legacy trees the next theorems speak about). *)
Theorem c17_legacy_parse_stable : forall s e, parse1 s = Some e -> wf1b e = true.
Proof. exact parse1_wf. Qed.
Print Assumptions c17_legacy_parse_stable.

(* Grouping: the TEXT the migrator emits for a legacy tree is the canonical print of the intended tree, which
   is precedence-stable; so the text re-parses to exactly the intended tree — every operand of every operator,
   renamed or re-shaped function stays one subtree, in its position.  Full statement for every legacy tree that
   has an intended tree (see the header); holds since /repo 6c36c2e (before: refuted by POWER(1+2, 3),
   SUM(1,2)*3, 10 - 2 ^ 2, ...). *)
Theorem c17_grouping : forall ctxmap raw_dates e t,
  mt ctxmap raw_dates e = Some t ->
  visit ctxmap raw_dates e = print3 t /\ wf3b t = true /\ lex_ok t = true
  /\ parse3 (visit ctxmap raw_dates e) = Some t.
Proof.
  exact (fun ctxmap raw_dates e t H =>
           match visit_mt ctxmap raw_dates e t H with
           | conj P (conj W L) => conj P (conj W (conj L (grouping ctxmap raw_dates e t H)))
           end).
Qed.
Print Assumptions c17_grouping.

(* The intended tree exists for every regular legacy tree (proofs/LegacyProofs.v [regular]: literals without
   backslash, DECIMAL tokens, any operators and nesting, table functions with a number of arguments the migrator
   accepts, unknown functions named by one Excellent3 NAME), provided the context references THAT OCCUR IN e
   ([refs1 e]) migrate to canonically printed expressions ([canon]; checked on every name of every generated
   template on each run; false e.g. for a non-ASCII digit-leading path segment, which the real mapper leaves alone).
   So for all such trees the migrated text re-parses to the intended tree. *)
Theorem c17_intended_tree_exists : forall ctxmap raw_dates e,
  (forall n, In n (refs1 e) -> canon (ctxmap n) <> None) ->
  regular e -> exists t, mt ctxmap raw_dates e = Some t /\ parse3 (visit ctxmap raw_dates e) = Some t.
Proof.
  exact (fun ctxmap raw_dates e Hctx R =>
           match mt_total ctxmap raw_dates e Hctx R with
           | ex_intro _ t Ht => ex_intro _ t (conj Ht (grouping ctxmap raw_dates e t Ht))
           end).
Qed.
Print Assumptions c17_intended_tree_exists.

Example c17_regular_example :
  regular (E1Call (s2t "POWER"%string) [E1Bin OAdd (E1Dec [49]) (E1Dec [50]); E1Str (legacy_quote [97; 34; 98])]).
Proof. exact regular_example. Qed.
Print Assumptions c17_regular_example.

(* The only freedom of the intended tree is parentheses. *)
Theorem c17_wrap_only_parenthesizes : forall t p, erase3 (wrap t p) = erase3 t.
Proof. exact erase3_wrap. Qed.
Print Assumptions c17_wrap_only_parenthesizes.

(* Every expression parses: an @(...) token whose legacy text parses to a tree with an intended tree migrates,
   without error, to @ followed by the printed intended tree (parenthesized unless it is a plain context path),
   and that text parses (options DefaultToSelf / URLEncode off).  [too_long … = false]: no subexpression migrates to
   more than 100 times the length of the legacy expression plus 1000 bytes (the growth cap of the migrator; beyond it
   the expression is left unmigrated with an error; only nested datetime ± time, whose time operand is written twice,
   gets there).  [expression_size_ok s]: at most max_expression_tokens tokens and nesting max_expression_nesting (the
   input limits of the migrator, constants regenerated into gen/LegacyTable.v; beyond them the expression is left
   unmigrated with an error).  NOT modelled: the depth limit of the NEW parser (excellent.MaxParseDepth, recorded as
   max_parse_depth): the code additionally reports an error when the migrated expression is too deep for it; where the
   code reports no error the conclusion is what the code does. *)
Theorem c17_parses : forall ctxmap raw_dates printable isln lower_rune s e t following,
  text_eqb s t_empty_literal = false ->
  parse1 s = Some e -> mt ctxmap raw_dates e = Some t ->
  expression_size_ok s = true ->
  too_long ctxmap raw_dates (max_migrated_length s) e = false ->
  exists body, migrate_seg ctxmap raw_dates false false printable isln lower_rune (SExpr s) following = (64 :: body, false) /\
    (body = print3 t \/ body = 40 :: print3 t ++ [41]) /\ parse3 (print3 t) = Some t.
Proof.
  exact (fun ctxmap raw_dates printable isln lower_rune s e t following =>
           expr_parses ctxmap raw_dates false false printable isln lower_rune s e t following eq_refl eq_refl).
Qed.
Print Assumptions c17_parses.

Theorem c17_identifier_parses : forall ctxmap raw_dates printable isln lower_rune n tr following,
  canon (ctxmap n) = Some tr ->
  exists body, migrate_seg ctxmap raw_dates false false printable isln lower_rune (SIdent n) following = (64 :: body, false) /\
    (body = print3 tr \/ body = 40 :: print3 tr ++ [41]) /\ parse3 (print3 tr) = Some tr.
Proof.
  exact (fun ctxmap raw_dates printable isln lower_rune n tr following =>
           ident_parses ctxmap raw_dates false false printable isln lower_rune n tr following eq_refl eq_refl).
Qed.
Print Assumptions c17_identifier_parses.

(* The Excellent3 ladder and operator spellings hard-coded in model/LegacySyntax.v agree with gen/GrammarE3.v, the
   table regenerated from antlr/Excellent3.g4 on every run that the parser model of C11/C12 (model/ExParser.v)
   computes its precedences from (same order of all binary operators, prefix minus above all of them). *)
Theorem c17_ladder_matches_grammar : LegacyGrammarLink.ladder_agrees = true /\ LegacyGrammarLink.spelling_agrees = true.
Proof. exact (conj LegacyGrammarLink.ladder_agrees_ok LegacyGrammarLink.spelling_agrees_ok). Qed.
Print Assumptions c17_ladder_matches_grammar.

Example c17_growth_cap_example :
  exists e, parse1 ex_legacy = Some e /\ too_long ex_ctx false (max_migrated_length ex_legacy) e = false.
Proof. exact cap_example. Qed.
Print Assumptions c17_growth_cap_example.

(* Literals: a legacy literal without backslash and without raw newline (any other characters, doubled quotes
   included) denotes the same characters after migration, read the way the Excellent3 visitor reads a TEXT
   token (strconv.Unquote, lib/Quote.v), and its migrated spelling is one TEXT token. *)
Theorem c17_literals_partial : forall s, Forall plain_char s ->
  chars3 (migrate_string_literal (legacy_quote s)) = Some s.
Proof. exact literals_partial. Qed.
Print Assumptions c17_literals_partial.

Theorem c17_literal_one_token : forall s, Forall (fun c => c <> c_bslash) s ->
  text_ok (migrate_string_literal (legacy_quote s)) = true.
Proof. exact literal_text_ok. Qed.
Print Assumptions c17_literal_one_token.

(* ... and the full statement (all literal forms) is false of the code: known findings literal:backslash
   (F14c, witness "a\b") and literal:newline-and-quote (witness a, newline, quote, b). *)
Theorem c17_literals_refuted : exists s, chars3 (migrate_string_literal (legacy_quote s)) <> Some s.
Proof. exact literals_refuted_backslash. Qed.
Print Assumptions c17_literals_refuted.

Theorem c17_literals_refuted_without_backslash :
  exists s, Forall (fun c => c <> c_bslash) s /\ chars3 (migrate_string_literal (legacy_quote s)) <> Some s.
Proof. exact literals_refuted_newline_quote. Qed.
Print Assumptions c17_literals_refuted_without_backslash.

(* Text outside expressions, PER TOKEN (partial: nothing is said here about how the migrated template is scanned again;
   for expression and identifier tokens that is c17_rescan_expression / c17_rescan_identifier, for body tokens it is false,
   c17_body_rescan_refuted): the migrated template is the concatenation of the per-token outputs, the error
   flag is the disjunction of the per-token flags (each token is migrated knowing only the body text that follows
   it, [with_following]), a body token contributes exactly itself; a template
   consisting of body tokens only is unchanged.  (The tokens are those of the template scanner, property C12;
   with SetUnescapeBody(false) an `@@` stays `@@`.) *)
Theorem c17_body_unchanged_partial : forall ctxmap raw_dates default_to_self url_encode printable isln lower_rune segs,
  let mseg := migrate_seg ctxmap raw_dates default_to_self url_encode printable isln lower_rune in
  fst (migrate_template ctxmap raw_dates default_to_self url_encode printable isln lower_rune segs)
    = concat (map (fun p => fst (mseg (fst p) (snd p))) (with_following segs))
  /\ snd (migrate_template ctxmap raw_dates default_to_self url_encode printable isln lower_rune segs)
    = existsb (fun p => snd (mseg (fst p) (snd p))) (with_following segs)
  /\ forall t f, mseg (SBody t) f = (t, false).
Proof. exact body_unchanged. Qed.
Print Assumptions c17_body_unchanged_partial.

Theorem c17_body_only_partial : forall ctxmap raw_dates default_to_self url_encode printable isln lower_rune ts,
  migrate_template ctxmap raw_dates default_to_self url_encode printable isln lower_rune (map SBody ts) = (concat ts, false).
Proof. exact body_only. Qed.
Print Assumptions c17_body_only_partial.

(* Scanner level (reviewer's finding, repaired by /repo db33e56): what the template scanner of the new syntax
   (model of property C12: model/ExScanner.v; [p_scan] is its functional description, proofs/ExScannerProofs.v
   scan_ref / ExScannerBound.v scan_ok) cuts out of the migrated template at the place of an @(...) token: exactly
   one IDENTIFIER or EXPRESSION token carrying the printed intended tree, whatever text f follows, and f is left
   untouched for the next token.  Hypotheses: the literals of the tree are read by the scanner to their closing
   quote ([scan_lits]; true for every migrated legacy literal without backslash: c17_literal_scanner_closed), no NUL.
   isln = unicode.IsLetter||IsNumber, lower_rune = unicode.ToLower are parameters. *)
Theorem c17_rescan_expression : forall isln lower_rune,
  isln ExScanner.eof = false -> isln ExScanner.r_at = false ->
  forall ctxmap raw_dates printable s e t f,
  separates_identifiers = true ->
  text_eqb s t_empty_literal = false ->
  parse1 s = Some e -> mt ctxmap raw_dates e = Some t -> scan_lits t = true ->
  expression_size_ok s = true ->
  too_long ctxmap raw_dates (max_migrated_length s) e = false ->
  ExScannerProofs.nulfree (print3 t ++ f) ->
  let out := fst (migrate_seg ctxmap raw_dates false false printable isln lower_rune (SExpr s) f) in
  let pscan := ExScannerProofs.p_scan isln lower_rune (Some run_top_levels) true in
  pscan (out ++ f) = (ExScanner.IDENTIFIER, print3 t, f) \/ pscan (out ++ f) = (ExScanner.EXPRESSION, print3 t, f).
Proof. exact rescan_expression. Qed.
Print Assumptions c17_rescan_expression.

Theorem c17_rescan_identifier : forall isln lower_rune,
  isln ExScanner.eof = false -> isln ExScanner.r_at = false ->
  forall ctxmap raw_dates printable n tr f,
  separates_identifiers = true ->
  canon (ctxmap n) = Some tr -> scan_lits tr = true ->
  ExScannerProofs.nulfree (print3 tr ++ f) ->
  let out := fst (migrate_seg ctxmap raw_dates false false printable isln lower_rune (SIdent n) f) in
  let pscan := ExScannerProofs.p_scan isln lower_rune (Some run_top_levels) true in
  pscan (out ++ f) = (ExScanner.IDENTIFIER, print3 tr, f) \/ pscan (out ++ f) = (ExScanner.EXPRESSION, print3 tr, f).
Proof. exact rescan_identifier. Qed.
Print Assumptions c17_rescan_identifier.

(* the body clause at the scanner level is refuted (known finding body:new-toplevel-identifier-becomes-live, witness
   `mail @fields.n1 now`): copied unchanged, but not read back as one body token by the scanner of the new syntax *)
Theorem c17_body_rescan_refuted :
  exists t, fst (migrate_template (fun n => lower n) false false false printable_approx isln_approx lower_cp [SBody t]) = t /\
            ExScannerProofs.p_scan isln_approx lower_cp (Some run_top_levels) true t <> (ExScanner.BODY, t, []).
Proof. exact body_rescan_refuted. Qed.
Print Assumptions c17_body_rescan_refuted.

(* table obligation: separateFrom is there (a revert of db33e56 breaks this) *)
Theorem c17_separates_identifiers : separates_identifiers = true.
Proof. exact separates. Qed.
Print Assumptions c17_separates_identifiers.

(* ... and without it the scanner-level statement is refuted: @contact.name followed by s reads as @contact.names *)
Theorem c17_rescan_refuted_without_separation :
  exists x f, ExScannerProofs.p_scan isln_approx lower_cp (Some run_top_levels) true (64 :: x ++ f)
              <> (ExScanner.IDENTIFIER, x, f).
Proof. exact glue_without_separation. Qed.
Print Assumptions c17_rescan_refuted_without_separation.

Theorem c17_literal_scanner_closed : forall s, Forall (fun c => c <> c_bslash) s ->
  scan_lits (X3Text (migrate_string_literal (legacy_quote s))) = true.
Proof. exact literal_scan_ok. Qed.
Print Assumptions c17_literal_scanner_closed.

Example c17_rescan_example :
  let ctx := fun n => lower n in
  exists e t, parse1 [99; 111; 110; 116; 97; 99; 116; 46; 110; 97; 109; 101] = Some e /\ mt ctx false e = Some t /\
    scan_lits t = true /\
    fst (migrate_seg ctx false false false printable_approx isln_approx lower_cp
           (SExpr [99; 111; 110; 116; 97; 99; 116; 46; 110; 97; 109; 101]) [115])
    = [64; 40; 99; 111; 110; 116; 97; 99; 116; 46; 110; 97; 109; 101; 41].
Proof. exact rescan_example. Qed.
Print Assumptions c17_rescan_example.

(* The hypotheses are satisfiable on a nested expression using every kind of migrator. *)
Example c17_grouping_example :
  exists e t, parse1 ex_legacy = Some e /\ mt ex_ctx false e = Some t /\
    visit ex_ctx false e = ex_migrated /\ parse3 ex_migrated = Some t.
Proof. exact ex_grouping. Qed.
Print Assumptions c17_grouping_example.
