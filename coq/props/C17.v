(* C17 — Legacy expression migration preserves meaning.

   Model: model/Legacy.v (the textual migrator of flows/definition/legacy/expressions, statement by statement),
   model/LegacySyntax.v (lexers and parsers of both grammars), gen/LegacyTable.v (callMigrators,
   functionReturnTypes, precedence constants: regenerated from the source on every run).
   Specification: proofs/LegacyProofs.v [mt]: the intended Excellent3 tree of a legacy tree (each legacy node
   becomes the node or call of the same meaning over the intended trees of its operands, in the same order;
   [wrap] only adds a pair of parentheses).  [mt e = None] for inputs without an intended tree: a call with the
   wrong number of arguments, a function name, context reference or literal whose migrated spelling is not one
   Excellent3 token (e.g. a literal ending in a backslash).  The real code migrates such input to text that
   does not parse or evaluates to an error value; no theorem speaks about them.
   ctxmap (MigrateContextReference) and printable (unicode.IsPrint) are universally quantified. *)
From Coq Require Import List NArith Bool.
From Coq Require String.
Import String.StringSyntax.
From Verif Require Import model.LegacyTy gen.LegacyTable model.LegacySyntax model.Legacy model.LegacyCorr.
From Verif Require Import proofs.LegacyWf proofs.LegacySyntaxProofs proofs.LegacyProofs.
Import ListNotations.
Open Scope N_scope.

(* Table obligation, re-proved against the regenerated table on every run: every call migrator is closed —
   a renamed function has a well-formed name; a join uses an operator of the grammar with that operator's
   precedence; a template, parsed with its placeholders as atoms, is a precedence-stable tree in which every
   placeholder sits either in an argument position or under an operator for which asOperatorTemplate wraps it
   to at least the required precedence, and instantiating the template TEXT with printed operands is the print
   of that tree with the operand trees substituted.  A new template such as `%s * 2` without precedences
   makes this fail. *)
Theorem c17_templates_closed : Forall entry_closed legacy_table.
Proof. exact templates_closed. Qed.
Print Assumptions c17_templates_closed.

(* Second table obligation: for every legacy function (sample call with atomic operands) and operator, the
   migrated text parses to the expression an independent specification prescribes (new name, argument order,
   constants, zero-based positions; proofs/LegacyProofs.v legacy_spec, 81 lines written from the function
   references), up to parentheses.  A swapped placeholder or a wrong rename breaks it. *)
Theorem c17_table_meets_spec : forallb spec_ok legacy_spec = true.
Proof. exact table_meets_spec. Qed.
Print Assumptions c17_table_meets_spec.

(* Printing a precedence-stable, lexically sane Excellent3 tree and parsing the text gives the tree back. *)
Theorem c17_print_parse : forall t, wf3b t = true -> lex_ok t = true -> parse3 (print3 t) = Some t.
Proof. exact parse3_print3. Qed.
Print Assumptions c17_print_parse.

(* The legacy parser only builds precedence-stable trees (the legacy trees the next theorems speak about). *)
Theorem c17_legacy_parse_stable : forall s e, parse1 s = Some e -> wf1b e = true.
Proof. exact parse1_wf. Qed.
Print Assumptions c17_legacy_parse_stable.

(* Grouping: the TEXT the migrator emits for a legacy tree is the canonical print of the intended tree, which
   is precedence-stable; so the text re-parses to exactly the intended tree — every operand of every operator,
   renamed or re-shaped function stays one subtree, in its position.  Full statement for every legacy tree that
   has an intended tree (see the header); holds since /repo 6c36c2e (before: refuted by POWER(1+2, 3),
   SUM(1,2)*3, 10 - 2 ^ 2, ...). *)
Theorem c17_grouping : forall ctxmap raw_dates e t,
  mt ctxmap raw_dates e = Some t ->
  visit ctxmap raw_dates e = print3 t /\ wf3b t = true /\ lex_ok t = true
  /\ parse3 (visit ctxmap raw_dates e) = Some t.
Proof.
  exact (fun ctxmap raw_dates e t H =>
           match visit_mt ctxmap raw_dates e t H with
           | conj P (conj W L) => conj P (conj W (conj L (grouping ctxmap raw_dates e t H)))
           end).
Qed.
Print Assumptions c17_grouping.

(* The intended tree exists for every regular legacy tree (proofs/LegacyProofs.v [regular]: literals without
   backslash, DECIMAL tokens, any operators and nesting, table functions with a number of arguments the migrator
   accepts, unknown functions named by one Excellent3 NAME), provided every context reference migrates to a
   canonically printed expression ([canon]; checked on every name of every generated template on each run).
   So for all such trees the migrated text re-parses to the intended tree. *)
Theorem c17_intended_tree_exists : forall ctxmap raw_dates,
  (forall n, canon (ctxmap n) <> None) ->
  forall e, regular e -> exists t, mt ctxmap raw_dates e = Some t /\ parse3 (visit ctxmap raw_dates e) = Some t.
Proof.
  exact (fun ctxmap raw_dates Hctx e R =>
           match mt_total ctxmap raw_dates Hctx e R with
           | ex_intro _ t Ht => ex_intro _ t (conj Ht (grouping ctxmap raw_dates e t Ht))
           end).
Qed.
Print Assumptions c17_intended_tree_exists.

Example c17_regular_example :
  regular (E1Call (s2t "POWER"%string) [E1Bin OAdd (E1Dec [49]) (E1Dec [50]); E1Str (legacy_quote [97; 34; 98])]).
Proof. exact regular_example. Qed.
Print Assumptions c17_regular_example.

(* The only freedom of the intended tree is parentheses. *)
Theorem c17_wrap_only_parenthesizes : forall t p, erase3 (wrap t p) = erase3 t.
Proof. exact erase3_wrap. Qed.
Print Assumptions c17_wrap_only_parenthesizes.

(* Every expression parses: an @(...) token whose legacy text parses to a tree with an intended tree migrates,
   without error, to @ followed by the printed intended tree (parenthesized unless it is a plain context path),
   and that text parses (options DefaultToSelf / URLEncode off). *)
Theorem c17_parses : forall ctxmap raw_dates printable isln lower_rune s e t following,
  text_eqb s t_empty_literal = false ->
  parse1 s = Some e -> mt ctxmap raw_dates e = Some t ->
  exists body, migrate_seg ctxmap raw_dates false false printable isln lower_rune (SExpr s) following = (64 :: body, false) /\
    (body = print3 t \/ body = 40 :: print3 t ++ [41]) /\ parse3 (print3 t) = Some t.
Proof.
  exact (fun ctxmap raw_dates printable isln lower_rune s e t following =>
           expr_parses ctxmap raw_dates false false printable isln lower_rune s e t following eq_refl eq_refl).
Qed.
Print Assumptions c17_parses.

(* Literals: a legacy literal without backslash and without raw newline (any other characters, doubled quotes
   included) denotes the same characters after migration, read the way the Excellent3 visitor reads a TEXT
   token (strconv.Unquote, lib/Quote.v), and its migrated spelling is one TEXT token. *)
Theorem c17_literals_partial : forall s, Forall plain_char s ->
  chars3 (migrate_string_literal (legacy_quote s)) = Some s.
Proof. exact literals_partial. Qed.
Print Assumptions c17_literals_partial.

Theorem c17_literal_one_token : forall s, Forall (fun c => c <> c_bslash) s ->
  text_ok (migrate_string_literal (legacy_quote s)) = true.
Proof. exact literal_text_ok. Qed.
Print Assumptions c17_literal_one_token.

(* ... and the full statement (all literal forms) is false of the code: known findings literal:backslash
   (F14c, witness "a\b") and literal:newline-and-quote (witness a, newline, quote, b). *)
Theorem c17_literals_refuted : exists s, chars3 (migrate_string_literal (legacy_quote s)) <> Some s.
Proof. exact literals_refuted_backslash. Qed.
Print Assumptions c17_literals_refuted.

Theorem c17_literals_refuted_without_backslash :
  exists s, Forall (fun c => c <> c_bslash) s /\ chars3 (migrate_string_literal (legacy_quote s)) <> Some s.
Proof. exact literals_refuted_newline_quote. Qed.
Print Assumptions c17_literals_refuted_without_backslash.

(* Text outside expressions: the migrated template is the concatenation of the per-token outputs, the error
   flag is the disjunction of the per-token flags (each token is migrated knowing only the body text that follows
   it, [with_following]), a body token contributes exactly itself; a template
   consisting of body tokens only is unchanged.  (The tokens are those of the template scanner, property C12;
   with SetUnescapeBody(false) an `@@` stays `@@`.) *)
Theorem c17_body_unchanged : forall ctxmap raw_dates default_to_self url_encode printable isln lower_rune segs,
  let mseg := migrate_seg ctxmap raw_dates default_to_self url_encode printable isln lower_rune in
  fst (migrate_template ctxmap raw_dates default_to_self url_encode printable isln lower_rune segs)
    = concat (map (fun p => fst (mseg (fst p) (snd p))) (with_following segs))
  /\ snd (migrate_template ctxmap raw_dates default_to_self url_encode printable isln lower_rune segs)
    = existsb (fun p => snd (mseg (fst p) (snd p))) (with_following segs)
  /\ forall t f, mseg (SBody t) f = (t, false).
Proof. exact body_unchanged. Qed.
Print Assumptions c17_body_unchanged.

Theorem c17_body_only : forall ctxmap raw_dates default_to_self url_encode printable isln lower_rune ts,
  migrate_template ctxmap raw_dates default_to_self url_encode printable isln lower_rune (map SBody ts) = (concat ts, false).
Proof. exact body_only. Qed.
Print Assumptions c17_body_only.

(* The hypotheses are satisfiable on a nested expression using every kind of migrator. *)
Example c17_grouping_example :
  exists e t, parse1 ex_legacy = Some e /\ mt ex_ctx false e = Some t /\
    visit ex_ctx false e = ex_migrated /\ parse3 ex_migrated = Some t.
Proof. exact ex_grouping. Qed.
Print Assumptions c17_grouping_example.
