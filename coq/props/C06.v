(* C06 — Query-based group membership always matches the contact.
   Statements only; proofs are in proofs/GroupsProofs.v ([Consistent E c] = every query based group of the
   assets contains c exactly when [qualifies] = "active and the query matches": the specification),
   proofs/ModifiersProofs.v, proofs/ModifiersSprint.v.  Model: model/Contact.v, model/Modifiers.v.
   Query evaluation is the field [matches] of the environment record: every theorem holds for EVERY evaluation
   function of the contact's attributes, fields and URNs (its own correctness is property C15). *)
From Coq Require Import List NArith Bool.
From Verif Require Import model.Contact model.Modifiers proofs.ModifiersBase proofs.GroupsProofs
  proofs.ModifiersProofs proofs.ModifiersSprint.
Import ListNotations.
Open Scope N_scope.

(* one re-evaluation, from ANY duplicate-free stored membership (right or wrong): afterwards membership is right;
   the reported added / removed groups are exactly those whose membership was wrong; nothing else changes;
   and the report, replayed over the old membership, gives the new one *)
Theorem c06_reevaluate_consistent : forall E c cur added removed,
  NoDup (c_groups c) ->
  reevaluate_query_groups E c = (cur, added, removed) ->
  NoDup cur
  /\ Consistent E (with_groups c cur)
  /\ (forall g, In g added <-> (In g (all_groups E) /\ uses_query E g = true)
                              /\ qualifies E g c = true /\ ~ In g (c_groups c))
  /\ (forall g, In g removed <-> (In g (all_groups E) /\ uses_query E g = true)
                                /\ qualifies E g c = false /\ In g (c_groups c))
  /\ (forall g, ~ (In g (all_groups E) /\ uses_query E g = true) -> (In g cur <-> In g (c_groups c)))
  /\ cur = fold_left remove_group removed (fold_left add_group added (c_groups c)).
Proof. exact reevaluate_query_groups_spec. Qed.
Print Assumptions c06_reevaluate_consistent.

(* after a directly applied modifier that reports a change: membership is right, a contact that is no longer
   active is in no group at all (static ones included), and the contact_groups_changed events add up to the
   membership change *)
Theorem c06_after_modifier : forall E fresh m c c' evs,
  wf_contact E c -> mod_wf E m ->
  apply E fresh m c = (c', evs, true) ->
  Consistent E c'
  /\ (is_active c' = false -> c_groups c' = [])
  /\ group_events_sum evs (c_groups c) = c_groups c'
  /\ wf_contact E c'.
Proof. exact after_modifier. Qed.
Print Assumptions c06_after_modifier.

(* after a directly applied modifier that reports no change, only this much holds: the contact is as before, so
   membership is right IF it was right (extra premise [Consistent E c]; the statement also quantifies over
   contacts whose stored membership is wrong) *)
Theorem c06_after_noop_modifier_partial : forall E fresh m c c' evs,
  wf_contact E c -> mod_wf E m ->
  apply E fresh m c = (c', evs, false) ->
  erase c' = erase c /\ (Consistent E c -> Consistent E c') /\ wf_contact E c'
  /\ (NoStaticIfInactive E c -> NoStaticIfInactive E c').
Proof. exact after_noop_modifier. Qed.
Print Assumptions c06_after_noop_modifier_partial.

(* ... and without that premise it is false (finding F6b, listed in KNOWN_FINDINGS.txt): a contact stored as a
   member of a group whose query it does not match stays a member after a modifier that changes nothing *)
Theorem c06_after_noop_modifier_refuted :
  exists E fresh m c c' evs,
    wf_contact E c /\ mod_wf E m /\ apply E fresh m c = (c', evs, false) /\ ~ Consistent E c'.
Proof. exact after_noop_modifier_refuted. Qed.
Print Assumptions c06_after_noop_modifier_refuted.

(* the static twin (known finding next to F6b): a contact STORED as non-active and still listed in a static group stays in
   it after a directly applied modifier that changes nothing.  The sentence speaks of a contact that BECOMES non-active
   (c06_after_modifier covers that); for a stored one only the conditional fourth conjunct above holds *)
Theorem c06_after_noop_modifier_static_refuted :
  exists E fresh m c c' evs,
    wf_contact E c /\ mod_wf E m /\ apply E fresh m c = (c', evs, false) /\ ~ NoStaticIfInactive E c'.
Proof. exact after_noop_modifier_static_refuted. Qed.
Print Assumptions c06_after_noop_modifier_static_refuted.

(* whenever the engine hands back a session: for every kind of engine call and every sequence of
   contact-changing actions, membership is right afterwards, whatever the stored membership of the starting or
   refreshed contact was.  _partial: on the step model of a sprint (see props/C03.v) *)
Theorem c06_after_sprint_partial : forall E k acts c c' evs,
  wf_contact E c -> kind_wf E k -> Forall (fun fm => mod_wf E (snd fm)) acts ->
  run_sprint E k acts c = (c', evs) ->
  Consistent E c' /\ wf_contact E c'.
Proof. exact consistent_after_sprint. Qed.
Print Assumptions c06_after_sprint_partial.

(* ... and every membership change made during the sprint is reported: the contact_groups_changed events of the
   sprint (a contact_refreshed replaces the membership) add up to the membership afterwards *)
Theorem c06_sprint_events_sum_partial : forall E k acts c c' evs,
  wf_contact E c -> kind_wf E k -> Forall (fun fm => mod_wf E (snd fm)) acts ->
  run_sprint E k acts c = (c', evs) ->
  group_events_sum evs (c_groups c) = c_groups c'.
Proof. exact sprint_group_events. Qed.
Print Assumptions c06_sprint_events_sum_partial.

(* "a contact that becomes non-active also leaves all its static groups", whenever the engine hands back a session: a
   non-active contact is in NO static group after any engine call, whatever the starting or refreshed contact's
   stored membership (since fix F6e session.ensureQueryBasedGroups is modifiers.ReevaluateGroups) *)
Theorem c06_no_static_groups_sprint_partial : forall E k acts c c' evs,
  wf_contact E c -> kind_wf E k -> Forall (fun fm => mod_wf E (snd fm)) acts ->
  run_sprint E k acts c = (c', evs) -> NoStaticIfInactive E c'.
Proof. exact sprint_no_static_full. Qed.
Print Assumptions c06_no_static_groups_sprint_partial.

(* As the code stands the engine evaluates queries in TWO environments: the session's at start/resume, the
   contact-merged one (contact's time zone) inside modifiers.Apply (model: run_sprint2 Es Em; only the group lists are
   shared).  Without ANY agreement of the two evaluators: the events replay, and membership is right for one of the two
   — the one whose re-evaluation ran last.  If the two agree on the groups' queries FOR THE CONTACT HANDED BACK (the
   exact negation of finding F6d), membership is right for both. *)
Theorem c06_after_sprint_two_env_partial : forall Es Em k acts c c' evs,
  groups_shared Es Em ->
  wf_contact Em c -> kind_wf Em k -> Forall (fun fm => mod_wf Em (snd fm)) acts ->
  run_sprint2 Es Em k acts c = (c', evs) ->
  same_contact (replay evs c) c'
  /\ (Consistent Es c' \/ Consistent Em c')
  /\ ((forall g, In g (all_groups Em) -> uses_query Em g = true -> matches Es g (qview c') = matches Em g (qview c'))
      -> Consistent Es c' /\ Consistent Em c').
Proof. exact after_sprint_two_env. Qed.
Print Assumptions c06_after_sprint_two_env_partial.

(* ... and if they disagree on the contact handed back, "right for both" is false (finding F6d, listed in
   KNOWN_FINDINGS.txt; the witness is abstract — two evaluators that differ — because the model's evaluator is a
   parameter; the concrete input of the known: line, UTC vs Africa/Kigali with `last_seen_on = "2024-05-06"` at 23:30Z,
   runs as an oracle-only scenario on every check): the same resume without and
   with an action that does not touch what the query reads leaves the contact in, resp. out of, the group —
   membership after a sprint depends on which re-evaluation ran last *)
Theorem c06_after_sprint_two_env_refuted :
  exists Es Em k c c1 e1 c2 e2,
    Em = with_matches Es (matches Em) /\ wf_contact Em c
    /\ run_sprint2 Es Em k [] c = (c1, e1) /\ run_sprint2 Es Em k [(7, MLanguage 2)] c = (c2, e2)
    /\ Consistent Es c1 /\ ~ Consistent Em c1 /\ Consistent Em c2 /\ ~ Consistent Es c2.
Proof. exact after_sprint_two_env_refuted. Qed.
Print Assumptions c06_after_sprint_two_env_refuted.
