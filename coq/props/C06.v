(* C06 — Query-based group membership always matches the contact.
   Statements only; proofs are in proofs/GroupsProofs.v ([Consistent E c] = every query based group of the
   assets contains c exactly when [qualifies] = "active and the query matches": the specification),
   proofs/ModifiersProofs.v, proofs/ModifiersSprint.v.  Model: model/Contact.v, model/Modifiers.v.
   Query evaluation is the field [matches] of the environment record: every theorem holds for EVERY evaluation
   function of the contact's attributes, fields and URNs (its own correctness is property C15). *)
From Coq Require Import List NArith Bool.
From Verif Require Import model.Contact model.Modifiers proofs.ModifiersBase proofs.GroupsProofs
  proofs.ModifiersProofs proofs.ModifiersSprint.
Import ListNotations.
Open Scope N_scope.

(* one re-evaluation, from ANY duplicate-free stored membership (right or wrong): afterwards membership is right;
   the reported added / removed groups are exactly those whose membership was wrong; nothing else changes;
   and the report, replayed over the old membership, gives the new one *)
Theorem c06_reevaluate_consistent : forall E c cur added removed,
  NoDup (c_groups c) ->
  reevaluate_query_groups E c = (cur, added, removed) ->
  NoDup cur
  /\ Consistent E (with_groups c cur)
  /\ (forall g, In g added <-> (In g (all_groups E) /\ uses_query E g = true)
                              /\ qualifies E g c = true /\ ~ In g (c_groups c))
  /\ (forall g, In g removed <-> (In g (all_groups E) /\ uses_query E g = true)
                                /\ qualifies E g c = false /\ In g (c_groups c))
  /\ (forall g, ~ (In g (all_groups E) /\ uses_query E g = true) -> (In g cur <-> In g (c_groups c)))
  /\ cur = fold_left remove_group removed (fold_left add_group added (c_groups c)).
Proof. exact reevaluate_query_groups_spec. Qed.
Print Assumptions c06_reevaluate_consistent.

(* after a directly applied modifier that reports a change: membership is right, a contact that is no longer
   active is in no group at all (static ones included), and the contact_groups_changed events add up to the
   membership change *)
Theorem c06_after_modifier : forall E fresh m c c' evs,
  wf_contact E c -> mod_wf E m ->
  apply E fresh m c = (c', evs, true) ->
  Consistent E c'
  /\ (is_active c' = false -> c_groups c' = [])
  /\ group_events_sum evs (c_groups c) = c_groups c'
  /\ wf_contact E c'.
Proof. exact after_modifier. Qed.
Print Assumptions c06_after_modifier.

(* after a directly applied modifier that reports no change, only this much holds: the contact is as before, so
   membership is right IF it was right (extra premise [Consistent E c]; the statement also quantifies over
   contacts whose stored membership is wrong) *)
Theorem c06_after_noop_modifier_partial : forall E fresh m c c' evs,
  wf_contact E c -> mod_wf E m ->
  apply E fresh m c = (c', evs, false) ->
  erase c' = erase c /\ (Consistent E c -> Consistent E c') /\ wf_contact E c'.
Proof. exact after_noop_modifier. Qed.
Print Assumptions c06_after_noop_modifier_partial.

(* ... and without that premise it is false (finding F6b, listed in KNOWN_FINDINGS.txt): a contact stored as a
   member of a group whose query it does not match stays a member after a modifier that changes nothing *)
Theorem c06_after_noop_modifier_refuted :
  exists E fresh m c c' evs,
    wf_contact E c /\ mod_wf E m /\ apply E fresh m c = (c', evs, false) /\ ~ Consistent E c'.
Proof. exact after_noop_modifier_refuted. Qed.
Print Assumptions c06_after_noop_modifier_refuted.

(* whenever the engine hands back a session: for every kind of engine call and every sequence of
   contact-changing actions, membership is right afterwards, whatever the stored membership of the starting or
   refreshed contact was.  _partial: on the step model of a sprint (see props/C03.v) *)
Theorem c06_after_sprint_partial : forall E k acts c c' evs,
  wf_contact E c -> kind_wf E k -> Forall (fun fm => mod_wf E (snd fm)) acts ->
  run_sprint E k acts c = (c', evs) ->
  Consistent E c' /\ wf_contact E c'.
Proof. exact consistent_after_sprint. Qed.
Print Assumptions c06_after_sprint_partial.

(* ... and every membership change made during the sprint is reported: the contact_groups_changed events of the
   sprint (a contact_refreshed replaces the membership) add up to the membership afterwards *)
Theorem c06_sprint_events_sum_partial : forall E k acts c c' evs,
  wf_contact E c -> kind_wf E k -> Forall (fun fm => mod_wf E (snd fm)) acts ->
  run_sprint E k acts c = (c', evs) ->
  group_events_sum evs (c_groups c) = c_groups c'.
Proof. exact sprint_group_events. Qed.
Print Assumptions c06_sprint_events_sum_partial.
