(* EngineSteps.v — the step bound of C05: a sprint adds at most max(0, MaxStepsPerSprint) steps to the
   paths of the session, whatever the flow graph; and a sprint in which the limit was hit ends failed. *)

From Coq Require Import List NArith ZArith Bool Lia.
From Verif Require Import model.Lang model.Engine proofs.EngineProofs proofs.EngineInv proofs.EngineFuel.
Import ListNotations.
Open Scope N_scope.

(* total number of steps in the session *)
Definition tot (s : session) : nat := fold_right (fun r acc => (length (r_path r) + acc)%nat) O (s_runs s).
Definition totx (x : st) : nat := tot (session_ x).

Lemma tot_app : forall s rs, fold_right (fun r acc => (length (r_path r) + acc)%nat) O (s ++ rs) =
  (fold_right (fun r acc => (length (r_path r) + acc)%nat) O s + fold_right (fun r acc => (length (r_path r) + acc)%nat) O rs)%nat.
Proof. induction s as [|r0 s IH]; intros; simpl; [reflexivity|]. rewrite IH. lia. Qed.

Lemma tot_update_same : forall rs k g, (forall r, length (r_path (g r)) = length (r_path r)) ->
  fold_right (fun r acc => (length (r_path r) + acc)%nat) O (update_nth rs k g) =
  fold_right (fun r acc => (length (r_path r) + acc)%nat) O rs.
Proof. induction rs; intros [|k] g H; simpl; auto. Qed.

Lemma tot_update_plus : forall rs k g, (k < length rs)%nat -> (forall r, length (r_path (g r)) = S (length (r_path r))) ->
  fold_right (fun r acc => (length (r_path r) + acc)%nat) O (update_nth rs k g) =
  S (fold_right (fun r acc => (length (r_path r) + acc)%nat) O rs).
Proof.
  induction rs; intros [|k] g Hk H; simpl in *; try lia.
  - rewrite H. reflexivity.
  - rewrite IHrs by (auto; lia). lia.
Qed.

Lemma tot_map_same : forall rs g, (forall r, length (r_path (g r)) = length (r_path r)) ->
  fold_right (fun r acc => (length (r_path r) + acc)%nat) O (map g rs) =
  fold_right (fun r acc => (length (r_path r) + acc)%nat) O rs.
Proof. induction rs; intros g H; simpl; auto. Qed.

Lemma totx_upd_same : forall x k g, (forall r, length (r_path (g r)) = length (r_path r)) ->
  totx (with_session x (fun s => upd_run s k g)) = totx x.
Proof. intros. unfold totx, tot, upd_run; simpl. apply tot_update_same; auto. Qed.

Lemma set_step_exit_length : forall e pos r, length (r_path (set_step_exit e pos r)) = length (r_path r).
Proof. intros. unfold set_step_exit; simpl. apply update_nth_length. Qed.

Lemma totx_log_event : forall x ri sr k, totx (log_event x ri sr k) = totx x.
Proof. intros. unfold totx, tot, log_event, upd_run; simpl. apply tot_update_same. reflexivity. Qed.

Lemma totx_fail_run : forall x ri sr c, totx (fail_run x ri sr c) = totx x.
Proof. intros. unfold fail_run. rewrite totx_log_event. apply totx_upd_same. reflexivity. Qed.

Lemma save_and_log_tot : forall a x ri sr name value cat nid input x' v,
  save_and_log a x ri sr name value cat nid input = Done x' v -> totx x' = totx x.
Proof.
  intros a x ri sr name value cat nid input x' v. unfold save_and_log.
  destruct (trunc value _); [|discriminate]. destruct (trunc_ellipsis input _) as [kept|]; [|discriminate]. destruct (get_run (session_ x) ri).
  - destruct (save_result _ _) as [rs ch]. intros H; inversion H; subst.
    destruct ch; rewrite ?totx_log_event; apply totx_upd_same; reflexivity.
  - intros H; inversion H; reflexivity.
Qed.

Lemma route_to_category_tot : forall a x ri sr n rt cat m op x' v,
  route_to_category a x ri sr n rt cat m op = Done x' v -> totx x' = totx x.
Proof.
  intros a x ri sr n rt cat m op x' v. unfold route_to_category.
  destruct cat; [|intros H; inversion H; reflexivity].
  destruct (nth_error _ _); [|discriminate].
  destruct (rt_result rt); [|intros H; inversion H; reflexivity].
  destruct (save_and_log _ _ _ _ _ _ _ _ _) eqn:E; try discriminate.
  intros H; inversion H; subst. eapply save_and_log_tot; eauto.
Qed.

Lemma pick_node_exit_tot : forall a x ri n pos it tmo x' v,
  pick_node_exit a x ri n pos it tmo = Done x' v -> totx x' = totx x.
Proof.
  intros a x ri n pos it tmo x' v. unfold pick_node_exit.
  destruct (n_router n) as [rt|].
  - destruct it.
    + unfold route_timeout. destruct (rt_wait rt) as [[wt [[? ci]|]]|]; try discriminate.
      destruct (route_to_category a x ri (Some (ri, pos)) n rt (Some ci) tmo []) as [y w| |] eqn:E; try discriminate.
      pose proof (route_to_category_tot _ _ _ _ _ _ _ _ _ _ _ E) as Hy.
      destruct w; intros H; inversion H; subst; rewrite ?totx_fail_run, ?totx_upd_same; auto using set_step_exit_length.
    + unfold route.
      match goal with |- context [route_to_category ?A ?X ?R ?S ?N ?RT ?C ?M ?O] =>
        destruct (route_to_category A X R S N RT C M O) as [y w| |] eqn:E end; try discriminate.
      pose proof (route_to_category_tot _ _ _ _ _ _ _ _ _ _ _ E) as Hy.
      destruct w; intros H; inversion H; subst; rewrite ?totx_fail_run, ?totx_upd_same; auto using set_step_exit_length.
  - destruct (n_exits n); intros H; inversion H; subst; rewrite totx_upd_same; auto using set_step_exit_length.
Qed.

Lemma find_resume_exit_tot : forall a x ri it tmo,
  match find_resume_exit a x ri it tmo with
  | FreOk x' _ _ => totx x' = totx x
  | FreErr x' => x' = x
  | _ => True
  end.
Proof.
  intros. unfold find_resume_exit. destruct (run_status (session_ x) ri) as [[]|]; auto.
  destruct (path_location a (session_ x) ri) as [[pos n]|]; auto.
  destruct (pick_node_exit a x ri n pos it tmo) as [x' [e op]|x'|] eqn:E; auto.
  - eapply pick_node_exit_tot; eauto.
  - eapply pick_node_exit_goerr; eauto.
Qed.

Lemma exec_actions_tot : forall a acts x ri pos n x' b, exec_actions a x ri pos n acts = Done x' b -> totx x' = totx x.
Proof.
  induction acts as [|act acts IH]; intros x ri pos n x' b; simpl.
  - intros H; inversion H; reflexivity.
  - destruct (exec_action a x ri pos n act) as [y v| |] eqn:E; try discriminate.
    assert (Hy : totx y = totx x).
    { revert E. unfold exec_action. destruct act.
      - destruct (trunc_ellipsis _ _); [|discriminate]. intros H; inversion H; subst. apply totx_log_event.
      - destruct (trunc_ellipsis _ _); [|discriminate]. apply save_and_log_tot.
      - destruct (get_flow a flow); [destruct (negb _)|]; intros H; inversion H; subst;
          rewrite ?totx_log_event; try reflexivity; apply totx_upd_same; reflexivity. }
    destruct (run_status (session_ y) ri) as [[]|]; try (intros H; rewrite (IH _ _ _ _ _ _ H); exact Hy).
    intros H; inversion H; subst. exact Hy.
Qed.

(* visitNode adds exactly one step *)
Lemma visit_node_tot : forall a x ri n wt x' v, visit_node a x ri n wt = Done x' v -> totx x' = S (totx x).
Proof.
  intros a x ri n wt x' v. unfold visit_node.
  destruct (get_run (session_ x) ri) as [r0|] eqn:Er; [|discriminate].
  assert (Hlt : (ri < length (s_runs (session_ x)))%nat) by (apply nth_error_Some; unfold get_run in Er; congruence).
  set (x1 := with_session x (fun s => upd_run s ri (run_add_step {| st_node := n_id n; st_exit := None |}))).
  assert (H1 : totx x1 = S (totx x)).
  { unfold totx, tot, x1, upd_run; simpl. apply tot_update_plus; auto.
    intros r. simpl. rewrite app_length. simpl. lia. }
  match goal with |- context [exec_actions a ?X ri ?P n ?A] => set (x2 := X) end.
  assert (H2 : totx x2 = S (totx x)).
  { unfold x2. destruct wt; [destruct (s_trigger (session_ x1))|]; auto. rewrite totx_log_event. exact H1. }
  destruct (exec_actions a x2 ri (length (r_path r0)) n (n_actions n)) as [x3 b| |] eqn:Ea; try discriminate.
  pose proof (exec_actions_tot _ _ _ _ _ _ _ _ Ea) as H3.
  destruct b; [intros H; inversion H; subst; congruence|].
  destruct (s_pushed (session_ x3)); [intros H; inversion H; subst; congruence|].
  match goal with |- context [match ?bw with Some _ => _ | None => match pick_node_exit ?A ?X ?R ?N ?P ?I ?T with _ => _ end end] =>
    destruct bw as [x4|] eqn:Ebw end.
  - intros H; inversion H; subst.
    assert (H4 : totx x4 = totx x3).
    { destruct (n_router n) as [rt|]; [|discriminate]. destruct (rt_wait rt) as [[[] tmo]|]; try discriminate; try (dmatch_hyp Ebw; [discriminate|]); inversion Ebw; subst.
      all: (apply totx_log_event). }
    unfold totx, tot in *; simpl. rewrite tot_update_same by reflexivity. congruence.
  - destruct (pick_node_exit a x3 ri n (length (r_path r0)) false []) as [x5 [e5 op5]| |] eqn:Epk; try discriminate.
    intros H; inversion H; subst. rewrite (pick_node_exit_tot _ _ _ _ _ _ _ _ _ Epk). congruence.
Qed.

(* ---- the loop ---------------------------------------------------------------------------------------------- *)

Definition hitb (a : assets) (l : lstate) : bool := ((0 <? l_steps l) && (max_steps (a_opts a) <? l_steps l))%Z.

Lemma hitb_hit : forall a l, hitb a l = true <-> hit a l.
Proof. intros. unfold hitb, hit. rewrite andb_true_iff, !Z.ltb_lt. reflexivity. Qed.

(* steps visited so far in this sprint: the counter, minus the step that was refused when the limit was hit *)
Definition visited (a : assets) (l : lstate) : Z := if hitb a l then (l_steps l - 1)%Z else l_steps l.

Record step_inv (a : assets) (t0 : nat) (x : st) (l : lstate) : Prop := {
  si_term : term_inv a x l;
  si_tot : Z.of_nat (totx x) = (Z.of_nat t0 + visited a l)%Z;
  si_bound : (l_steps l <= Z.max 0 (max_steps (a_opts a)) + 1)%Z
}.

Lemma pick_dest_tot : forall a x l x1 l1 dest, pick_dest a x l = (x1, l1, dest) -> totx x1 = totx x.
Proof.
  intros a x l x1 l1 dest. unfold pick_dest.
  destruct (s_pushed (session_ x)) as [p|].
  - intros H; inversion H; subst; clear H. unfold totx, tot; simpl. rewrite tot_app; simpl.
    destruct (p_terminal p); simpl; [rewrite tot_map_same by reflexivity|]; lia.
  - destruct (l_exit l) as [e|]; [|intros H; inversion H; reflexivity].
    repeat dmatch; intros H; inversion H; subst; reflexivity.
Qed.

Lemma goto_node_tot : forall a x l c d x' l',
  goto_node a x l c d = ICont x' l' ->
  ((max_steps (a_opts a) < l_steps l + 1)%Z /\ totx x' = totx x) \/
  ((l_steps l + 1 <= max_steps (a_opts a))%Z /\ totx x' = S (totx x)).
Proof.
  intros a x l c d x' l'. unfold goto_node. cbv zeta. cbn [l_trigger l_steps l_cur l_exit l_step l_node l_operand].
  destruct (l_steps l + 1 >? max_steps (a_opts a))%Z eqn:E.
  - intros H; inversion H; subst. left. split; [lia|apply totx_fail_run].
  - repeat dmatch; try discriminate. intros H; inversion H; subst. right. split; [lia|].
    eapply visit_node_tot; eauto.
Qed.

Lemma goto_node_stop_tot : forall a x l c d x',
  goto_node a x l c d = IStop (ROk x') -> (l_steps l + 1 <= max_steps (a_opts a))%Z /\ totx x' = S (totx x).
Proof.
  intros a x l c d x'. unfold goto_node. cbv zeta. cbn [l_trigger l_steps l_cur l_exit l_step l_node l_operand].
  destruct (l_steps l + 1 >? max_steps (a_opts a))%Z eqn:E; [discriminate|].
  repeat dmatch; try discriminate. intros H; inversion H; subst. split; [lia|]. eapply visit_node_tot; eauto.
Qed.

Definition iter_tot (x : st) (r : iter) : Prop :=
  match r with ICont x' _ => totx x' = totx x | IStop (ROk x') => totx x' = totx x | _ => True end.

Lemma finish_run_tot : forall a x l c r, finish_run a x l c = r -> iter_tot x r.
Proof.
  intros a x l c r. unfold finish_run.
  destruct (get_run (session_ x) c) as [r0|] eqn:Er0; [destruct (r_exited r0) eqn:Ex0|];
  repeat (first
    [ match goal with
      | H : find_resume_exit ?a ?X ?pi ?b ?t = _ |- _ =>
          let K := fresh "K" in pose proof (find_resume_exit_tot a X pi b t) as K; rewrite H in K; clear H
      end
    | dmatch ]); intros <-; subst; unfold iter_tot; auto;
    rewrite ?totx_fail_run;
    try (match goal with K : totx _ = _ |- _ => rewrite K end);
    rewrite ?totx_fail_run, ?totx_upd_same; auto; try reflexivity;
    try (change (totx (with_session x (fun s => upd_run s c (run_exit RCompleted))) = totx x); apply totx_upd_same; reflexivity).
Qed.

Lemma visited_not_hit : forall a l, ~ hit a l -> visited a l = l_steps l.
Proof.
  intros a l H. unfold visited. destruct (hitb a l) eqn:E; auto. apply hitb_hit in E. contradiction.
Qed.

Lemma visited_hit : forall a l, hit a l -> visited a l = (l_steps l - 1)%Z.
Proof. intros a l H. unfold visited. apply hitb_hit in H. rewrite H. reflexivity. Qed.

Lemma cuw_iter_steps : forall a t0 x l,
  step_inv a t0 x l ->
  match cuw_iter a x l with
  | ICont x' l' => step_inv a t0 x' l'
  | IStop (ROk x') => (Z.of_nat (totx x') <= Z.of_nat t0 + Z.max 0 (max_steps (a_opts a)))%Z /\
                      (hit a l -> s_status (session_ x') = SFailed)
  | IStop _ => True
  end.
Proof.
  intros a t0 x l [T Htot Hb].
  destruct (cuw_iter a x l) as [r|x' l'] eqn:E.
  2:{ destruct (cuw_iter_term _ _ _ _ _ T E) as [T' _]. revert E. rewrite cuw_iter_phases.
      destruct (pick_dest a x l) as [[x1 l1] dest] eqn:Epd.
      destruct (pick_dest_inv _ _ _ _ _ _ (ti_loop _ _ _ T) Epd) as (c & M & _).
      destruct (pick_dest_locals _ _ _ _ _ _ T Epd) as (Hs1 & _ & Hdest & Hhit1).
      pose proof (pick_dest_tot _ _ _ _ _ _ Epd) as Ht1.
      rewrite (mi_cur _ _ _ _ M). destruct dest as [d|]; intros E.
      - assert (Hnh : ~ hit a l) by (apply Hdest; discriminate).
        destruct (goto_node_locals _ _ _ _ _ _ _ M E) as (_ & Hs' & _ & _).
        pose proof (ti_steps _ _ _ T) as H0. rewrite (visited_not_hit _ _ Hnh) in Htot.
        assert (Hle : (l_steps l = 0 \/ l_steps l <= max_steps (a_opts a))%Z) by (unfold hit in Hnh; lia).
        destruct (goto_node_tot _ _ _ _ _ _ _ E) as [[Hlim Ht]|[Hlim Ht]]; rewrite Hs1 in Hlim.
        + constructor; [exact T'| |rewrite Hs', Hs1; lia].
          rewrite visited_hit by (unfold hit; rewrite Hs', Hs1; lia). rewrite Hs', Hs1, Ht, Ht1. lia.
        + constructor; [exact T'| |rewrite Hs', Hs1; lia].
          rewrite visited_not_hit by (unfold hit; rewrite Hs', Hs1; lia). rewrite Hs', Hs1, Ht, Ht1. lia.
      - destruct (finish_run_locals _ _ _ _ _ _ M E) as (Hs' & _).
        pose proof (finish_run_tot _ _ _ _ _ E) as Ht. simpl in Ht.
        constructor; [exact T'| |rewrite Hs', Hs1; exact Hb].
        assert (Hv : visited a l' = visited a l) by (unfold visited, hitb; rewrite Hs', Hs1; reflexivity).
        rewrite Hv, Ht, Ht1. exact Htot. }
  destruct r as [x'| | |]; auto.
  revert E. rewrite cuw_iter_phases.
  destruct (pick_dest a x l) as [[x1 l1] dest] eqn:Epd.
  destruct (pick_dest_inv _ _ _ _ _ _ (ti_loop _ _ _ T) Epd) as (c & M & _).
  destruct (pick_dest_locals _ _ _ _ _ _ T Epd) as (Hs1 & _ & Hdest & Hhit1).
  pose proof (pick_dest_tot _ _ _ _ _ _ Epd) as Ht1.
  pose proof (ti_steps _ _ _ T) as H0.
  rewrite (mi_cur _ _ _ _ M). destruct dest as [d|]; intros E.
  - assert (Hnh : ~ hit a l) by (apply Hdest; discriminate).
    destruct (goto_node_stop_tot _ _ _ _ _ _ E) as [Hlim Ht]. rewrite Hs1 in Hlim.
    rewrite (visited_not_hit _ _ Hnh) in Htot. split; [rewrite Ht, Ht1; lia|intros C; contradiction].
  - pose proof (finish_run_tot _ _ _ _ _ E) as Ht. simpl in Ht. split.
    + rewrite Ht, Ht1, Htot. unfold visited. destruct (hitb a l) eqn:Eh; [lia|].
      assert (~ hit a l) by (intros C; apply hitb_hit in C; congruence). unfold hit in H. lia.
    + intros Hh. destruct (Hhit1 Hh) as [-> ->]. destruct (ti_hit _ _ _ T Hh) as (_ & _ & c0 & Hc0 & Hf0).
      rewrite (mi_cur _ _ _ _ M) in Hc0. inversion Hc0; subst c0. clear Hc0.
      (* the current run is failed (and therefore exited): finish_run can only stop with a failed session *)
      revert E. unfold finish_run.
      assert (Hex : exists r, get_run (session_ x) c = Some r /\ r_status r = RFailed /\ r_exited r = true).
      { unfold st_at in Hf0. rewrite nth_error_shape in Hf0. unfold get_run.
        destruct (nth_error (s_runs (session_ x)) c) as [r|] eqn:Er; [|discriminate]. exists r. split; auto.
        inversion Hf0 as [Hs]. split; auto.
        pose proof (ci_ex _ (mi_core _ _ _ _ M) c (shp_of r)) as Hx. rewrite nth_error_shape, Er in Hx.
        specialize (Hx eq_refl). unfold shp_of in Hx. simpl in Hx. unfold sh_status in Hs. simpl in Hs. rewrite Hs in Hx. exact Hx. }
      destruct Hex as (r & Hr & Hrs & Hre). rewrite Hr, Hre. cbv zeta. rewrite Hr.
      assert (Hst : run_status (session_ x) c = Some RFailed) by (unfold run_status; rewrite Hr; simpl; congruence).
      rewrite Hst. cbn [negb].
      repeat dmatch; intros E; inversion E; subst; reflexivity.
Qed.

(* ---- engine calls ----------------------------------------------------------------------------------------- *)

Lemma cuw_step_bound : forall a t0 fuel x l x',
  step_inv a t0 x l -> continue_until_wait fuel a x l = ROk x' ->
  (Z.of_nat (totx x') <= Z.of_nat t0 + Z.max 0 (max_steps (a_opts a)))%Z.
Proof.
  intros a t0 fuel x l x' HI Hr.
  pose proof (cuw_induct a (step_inv a t0)
                (fun r => match r with ROk x2 => (Z.of_nat (totx x2) <= Z.of_nat t0 + Z.max 0 (max_steps (a_opts a)))%Z | _ => True end)) as P.
  specialize (P ltac:(intros x1 l1 x2 l2 H1 E; pose proof (cuw_iter_steps a t0 x1 l1 H1) as K; rewrite E in K; exact K)).
  specialize (P ltac:(intros x1 l1 r H1 E; pose proof (cuw_iter_steps a t0 x1 l1 H1) as K; rewrite E in K;
                      destruct r; auto; apply K)).
  specialize (P I fuel x l HI). rewrite Hr in P. exact P.
Qed.

(* once the limit has been hit the loop can only end with a failed session: never a Go error, never a panic *)
Lemma cuw_hit_ends_failed : forall a t0 fuel x l,
  step_inv a t0 x l -> hit a l ->
  match continue_until_wait fuel a x l with
  | ROk x' => s_status (session_ x') = SFailed
  | ROutOfFuel => True
  | _ => False
  end.
Proof.
  intros a t0 fuel x l HI Hh.
  pose proof (cuw_induct a (fun x1 l1 => step_inv a t0 x1 l1 /\ hit a l1)
                (fun r => match r with ROk x2 => s_status (session_ x2) = SFailed | ROutOfFuel => True | _ => False end)) as P.
  assert (Hphase : forall x1 l1, step_inv a t0 x1 l1 -> hit a l1 ->
            exists c, cuw_iter a x1 l1 = finish_run a x1 l1 c /\ mid_inv x1 l1 c None).
  { intros x1 l1 H1 H2. rewrite cuw_iter_phases.
    destruct (pick_dest a x1 l1) as [[y ly] dest] eqn:Epd.
    destruct (pick_dest_inv _ _ _ _ _ _ (ti_loop _ _ _ (si_term _ _ _ _ H1)) Epd) as (c & M & _).
    destruct (pick_dest_locals _ _ _ _ _ _ (si_term _ _ _ _ H1) Epd) as (_ & _ & Hdest & Hhit1).
    destruct (Hhit1 H2) as [-> ->]. rewrite (mi_cur _ _ _ _ M).
    destruct dest as [d|]; [exfalso; apply Hdest; [discriminate|exact H2]|]. exists c. split; [reflexivity|exact M]. }
  specialize (P ltac:(intros x1 l1 x2 l2 [H1 H2] E; pose proof (cuw_iter_steps a t0 x1 l1 H1) as K; rewrite E in K;
                      split; [exact K|];
                      destruct (Hphase _ _ H1 H2) as (c & Ec & M); rewrite Ec in E;
                      destruct (finish_run_locals _ _ _ _ _ _ M E) as (Hs' & _); unfold hit in *; rewrite Hs'; exact H2)).
  specialize (P ltac:(intros x1 l1 r [H1 H2] E; pose proof (cuw_iter_steps a t0 x1 l1 H1) as K; rewrite E in K;
                      destruct r as [x2|x2| |]; [apply K; exact H2| | |exact I];
                      destruct (Hphase _ _ H1 H2) as (c & Ec & M); rewrite Ec in E; revert E; unfold finish_run;
                      repeat (first [ discriminate
                                    | match goal with
                                      | H : find_resume_exit _ _ _ _ _ = FrePanic |- _ => exfalso; eapply find_resume_exit_no_panic; exact H
                                      | H : find_resume_exit _ _ _ _ _ = FreGoErr _ |- _ => exfalso; eapply find_resume_exit_no_goerr; exact H
                                      end
                                    | dmatch ]))).
  specialize (P I fuel x l (conj HI Hh)). exact P.
Qed.

Lemma step_inv_init : forall a x l, loop_inv x l -> l_steps l = 0%Z -> step_inv a (totx x) x l.
Proof.
  intros a x l HL Hs. constructor.
  - constructor; [exact HL|lia|]. intros [C _]. lia.
  - unfold visited, hitb. rewrite Hs. simpl. lia.
  - lia.
Qed.

(* a sprint adds at most max(0, MaxStepsPerSprint) steps, across all runs *)
Theorem start_step_bound : forall a t f x',
  start a t f = ROk x' -> (Z.of_nat (tot (session_ x')) <= Z.max 0 (max_steps (a_opts a)))%Z.
Proof.
  intros a t f x'. unfold start. destruct (get_flow a f) as [fl|]; [|discriminate].
  intros H. pose proof (cuw_step_bound a _ _ _ _ _ (step_inv_init a _ _ (loop_inv_start t f (f_type fl)) eq_refl) H) as K.
  unfold totx in K. simpl in K. exact K.
Qed.

Lemma apply_resume_tot : forall x wi sr r, totx (apply_resume x wi sr r) = totx x.
Proof.
  intros x wi sr r.
  assert (Hbase : forall y, totx (with_session (with_session y (fun s => match run_status s wi with
                                                                   | Some RWaiting => upd_run s wi (run_set_status RActive)
                                                                   | _ => s end)) (fun s => set_input s None)) = totx y).
  { intros y. unfold totx, tot; simpl. destruct (run_status (session_ y) wi) as [[]|]; try reflexivity.
    unfold upd_run; simpl. apply tot_update_same. reflexivity. }
  destruct r; unfold apply_resume; cbv zeta; rewrite ?totx_log_event, ?Hbase, ?totx_log_event; try reflexivity.
  - unfold totx, tot; simpl. specialize (Hbase x). unfold totx, tot in Hbase; simpl in Hbase. exact Hbase.
  - apply totx_upd_same. reflexivity.
Qed.

Lemma fail_session_tot : forall x wi c, totx (fail_session x wi c) = totx x.
Proof.
  intros. unfold fail_session. unfold totx, tot. cbn [session_ with_session s_runs set_status set_runs].
  rewrite tot_map_same by (intros r; destruct (r_status r); reflexivity). apply totx_fail_run.
Qed.

Theorem resume_step_bound : forall a s r tmo x',
  post_inv s -> resume_session a s r tmo = Resumed (ROk x') ->
  (Z.of_nat (tot (session_ x')) <= Z.of_nat (tot s) + Z.max 0 (max_steps (a_opts a)))%Z.
Proof.
  intros a s r tmo x' Hpost H.
  assert (H0 : totx (resume_x0 s) = tot s) by reflexivity.
  destruct (resume_decompose _ _ _ _ _ Hpost H) as [(y & wi & c & E & _ & _ & _ & _ & Hy)|(x2 & l & E & HL & Hs & _ & _ & wi & pos & e & op & _ & _ & _ & Hfre & _)].
  - inversion E; subst. change (tot (session_ (fail_session y wi c))) with (totx (fail_session y wi c)).
    rewrite fail_session_tot. destruct Hy as [->|(pos & n0 & _ & ->)]; [simpl; unfold totx; simpl; lia|].
    rewrite apply_resume_tot, H0. lia.
  - pose proof (find_resume_exit_tot a (apply_resume (resume_x0 s) wi (Some (wi, pos)) r) wi (is_timeout r) tmo) as Ht.
    rewrite Hfre in Ht. rewrite apply_resume_tot, H0 in Ht.
    symmetry in E. pose proof (cuw_step_bound a _ _ _ _ _ (step_inv_init a _ _ HL Hs) E) as K.
    rewrite Ht in K. exact K.
Qed.

Theorem reachable_resume_step_bound : forall a s r tmo x',
  reachable s -> resume_session a s r tmo = Resumed (ROk x') ->
  (Z.of_nat (tot (session_ x')) <= Z.of_nat (tot s) + Z.max 0 (max_steps (a_opts a)))%Z.
Proof. intros. eapply resume_step_bound; eauto. apply reachable_post; assumption. Qed.
