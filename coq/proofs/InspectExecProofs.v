(* InspectExecProofs.v — the three clauses of C20 for the traces the EXECUTABLE model engine (model/InspectExec.v)
   produces, for every instantiation of its oracles, every fuel, start flow and resume history: every step the
   engine emits satisfies the step facts the theorems of InspectProofs.v need (invariant of the loop [go], by
   induction on the fuel), hence the results it saves are covered by inspection (or are F16), the exits through
   which its resumed steps leave are waiting exits, and the references its steps carry are dependencies. *)
From Coq Require Import List NArith Bool String Lia.
From Verif Require Import model.ActionRow gen.ActionResults model.Inspect model.InspectExec proofs.InspectProofs.
Import ListNotations.
Open Scope N_scope.

(* ------------------------------------------------------------------------------------------------ *)
(* the greedy matcher *)

Lemma match_saves_nil : forall ems, match_saves ems [] = true.
Proof. destruct ems; reflexivity. Qed.

Lemma match_saves_weaken : forall ems,
  (forall obs y, match_saves ems (y :: obs) = true -> match_saves ems obs = true)
  /\ (forall e obs, match_saves ems obs = true -> match_saves (e :: ems) obs = true).
Proof.
  induction ems as [|e1 ems [IH1 IH2]].
  - split.
    + intros obs y H. discriminate H.
    + intros e obs H. destruct obs; [reflexivity | discriminate H].
  - assert (D : forall obs y, match_saves (e1 :: ems) (y :: obs) = true -> match_saves (e1 :: ems) obs = true).
    { intros obs y H. cbn [match_saves] in H. destruct (e1 y).
      - apply IH2. exact H.
      - apply IH2. apply IH1 with (y := y). exact H. }
    split; [exact D|].
    intros e obs H. destruct obs as [|o obs']; [reflexivity|]. cbn [match_saves]. destruct (e o).
    + apply D with (y := o). exact H.
    + exact H.
Qed.

Lemma match_saves_app_l : forall ems extra obs,
  match_saves ems obs = true -> match_saves (ems ++ extra) obs = true.
Proof.
  induction ems as [|e ems IH]; intros extra obs H.
  - destruct obs; [apply match_saves_nil | discriminate H].
  - destruct obs as [|o obs']; [reflexivity|]. cbn [app match_saves] in *. destruct (e o); apply IH; exact H.
Qed.

Lemma match_saves_snoc : forall ems obs e o,
  match_saves ems obs = true -> e o = true -> match_saves (ems ++ [e]) (obs ++ [o]) = true.
Proof.
  induction ems as [|e1 ems IH]; intros obs e o H He.
  - destruct obs; [|discriminate H]. cbn. rewrite He. reflexivity.
  - destruct obs as [|o1 obs'].
    + cbn [app match_saves]. destruct (e1 o).
      * apply match_saves_nil.
      * apply (IH [] e o); [apply match_saves_nil | exact He].
    + cbn [app match_saves] in *. destruct (e1 o1).
      * apply IH; assumption.
      * apply (IH (o1 :: obs') e o); assumption.
Qed.

(* ------------------------------------------------------------------------------------------------ *)

Section ExecProofs.
  Variable names : list named.
  Variable A : list flow.
  Variable pick : N -> N -> nat -> option N.
  Variable act : N -> N -> nat -> nat -> act_outcome.
  Variable touch : N -> N -> nat -> aref -> bool.
  Variable msg_trigger : bool.

  Lemma In_existsb_text : forall c l, In c l -> existsb (text_eqb c) l = true.
  Proof. intros c l H. apply existsb_exists. exists c. split; [exact H | apply text_eqb_refl]. Qed.

  Lemma save_of_can_save : forall a out x, save_of a out = Some x -> action_can_save a x = true.
  Proof.
    intros a out x H. unfold save_of in H. unfold action_can_save.
    destruct (a_behav a) as [|name cat| |s rn]; destruct out as [k|]; try discriminate.
    - inversion H; subst. cbn [fst snd]. rewrite !text_eqb_refl. reflexivity.
    - destruct (sv_saves s && (negb (sv_guarded s) || negb (text_empty rn))) eqn:G; [|discriminate].
      destruct (nth_error (sv_save_cats s) k) as [c|] eqn:E; [|discriminate]. inversion H; subst. cbn [fst snd].
      rewrite text_eqb_refl. cbn [andb].
      apply In_existsb_text. apply nth_error_In with (n := k). exact E.
  Qed.

  Lemma act_saves_match : forall fid nid t acts i,
    match_saves (map action_can_save acts) (act_saves act fid nid t i acts) = true.
  Proof.
    induction acts as [|a acts IH]; intro i; [reflexivity|]. cbn [map act_saves].
    destruct (save_of a (act fid nid i t)) as [x|] eqn:E.
    - cbn [match_saves]. rewrite (save_of_can_save a _ x E). apply IH.
    - apply (proj2 (match_saves_weaken _)). apply IH.
  Qed.

  (* what holds of every step the engine has emitted *)
  Definition step_inv (o : ostep) : Prop :=
    exists f n, lookup_flow A (os_flow o) = Some f /\ lookup_node f (os_node o) = Some n
      /\ match_saves (node_emitters n (os_exit o)) (os_saved o) = true
      /\ touched_ok names n (os_touched o) = true
      /\ exit_ok n o = true
      /\ (os_exit o = None -> match_saves (map action_can_save (n_actions n)) (os_saved o) = true).

  Lemma step_inv_facts : forall o, step_inv o -> exists f n, step_facts names A o f n.
  Proof.
    intros o [f [n [Hf [Hn [Hs [Ht [He _]]]]]]]. exists f, n. constructor; try assumption.
    apply lookup_node_In with (id := os_node o). exact Hn.
  Qed.

  Lemma new_step_inv : forall r parent fid nid t f n,
    lookup_flow A fid = Some f -> lookup_node f nid = Some n ->
    step_inv {| os_run := r; os_parent := parent; os_flow := fid; os_node := nid;
                os_saved := act_saves act fid nid t 0 (n_actions n);
                os_touched := filter (touch fid nid t) (node_asset_refs n ++ node_implicit_refs names n); os_exit := None; os_resumed := false |}.
  Proof.
    intros r parent fid nid t f n Hf Hn. exists f, n. cbn [os_flow os_node os_exit os_saved os_touched].
    split; [exact Hf|]. split; [exact Hn|]. split.
    - unfold node_emitters. apply match_saves_app_l. apply act_saves_match.
    - split.
      + unfold touched_ok. apply forallb_forall. intros x Hx. apply filter_In in Hx. destruct Hx as [Hx _].
        apply orb_true_iff. apply in_app_or in Hx. destruct Hx as [Hx|Hx]; [left | right]; apply ref_in_In; exact Hx.
      + split; [reflexivity|]. intros _. apply act_saves_match.
  Qed.

  Lemma route_step_inv : forall o f n choice resumed o',
    lookup_flow A (os_flow o) = Some f -> lookup_node f (os_node o) = Some n ->
    os_exit o = None ->
    match_saves (map action_can_save (n_actions n)) (os_saved o) = true ->
    touched_ok names n (os_touched o) = true ->
    negb resumed || node_has_wait n = true ->
    route_step n o choice resumed = Some o' ->
    step_inv o'.
  Proof.
    intros o f n choice resumed o' Hf Hn Hex Hs Ht Hr H. unfold route_step in H.
    destruct (n_router n) as [r|] eqn:Er.
    - destruct choice as [cid|]; [|discriminate].
      destruct (find (fun c => N.eqb (c_id c) cid) (rt_categories r)) as [c|] eqn:Ec; [|discriminate].
      inversion H; subst o'; clear H. apply find_some in Ec. destruct Ec as [Hc _].
      exists f, n. unfold set_route; cbn [os_flow os_node os_exit os_saved os_touched].
      split; [exact Hf|]. split; [exact Hn|]. split.
      + unfold node_emitters. rewrite Er. destruct (text_empty (rt_result_name r)) eqn:En.
        * rewrite app_nil_r. apply match_saves_app_l. exact Hs.
        * apply match_saves_snoc; [exact Hs|]. unfold router_can_save. cbn [fst snd]. rewrite En, text_eqb_refl. cbn [negb andb].
          apply existsb_exists. exists c. split; [exact Hc|]. rewrite text_eqb_refl, N.eqb_refl. reflexivity.
      + split; [exact Ht|]. split.
        * unfold exit_ok. cbn [os_resumed os_exit]. rewrite Hr, Er. cbn [andb].
          apply existsb_exists. exists c. split; [exact Hc | apply N.eqb_refl].
        * intro Hnone. discriminate Hnone.
    - destruct (n_exits n) as [|x xs] eqn:Ex; inversion H; subst o'; clear H;
        exists f, n; unfold set_route; cbn [os_flow os_node os_exit os_saved os_touched];
        (split; [exact Hf|]); (split; [exact Hn|]); (split; [unfold node_emitters; rewrite Er, app_nil_r; exact Hs|]);
        (split; [exact Ht|]).
      + split; [unfold exit_ok; cbn [os_resumed os_exit]; rewrite Hr; reflexivity | intros _; exact Hs].
      + split; [|intro Hnone; discriminate Hnone].
        unfold exit_ok. cbn [os_resumed os_exit]. rewrite Hr, Er, Ex. cbn [andb]. apply N.eqb_refl.
  Qed.

  (* routing an emitted step that is still open *)
  Lemma route_emitted : forall o n f choice resumed o',
    step_inv o -> os_exit o = None ->
    lookup_flow A (os_flow o) = Some f -> lookup_node f (os_node o) = Some n ->
    negb resumed || node_has_wait n = true ->
    route_step n o choice resumed = Some o' -> step_inv o'.
  Proof.
    intros o n f choice resumed o' [f0 [n0 [Hf0 [Hn0 [_ [Ht [_ Hopen]]]]]]] Hex Hf Hn Hr H.
    rewrite Hf in Hf0. inversion Hf0; subst f0. rewrite Hn in Hn0. inversion Hn0; subst n0.
    apply route_step_inv with (o := o) (f := f) (n := n) (choice := choice) (resumed := resumed); auto.
  Qed.

  Lemma In_firstn_l : forall (X : Type) i (l : list X) y, In y (firstn i l) -> In y l.
  Proof.
    induction i as [|i IH]; intros l y H; [destruct H|]. destruct l as [|x l]; [destruct H|].
    cbn [firstn] in H. destruct H as [H|H]; [left; exact H | right; apply IH; exact H].
  Qed.

  Lemma In_skipn_l : forall (X : Type) i (l : list X) y, In y (skipn i l) -> In y l.
  Proof.
    induction i as [|i IH]; intros l y H; [exact H|]. destruct l as [|x l]; [destruct H|].
    cbn [skipn] in H. right. apply IH. exact H.
  Qed.

  Lemma Forall_upd : forall (P : ostep -> Prop) l i x, Forall P l -> P x -> Forall P (upd l i x).
  Proof.
    intros P l i x Hl Hx. unfold upd. apply Forall_app. split.
    - apply Forall_forall. intros y Hy. rewrite Forall_forall in Hl. apply Hl. apply (In_firstn_l _ i l y Hy).
    - constructor; [exact Hx|]. apply Forall_forall. intros y Hy. rewrite Forall_forall in Hl. apply Hl.
      apply (In_skipn_l _ (S i) l y Hy).
  Qed.

  Lemma Forall_snoc : forall (P : ostep -> Prop) l x, Forall P l -> P x -> Forall P (l ++ [x]).
  Proof. intros P l x Hl Hx. apply Forall_app. split; [exact Hl | constructor; [exact Hx | constructor]]. Qed.

  Lemma nth_error_Forall : forall (P : ostep -> Prop) l i x, Forall P l -> nth_error l i = Some x -> P x.
  Proof. intros P l i x Hl H. rewrite Forall_forall in Hl. apply Hl. apply nth_error_In with (n := i). exact H. Qed.

  Lemma exit_ok_resumed : forall n o, exit_ok n o = true -> negb (os_resumed o) || node_has_wait n = true.
  Proof. intros n o H. unfold exit_ok in H. apply andb_true_iff in H. apply H. Qed.

  Ltac step_match :=
    match goal with
    | |- Forall _ (s_steps (match ?x with _ => _ end)) => destruct x eqn:?
    | |- Forall _ (s_steps (if ?x then _ else _)) => destruct x eqn:?
    end.

  Lemma go_inv : forall fuel st r dest,
    Forall step_inv (s_steps st) -> Forall step_inv (s_steps (go names A pick act touch msg_trigger fuel st r dest)).
  Proof.
    induction fuel as [|fuel IH]; intros st r dest H; [exact H|].
    cbn [go].
    destruct (nth_error (s_runs st) r) as [rr|] eqn:Err; [|exact H].
    destruct dest as [nid|].
    - (* visit a node *)
      destruct (lookup_flow A (r_flow rr)) as [f|] eqn:Ef; [|exact H].
      destruct (lookup_node f nid) as [n|] eqn:En; [|exact H].
      pose proof (new_step_inv (N.of_nat r) (opt_nat_to_N (r_parent rr)) (r_flow rr) nid (List.length (s_steps st)) f n Ef En) as Hnew.
      destruct (act_pushed A act (r_flow rr) nid (List.length (s_steps st)) 0 (n_actions n) None) as [[cf term]|] eqn:Ep.
      + apply IH. cbn [s_steps]. apply Forall_snoc; assumption.
      + destruct (node_has_wait n && negb (msg_trigger && Nat.eqb (List.length (s_steps st)) 0)) eqn:Ew.
        * cbn [s_steps]. apply Forall_snoc; assumption.
        * match goal with |- context[route_step n ?o ?c false] => destruct (route_step n o c false) as [o'|] eqn:Er end.
          -- apply IH. cbn [s_steps]. apply Forall_snoc; [exact H|].
             match type of Er with route_step n ?o ?c false = _ =>
               apply (route_emitted o n f c false o' Hnew eq_refl Ef En eq_refl Er) end.
          -- cbn [s_steps]. apply Forall_snoc; assumption.
    - (* the run is complete: resume the parent *)
      destruct (r_parent rr) as [p|]; [|exact H].
      destruct (r_resume_parent rr); [|exact H].
      destruct (nth_error (s_runs st) p) as [pr|]; [|exact H].
      destruct (r_last pr) as [idx|]; [|exact H].
      destruct (nth_error (s_steps st) idx) as [o|] eqn:Eo; [|exact H].
      destruct (os_exit o) as [e|] eqn:Eex; [exact H|].
      destruct (lookup_flow A (os_flow o)) as [f|] eqn:Ef; [|exact H].
      destruct (lookup_node f (os_node o)) as [n|] eqn:En; [|exact H].
      destruct (route_step n o (pick (os_flow o) (os_node o) idx) (os_resumed o)) as [o'|] eqn:Er; [|exact H].
      apply IH. cbn [s_steps]. apply Forall_upd; [exact H|].
      pose proof (nth_error_Forall _ _ _ _ H Eo) as Ho.
      apply (route_emitted o n f (pick (os_flow o) (os_node o) idx) (os_resumed o) o' Ho Eex Ef En); [|exact Er].
      destruct Ho as [f0 [n0 [Hf0 [Hn0 [_ [_ [Hexit _]]]]]]].
      rewrite Ef in Hf0. inversion Hf0; subst f0. rewrite En in Hn0. inversion Hn0; subst n0.
      apply exit_ok_resumed. exact Hexit.
  Qed.

  Lemma resume_inv : forall fuel st timeout,
    Forall step_inv (s_steps st) -> Forall step_inv (s_steps (resume names A pick act touch msg_trigger fuel st timeout)).
  Proof.
    intros fuel st timeout H. unfold resume.
    destruct (s_wait st) as [idx|]; [|exact H].
    destruct (nth_error (s_steps st) idx) as [o|] eqn:Eo; [|exact H].
    destruct (os_exit o) as [e|] eqn:Eex; [exact H|].
    destruct (lookup_flow A (os_flow o)) as [f|] eqn:Ef; [|exact H].
    destruct (lookup_node f (os_node o)) as [n|] eqn:En; [|exact H].
    destruct (n_router n) as [rt|] eqn:Ert; [|exact H].
    destruct (rt_wait rt) as [tmo|] eqn:Ew; [|exact H].
    destruct (if timeout then tmo else Some 0); [|exact H].
    match goal with |- context[route_step n o ?c true] => destruct (route_step n o c true) as [o'|] eqn:Er end; [|exact H].
    apply go_inv. cbn [s_steps]. apply Forall_upd; [exact H|].
    pose proof (nth_error_Forall _ _ _ _ H Eo) as Ho.
    match type of Er with route_step n o ?c true = _ => apply (route_emitted o n f c true o' Ho Eex Ef En); [|exact Er] end.
    unfold node_has_wait. rewrite Ert, Ew. reflexivity.
  Qed.

  Lemma start_inv : forall fuel fid, Forall step_inv (s_steps (start names A pick act touch msg_trigger fuel fid)).
  Proof.
    intros fuel fid. unfold start. destruct (lookup_flow A fid); [|constructor]. apply go_inv. constructor.
  Qed.

  Lemma fold_resume_inv : forall fuel history st,
    Forall step_inv (s_steps st) -> Forall step_inv (s_steps (fold_left (resume names A pick act touch msg_trigger fuel) history st)).
  Proof.
    induction history as [|k history IH]; intros st H; [exact H|]. cbn [fold_left]. apply IH. apply resume_inv. exact H.
  Qed.

  Theorem exec_steps_ok : forall fuel fid history, steps_ok names A (exec names A pick act touch msg_trigger fuel fid history).
  Proof.
    intros fuel fid history o Ho. unfold exec in Ho.
    pose proof (fold_resume_inv fuel history _ (start_inv fuel fid)) as H.
    rewrite Forall_forall in H. apply step_inv_facts. apply H. exact Ho.
  Qed.

  (* ---- the three clauses for what the model engine does *)

  Theorem engine_results_covered_or_f16 : forall fuel fid history,
    forallb valid_flow A = true ->
    forall fl nc, In (fl, nc) (saved_results (exec names A pick act touch msg_trigger fuel fid history)) ->
    exists f, lookup_flow A fl = Some f /\ (result_covered f nc \/ saved_by_open_ticket f nc).
  Proof. intros fuel fid history Hv. apply results_covered_or_f16_steps with (names := names); [exact Hv | apply exec_steps_ok]. Qed.

  Theorem engine_waiting_exits : forall fuel fid history,
    forallb valid_flow A = true ->
    forall fl e, In (fl, e) (resumed_exits (exec names A pick act touch msg_trigger fuel fid history)) ->
    exists f, lookup_flow A fl = Some f /\ In e (waiting_exits f).
  Proof. intros fuel fid history Hv. apply waiting_exits_listed_steps with (names := names); [exact Hv | apply exec_steps_ok]. Qed.

  Theorem engine_dependencies_or_implicit : forall fuel fid history,
    forall fl r, In (fl, r) (assets_touched (exec names A pick act touch msg_trigger fuel fid history)) ->
    exists f, lookup_flow A fl = Some f
      /\ ((In r (dependencies f) /\ ref_variable r = false) \/ touched_implicitly names f r).
  Proof. intros fuel fid history. apply dependencies_or_implicit_steps. apply exec_steps_ok. Qed.
End ExecProofs.

(* ------------------------------------------------------------------------------------------------ *)
(* the engine does something: on the example flows of InspectProofs.v, with a router that always picks category 1,
   every action succeeding with its first category and every written reference carried, a timeout resume and a
   msg resume each leave the wait, the child flow is entered, results are saved by action, router and saver *)

Definition ex_pick (_ _ : N) (_ : nat) : option N := Some 1.
Definition ex_act (_ _ : N) (_ _ : nat) : act_outcome := AOk 0.
Definition ex_touch (_ _ : N) (_ : nat) (_ : aref) : bool := true.

Example engine_runs :
  let tr_timeout := exec [] [ex_parent; ex_child] ex_pick ex_act ex_touch false 20 0 [true] in
  let tr_msg := exec [] [ex_parent; ex_child] ex_pick ex_act ex_touch false 20 0 [false] in
  List.length tr_timeout = 1%nat /\ resumed_exits tr_timeout = [(0, 2)]
  /\ map snd (saved_results tr_timeout) = [(t "My Result", t "Yes"); (t "Color", t "No Response")]
  /\ List.length tr_msg = 3%nat /\ resumed_exits tr_msg = [(0, 1)]
  /\ map snd (saved_results tr_msg) = [(t "My Result", t "Yes"); (t "Color", t "Other"); (t "Hook", t "Success")]
  /\ List.length (assets_touched tr_msg) = 2%nat
  /\ accepts [] [ex_parent; ex_child] tr_msg = true /\ accepts [] [ex_parent; ex_child] tr_timeout = true.
Proof. vm_compute. repeat split; reflexivity. Qed.
