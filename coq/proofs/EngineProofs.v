(* EngineProofs.v — lemmas about the engine model (model/Engine.v) for C01, C05 and C10.

   Part A  resume: accept table, exact characterisation of the three rejections, impossible resumes
   Part B  truncation never panics and respects the limit; no engine call of the model panics
   Part C  the session status after a call that returns without error

   The specifications below are written from the property sentences, not from the code. *)

From Coq Require Import List NArith ZArith Bool Lia.
From Verif Require Import model.Lang model.Engine.
Import ListNotations.
Open Scope N_scope.

Ltac dmatch :=
  match goal with
  | |- context [match ?e with _ => _ end] => destruct e eqn:?
  end.

Ltac dmatch_hyp H :=
  match type of H with
  | context [match ?e with _ => _ end] => destruct e eqn:?
  end.

(* ================================================================================================== *)
(* Part A — resumes                                                                                    *)
(* ================================================================================================== *)

(* the accept table of the property: a msg wait accepts msg and run_expiration resumes, and a
   wait_timeout resume iff it has a timeout; a dial wait accepts only a dial resume *)
Definition spec_accepts (w : wait) (r : resume) : Prop :=
  match w_type w with
  | WMsg => match r with
            | RMsg _ => True
            | RExpiration => True
            | RTimeout => w_timeout w <> None
            | RDial => False
            end
  | WDial => r = RDial
  end.

Lemma accept_table : forall w r, accepts w r = true <-> spec_accepts w r.
Proof.
  intros [ty tmo] r; unfold accepts, spec_accepts; simpl.
  destruct ty, r, tmo; simpl; split; intros H; try exact I; try reflexivity; try discriminate;
    try contradiction; try (exfalso; apply H; reflexivity).
Qed.

(* the wait a session is waiting on: the wait of the router of the node of the last step of the
   waiting run (in the assets the session is resumed against) *)
Definition wait_of (n : node) : option wait :=
  match n_router n with Some rt => rt_wait rt | None => None end.

Definition no_waiting_run (s : session) : Prop := Forall (fun r => r_status r <> RWaiting) (s_runs s).

Lemma waiting_run_from_none : forall rs i, waiting_run_from i rs = None <-> Forall (fun r => r_status r <> RWaiting) rs.
Proof.
  induction rs as [|r rs IH]; intros i; simpl.
  - split; auto.
  - destruct (rstatus_eqb (r_status r) RWaiting) eqn:E.
    + split; [discriminate|]. intros H; inversion H; subst. destruct (r_status r); simpl in E; congruence.
    + rewrite IH. split.
      * intros H; constructor; auto. intros C; rewrite C in E; discriminate.
      * intros H; inversion H; auto.
Qed.

Lemma waiting_run_from_some : forall rs i w, waiting_run_from i rs = Some w ->
  exists r, nth_error rs (w - i) = Some r /\ r_status r = RWaiting /\ (i <= w)%nat /\
            forall j r', (j < w - i)%nat -> nth_error rs j = Some r' -> r_status r' <> RWaiting.
Proof.
  induction rs as [|r rs IH]; intros i w; simpl; [discriminate|].
  destruct (rstatus_eqb (r_status r) RWaiting) eqn:E.
  - intros H; inversion H; subst. exists r. replace (w - w)%nat with O by lia. simpl.
    repeat split; auto. + destruct (r_status r); simpl in E; congruence. + intros; lia.
  - intros H. destruct (IH _ _ H) as (r' & Hn & Hs & Hle & Hb).
    exists r'. replace (w - i)%nat with (S (w - S i)) by lia. simpl. repeat split; auto; try lia.
    intros j r'' Hj Hn'. destruct j; simpl in Hn'.
    + inversion Hn'; subst. intros C; rewrite C in E; discriminate.
    + eapply Hb; eauto. lia.
Qed.

(* the conditions under which tryToResume gives up on the session instead of rejecting the resume *)
Definition flow_missing (a : assets) (s : session) (wi : nat) : Prop :=
  match get_run s wi with
  | Some rn => get_flow a (r_flow rn) = None
  | None => True
  end.

(* ... or cannot be used to continue the run: missing, or a voice flow in a session that has no call
   (Engine.run_flow_unusable = session.go: `waitingRun.Flow() == nil`, then `!s.canContinue(waitingRun)`) *)
Definition flow_unusable (a : assets) (s : session) (wi : nat) : Prop := run_flow_unusable a s wi = true.

Definition voice_without_call (a : assets) (s : session) (wi : nat) : Prop :=
  exists rn f, get_run s wi = Some rn /\ get_flow a (r_flow rn) = Some f /\ f_type f = 2 /\ s_type s <> 2.

Lemma flow_unusable_iff : forall a s wi, flow_unusable a s wi <-> flow_missing a s wi \/ voice_without_call a s wi.
Proof.
  intros a s wi. unfold flow_unusable, run_flow_unusable, flow_missing, voice_without_call.
  destruct (get_run s wi) as [rn|] eqn:Er; [|split; auto].
  destruct (get_flow a (r_flow rn)) as [f|] eqn:Ef.
  - split.
    + intros H. apply andb_true_iff in H. destruct H as [H1 H2]. apply N.eqb_eq in H1. apply negb_true_iff, N.eqb_neq in H2.
      right. exists rn, f. repeat split; auto.
    + intros [C|(rn' & f' & E1 & E2 & H1 & H2)]; [discriminate|]. inversion E1; subst. rewrite Ef in E2. inversion E2; subst.
      apply andb_true_iff. split; [apply N.eqb_eq; auto|apply negb_true_iff, N.eqb_neq; auto].
  - split; auto.
Qed.

Lemma flow_usable_inv : forall a s wi, run_flow_unusable a s wi = false ->
  exists rn f, get_run s wi = Some rn /\ get_flow a (r_flow rn) = Some f.
Proof.
  intros a s wi. unfold run_flow_unusable. destruct (get_run s wi) as [rn|]; [|discriminate].
  destruct (get_flow a (r_flow rn)) as [f|] eqn:Ef; [|discriminate]. intros _. exists rn, f. split; [reflexivity|exact Ef].
Qed.

Definition resume_limit_reached (a : assets) (s : session) : Prop :=
  (Z.of_nat (count_waits s) >= max_resumes (a_opts a))%Z.

Inductive resume_site (a : assets) (s : session) (wi : nat) : option (nat * node * wait) -> Prop :=
| site_gone : path_location a s wi = None -> resume_site a s wi None
| site_no_wait : forall pos n, path_location a s wi = Some (pos, n) -> wait_of n = None -> resume_site a s wi None
| site_wait : forall pos n w, path_location a s wi = Some (pos, n) -> wait_of n = Some w ->
              resume_site a s wi (Some (pos, n, w)).

Lemma resume_site_total : forall a s wi, exists o, resume_site a s wi o.
Proof.
  intros. destruct (path_location a s wi) as [[pos n]|] eqn:E.
  - destruct (wait_of n) eqn:W; eauto using resume_site.
  - eauto using resume_site.
Qed.

Lemma resume_site_fun : forall a s wi o1 o2, resume_site a s wi o1 -> resume_site a s wi o2 -> o1 = o2.
Proof.
  intros a s wi o1 o2 H1 H2; inversion H1; inversion H2; subst; congruence.
Qed.

Lemma wait_of_router : forall n,
  (exists rt w, n_router n = Some rt /\ rt_wait rt = Some w /\ wait_of n = Some w) \/
  (wait_of n = None /\ (n_router n = None \/ exists rt, n_router n = Some rt /\ rt_wait rt = None)).
Proof.
  intros n; unfold wait_of. destruct (n_router n) as [rt|].
  - destruct (rt_wait rt) eqn:E; [left; eauto | right; eauto].
  - right; auto.
Qed.

(* exact characterisation of the three engine errors *)
Lemma reject_iff : forall a s r tmo code,
  resume_session a s r tmo = Rejected code <->
  (code = 101 /\ s_status s <> SWaiting) \/
  (code = 102 /\ s_status s = SWaiting /\ no_waiting_run s) \/
  (code = 103 /\ s_status s = SWaiting /\
     exists wi pos n w, waiting_run s = Some wi /\ ~ flow_unusable a s wi /\ ~ resume_limit_reached a s /\
                        resume_site a s wi (Some (pos, n, w)) /\ accepts w r = false).
Proof.
  intros a s r tmo code. unfold resume_session.
  destruct (sstatus_eqb (s_status s) SWaiting) eqn:Est; simpl.
  2:{ split.
      - intros H; inversion H; subst. left; split; auto. intros C; rewrite C in Est; discriminate.
      - intros [[-> _]|[(_ & C & _)|(_ & C & _)]]; auto; rewrite C in Est; discriminate. }
  assert (Hw : s_status s = SWaiting) by (destruct (s_status s); simpl in Est; congruence).
  destruct (waiting_run s) as [wi|] eqn:Ewr.
  2:{ split.
      - intros H; inversion H; subst. right; left. repeat split; auto.
        apply (waiting_run_from_none (s_runs s) 0); exact Ewr.
      - intros [[_ C]|[(-> & _)|(_ & _ & wi & pos & n & w & C & _)]]; auto; congruence. }
  assert (Hnw : ~ no_waiting_run s).
  { intros C. apply (waiting_run_from_none (s_runs s) 0) in C. unfold waiting_run in Ewr. congruence. }
  set (fm := run_flow_unusable a s wi).
  assert (Hfm : fm = true <-> flow_unusable a s wi) by (unfold fm, flow_unusable; tauto).
  destruct fm eqn:Efm.
  { split; [discriminate|].
    intros [[_ C]|[(_ & _ & C)|(_ & _ & wi' & pos & n & w & E1 & C & _)]]; try contradiction.
    inversion E1; subst. exfalso; apply C, Hfm; reflexivity. }
  destruct (Z.of_nat (count_waits s) >=? max_resumes (a_opts a))%Z eqn:Ecw.
  { split; [discriminate|].
    intros [[_ C]|[(_ & _ & C)|(_ & _ & wi' & pos & n & w & E1 & _ & C & _)]]; try contradiction.
    exfalso; apply C. unfold resume_limit_reached. lia. }
  destruct (path_location a s wi) as [[pos n]|] eqn:Epl.
  2:{ split; [discriminate|].
      intros [[_ C]|[(_ & _ & C)|(_ & _ & wi' & pos & n & w & E1 & _ & _ & C & _)]]; try contradiction.
      inversion E1; subst. pose proof (resume_site_fun _ _ _ _ _ C (site_gone _ _ _ Epl)); discriminate. }
  destruct (wait_of_router n) as [(rt & w & Hr & Hrw & Hwo)|(Hwo & Hr)].
  - rewrite Hr. destruct rt as [rw rres rcats rcases rdef]; simpl in Hrw; subst rw.
    destruct (accepts w r) eqn:Eacc; simpl.
    + split.
      * dmatch; discriminate.
      * intros [[_ C]|[(_ & _ & C)|(_ & _ & wi' & pos' & n' & w' & E1 & _ & _ & C & Hacc)]]; try contradiction.
        inversion E1; subst. pose proof (resume_site_fun _ _ _ _ _ C (site_wait _ _ _ _ _ _ Epl Hwo)) as K.
        inversion K; subst. congruence.
    + split.
      * intros H; inversion H; subst. right; right. repeat split; auto.
        exists wi, pos, n, w. repeat split; auto.
        -- intros C; apply Hfm in C; discriminate.
        -- unfold resume_limit_reached; lia.
        -- eapply site_wait; eauto.
      * intros [[_ C]|[(_ & _ & C)|(-> & _)]]; try contradiction; auto.
  - assert (Hno : forall wi' pos' n' w', Some wi = Some wi' -> resume_site a s wi' (Some (pos', n', w')) -> False).
    { intros wi' pos' n' w' E1 C. inversion E1; subst.
      pose proof (resume_site_fun _ _ _ _ _ C (site_no_wait _ _ _ _ _ Epl Hwo)); discriminate. }
    destruct Hr as [Hr|(rt & Hr & Hrw)]; rewrite Hr; [|destruct rt; simpl in Hrw; subst];
      (split; [discriminate|]);
      intros [[_ C]|[(_ & _ & C)|(_ & _ & wi' & pos' & n' & w' & E1 & _ & _ & C & _)]]; try contradiction;
      exfalso; eapply Hno; eauto.
Qed.

(* ---- lists ---------------------------------------------------------------------------------------- *)

Lemma update_nth_length : forall A (l : list A) i f, length (update_nth l i f) = length l.
Proof. induction l; intros [|i] f; simpl; auto. Qed.

Lemma nth_error_update_nth_eq : forall A (l : list A) i f,
  nth_error (update_nth l i f) i = option_map f (nth_error l i).
Proof. induction l; intros [|i] f; simpl; auto. Qed.

Lemma nth_error_update_nth_neq : forall A (l : list A) i j f, i <> j ->
  nth_error (update_nth l i f) j = nth_error l j.
Proof.
  induction l; intros [|i] [|j] f H; simpl; auto; try congruence.
Qed.

(* ---- a resume that cannot proceed ----------------------------------------------------------------- *)

Definition impossible (a : assets) (s : session) (wi : nat) : Prop :=
  flow_unusable a s wi \/ resume_limit_reached a s \/ resume_site a s wi None.

Definition failure_event (c : fail_code) : event := {| ev_step := None; ev_kind := EFailure c |}.

(* what "the session ends as failed with a failure event" means, written from the statement: the
   session is failed, the sprint consists of exactly one failure event, logged by the waiting run;
   every run that was active or waiting is failed and exited; nothing else changes *)
Definition ended_as_failed (s : session) (wi : nat) (x' : st) : Prop :=
  s_status (session_ x') = SFailed /\
  (exists c, sp_events (sprint_ x') = [(Some wi, failure_event c)] /\
             forall r, nth_error (s_runs s) wi = Some r ->
                       exists r', nth_error (s_runs (session_ x')) wi = Some r' /\ r_events r' = r_events r ++ [failure_event c]) /\
  sp_segments (sprint_ x') = [] /\
  length (s_runs (session_ x')) = length (s_runs s) /\
  s_input (session_ x') = s_input s /\ s_pushed (session_ x') = s_pushed s /\
  s_trigger (session_ x') = s_trigger s /\ s_flow (session_ x') = s_flow s /\ s_type (session_ x') = s_type s /\
  forall i r, nth_error (s_runs s) i = Some r ->
    exists r', nth_error (s_runs (session_ x')) i = Some r' /\
      r_flow r' = r_flow r /\ r_parent r' = r_parent r /\ r_path r' = r_path r /\ r_results r' = r_results r /\
      (i <> wi -> r_events r' = r_events r) /\
      (r_status r = RActive \/ r_status r = RWaiting \/ i = wi -> r_status r' = RFailed /\ r_exited r' = true) /\
      (i <> wi -> r_status r <> RActive -> r_status r <> RWaiting -> r' = r).

Lemma fail_session_ended : forall s wi c,
  ended_as_failed s wi (fail_session {| session_ := s; sprint_ := empty_sprint |} wi c).
Proof.
  intros s wi c. unfold ended_as_failed, fail_session, fail_run, log_event, with_session, upd_run; simpl.
  split; [reflexivity|]. split.
  { exists c. split; [reflexivity|]. intros r Hr.
    rewrite nth_error_map, !nth_error_update_nth_eq, Hr; simpl.
    eexists; split; [reflexivity|]. destruct (r_status r); reflexivity. }
  split; [reflexivity|]. split.
  { rewrite map_length, !update_nth_length; reflexivity. }
  repeat (split; [reflexivity|]).
  intros i r Hr. rewrite nth_error_map.
  destruct (Nat.eq_dec i wi) as [->|Hne].
  - rewrite !nth_error_update_nth_eq, Hr; simpl. eexists; split; [reflexivity|].
    repeat split; try (destruct (r_status r); reflexivity); try congruence.
  - rewrite !nth_error_update_nth_neq, Hr by congruence; simpl. eexists; split; [reflexivity|].
    destruct (r_status r) eqn:E; simpl; repeat split; auto; try congruence;
      try (intros [C|[C|C]]; congruence);
      try (match goal with H : _ \/ _ \/ _ |- _ => destruct H as [C|[C|C]]; congruence end).
Qed.

Lemma impossible_fails : forall a s r tmo wi,
  s_status s = SWaiting -> waiting_run s = Some wi -> impossible a s wi ->
  exists x', resume_session a s r tmo = Resumed (ROk x') /\ ended_as_failed s wi x'.
Proof.
  intros a s r tmo wi Hst Hwr Himp. unfold resume_session. rewrite Hst, Hwr; simpl.
  destruct (run_flow_unusable a s wi) eqn:Efu.
  { eexists; split; [reflexivity|apply fail_session_ended]. }
  destruct (Z.of_nat (count_waits s) >=? max_resumes (a_opts a))%Z eqn:Ecw.
  { eexists; split; [reflexivity|apply fail_session_ended]. }
  destruct Himp as [H|[H|H]].
  - unfold flow_unusable in H. congruence.
  - unfold resume_limit_reached in H. lia.
  - inversion H as [Epl|pos n Epl Hwo|]; rewrite Epl.
    + eexists; split; [reflexivity|apply fail_session_ended].
    + destruct (wait_of_router n) as [(rt & w & Hr & Hrw & Hwo')|(_ & [Hr|(rt & Hr & Hrw)])]; try congruence; rewrite Hr.
      * eexists; split; [reflexivity|apply fail_session_ended].
      * destruct rt; simpl in Hrw; subst. eexists; split; [reflexivity|apply fail_session_ended].
Qed.

(* and conversely: a resume of a waiting session that neither is rejected nor is impossible proceeds *)
Lemma resume_proceeds : forall a s r tmo wi pos n w,
  s_status s = SWaiting -> waiting_run s = Some wi -> ~ flow_unusable a s wi -> ~ resume_limit_reached a s ->
  resume_site a s wi (Some (pos, n, w)) -> accepts w r = true ->
  let x := apply_resume (with_session {| session_ := s; sprint_ := empty_sprint |} (fun s => set_status s SActive)) wi (Some (wi, pos)) r in
  resume_session a s r tmo =
    match find_resume_exit a x wi (is_timeout r) tmo with
    | FreErr x' => Resumed (ROk (fail_session x' wi FRouteError))
    | FreGoErr x' => Resumed (RGoError x')
    | FrePanic => Resumed RPanic
    | FreOk x' e op =>
        Resumed (continue_until_wait (fuel_for a (session_ x')) a x'
                   {| l_cur := Some wi; l_node := Some (match get_run s wi with Some rn => r_flow rn | None => 0 end, n_id n);
                      l_exit := e; l_operand := op; l_step := Some (wi, pos); l_steps := 0%Z; l_trigger := false |})
    end.
Proof.
  intros a s r tmo wi pos n w Hst Hwr Hfm Hlim Hsite Hacc. unfold resume_session. rewrite Hst, Hwr; simpl.
  unfold flow_unusable in Hfm. destruct (run_flow_unusable a s wi) eqn:Efu; [exfalso; apply Hfm; reflexivity|].
  destruct (Z.of_nat (count_waits s) >=? max_resumes (a_opts a))%Z eqn:Ecw.
  { exfalso; apply Hlim; unfold resume_limit_reached; lia. }
  inversion Hsite as [| |pos' n' w' Epl Hwo]; subst. rewrite Epl.
  destruct (wait_of_router n) as [(rt & w' & Hr & Hrw & Hwo')|(C & _)]; [|congruence].
  rewrite Hr. destruct rt; simpl in Hrw; subst. rewrite Hwo in Hwo'; inversion Hwo'; subst.
  rewrite Hacc; simpl. reflexivity.
Qed.

(* ================================================================================================== *)
(* Part B — truncation and panics                                                                      *)
(* ================================================================================================== *)

(* stringsx.truncate: defined (no negative slice bound) whenever the ending fits into the limit; the
   result has at most [limit] characters and is either the text itself or a prefix of it followed by
   the ending (texts are lists of code points, so a cut never splits a character) *)
Lemma truncate_spec : forall s limit ending,
  (Z.of_nat (length ending) <= limit)%Z ->
  exists t, truncate s limit ending = Some t /\ (Z.of_nat (length t) <= limit)%Z /\
            (t = s \/ exists k, t = firstn k s ++ ending).
Proof.
  intros s limit ending H. unfold truncate.
  destruct (Z.of_nat (length s) <=? limit)%Z eqn:E.
  - exists s. repeat split; auto. lia.
  - destruct (limit - Z.of_nat (length ending) <? 0)%Z eqn:E2; [lia|].
    eexists; split; [reflexivity|]. split; [|right; eauto].
    rewrite app_length, firstn_length. lia.
Qed.

Lemma truncate_short : forall s limit ending, (Z.of_nat (length s) <= limit)%Z -> truncate s limit ending = Some s.
Proof. intros s limit ending H. unfold truncate. destruct (Z.of_nat (length s) <=? limit)%Z eqn:E; auto; lia. Qed.

Lemma trunc_spec : forall s limit,
  exists t, trunc s limit = Some t /\ (Z.of_nat (length t) <= Z.max limit 0)%Z /\ (t = s \/ exists k, t = firstn k s).
Proof.
  intros s limit. unfold trunc.
  destruct (truncate_spec s (Z.max limit 0) []) as (t & Ht & Hl & Hp); [simpl; lia|].
  exists t. repeat split; auto. destruct Hp as [->|(k & ->)]; auto. right; exists k; apply app_nil_r.
Qed.

Lemma trunc_ellipsis_spec : forall s limit,
  exists t, trunc_ellipsis s limit = Some t /\ (Z.of_nat (length t) <= Z.max limit 0)%Z /\
            (t = s \/ exists k, t = firstn k s \/ t = firstn k s ++ ellipsis).
Proof.
  intros s limit. unfold trunc_ellipsis. destruct (limit <? 3)%Z eqn:E.
  - destruct (trunc_spec s limit) as (t & Ht & Hl & Hp). exists t. repeat split; auto.
    destruct Hp as [->|(k & ->)]; eauto.
  - destruct (truncate_spec s limit ellipsis) as (t & Ht & Hl & Hp); [simpl; lia|].
    exists t. repeat split; auto; [lia|]. destruct Hp as [->|(k & ->)]; eauto.
Qed.

(* a text within the limit is not altered *)
Lemma trunc_ellipsis_short : forall s limit, (Z.of_nat (length s) <= limit)%Z -> trunc_ellipsis s limit = Some s.
Proof.
  intros s limit H. unfold trunc_ellipsis, trunc. destruct (limit <? 3)%Z; apply truncate_short; lia.
Qed.

Lemma trunc_short : forall s limit, (Z.of_nat (length s) <= limit)%Z -> trunc s limit = Some s.
Proof. intros s limit H. unfold trunc. apply truncate_short; lia. Qed.

(* the Go function before the repair (stringsx.truncate called with the configured limit directly)
   did panic: this is why [truncate] alone is not what the engine model calls *)
Example truncate_panics_below_ending : truncate [104; 101; 108; 108; 111] 2%Z ellipsis = None.
Proof. reflexivity. Qed.

(* ---- no panic ---------------------------------------------------------------------------------------- *)

Lemma save_and_log_no_panic : forall a x ri sr name value cat nid input,
  save_and_log a x ri sr name value cat nid input <> Panicked.
Proof.
  intros. unfold save_and_log.
  destruct (trunc_spec value (max_result_chars (a_opts a))) as (t & -> & _).
  destruct (trunc_ellipsis_spec input (max_template_chars (a_opts a))) as (kept & -> & Hkept & _).
  destruct (get_run (session_ x) ri); [|discriminate].
  destruct (save_result _ _); discriminate.
Qed.

Lemma route_to_category_no_panic : forall a x ri sr n rt cat m op, route_to_category a x ri sr n rt cat m op <> Panicked.
Proof.
  intros. unfold route_to_category. destruct cat; [|discriminate].
  destruct (nth_error _ _); [|discriminate]. destruct (rt_result rt); [|discriminate].
  destruct (save_and_log _ _ _ _ _ _ _ _ _) eqn:E; try discriminate.
  exfalso; eapply save_and_log_no_panic; eauto.
Qed.

Lemma route_no_panic : forall a x ri sr n rt, route a x ri sr n rt <> Panicked.
Proof.
  intros. unfold route. destruct (route_to_category _ _ _ _ _ _ _ _ _) eqn:E; try discriminate.
  exfalso; eapply route_to_category_no_panic; eauto.
Qed.

Lemma route_timeout_no_panic : forall a x ri sr n rt t, route_timeout a x ri sr n rt t <> Panicked.
Proof.
  intros. unfold route_timeout. destruct (rt_wait rt) as [[wt [[? ?]|]]|]; try discriminate.
  apply route_to_category_no_panic.
Qed.

Lemma pick_node_exit_no_panic : forall a x ri n pos it tmo, pick_node_exit a x ri n pos it tmo <> Panicked.
Proof.
  intros. unfold pick_node_exit.
  destruct (n_router n) as [rt|].
  - destruct it.
    + destruct (route_timeout a x ri (Some (ri, pos)) n rt tmo) eqn:E; try discriminate.
      * destruct v; discriminate.
      * exfalso; eapply route_timeout_no_panic; eauto.
    + destruct (route a x ri (Some (ri, pos)) n rt) eqn:E; try discriminate.
      * destruct v as [[?|] ?]; discriminate.
      * exfalso; eapply route_no_panic; eauto.
  - destruct (n_exits n); discriminate.
Qed.

Lemma find_resume_exit_no_panic : forall a x ri it tmo, find_resume_exit a x ri it tmo <> FrePanic.
Proof.
  intros. unfold find_resume_exit. destruct (run_status _ _) as [[]|]; try discriminate.
  destruct (path_location _ _ _) as [[pos n]|]; try discriminate.
  destruct (pick_node_exit a x ri n pos it tmo) eqn:E; try discriminate.
  - destruct v; discriminate.
  - exfalso; eapply pick_node_exit_no_panic; eauto.
Qed.

Lemma find_resume_exit_no_goerr : forall a x ri it tmo x', find_resume_exit a x ri it tmo <> FreGoErr x'.
Proof.
  intros. unfold find_resume_exit. destruct (run_status _ _) as [[]|]; try discriminate.
  destruct (path_location _ _ _) as [[pos n]|]; try discriminate.
  destruct (pick_node_exit a x ri n pos it tmo) eqn:E; try discriminate. destruct v; discriminate.
Qed.

Lemma exec_action_no_panic : forall a x ri pos n act, exec_action a x ri pos n act <> Panicked.
Proof.
  intros. unfold exec_action. destruct act.
  - destruct (trunc_ellipsis_spec t (max_template_chars (a_opts a))) as (t' & -> & _). discriminate.
  - destruct (trunc_ellipsis_spec value (max_template_chars (a_opts a))) as (t' & -> & _).
    apply save_and_log_no_panic.
  - destruct (get_flow a flow); [destruct (negb _)|]; discriminate.
Qed.

Lemma exec_actions_no_panic : forall a acts x ri pos n, exec_actions a x ri pos n acts <> Panicked.
Proof.
  induction acts as [|act acts IH]; intros; simpl; [discriminate|].
  destruct (exec_action a x ri pos n act) eqn:E; try discriminate.
  - destruct (run_status _ _) as [[]|]; try apply IH. discriminate.
  - exfalso; eapply exec_action_no_panic; eauto.
Qed.

Lemma visit_node_no_panic : forall a x ri n wt, visit_node a x ri n wt <> Panicked.
Proof.
  intros. unfold visit_node. destruct (get_run (session_ x) ri); [|discriminate].
  match goal with |- context [exec_actions a ?X ri ?P n ?A] => destruct (exec_actions a X ri P n A) eqn:E end;
    try discriminate.
  2:{ exfalso; eapply exec_actions_no_panic; eauto. }
  destruct v; [discriminate|].
  destruct (s_pushed (session_ x0)); [discriminate|].
  match goal with |- context [match ?bw with Some _ => _ | None => match pick_node_exit ?A ?X ?R ?N ?P ?I ?T with _ => _ end end] =>
    destruct bw; [discriminate|]; destruct (pick_node_exit A X R N P I T) eqn:E2 end; try discriminate.
  - destruct v; discriminate.
  - exfalso; eapply pick_node_exit_no_panic; eauto.
Qed.

(* the main loop: brute-force case analysis of one iteration *)
Ltac cuw_cases IH :=
  simpl;
  repeat (first
    [ discriminate
    | match goal with
      | H : find_resume_exit _ _ _ _ _ = FrePanic |- _ => exfalso; eapply find_resume_exit_no_panic; exact H
      | H : find_resume_exit _ _ _ _ _ = FreGoErr _ |- _ => exfalso; eapply find_resume_exit_no_goerr; exact H
      | H : visit_node _ _ _ _ _ = Panicked |- _ => exfalso; eapply visit_node_no_panic; exact H
      | |- continue_until_wait _ _ _ _ <> _ => apply IH
      end
    | dmatch ]).

Lemma continue_until_wait_no_panic : forall fuel a x l, continue_until_wait fuel a x l <> RPanic.
Proof.
  induction fuel as [|fuel IH]; intros a x l; [discriminate|].
  cuw_cases IH.
Qed.

Lemma start_no_panic : forall a t f, start a t f <> RPanic.
Proof. intros. unfold start. destruct (get_flow a f); [apply continue_until_wait_no_panic|discriminate]. Qed.

Lemma resume_no_panic : forall a s r tmo, resume_session a s r tmo <> Resumed RPanic.
Proof.
  intros. unfold resume_session.
  repeat (first [ discriminate
                | match goal with
                  | H : find_resume_exit _ _ _ _ _ = FrePanic |- _ => exfalso; eapply find_resume_exit_no_panic; exact H
                  | |- Resumed (continue_until_wait ?f ?a ?x ?l) <> _ =>
                      let C := fresh in intros C; inversion C as [C']; eapply continue_until_wait_no_panic; exact C'
                  end
                | dmatch ]).
Qed.

(* ================================================================================================== *)
(* Part C — the session status after a call                                                            *)
(* ================================================================================================== *)

Definition settled (s : session) : Prop :=
  s_status s = SWaiting \/ s_status s = SCompleted \/ s_status s = SFailed.

Lemma sstatus_eqb_true : forall a b, sstatus_eqb a b = true -> a = b.
Proof. intros [] []; simpl; congruence. Qed.

Lemma continue_until_wait_settled : forall fuel a x l x',
  continue_until_wait fuel a x l = ROk x' -> settled (session_ x').
Proof.
  induction fuel as [|fuel IH]; intros a x l x'; [discriminate|].
  simpl.
  repeat (first
    [ discriminate
    | match goal with
      | |- continue_until_wait _ _ _ _ = ROk _ -> _ => apply IH
      | H : sstatus_eqb _ SWaiting = true |- ROk _ = ROk _ -> _ =>
          let C := fresh in intros C; inversion C; subst; left; apply sstatus_eqb_true; exact H
      | |- ROk _ = ROk _ -> _ =>
          let C := fresh in intros C; inversion C; subst; right; simpl; dmatch; auto
      end
    | dmatch ]).
Qed.

Lemma start_settled : forall a t f x', start a t f = ROk x' -> settled (session_ x').
Proof.
  intros a t f x'. unfold start. destruct (get_flow a f); [apply continue_until_wait_settled|discriminate].
Qed.

Lemma resume_settled : forall a s r tmo x', resume_session a s r tmo = Resumed (ROk x') -> settled (session_ x').
Proof.
  intros a s r tmo x'. unfold resume_session.
  repeat (first
    [ discriminate
    | match goal with
      | |- Resumed (continue_until_wait _ _ _ _) = Resumed (ROk _) -> _ =>
          let C := fresh in intros C; inversion C as [C']; eapply continue_until_wait_settled; exact C'
      | |- Resumed (ROk (fail_session _ _ _)) = Resumed (ROk _) -> _ =>
          let C := fresh in intros C; inversion C; subst; right; right; reflexivity
      end
    | dmatch ]).
Qed.

(* ================================================================================================== *)
(* Part D — the state-passing form of resume                                                           *)
(* ================================================================================================== *)

Definition drop_state (o : resume_outcome) : resume_result :=
  match o with OErr c => Rejected c | ORes r => Resumed r end.

(* [resume_session] is [resume_m] with the state dropped *)
Lemma resume_m_agrees : forall a s r tmo, resume_session a s r tmo = drop_state (snd (resume_m a s r tmo)).
Proof.
  intros. unfold resume_session, resume_m. repeat (first [reflexivity | dmatch]).
Qed.

(* an engine error leaves the session exactly as it was, and produces nothing: the state the method
   leaves behind is the session it was called on, with an empty sprint *)
Lemma resume_m_rejected_unchanged : forall a s r tmo x' code,
  resume_m a s r tmo = (x', OErr code) -> x' = {| session_ := s; sprint_ := empty_sprint |}.
Proof.
  intros a s r tmo x' code. unfold resume_m.
  repeat (first [ discriminate | dmatch ]); intros H; inversion H; reflexivity.
Qed.

(* when the call returns without error the state left behind is the state in the result *)
Lemma resume_m_ok_state : forall a s r tmo x' y, resume_m a s r tmo = (x', ORes (ROk y)) -> x' = y.
Proof.
  intros a s r tmo x' y. unfold resume_m.
  repeat (first [ discriminate | dmatch ]); intros H; inversion H; subst; try reflexivity;
    match goal with E : continue_until_wait _ _ _ _ = ROk _ |- _ => rewrite E; reflexivity end.
Qed.

(* ================================================================================================== *)
(* Part E — truncation, exactly                                                                        *)
(* ================================================================================================== *)

(* a text longer than the limit is cut to exactly max(limit,0) characters: its first characters, and, when the
   limit leaves room for it, "..." in place of the last three of them (so truncation is not more destructive
   than it has to be) *)
Lemma trunc_exact : forall s limit, (Z.max limit 0 < Z.of_nat (length s))%Z ->
  trunc s limit = Some (firstn (Z.to_nat (Z.max limit 0)) s).
Proof.
  intros s limit H. unfold trunc, truncate.
  destruct (Z.of_nat (length s) <=? Z.max limit 0)%Z eqn:E; [lia|]. simpl.
  destruct (Z.max limit 0 - 0 <? 0)%Z eqn:E2; [lia|]. rewrite Z.sub_0_r, app_nil_r. reflexivity.
Qed.

Lemma trunc_ellipsis_exact : forall s limit, (3 <= limit)%Z -> (limit < Z.of_nat (length s))%Z ->
  trunc_ellipsis s limit = Some (firstn (Z.to_nat (limit - 3)) s ++ ellipsis) /\
  length (firstn (Z.to_nat (limit - 3)) s ++ ellipsis) = Z.to_nat limit.
Proof.
  intros s limit H3 H. unfold trunc_ellipsis, truncate.
  destruct (limit <? 3)%Z eqn:E0; [lia|].
  destruct (Z.of_nat (length s) <=? limit)%Z eqn:E; [lia|]. simpl.
  destruct (limit - 3 <? 0)%Z eqn:E2; [lia|]. split; [reflexivity|].
  rewrite app_length, firstn_length. simpl. lia.
Qed.

(* ================================================================================================== *)
(* Part F — what a rejected Resume may have touched                                                    *)
(* ================================================================================================== *)

(* with the transient parentRun flag threaded through: on an engine error the session and the sprint are as
   they were; the only thing that may differ is the transient flag, it depends on the (unchanged) trigger only,
   and running prepareForSprint again - as every later call does - gives the same flag *)
Lemma resume_mp_rejected : forall a s loaded r tmo x' loaded' code,
  resume_mp a s loaded r tmo = (x', loaded', OErr code) ->
  x' = {| session_ := s; sprint_ := empty_sprint |} /\
  loaded' = (loaded || trigger_has_run (s_trigger s))%bool /\
  prepare_for_sprint (session_ x') loaded' = loaded' /\
  prepare_for_sprint (session_ x') loaded = loaded'.
Proof.
  intros a s loaded r tmo x' loaded' code. unfold resume_mp.
  destruct (resume_m a s r tmo) as [x o] eqn:E. intros H; inversion H; subst.
  pose proof (resume_m_rejected_unchanged _ _ _ _ _ _ E) as ->. unfold prepare_for_sprint; simpl.
  repeat split. destruct loaded, (trigger_has_run (s_trigger s)); reflexivity.
Qed.
