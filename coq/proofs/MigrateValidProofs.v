(* MigrateValidProofs.v -- "a definition that is valid at its version is valid at the current version after migration":
   each transcribed migration establishes the requirement it was written for and keeps the others
   (model/MigrateValid.v: body_ok with its flags), for every definition, every UUID supply and every refactoring
   function tx. *)
From Coq Require Import List NArith ZArith Bool String Lia.
From Verif Require Import lib.Json gen.MigrationTable model.Migrate model.MigrateValid proofs.MigrateProofs.
Import ListNotations.
Open Scope N_scope.

(* ---- association lists: predicates on all values ---------------------------------------------------------------- *)

Section Values.
  Variable q : json -> bool.
  Definition all_values (o : obj) : bool := forallb (fun kv : str * json => q (snd kv)) o.

  Lemma all_values_lookup : forall o k v, all_values o = true -> olookup k o = Some v -> q v = true.
  Proof.
    intros o k v H Hl. apply olookup_In in Hl. unfold all_values in H. rewrite forallb_forall in H.
    exact (H (k, v) Hl).
  Qed.

  Lemma all_values_oset : forall o k v, all_values o = true -> q v = true -> all_values (oset k v o) = true.
  Proof.
    unfold all_values. intros o k v H Hv. induction o as [|[k' v'] o IH]; simpl in *.
    - now rewrite Hv.
    - apply andb_true_iff in H. destruct H as [H1 H2]. destruct (str_eqb k k'); simpl.
      + now rewrite Hv, H2.
      + now rewrite H1, IH.
  Qed.

  Lemma all_values_odel : forall o k, all_values o = true -> all_values (odel k o) = true.
  Proof.
    unfold all_values. intros o k H. induction o as [|[k' v'] o IH]; simpl in *; [reflexivity|].
    apply andb_true_iff in H. destruct H as [H1 H2]. destruct (str_eqb k k'); [now apply IH|].
    simpl. now rewrite H1, IH.
  Qed.
End Values.

Lemma olookup_odel : forall k k' o, olookup k' (odel k o) = if str_eqb k' k then None else olookup k' o.
Proof.
  intros k k' o. destruct (str_eqb k' k) eqn:E.
  - apply str_eqb_eq in E. subst. apply olookup_odel_same.
  - apply olookup_odel_other. apply str_eqb_neq in E. congruence.
Qed.

(* ---- traversals with an invariant on the state -------------------------------------------------------------------- *)

Lemma map_st_inv : forall {S A B} (f : S -> A -> S * B) (I : S -> Prop) (P : A -> Prop) (Q : B -> Prop),
  (forall st a, I st -> P a -> I (fst (f st a)) /\ Q (snd (f st a))) ->
  forall l st, I st -> Forall P l -> I (fst (map_st f st l)) /\ Forall Q (snd (map_st f st l)).
Proof.
  intros S A B f I P Q Hf. induction l as [|x l IH]; intros st Hst Hl; cbn [map_st].
  - split; [exact Hst | constructor].
  - inversion Hl as [|? ? Hx Hl']; subst. destruct (Hf st x Hst Hx) as [H1 H2].
    destruct (f st x) as [st1 y]. cbn [fst snd] in *. destruct (IH st1 H1 Hl') as [H3 H4].
    destruct (map_st f st1 l) as [st2 r]. cbn [fst snd] in *. split; [exact H3 | now constructor].
Qed.

(* a predicate on objects, read on arbitrary elements: what is not an object passes *)
Definition lift (ok : obj -> bool) (j : json) : bool := match j with JObj o => ok o | _ => true end.

Lemma on_objects_inv : forall {S} (step : S -> obj -> S * obj) (I : S -> Prop) (p q : obj -> bool),
  (forall st o, I st -> p o = true -> I (fst (step st o)) /\ q (snd (step st o)) = true) ->
  forall l st, I st -> forallb (lift p) l = true ->
    I (fst (on_objects step st l)) /\ forallb (lift q) (snd (on_objects step st l)) = true.
Proof.
  intros S step I p q Hs l st Hst Hl. unfold on_objects.
  rewrite forallb_forall in Hl. apply Forall_forall in Hl.
  match goal with |- context [map_st ?g st l] =>
    destruct (map_st_inv g I (fun x => lift p x = true) (fun x => lift q x = true)) with (l := l) (st := st) as [H1 H2]
  end; try assumption.
  - intros st0 x Hst0 Hx. destruct x as [| | | | |o]; cbn [fst snd lift]; try (split; [assumption | reflexivity]).
    cbn [lift] in Hx. destruct (Hs st0 o Hst0 Hx) as [H1 H2]. destruct (step st0 o) as [st' o']. cbn [fst snd lift] in *. auto.
  - split; [exact H1|]. apply forallb_forall. now apply Forall_forall.
Qed.

(* the array member k of an object, read with a predicate on its object elements *)
Definition member_all (k : str) (ok : obj -> bool) (o : obj) : bool :=
  match olookup k o with Some (JArr l) => forallb (lift ok) l | _ => true end.

Lemma on_array_member_inv : forall {S} k (step : S -> obj -> S * obj) (I : S -> Prop) (p q : obj -> bool),
  (forall st o, I st -> p o = true -> I (fst (step st o)) /\ q (snd (step st o)) = true) ->
  forall st o, I st -> member_all k p o = true ->
    I (fst (on_array_member k step st o)) /\ member_all k q (snd (on_array_member k step st o)) = true.
Proof.
  intros S k step I p q Hs st o Hst Ho. unfold on_array_member, member_all in *.
  destruct (olookup k o) as [[| | | |l|]|] eqn:E; cbn [fst snd]; try (rewrite E; auto).
  destruct (on_objects_inv step I p q Hs l st Hst Ho) as [H1 H2].
  destruct (on_objects step st l) as [st' l']. cbn [fst snd] in *. rewrite olookup_oset_same. auto.
Qed.

Lemma on_array_member_state : forall {S} k (step : S -> obj -> S * obj) (I : S -> Prop),
  (forall st o, I st -> I (fst (step st o))) ->
  forall st o, I st -> I (fst (on_array_member k step st o)).
Proof.
  intros S k step I Hs st o Hst.
  destruct (on_array_member_inv k step I (fun _ => true) (fun _ => true)) with (st := st) (o := o) as [H _]; auto.
  unfold member_all. destruct (olookup k o) as [[| | | |l|]|]; try reflexivity.
  apply forallb_forall. intros x _. destruct x; reflexivity.
Qed.

(* ---- what the validity predicates look at --------------------------------------------------------------------------- *)

Ltac key_neq := apply str_eqb_neq; reflexivity.

Definition same_at (ks : list str) (a b : obj) : Prop := forall k, In k ks -> olookup k a = olookup k b.

Definition action_keys : list str :=
  [k_type; k_name; k_category; k_result_name; k_templating; k_template; k_template_variables].

Lemma action_ok_ext : forall l g lim o a b, same_at action_keys a b -> action_ok g lim o a = action_ok g lim o b.
Proof.
  intros l g lim o a b H.
  assert (Ht : olookup k_type a = olookup k_type b) by (apply H; cbn; tauto).
  assert (Hn : olookup k_name a = olookup k_name b) by (apply H; cbn; tauto).
  assert (Hc : olookup k_category a = olookup k_category b) by (apply H; cbn; tauto).
  assert (Hr : olookup k_result_name a = olookup k_result_name b) by (apply H; cbn; tauto).
  assert (Hg : olookup k_templating a = olookup k_templating b) by (apply H; cbn; tauto).
  assert (Hp : olookup k_template a = olookup k_template b) by (apply H; cbn; tauto).
  assert (Hv : olookup k_template_variables a = olookup k_template_variables b) by (apply H; cbn; tauto).
  unfold action_ok, is_any_type, is_type, type_of, get_str, send_msg_ok, get_obj, required_field, optional_field, string_field.
  cbn [existsb]. unfold is_type, type_of, get_str.
  now rewrite Ht, Hn, Hc, Hr, Hg, Hp, Hv.
Qed.

Lemma same_at_oset : forall ks k v a, ~ In k ks -> same_at ks (oset k v a) a.
Proof.
  intros ks k v a Hk k' Hk'. apply olookup_oset_other. intro E. subst. contradiction.
Qed.

Lemma same_at_odel : forall ks k a, ~ In k ks -> same_at ks (odel k a) a.
Proof.
  intros ks k a Hk k' Hk'. apply olookup_odel_other. intro E. subst. contradiction.
Qed.

Lemma same_at_trans : forall ks a b c, same_at ks a b -> same_at ks b c -> same_at ks a c.
Proof. intros ks a b c H1 H2 k Hk. now rewrite H1, H2. Qed.

Lemma same_at_refl : forall ks a, same_at ks a a.
Proof. intros ks a k Hk. reflexivity. Qed.

(* membership of a concrete key in a concrete list of keys, decided by computation *)
Lemma not_in_keys : forall k ks, existsb (str_eqb k) ks = false -> ~ In k ks.
Proof.
  intros k ks H Hin. assert (existsb (str_eqb k) ks = true) as E; [|congruence].
  apply existsb_exists. exists k. split; [exact Hin | apply str_eqb_refl].
Qed.
Ltac not_key := apply not_in_keys; reflexivity.

(* ---- the localization as loop state ------------------------------------------------------------------------------------- *)

Definition loc_inv (st : mstate) : Prop := localization_ok (option_map JObj (snd st)) = true.

Lemma string_array_strings : forall l, string_array_ok (Some (strings l)) = true.
Proof. intro l. unfold strings. cbn. induction l as [|x l IH]; [reflexivity | exact IH]. Qed.

Lemma item_of_translation : forall lt uuid it,
  language_translation_ok (JObj lt) = true -> get_obj uuid lt = Some it -> item_translation_ok (JObj it) = true.
Proof.
  intros lt uuid it H Hg. unfold get_obj in Hg. destruct (olookup uuid lt) as [[| | | | |x]|] eqn:E; try discriminate.
  inversion Hg; subst. cbn [language_translation_ok] in H.
  exact (all_values_lookup item_translation_ok lt uuid (JObj it) H E).
Qed.

Lemma set_translation_ok : forall uuid prop trans lt,
  language_translation_ok (JObj lt) = true -> language_translation_ok (JObj (set_translation uuid prop trans lt)) = true.
Proof.
  intros uuid prop trans lt H. unfold set_translation. cbn [language_translation_ok] in *.
  destruct (get_obj uuid lt) as [it|] eqn:E.
  - apply (all_values_oset item_translation_ok); [exact H|]. cbn [item_translation_ok].
    apply (all_values_oset (fun v => string_array_ok (Some v))); [|apply string_array_strings].
    exact (item_of_translation lt uuid it H E).
  - apply (all_values_oset item_translation_ok); [exact H|]. cbn. now rewrite string_array_strings.
Qed.

Lemma delete_translation_ok : forall uuid prop lt,
  language_translation_ok (JObj lt) = true -> language_translation_ok (JObj (delete_translation uuid prop lt)) = true.
Proof.
  intros uuid prop lt H. unfold delete_translation. cbn [language_translation_ok] in *.
  destruct (get_obj uuid lt) as [it|] eqn:E; [|exact H].
  pose proof (item_of_translation lt uuid it H E) as Hit. cbn [item_translation_ok] in Hit.
  pose proof (all_values_odel (fun v => string_array_ok (Some v)) it prop Hit) as Hd.
  destruct (odel prop it) as [|p r] eqn:Ed.
  - now apply (all_values_odel item_translation_ok).
  - apply (all_values_oset item_translation_ok); [exact H | exact Hd].
Qed.

Lemma for_languages_ok : forall f loc,
  (forall lt, language_translation_ok (JObj lt) = true -> language_translation_ok (JObj (f lt)) = true) ->
  localization_ok (Some (JObj loc)) = true -> localization_ok (Some (JObj (for_languages f loc))) = true.
Proof.
  intros f loc Hf H. cbn [localization_ok] in *. unfold for_languages.
  induction loc as [|[k v] loc IH]; [reflexivity|]. simpl in *.
  apply andb_true_iff in H. destruct H as [H1 H2]. rewrite (IH H2), andb_true_r.
  destruct v; try exact H1. simpl. now apply Hf.
Qed.

Lemma loc_inv_map : forall fr loc f,
  (forall lt, language_translation_ok (JObj lt) = true -> language_translation_ok (JObj (f lt)) = true) ->
  loc_inv (fr, loc) -> forall fr', loc_inv (fr', option_map (for_languages f) loc).
Proof.
  intros fr loc f Hf H fr'. unfold loc_inv in *. cbn [snd] in *. destruct loc as [l|]; [|exact H].
  cbn [option_map] in *. now apply for_languages_ok.
Qed.
