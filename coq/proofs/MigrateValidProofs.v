(* MigrateValidProofs.v -- "a definition that is valid at its version is valid at the current version after migration":
   each transcribed migration establishes the requirement it was written for and keeps the others
   (model/MigrateValid.v: body_ok with its flags), for every definition, every UUID supply and every refactoring
   function tx. *)
From Coq Require Import List NArith ZArith Bool String Lia.
From Verif Require Import lib.Json gen.MigrationTable model.Migrate model.MigrateValid proofs.MigrateProofs proofs.MigrateTextProofs.
Import ListNotations.
Open Scope N_scope.

(* ---- association lists: predicates on all values ---------------------------------------------------------------- *)

Section Values.
  Variable q : json -> bool.
  Definition all_values (o : obj) : bool := forallb (fun kv : str * json => q (snd kv)) o.

  Lemma all_values_lookup : forall o k v, all_values o = true -> olookup k o = Some v -> q v = true.
  Proof.
    intros o k v H Hl. apply olookup_In in Hl. unfold all_values in H. rewrite forallb_forall in H.
    exact (H (k, v) Hl).
  Qed.

  Lemma all_values_oset : forall o k v, all_values o = true -> q v = true -> all_values (oset k v o) = true.
  Proof.
    unfold all_values. intros o k v H Hv. induction o as [|[k' v'] o IH]; simpl in *.
    - now rewrite Hv.
    - apply andb_true_iff in H. destruct H as [H1 H2]. destruct (str_eqb k k'); simpl.
      + now rewrite Hv, H2.
      + now rewrite H1, IH.
  Qed.

  Lemma all_values_odel : forall o k, all_values o = true -> all_values (odel k o) = true.
  Proof.
    unfold all_values. intros o k H. induction o as [|[k' v'] o IH]; simpl in *; [reflexivity|].
    apply andb_true_iff in H. destruct H as [H1 H2]. destruct (str_eqb k k'); [now apply IH|].
    simpl. now rewrite H1, IH.
  Qed.
End Values.

Lemma olookup_odel : forall k k' o, olookup k' (odel k o) = if str_eqb k' k then None else olookup k' o.
Proof.
  intros k k' o. destruct (str_eqb k' k) eqn:E.
  - apply str_eqb_eq in E. subst. apply olookup_odel_same.
  - apply olookup_odel_other. apply str_eqb_neq in E. congruence.
Qed.

(* ---- traversals with an invariant on the state -------------------------------------------------------------------- *)

Lemma map_st_inv : forall {S A B} (f : S -> A -> S * B) (I : S -> Prop) (P : A -> Prop) (Q : B -> Prop),
  (forall st a, I st -> P a -> I (fst (f st a)) /\ Q (snd (f st a))) ->
  forall l st, I st -> Forall P l -> I (fst (map_st f st l)) /\ Forall Q (snd (map_st f st l)).
Proof.
  intros S A B f I P Q Hf. induction l as [|x l IH]; intros st Hst Hl; cbn [map_st].
  - split; [exact Hst | constructor].
  - inversion Hl as [|? ? Hx Hl']; subst. destruct (Hf st x Hst Hx) as [H1 H2].
    destruct (f st x) as [st1 y]. cbn [fst snd] in *. destruct (IH st1 H1 Hl') as [H3 H4].
    destruct (map_st f st1 l) as [st2 r]. cbn [fst snd] in *. split; [exact H3 | now constructor].
Qed.

(* a predicate on objects, read on arbitrary elements: what is not an object passes *)
Definition lift (ok : obj -> bool) (j : json) : bool := match j with JObj o => ok o | _ => true end.

Lemma on_objects_inv : forall {S} (step : S -> obj -> S * obj) (I : S -> Prop) (p q : obj -> bool),
  (forall st o, I st -> p o = true -> I (fst (step st o)) /\ q (snd (step st o)) = true) ->
  forall l st, I st -> forallb (lift p) l = true ->
    I (fst (on_objects step st l)) /\ forallb (lift q) (snd (on_objects step st l)) = true.
Proof.
  intros S step I p q Hs l st Hst Hl. unfold on_objects.
  rewrite forallb_forall in Hl. apply Forall_forall in Hl.
  match goal with |- context [map_st ?g st l] =>
    destruct (map_st_inv g I (fun x => lift p x = true) (fun x => lift q x = true)) with (l := l) (st := st) as [H1 H2]
  end; try assumption.
  - intros st0 x Hst0 Hx. destruct x as [| | | | |o]; cbn [fst snd lift]; try (split; [assumption | reflexivity]).
    cbn [lift] in Hx. destruct (Hs st0 o Hst0 Hx) as [H1 H2]. destruct (step st0 o) as [st' o']. cbn [fst snd lift] in *. auto.
  - split; [exact H1|]. apply forallb_forall. now apply Forall_forall.
Qed.

(* the array member k of an object, read with a predicate on its object elements *)
Definition member_all (k : str) (ok : obj -> bool) (o : obj) : bool :=
  match olookup k o with Some (JArr l) => forallb (lift ok) l | _ => true end.

Lemma on_array_member_inv : forall {S} k (step : S -> obj -> S * obj) (I : S -> Prop) (p q : obj -> bool),
  (forall st o, I st -> p o = true -> I (fst (step st o)) /\ q (snd (step st o)) = true) ->
  forall st o, I st -> member_all k p o = true ->
    I (fst (on_array_member k step st o)) /\ member_all k q (snd (on_array_member k step st o)) = true.
Proof.
  intros S k step I p q Hs st o Hst Ho. unfold on_array_member, member_all in *.
  destruct (olookup k o) as [[| | | |l|]|] eqn:E; cbn [fst snd]; try (rewrite E; auto).
  destruct (on_objects_inv step I p q Hs l st Hst Ho) as [H1 H2].
  destruct (on_objects step st l) as [st' l']. cbn [fst snd] in *. rewrite olookup_oset_same. auto.
Qed.

Lemma on_array_member_state : forall {S} k (step : S -> obj -> S * obj) (I : S -> Prop),
  (forall st o, I st -> I (fst (step st o))) ->
  forall st o, I st -> I (fst (on_array_member k step st o)).
Proof.
  intros S k step I Hs st o Hst.
  destruct (on_array_member_inv k step I (fun _ => true) (fun _ => true)) with (st := st) (o := o) as [H _]; auto.
  unfold member_all. destruct (olookup k o) as [[| | | |l|]|]; try reflexivity.
  apply forallb_forall. intros x _. destruct x; reflexivity.
Qed.

(* ---- what the validity predicates look at --------------------------------------------------------------------------- *)

Ltac key_neq := apply str_eqb_neq; reflexivity.

Definition same_at (ks : list str) (a b : obj) : Prop := forall k, In k ks -> olookup k a = olookup k b.

Definition action_keys : list str :=
  [k_type; k_name; k_category; k_result_name; k_templating; k_template; k_template_variables].

Lemma action_ok_ext : forall g lim o a b, same_at action_keys a b -> action_ok g lim o a = action_ok g lim o b.
Proof.
  intros g lim o a b H.
  assert (Ht : olookup k_type a = olookup k_type b) by (apply H; cbn; tauto).
  assert (Hn : olookup k_name a = olookup k_name b) by (apply H; cbn; tauto).
  assert (Hc : olookup k_category a = olookup k_category b) by (apply H; cbn; tauto).
  assert (Hr : olookup k_result_name a = olookup k_result_name b) by (apply H; cbn; tauto).
  assert (Hg : olookup k_templating a = olookup k_templating b) by (apply H; cbn; tauto).
  assert (Hp : olookup k_template a = olookup k_template b) by (apply H; cbn; tauto).
  assert (Hv : olookup k_template_variables a = olookup k_template_variables b) by (apply H; cbn; tauto).
  unfold action_ok, is_any_type, is_type, type_of, get_str, send_msg_ok, get_obj, required_field, optional_field, string_field.
  cbn [existsb]. unfold is_type, type_of, get_str.
  now rewrite Ht, Hn, Hc, Hr, Hg, Hp, Hv.
Qed.

Lemma same_at_oset : forall ks k v a, ~ In k ks -> same_at ks (oset k v a) a.
Proof.
  intros ks k v a Hk k' Hk'. apply olookup_oset_other. intro E. subst. contradiction.
Qed.

Lemma same_at_odel : forall ks k a, ~ In k ks -> same_at ks (odel k a) a.
Proof.
  intros ks k a Hk k' Hk'. apply olookup_odel_other. intro E. subst. contradiction.
Qed.

Lemma same_at_trans : forall ks a b c, same_at ks a b -> same_at ks b c -> same_at ks a c.
Proof. intros ks a b c H1 H2 k Hk. now rewrite H1, H2. Qed.

Lemma same_at_refl : forall ks a, same_at ks a a.
Proof. intros ks a k Hk. reflexivity. Qed.

(* membership of a concrete key in a concrete list of keys, decided by computation *)
Lemma not_in_keys : forall k ks, existsb (str_eqb k) ks = false -> ~ In k ks.
Proof.
  intros k ks H Hin. assert (existsb (str_eqb k) ks = true) as E; [|congruence].
  apply existsb_exists. exists k. split; [exact Hin | apply str_eqb_refl].
Qed.
Ltac not_key := apply not_in_keys; reflexivity.

(* ---- the localization as loop state ------------------------------------------------------------------------------------- *)

Definition loc_inv (st : mstate) : Prop := localization_ok (option_map JObj (snd st)) = true.

Lemma string_array_strings : forall l, string_array_ok (Some (strings l)) = true.
Proof. intro l. unfold strings. cbn. induction l as [|x l IH]; [reflexivity | exact IH]. Qed.

Lemma item_of_translation : forall lt uuid it,
  language_translation_ok (JObj lt) = true -> get_obj uuid lt = Some it -> item_translation_ok (JObj it) = true.
Proof.
  intros lt uuid it H Hg. unfold get_obj in Hg. destruct (olookup uuid lt) as [[| | | | |x]|] eqn:E; try discriminate.
  inversion Hg; subst. cbn [language_translation_ok] in H.
  exact (all_values_lookup item_translation_ok lt uuid (JObj it) H E).
Qed.

Lemma set_translation_ok : forall uuid prop trans lt,
  language_translation_ok (JObj lt) = true -> language_translation_ok (JObj (set_translation uuid prop trans lt)) = true.
Proof.
  intros uuid prop trans lt H. unfold set_translation. cbn [language_translation_ok] in *.
  destruct (get_obj uuid lt) as [it|] eqn:E.
  - apply (all_values_oset item_translation_ok); [exact H|]. cbn [item_translation_ok].
    apply (all_values_oset (fun v => string_array_ok (Some v))); [|apply string_array_strings].
    exact (item_of_translation lt uuid it H E).
  - apply (all_values_oset item_translation_ok); [exact H|].
    change (item_translation_ok (JObj [(prop, strings trans)])) with (string_array_ok (Some (strings trans)) && true).
    now rewrite string_array_strings.
Qed.

Lemma delete_translation_ok : forall uuid prop lt,
  language_translation_ok (JObj lt) = true -> language_translation_ok (JObj (delete_translation uuid prop lt)) = true.
Proof.
  intros uuid prop lt H. unfold delete_translation. cbn [language_translation_ok] in *.
  destruct (get_obj uuid lt) as [it|] eqn:E; [|exact H].
  pose proof (item_of_translation lt uuid it H E) as Hit. cbn [item_translation_ok] in Hit.
  pose proof (all_values_odel (fun v => string_array_ok (Some v)) it prop Hit) as Hd.
  destruct (odel prop it) as [|p r] eqn:Ed.
  - now apply (all_values_odel item_translation_ok).
  - apply (all_values_oset item_translation_ok); [exact H | exact Hd].
Qed.

Lemma for_languages_ok : forall f loc,
  (forall lt, language_translation_ok (JObj lt) = true -> language_translation_ok (JObj (f lt)) = true) ->
  localization_ok (Some (JObj loc)) = true -> localization_ok (Some (JObj (for_languages f loc))) = true.
Proof.
  intros f loc Hf H. cbn [localization_ok] in *. unfold for_languages.
  induction loc as [|[k v] loc IH]; [reflexivity|]. simpl in *.
  apply andb_true_iff in H. destruct H as [H1 H2]. rewrite (IH H2), andb_true_r.
  destruct v; try exact H1. simpl. now apply Hf.
Qed.

Lemma loc_inv_map : forall fr loc f,
  (forall lt, language_translation_ok (JObj lt) = true -> language_translation_ok (JObj (f lt)) = true) ->
  loc_inv (fr, loc) -> forall fr', loc_inv (fr', option_map (for_languages f) loc).
Proof.
  intros fr loc f Hf H fr'. unfold loc_inv in *. cbn [snd] in *. destruct loc as [l|]; [|exact H].
  cbn [option_map] in *. now apply for_languages_ok.
Qed.

(* ---- from a step on nodes to the whole definition ---------------------------------------------------------------------- *)

Lemma node_ok_lift : forall g lim o n, node_ok g lim o n = lift (fun x => node_ok g lim o (JObj x)) n.
Proof. intros g lim o n. destruct n; reflexivity. Qed.

Lemma forallb_ext_in : forall {A} (p q : A -> bool) l, (forall x, p x = q x) -> forallb p l = forallb q l.
Proof. intros A p q l H. induction l as [|x l IH]; [reflexivity|]. cbn. now rewrite H, IH. Qed.

Lemma language_ok_oset : forall lang k v f, k <> k_language -> language_ok lang (oset k v f) = language_ok lang f.
Proof. intros lang k v f H. unfold language_ok. now rewrite olookup_oset_other. Qed.

Lemma nodes_migration_valid : forall (lang g lim o g' lim' : bool) (node_step : mstate -> obj -> mstate * obj),
  (forall st n, loc_inv st -> node_ok g lim o (JObj n) = true ->
                loc_inv (fst (node_step st n)) /\ node_ok g' lim' o (JObj (snd (node_step st n))) = true) ->
  forall fr f, body_ok lang g lim o f = true ->
    body_ok lang g' lim' o (fst (with_localization (on_array_member k_nodes node_step) fr f)) = true.
Proof.
  intros lang g lim o g' lim' node_step Hstep fr f H.
  unfold body_ok in H. apply andb_true_iff in H. destruct H as [H Hn]. apply andb_true_iff in H. destruct H as [Hl Hloc].
  unfold with_localization.
  set (st0 := (fr, get_obj k_localization f)).
  assert (H0 : loc_inv st0).
  { unfold loc_inv, st0, get_obj. cbn [snd]. destruct (olookup k_localization f) as [[| | | | |x]|]; try reflexivity. exact Hloc. }
  assert (Hn' : member_all k_nodes (fun x => node_ok g lim o (JObj x)) f = true).
  { unfold member_all. destruct (olookup k_nodes f) as [[| | | |l|]|]; try reflexivity.
    erewrite forallb_ext_in; [exact Hn|]. intro x. symmetry. apply node_ok_lift. }
  destruct (on_array_member_inv k_nodes node_step loc_inv _ (fun x => node_ok g' lim' o (JObj x)) Hstep st0 f H0 Hn') as [H1 H2].
  pose proof (on_array_member_other k_nodes node_step st0 f) as Hother.
  destruct (on_array_member k_nodes node_step st0 f) as [[fr' loc'] f']. cbn [fst snd] in *.
  assert (Hnodes : match olookup k_nodes f' with Some (JArr l) => forallb (node_ok g' lim' o) l | _ => true end = true).
  { unfold member_all in H2. destruct (olookup k_nodes f') as [[| | | |l|]|]; try reflexivity.
    erewrite forallb_ext_in; [exact H2|]. intro x. apply node_ok_lift. }
  assert (Hlang : language_ok lang f' = true).
  { unfold language_ok. rewrite Hother by key_neq. exact Hl. }
  unfold body_ok. destruct loc' as [l2|].
  - rewrite language_ok_oset by key_neq. rewrite Hlang. rewrite olookup_oset_same.
    rewrite (olookup_oset_other k_localization k_nodes) by key_neq.
    unfold loc_inv in H1. cbn [snd option_map] in H1. rewrite H1. exact Hnodes.
  - rewrite Hlang. rewrite (Hother k_localization) by key_neq. rewrite Hloc. exact Hnodes.
Qed.

(* a node step that only loops over the actions *)
Lemma actions_step_valid : forall (g lim o g' : bool) (step : mstate -> obj -> mstate * obj),
  (forall st a, loc_inv st -> action_ok g lim o a = true ->
                loc_inv (fst (step st a)) /\ action_ok g' lim o (snd (step st a)) = true) ->
  forall st n, loc_inv st -> node_ok g lim o (JObj n) = true ->
    loc_inv (fst (on_array_member k_actions step st n))
    /\ node_ok g' lim o (JObj (snd (on_array_member k_actions step st n))) = true.
Proof.
  intros g lim o g' step Hs st n Hst Hn. cbn [node_ok] in Hn. apply andb_true_iff in Hn. destruct Hn as [Ha Hr].
  destruct (on_array_member_inv k_actions step loc_inv (action_ok g lim o) (action_ok g' lim o) Hs st n Hst) as [H1 H2].
  { unfold member_all. destruct (olookup k_actions n) as [[| | | |l|]|]; try reflexivity.
    erewrite forallb_ext_in; [exact Ha|]. intro x. destruct x; reflexivity. }
  split; [exact H1|].
  pose proof (on_array_member_other k_actions step st n k_router ltac:(key_neq)) as Hro.
  destruct (on_array_member k_actions step st n) as [st' n']. cbn [fst snd] in *.
  cbn [node_ok]. rewrite Hro, Hr, andb_true_r.
  unfold member_all in H2. destruct (olookup k_actions n') as [[| | | |l|]|]; try reflexivity.
  erewrite forallb_ext_in; [exact H2|]. intro x. destruct x; reflexivity.
Qed.

(* ---- Migrate13_1 --------------------------------------------------------------------------------------------------------- *)

Definition plain_keys : list str := [k_type; k_name; k_category; k_result_name].

(* the same action as far as validity goes, given what send_msg's template check says *)
Lemma action_ok_ext2 : forall g g' lim o a b,
  same_at plain_keys a b -> send_msg_ok g a = send_msg_ok g' b -> action_ok g lim o a = action_ok g' lim o b.
Proof.
  intros g g' lim o a b H Hs.
  assert (Ht : olookup k_type a = olookup k_type b) by (apply H; cbn; tauto).
  assert (Hn : olookup k_name a = olookup k_name b) by (apply H; cbn; tauto).
  assert (Hc : olookup k_category a = olookup k_category b) by (apply H; cbn; tauto).
  assert (Hr : olookup k_result_name a = olookup k_result_name b) by (apply H; cbn; tauto).
  unfold action_ok, is_any_type, is_type, type_of, get_str, required_field, optional_field, string_field.
  cbn [existsb]. unfold is_type, type_of, get_str.
  now rewrite Ht, Hn, Hc, Hr, Hs.
Qed.

(* the templating object replaced by one with the same template member *)
Lemma send_msg_ok_templating : forall g a t t',
  get_obj k_templating a = Some t -> olookup k_template t' = olookup k_template t ->
  send_msg_ok g (oset k_templating (JObj t') a) = send_msg_ok g a.
Proof.
  intros g a t t' Hg Ht. unfold send_msg_ok. destruct g.
  - now rewrite !olookup_oset_other by key_neq.
  - rewrite Hg. unfold get_obj. rewrite olookup_oset_same. now rewrite Ht.
Qed.

Lemma step_13_1_valid : forall g lim o st a, loc_inv st -> action_ok g lim o a = true ->
  loc_inv (fst (step_13_1 st a)) /\ action_ok g lim o (snd (step_13_1 st a)) = true.
Proof.
  intros g lim o st a Hst Ha. unfold step_13_1.
  destruct (is_type "send_msg" a) eqn:Et; [|auto].
  destruct (get_obj k_templating a) as [t|] eqn:Eg; [|auto].
  destruct (next_uuid (fst st)) as [u fr']. cbn [fst snd]. split; [exact Hst|].
  rewrite <- Ha. apply action_ok_ext2.
  - apply same_at_oset. not_key.
  - apply (send_msg_ok_templating g a t); [exact Eg|]. apply olookup_oset_other. key_neq.
Qed.

Lemma migrate_13_1_valid : forall lang g lim o tx fr f,
  body_ok lang g lim o f = true -> body_ok lang g lim o (fst (migrate_13_1 tx fr f)) = true.
Proof.
  intros lang g lim o tx fr f H. unfold migrate_13_1, for_actions.
  apply (nodes_migration_valid lang g lim o g lim); [|exact H].
  apply actions_step_valid. apply step_13_1_valid.
Qed.

(* ---- Migrate13_2 --------------------------------------------------------------------------------------------------------- *)

Lemma und_len : Nat.eqb (List.length und) 3 = true.
Proof. reflexivity. Qed.

Lemma language_replaced_valid : forall g lim o f,
  localization_ok (olookup k_localization f) = true ->
  match olookup k_nodes f with Some (JArr l) => forallb (node_ok g lim o) l | _ => true end = true ->
  body_ok true g lim o
    (let f1 := oset k_language (JStr und) f in
     match get_obj k_localization f1 with
     | Some l => oset k_localization (JObj (odel und l)) f1
     | None => f1
     end) = true.
Proof.
  intros g lim o f Hloc Hn. cbv zeta. unfold get_obj. rewrite olookup_oset_other by key_neq.
  destruct (olookup k_localization f) as [[| | | | |loc]|] eqn:Eloc; unfold body_ok, language_ok; cbn [negb orb].
  1-5,7: (rewrite olookup_oset_same, und_len; rewrite !olookup_oset_other by key_neq; rewrite Eloc, Hloc, Hn; reflexivity).
  rewrite (olookup_oset_other k_localization k_language) by key_neq. rewrite olookup_oset_same, und_len.
  rewrite olookup_oset_same. rewrite !olookup_oset_other by key_neq. rewrite Hn.
  cbn [localization_ok] in *. pose proof (all_values_odel language_translation_ok loc und Hloc) as Hd.
  unfold all_values in Hd. now rewrite Hd.
Qed.

Lemma migrate_13_2_valid : forall lang g lim o tx fr f,
  body_ok lang g lim o f = true -> body_ok true g lim o (fst (migrate_13_2 tx fr f)) = true.
Proof.
  intros lang g lim o tx fr f H. unfold migrate_13_2. cbv zeta.
  unfold body_ok in H. apply andb_true_iff in H. destruct H as [H Hn]. apply andb_true_iff in H. destruct H as [_ Hloc].
  match goal with |- context [if ?c then _ else _] => destruct c eqn:E3 end; cbn [fst].
  - unfold body_ok, language_ok. cbn [negb orb]. unfold get_str in E3.
    destruct (olookup k_language f) as [[| | |x| |]|]; try discriminate E3.
    cbv iota beta in E3. cbv iota beta. now rewrite E3, Hloc, Hn.
  - now apply language_replaced_valid.
Qed.

(* ---- Migrate13_4 --------------------------------------------------------------------------------------------------------- *)

Lemma step_13_4_valid : forall g lim o st a, loc_inv st -> action_ok g lim o a = true ->
  loc_inv (fst (step_13_4 st a)) /\ action_ok g lim o (snd (step_13_4 st a)) = true.
Proof.
  intros g lim o st a Hst Ha. unfold step_13_4.
  destruct (is_type "send_msg" a) eqn:Et; [|auto].
  destruct (get_obj k_templating a) as [t|] eqn:Eg; [|auto].
  destruct (next_uuid (fst st)) as [u fr']. cbn [fst snd]. split.
  - destruct st as [fr loc]. cbn [snd]. apply (loc_inv_map fr); [|exact Hst].
    intros lt Hlt. destruct (get_translation (object_uuid t) k_variables lt); [|exact Hlt].
    apply delete_translation_ok. now apply set_translation_ok.
  - rewrite <- Ha. apply action_ok_ext2.
    + apply same_at_oset. not_key.
    + apply (send_msg_ok_templating g a t); [exact Eg|].
      rewrite !olookup_odel_other by key_neq. apply olookup_oset_other. key_neq.
Qed.

Lemma migrate_13_4_valid : forall lang g lim o tx fr f,
  body_ok lang g lim o f = true -> body_ok lang g lim o (fst (migrate_13_4 tx fr f)) = true.
Proof.
  intros lang g lim o tx fr f H. unfold migrate_13_4, for_actions.
  apply (nodes_migration_valid lang g lim o g lim); [|exact H].
  apply actions_step_valid. apply step_13_4_valid.
Qed.

(* ---- Migrate13_5 --------------------------------------------------------------------------------------------------------- *)

Lemma language_13_5_ok : forall comps action_uuid lt,
  language_translation_ok (JObj lt) = true -> language_translation_ok (JObj (language_13_5 comps action_uuid lt)) = true.
Proof.
  intros comps action_uuid lt H. unfold language_13_5.
  set (step := fun (acc : obj * list str * bool) (c : str * list str) =>
                 let '(lt, vars, localized) := acc in
                 match get_translation (fst c) k_params lt with
                 | Some ps => (delete_translation (fst c) k_params lt, vars ++ ps, true)
                 | None => (lt, vars ++ snd c, localized)
                 end).
  assert (Hfold : forall cs acc, language_translation_ok (JObj (fst (fst acc))) = true ->
                                 language_translation_ok (JObj (fst (fst (fold_left step cs acc)))) = true).
  { induction cs as [|c cs IH]; intros [[lt0 vars0] loc0] H0; [exact H0|]. cbn [fold_left]. apply IH.
    unfold step. destruct (get_translation (fst c) k_params lt0); cbn [fst] in *; [now apply delete_translation_ok | exact H0]. }
  match goal with |- context [fold_left step comps ?acc] =>
    specialize (Hfold comps acc H); destruct (fold_left step comps acc) as [[lt1 vars] localized] end.
  cbn [fst] in Hfold. destruct localized; [now apply set_translation_ok | exact Hfold].
Qed.

Lemma action_ok_not_send_msg : forall g g' lim o a,
  is_type "send_msg" a = false -> action_ok g lim o a = action_ok g' lim o a.
Proof. intros g g' lim o a H. unfold action_ok. now rewrite H. Qed.

(* before 13.5 was applied (merged = false); afterwards the template sits on the action *)
Lemma step_13_5_valid : forall lim o st a, loc_inv st -> action_ok false lim o a = true ->
  loc_inv (fst (step_13_5 st a)) /\ action_ok true lim o (snd (step_13_5 st a)) = true.
Proof.
  intros lim o st a Hst Ha. unfold step_13_5.
  destruct (is_type "send_msg" a) eqn:Et.
  - destruct (get_obj k_templating a) as [t|] eqn:Eg.
    + cbn [fst snd]. split.
      * destruct st as [fr loc]. cbn [fst snd]. apply (loc_inv_map fr); [|exact Hst]. intros lt. apply language_13_5_ok.
      * erewrite action_ok_ext2 with (g' := false) (b := a); [exact Ha| |].
        -- eapply same_at_trans; [apply same_at_odel; not_key|].
           eapply same_at_trans; [apply same_at_oset; not_key|]. apply same_at_oset. not_key.
        -- unfold send_msg_ok. rewrite Eg.
           rewrite !olookup_odel_other by key_neq.
           rewrite olookup_oset_same. rewrite (olookup_oset_other k_template_variables k_template) by key_neq.
           rewrite olookup_oset_same. rewrite string_array_strings, andb_true_r.
           destruct (olookup k_template t); reflexivity.
    + split; [exact Hst|]. cbn [snd]. erewrite action_ok_ext2 with (g' := false) (b := a); [exact Ha|apply same_at_refl|].
      unfold send_msg_ok. now rewrite Eg.
  - split; [exact Hst|]. cbn [snd]. now rewrite (action_ok_not_send_msg true false).
Qed.

Lemma migrate_13_5_valid : forall lang lim o tx fr f,
  body_ok lang false lim o f = true -> body_ok lang true lim o (fst (migrate_13_5 tx fr f)) = true.
Proof.
  intros lang lim o tx fr f H. unfold migrate_13_5, for_actions.
  apply (nodes_migration_valid lang false lim o true lim); [|exact H].
  apply actions_step_valid. apply step_13_5_valid.
Qed.

(* ---- Migrate13_6 --------------------------------------------------------------------------------------------------------- *)

Lemma limit_member_field : forall k max o,
  string_field k (limit_member k max o)
  = match string_field k o with
    | FText x => FText (if max <? utf8_len x then truncate x max else x)
    | FBad => FBad
    end.
Proof.
  intros k max o. unfold limit_member, string_field, get_str.
  assert (H0 : max <? utf8_len [] = false) by (apply N.ltb_ge; cbn; lia).
  destruct (olookup k o) as [[| | |x| |]|] eqn:E; rewrite ?E, ?H0; try reflexivity.
  destruct (max <? utf8_len x); [now rewrite olookup_oset_same | now rewrite E].
Qed.

Lemma limit_member_same : forall ks k max o, ~ In k ks -> same_at ks (limit_member k max o) o.
Proof.
  intros ks k max o Hk. unfold limit_member. destruct (get_str k o) as [v|]; [|apply same_at_refl].
  destruct (max <? utf8_len v); [now apply same_at_oset | apply same_at_refl].
Qed.

Lemma limit_member_other : forall k k' max o, k' <> k -> olookup k' (limit_member k max o) = olookup k' o.
Proof.
  intros k k' max o H. apply (limit_member_same [k'] k max o); [|now left]. intros [E|[]]. congruence.
Qed.

Lemma string_field_other : forall k k' max o, k' <> k -> string_field k' (limit_member k max o) = string_field k' o.
Proof. intros k k' max o H. unfold string_field. now rewrite limit_member_other. Qed.

Lemma chars_ascii_len : forall x, forallb result_name_char x = true -> utf8_len x = rune_len x.
Proof.
  unfold utf8_len, rune_len. induction x as [|c x IH]; intro H; [reflexivity|].
  cbn [forallb] in H. apply andb_true_iff in H. destruct H as [Hc Hx]. cbn [fold_right List.length]. rewrite (IH Hx).
  assert (utf8_width c = 1); [|lia]. unfold utf8_width, result_name_char in *. destruct (c <? 128) eqn:E; [reflexivity|]. lia.
Qed.

(* a result name that was acceptable before the limit is within it after limit_member *)
Lemma limited_result_name : forall x,
  result_name_ok false x = true ->
  result_name_ok true (if max_result_name <? utf8_len x then truncate x max_result_name else x) = true.
Proof.
  intros x H. unfold result_name_ok in *.
  apply andb_true_iff in H. destruct H as [H Hl]. apply andb_true_iff in H. destruct H as [Hne Hc].
  destruct (max_result_name <? utf8_len x) eqn:E.
  - assert (Hns : has_nonspace x = true).
    { apply orb_true_iff in Hl. destruct Hl as [Hl|Hl]; [lia | exact Hl]. }
    rewrite (truncate_nonempty x max_result_name Hns) by (unfold max_result_name; lia).
    rewrite (forallb_truncate result_name_char x max_result_name Hc).
    pose proof (truncate_length x max_result_name). cbn [andb]. lia.
  - rewrite Hne, Hc. pose proof (rune_len_le_utf8_len x). cbn [andb]. lia.
Qed.

Lemma limited_category : forall x,
  category_chars_ok x = true ->
  let y := if max_category_name <? utf8_len x then truncate x max_category_name else x in
  category_chars_ok y = true /\ rune_len y <= max_category_name.
Proof.
  intros x Hc. cbv zeta. destruct (max_category_name <? utf8_len x) eqn:E.
  - split; [now apply forallb_truncate | apply truncate_length].
  - split; [exact Hc|]. pose proof (rune_len_le_utf8_len x). lia.
Qed.

Lemma action_13_6_valid : forall g o st a, loc_inv st -> action_ok g false o a = true ->
  loc_inv (fst (action_13_6 st a)) /\ action_ok g true o (snd (action_13_6 st a)) = true.
Proof.
  intros g o st a Hst Ha. unfold action_13_6. destruct (is_type "set_run_result" a) eqn:Et; cbn [fst snd]; (split; [exact Hst|]).
  - unfold action_ok in *. rewrite Et in Ha.
    assert (Et' : is_type "set_run_result" (limit_member k_category max_category_name (limit_member k_name max_result_name a)) = true).
    { unfold is_type, type_of, get_str in *. now rewrite !limit_member_other by key_neq. }
    rewrite Et'. apply andb_true_iff in Ha. destruct Ha as [Hn Hc]. apply andb_true_iff. split.
    + unfold required_field in *. rewrite string_field_other by key_neq. rewrite limit_member_field.
      destruct (string_field k_name a) as [|x]; [discriminate|]. now apply limited_result_name.
    + unfold optional_field in *. rewrite limit_member_field. rewrite string_field_other by key_neq.
      destruct (string_field k_category a) as [|x]; [discriminate|].
      destruct x as [|c x]; [reflexivity|].
      unfold result_category_ok in Hc. cbn [nonempty andb negb orb] in Hc. rewrite andb_true_r in Hc.
      destruct (limited_category (c :: x) Hc) as [H1 H2].
      destruct (if max_category_name <? utf8_len (c :: x) then truncate (c :: x) max_category_name else c :: x) as [|c' y] eqn:Ey;
        [reflexivity|].
      unfold result_category_ok. cbn [nonempty andb negb orb]. rewrite H1. cbn [andb]. lia.
  - rewrite <- Ha. unfold action_ok. rewrite Et. reflexivity.
Qed.

Lemma router_13_6_valid : forall st r, loc_inv st -> router_ok false r = true ->
  loc_inv (fst (router_13_6 st r)) /\ router_ok true (snd (router_13_6 st r)) = true.
Proof.
  intros st r Hst Hr. unfold router_13_6.
  unfold router_ok in Hr. apply andb_true_iff in Hr. destruct Hr as [Hn Hc].
  set (r1 := limit_member k_result_name max_result_name r).
  assert (Hn1 : optional_field (result_name_ok true) k_result_name r1 = true).
  { unfold optional_field, r1 in *. rewrite limit_member_field. destruct (string_field k_result_name r) as [|x]; [discriminate|].
    destruct x as [|c x]; [reflexivity|].
    pose proof (limited_result_name (c :: x) Hn) as H.
    destruct (if max_result_name <? utf8_len (c :: x) then truncate (c :: x) max_result_name else c :: x); [reflexivity | exact H]. }
  assert (Hc1 : member_all k_categories (fun c => category_ok false (JObj c)) r1 = true).
  { unfold member_all, r1. rewrite limit_member_other by key_neq.
    destruct (olookup k_categories r) as [[| | | |l|]|]; try reflexivity.
    erewrite forallb_ext_in; [exact Hc|]. intro x. destruct x; reflexivity. }
  destruct (on_array_member_inv k_categories (fun (st : mstate) c => (st, limit_member k_name max_category_name c)) loc_inv
              (fun c => category_ok false (JObj c)) (fun c => category_ok true (JObj c))) with (st := st) (o := r1) as [H1 H2];
    try assumption.
  { intros st0 c Hst0 Hc0. cbn [fst snd]. split; [exact Hst0|]. cbn [category_ok] in *. rewrite limit_member_field.
    destruct (string_field k_name c) as [|x]; [discriminate|]. cbn [negb orb].
    destruct (max_category_name <? utf8_len x) eqn:E; [apply N.leb_le, truncate_length|].
    pose proof (rune_len_le_utf8_len x). lia. }
  split; [exact H1|].
  pose proof (on_array_member_other k_categories (fun (st : mstate) c => (st, limit_member k_name max_category_name c)) st r1) as Ho.
  destruct (on_array_member k_categories (fun (st : mstate) c => (st, limit_member k_name max_category_name c)) st r1) as [st' r2].
  cbn [fst snd] in *. unfold router_ok. apply andb_true_iff. split.
  - unfold optional_field, string_field in *. rewrite Ho by key_neq. exact Hn1.
  - unfold member_all in H2. destruct (olookup k_categories r2) as [[| | | |l|]|]; try reflexivity.
    erewrite forallb_ext_in; [exact H2|]. intro x. destruct x; reflexivity.
Qed.

(* a node step that loops over the actions and then visits the router *)
Lemma actions_router_step_valid : forall (g lim o g' lim' : bool) (fa fr : mstate -> obj -> mstate * obj),
  (forall st a, loc_inv st -> action_ok g lim o a = true ->
                loc_inv (fst (fa st a)) /\ action_ok g' lim' o (snd (fa st a)) = true) ->
  (forall st r, loc_inv st -> router_ok lim r = true ->
                loc_inv (fst (fr st r)) /\ router_ok lim' (snd (fr st r)) = true) ->
  forall st n, loc_inv st -> node_ok g lim o (JObj n) = true ->
    loc_inv (fst (let '(st1, n1) := on_array_member k_actions fa st n in on_object_member k_router fr st1 n1))
    /\ node_ok g' lim' o (JObj (snd (let '(st1, n1) := on_array_member k_actions fa st n in on_object_member k_router fr st1 n1))) = true.
Proof.
  intros g lim o g' lim' fa fr Ha Hr st n Hst Hn. cbn [node_ok] in Hn. apply andb_true_iff in Hn. destruct Hn as [Hna Hnr].
  destruct (on_array_member_inv k_actions fa loc_inv (action_ok g lim o) (action_ok g' lim' o) Ha st n Hst) as [H1 H2].
  { unfold member_all. destruct (olookup k_actions n) as [[| | | |l|]|]; try reflexivity.
    erewrite forallb_ext_in; [exact Hna|]. intro x. destruct x; reflexivity. }
  pose proof (on_array_member_other k_actions fa st n k_router ltac:(key_neq)) as Hro.
  destruct (on_array_member k_actions fa st n) as [st1 n1]. cbn [fst snd] in *.
  assert (Hacts : match olookup k_actions n1 with
                  | Some (JArr l) => forallb (fun a => match a with JObj a => action_ok g' lim' o a | _ => true end) l
                  | _ => true end = true).
  { unfold member_all in H2. destruct (olookup k_actions n1) as [[| | | |l|]|]; try reflexivity.
    erewrite forallb_ext_in; [exact H2|]. intro x. destruct x; reflexivity. }
  unfold on_object_member. rewrite Hro. destruct (olookup k_router n) as [[| | | | |r]|] eqn:Er;
    cbn [fst snd node_ok]; try (rewrite Hro, Hacts; auto).
  destruct (Hr st1 r H1 Hnr) as [H3 H4].
  destruct (fr st1 r) as [st2 r']. cbn [fst snd] in *. split; [exact H3|].
  rewrite olookup_oset_same, H4, andb_true_r. now rewrite olookup_oset_other by key_neq.
Qed.

Lemma migrate_13_6_valid : forall lang g o tx fr f,
  body_ok lang g false o f = true -> body_ok lang g true o (fst (migrate_13_6 tx fr f)) = true.
Proof.
  intros lang g o tx fr f H. unfold migrate_13_6.
  apply (nodes_migration_valid lang g false o g true); [|exact H].
  unfold node_13_6. apply actions_router_step_valid; [apply action_13_6_valid | apply router_13_6_valid].
Qed.
