(* MigrateValidProofs.v -- "a definition that is valid at its version is valid at the current version after migration":
   each transcribed migration establishes the requirement it was written for and keeps the others
   (model/MigrateValid.v: body_ok with its flags), for every definition, every UUID supply and every refactoring
   function tx. *)
From Coq Require Import List NArith ZArith Bool String Lia.
From Verif Require Import lib.Json gen.MigrationTable model.Migrate model.MigrateValid proofs.MigrateProofs.
Import ListNotations.
Open Scope N_scope.

(* ---- association lists: predicates on all values ---------------------------------------------------------------- *)

Section Values.
  Variable q : json -> bool.
  Definition all_values (o : obj) : bool := forallb (fun kv : str * json => q (snd kv)) o.

  Lemma all_values_lookup : forall o k v, all_values o = true -> olookup k o = Some v -> q v = true.
  Proof.
    intros o k v H Hl. apply olookup_In in Hl. unfold all_values in H. rewrite forallb_forall in H.
    exact (H (k, v) Hl).
  Qed.

  Lemma all_values_oset : forall o k v, all_values o = true -> q v = true -> all_values (oset k v o) = true.
  Proof.
    unfold all_values. intros o k v H Hv. induction o as [|[k' v'] o IH]; simpl in *.
    - now rewrite Hv.
    - apply andb_true_iff in H. destruct H as [H1 H2]. destruct (str_eqb k k'); simpl.
      + now rewrite Hv, H2.
      + now rewrite H1, IH.
  Qed.

  Lemma all_values_odel : forall o k, all_values o = true -> all_values (odel k o) = true.
  Proof.
    unfold all_values. intros o k H. induction o as [|[k' v'] o IH]; simpl in *; [reflexivity|].
    apply andb_true_iff in H. destruct H as [H1 H2]. destruct (str_eqb k k'); [now apply IH|].
    simpl. now rewrite H1, IH.
  Qed.
End Values.

Lemma olookup_odel : forall k k' o, olookup k' (odel k o) = if str_eqb k' k then None else olookup k' o.
Proof.
  intros k k' o. destruct (str_eqb k' k) eqn:E.
  - apply str_eqb_eq in E. subst. apply olookup_odel_same.
  - apply olookup_odel_other. apply str_eqb_neq in E. congruence.
Qed.

(* ---- traversals with an invariant on the state -------------------------------------------------------------------- *)

Lemma map_st_inv : forall {S A B} (f : S -> A -> S * B) (I : S -> Prop) (P : A -> Prop) (Q : B -> Prop),
  (forall st a, I st -> P a -> I (fst (f st a)) /\ Q (snd (f st a))) ->
  forall l st, I st -> Forall P l -> I (fst (map_st f st l)) /\ Forall Q (snd (map_st f st l)).
Proof.
  intros S A B f I P Q Hf. induction l as [|x l IH]; intros st Hst Hl; cbn [map_st].
  - split; [exact Hst | constructor].
  - inversion Hl as [|? ? Hx Hl']; subst. destruct (Hf st x Hst Hx) as [H1 H2].
    destruct (f st x) as [st1 y]. cbn [fst snd] in *. destruct (IH st1 H1 Hl') as [H3 H4].
    destruct (map_st f st1 l) as [st2 r]. cbn [fst snd] in *. split; [exact H3 | now constructor].
Qed.

(* a predicate on objects, read on arbitrary elements: what is not an object passes *)
Definition lift (ok : obj -> bool) (j : json) : bool := match j with JObj o => ok o | _ => true end.

Lemma on_objects_inv : forall {S} (step : S -> obj -> S * obj) (I : S -> Prop) (p q : obj -> bool),
  (forall st o, I st -> p o = true -> I (fst (step st o)) /\ q (snd (step st o)) = true) ->
  forall l st, I st -> forallb (lift p) l = true ->
    I (fst (on_objects step st l)) /\ forallb (lift q) (snd (on_objects step st l)) = true.
Proof.
  intros S step I p q Hs l st Hst Hl. unfold on_objects.
  rewrite forallb_forall in Hl. apply Forall_forall in Hl.
  match goal with |- context [map_st ?g st l] =>
    destruct (map_st_inv g I (fun x => lift p x = true) (fun x => lift q x = true)) with (l := l) (st := st) as [H1 H2]
  end; try assumption.
  - intros st0 x Hst0 Hx. destruct x as [| | | | |o]; cbn [fst snd lift]; try (split; [assumption | reflexivity]).
    cbn [lift] in Hx. destruct (Hs st0 o Hst0 Hx) as [H1 H2]. destruct (step st0 o) as [st' o']. cbn [fst snd lift] in *. auto.
  - split; [exact H1|]. apply forallb_forall. now apply Forall_forall.
Qed.

(* the array member k of an object, read with a predicate on its object elements *)
Definition member_all (k : str) (ok : obj -> bool) (o : obj) : bool :=
  match olookup k o with Some (JArr l) => forallb (lift ok) l | _ => true end.

Lemma on_array_member_inv : forall {S} k (step : S -> obj -> S * obj) (I : S -> Prop) (p q : obj -> bool),
  (forall st o, I st -> p o = true -> I (fst (step st o)) /\ q (snd (step st o)) = true) ->
  forall st o, I st -> member_all k p o = true ->
    I (fst (on_array_member k step st o)) /\ member_all k q (snd (on_array_member k step st o)) = true.
Proof.
  intros S k step I p q Hs st o Hst Ho. unfold on_array_member, member_all in *.
  destruct (olookup k o) as [[| | | |l|]|] eqn:E; cbn [fst snd]; try (rewrite E; auto).
  destruct (on_objects_inv step I p q Hs l st Hst Ho) as [H1 H2].
  destruct (on_objects step st l) as [st' l']. cbn [fst snd] in *. rewrite olookup_oset_same. auto.
Qed.

Lemma on_array_member_state : forall {S} k (step : S -> obj -> S * obj) (I : S -> Prop),
  (forall st o, I st -> I (fst (step st o))) ->
  forall st o, I st -> I (fst (on_array_member k step st o)).
Proof.
  intros S k step I Hs st o Hst.
  destruct (on_array_member_inv k step I (fun _ => true) (fun _ => true)) with (st := st) (o := o) as [H _]; auto.
  unfold member_all. destruct (olookup k o) as [[| | | |l|]|]; try reflexivity.
  apply forallb_forall. intros x _. destruct x; reflexivity.
Qed.
