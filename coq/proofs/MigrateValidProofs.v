(* MigrateValidProofs.v -- "a definition that is valid at its version is valid at the current version after migration":
   each transcribed migration establishes the requirement it was written for and keeps the others
   (model/MigrateValid.v: body_ok with its flags), for every definition, every UUID supply and every refactoring
   function tx. *)
From Coq Require Import List NArith ZArith Bool String Lia.
From Verif Require Import lib.Json gen.MigrationTable model.Migrate model.MigrateValid proofs.MigrateProofs proofs.MigrateTextProofs.
Import ListNotations.
Open Scope N_scope.

(* ---- association lists: predicates on all values ---------------------------------------------------------------- *)

Section Values.
  Variable q : json -> bool.
  Definition all_values (o : obj) : bool := forallb (fun kv : str * json => q (snd kv)) o.

  Lemma all_values_lookup : forall o k v, all_values o = true -> olookup k o = Some v -> q v = true.
  Proof.
    intros o k v H Hl. apply olookup_In in Hl. unfold all_values in H. rewrite forallb_forall in H.
    exact (H (k, v) Hl).
  Qed.

  Lemma all_values_oset : forall o k v, all_values o = true -> q v = true -> all_values (oset k v o) = true.
  Proof.
    unfold all_values. intros o k v H Hv. induction o as [|[k' v'] o IH]; simpl in *.
    - now rewrite Hv.
    - apply andb_true_iff in H. destruct H as [H1 H2]. destruct (str_eqb k k'); simpl.
      + now rewrite Hv, H2.
      + now rewrite H1, IH.
  Qed.

  Lemma all_values_odel : forall o k, all_values o = true -> all_values (odel k o) = true.
  Proof.
    unfold all_values. intros o k H. induction o as [|[k' v'] o IH]; simpl in *; [reflexivity|].
    apply andb_true_iff in H. destruct H as [H1 H2]. destruct (str_eqb k k'); [now apply IH|].
    simpl. now rewrite H1, IH.
  Qed.
End Values.

Lemma olookup_odel : forall k k' o, olookup k' (odel k o) = if str_eqb k' k then None else olookup k' o.
Proof.
  intros k k' o. destruct (str_eqb k' k) eqn:E.
  - apply str_eqb_eq in E. subst. apply olookup_odel_same.
  - apply olookup_odel_other. apply str_eqb_neq in E. congruence.
Qed.

(* ---- traversals with an invariant on the state -------------------------------------------------------------------- *)

Lemma map_st_inv : forall {S A B} (f : S -> A -> S * B) (I : S -> Prop) (P : A -> Prop) (Q : B -> Prop),
  (forall st a, I st -> P a -> I (fst (f st a)) /\ Q (snd (f st a))) ->
  forall l st, I st -> Forall P l -> I (fst (map_st f st l)) /\ Forall Q (snd (map_st f st l)).
Proof.
  intros S A B f I P Q Hf. induction l as [|x l IH]; intros st Hst Hl; cbn [map_st].
  - split; [exact Hst | constructor].
  - inversion Hl as [|? ? Hx Hl']; subst. destruct (Hf st x Hst Hx) as [H1 H2].
    destruct (f st x) as [st1 y]. cbn [fst snd] in *. destruct (IH st1 H1 Hl') as [H3 H4].
    destruct (map_st f st1 l) as [st2 r]. cbn [fst snd] in *. split; [exact H3 | now constructor].
Qed.

(* a predicate on objects, read on arbitrary elements: what is not an object passes *)
Definition lift (ok : obj -> bool) (j : json) : bool := match j with JObj o => ok o | _ => true end.

Lemma on_objects_inv : forall {S} (step : S -> obj -> S * obj) (I : S -> Prop) (p q : obj -> bool),
  (forall st o, I st -> p o = true -> I (fst (step st o)) /\ q (snd (step st o)) = true) ->
  forall l st, I st -> forallb (lift p) l = true ->
    I (fst (on_objects step st l)) /\ forallb (lift q) (snd (on_objects step st l)) = true.
Proof.
  intros S step I p q Hs l st Hst Hl. unfold on_objects.
  rewrite forallb_forall in Hl. apply Forall_forall in Hl.
  match goal with |- context [map_st ?g st l] =>
    destruct (map_st_inv g I (fun x => lift p x = true) (fun x => lift q x = true)) with (l := l) (st := st) as [H1 H2]
  end; try assumption.
  - intros st0 x Hst0 Hx. destruct x as [| | | | |o]; cbn [fst snd lift]; try (split; [assumption | reflexivity]).
    cbn [lift] in Hx. destruct (Hs st0 o Hst0 Hx) as [H1 H2]. destruct (step st0 o) as [st' o']. cbn [fst snd lift] in *. auto.
  - split; [exact H1|]. apply forallb_forall. now apply Forall_forall.
Qed.

(* the array member k of an object, read with a predicate on its object elements *)
Definition member_all (k : str) (ok : obj -> bool) (o : obj) : bool :=
  match olookup k o with Some (JArr l) => forallb (lift ok) l | _ => true end.

Lemma on_array_member_inv : forall {S} k (step : S -> obj -> S * obj) (I : S -> Prop) (p q : obj -> bool),
  (forall st o, I st -> p o = true -> I (fst (step st o)) /\ q (snd (step st o)) = true) ->
  forall st o, I st -> member_all k p o = true ->
    I (fst (on_array_member k step st o)) /\ member_all k q (snd (on_array_member k step st o)) = true.
Proof.
  intros S k step I p q Hs st o Hst Ho. unfold on_array_member, member_all in *.
  destruct (olookup k o) as [[| | | |l|]|] eqn:E; cbn [fst snd]; try (rewrite E; auto).
  destruct (on_objects_inv step I p q Hs l st Hst Ho) as [H1 H2].
  destruct (on_objects step st l) as [st' l']. cbn [fst snd] in *. rewrite olookup_oset_same. auto.
Qed.

Lemma on_array_member_state : forall {S} k (step : S -> obj -> S * obj) (I : S -> Prop),
  (forall st o, I st -> I (fst (step st o))) ->
  forall st o, I st -> I (fst (on_array_member k step st o)).
Proof.
  intros S k step I Hs st o Hst.
  destruct (on_array_member_inv k step I (fun _ => true) (fun _ => true)) with (st := st) (o := o) as [H _]; auto.
  unfold member_all. destruct (olookup k o) as [[| | | |l|]|]; try reflexivity.
  apply forallb_forall. intros x _. destruct x; reflexivity.
Qed.

(* ---- what the validity predicates look at --------------------------------------------------------------------------- *)

Ltac key_neq := apply str_eqb_neq; reflexivity.

Definition same_at (ks : list str) (a b : obj) : Prop := forall k, In k ks -> olookup k a = olookup k b.

Definition action_keys : list str :=
  [k_type; k_name; k_category; k_result_name; k_templating; k_template; k_template_variables].

Lemma action_ok_ext : forall g lim o a b, same_at action_keys a b -> action_ok g lim o a = action_ok g lim o b.
Proof.
  intros g lim o a b H.
  assert (Ht : olookup k_type a = olookup k_type b) by (apply H; cbn; tauto).
  assert (Hn : olookup k_name a = olookup k_name b) by (apply H; cbn; tauto).
  assert (Hc : olookup k_category a = olookup k_category b) by (apply H; cbn; tauto).
  assert (Hr : olookup k_result_name a = olookup k_result_name b) by (apply H; cbn; tauto).
  assert (Hg : olookup k_templating a = olookup k_templating b) by (apply H; cbn; tauto).
  assert (Hp : olookup k_template a = olookup k_template b) by (apply H; cbn; tauto).
  assert (Hv : olookup k_template_variables a = olookup k_template_variables b) by (apply H; cbn; tauto).
  unfold action_ok, is_any_type, is_type, type_of, get_str, send_msg_ok, get_obj, required_field, optional_field, string_field.
  cbn [existsb]. unfold is_type, type_of, get_str.
  now rewrite Ht, Hn, Hc, Hr, Hg, Hp, Hv.
Qed.

Lemma same_at_oset : forall ks k v a, ~ In k ks -> same_at ks (oset k v a) a.
Proof.
  intros ks k v a Hk k' Hk'. apply olookup_oset_other. intro E. subst. contradiction.
Qed.

Lemma same_at_odel : forall ks k a, ~ In k ks -> same_at ks (odel k a) a.
Proof.
  intros ks k a Hk k' Hk'. apply olookup_odel_other. intro E. subst. contradiction.
Qed.

Lemma same_at_trans : forall ks a b c, same_at ks a b -> same_at ks b c -> same_at ks a c.
Proof. intros ks a b c H1 H2 k Hk. now rewrite H1, H2. Qed.

Lemma same_at_refl : forall ks a, same_at ks a a.
Proof. intros ks a k Hk. reflexivity. Qed.

(* membership of a concrete key in a concrete list of keys, decided by computation *)
Lemma not_in_keys : forall k ks, existsb (str_eqb k) ks = false -> ~ In k ks.
Proof.
  intros k ks H Hin. assert (existsb (str_eqb k) ks = true) as E; [|congruence].
  apply existsb_exists. exists k. split; [exact Hin | apply str_eqb_refl].
Qed.
Ltac not_key := apply not_in_keys; reflexivity.

(* ---- the localization as loop state ------------------------------------------------------------------------------------- *)

Definition loc_inv (st : mstate) : Prop := localization_ok (option_map JObj (snd st)) = true.

Lemma string_array_strings : forall l, string_array_ok (Some (strings l)) = true.
Proof. intro l. unfold strings. cbn. induction l as [|x l IH]; [reflexivity | exact IH]. Qed.

Lemma item_of_translation : forall lt uuid it,
  language_translation_ok (JObj lt) = true -> get_obj uuid lt = Some it -> item_translation_ok (JObj it) = true.
Proof.
  intros lt uuid it H Hg. unfold get_obj in Hg. destruct (olookup uuid lt) as [[| | | | |x]|] eqn:E; try discriminate.
  inversion Hg; subst. cbn [language_translation_ok] in H.
  exact (all_values_lookup item_translation_ok lt uuid (JObj it) H E).
Qed.

Lemma set_translation_ok : forall uuid prop trans lt,
  language_translation_ok (JObj lt) = true -> language_translation_ok (JObj (set_translation uuid prop trans lt)) = true.
Proof.
  intros uuid prop trans lt H. unfold set_translation. cbn [language_translation_ok] in *.
  destruct (get_obj uuid lt) as [it|] eqn:E.
  - apply (all_values_oset item_translation_ok); [exact H|]. cbn [item_translation_ok].
    apply (all_values_oset (fun v => string_array_ok (Some v))); [|apply string_array_strings].
    exact (item_of_translation lt uuid it H E).
  - apply (all_values_oset item_translation_ok); [exact H|].
    change (item_translation_ok (JObj [(prop, strings trans)])) with (string_array_ok (Some (strings trans)) && true).
    now rewrite string_array_strings.
Qed.

Lemma delete_translation_ok : forall uuid prop lt,
  language_translation_ok (JObj lt) = true -> language_translation_ok (JObj (delete_translation uuid prop lt)) = true.
Proof.
  intros uuid prop lt H. unfold delete_translation. cbn [language_translation_ok] in *.
  destruct (get_obj uuid lt) as [it|] eqn:E; [|exact H].
  pose proof (item_of_translation lt uuid it H E) as Hit. cbn [item_translation_ok] in Hit.
  pose proof (all_values_odel (fun v => string_array_ok (Some v)) it prop Hit) as Hd.
  destruct (odel prop it) as [|p r] eqn:Ed.
  - now apply (all_values_odel item_translation_ok).
  - apply (all_values_oset item_translation_ok); [exact H | exact Hd].
Qed.

Lemma for_languages_ok : forall f loc,
  (forall lt, language_translation_ok (JObj lt) = true -> language_translation_ok (JObj (f lt)) = true) ->
  localization_ok (Some (JObj loc)) = true -> localization_ok (Some (JObj (for_languages f loc))) = true.
Proof.
  intros f loc Hf H. cbn [localization_ok] in *. unfold for_languages.
  induction loc as [|[k v] loc IH]; [reflexivity|]. simpl in *.
  apply andb_true_iff in H. destruct H as [H1 H2]. rewrite (IH H2), andb_true_r.
  destruct v; try exact H1. simpl. now apply Hf.
Qed.

Lemma loc_inv_map : forall fr loc f,
  (forall lt, language_translation_ok (JObj lt) = true -> language_translation_ok (JObj (f lt)) = true) ->
  loc_inv (fr, loc) -> forall fr', loc_inv (fr', option_map (for_languages f) loc).
Proof.
  intros fr loc f Hf H fr'. unfold loc_inv in *. cbn [snd] in *. destruct loc as [l|]; [|exact H].
  cbn [option_map] in *. now apply for_languages_ok.
Qed.

(* ---- from a step on nodes to the whole definition ---------------------------------------------------------------------- *)

Lemma node_ok_lift : forall g lim o n, node_ok g lim o n = lift (fun x => node_ok g lim o (JObj x)) n.
Proof. intros g lim o n. destruct n; reflexivity. Qed.

Lemma forallb_ext_in : forall {A} (p q : A -> bool) l, (forall x, p x = q x) -> forallb p l = forallb q l.
Proof. intros A p q l H. induction l as [|x l IH]; [reflexivity|]. cbn. now rewrite H, IH. Qed.

Lemma language_ok_oset : forall lang k v f, k <> k_language -> language_ok lang (oset k v f) = language_ok lang f.
Proof. intros lang k v f H. unfold language_ok. now rewrite olookup_oset_other. Qed.

Lemma nodes_migration_valid : forall (lang g lim o g' lim' : bool) (node_step : mstate -> obj -> mstate * obj),
  (forall st n, loc_inv st -> node_ok g lim o (JObj n) = true ->
                loc_inv (fst (node_step st n)) /\ node_ok g' lim' o (JObj (snd (node_step st n))) = true) ->
  forall fr f, body_ok lang g lim o f = true ->
    body_ok lang g' lim' o (fst (with_localization (on_array_member k_nodes node_step) fr f)) = true.
Proof.
  intros lang g lim o g' lim' node_step Hstep fr f H.
  unfold body_ok in H. apply andb_true_iff in H. destruct H as [H Hn]. apply andb_true_iff in H. destruct H as [Hl Hloc].
  unfold with_localization.
  set (st0 := (fr, get_obj k_localization f)).
  assert (H0 : loc_inv st0).
  { unfold loc_inv, st0, get_obj. cbn [snd]. destruct (olookup k_localization f) as [[| | | | |x]|]; try reflexivity. exact Hloc. }
  assert (Hn' : member_all k_nodes (fun x => node_ok g lim o (JObj x)) f = true).
  { unfold member_all. destruct (olookup k_nodes f) as [[| | | |l|]|]; try reflexivity.
    erewrite forallb_ext_in; [exact Hn|]. intro x. symmetry. apply node_ok_lift. }
  destruct (on_array_member_inv k_nodes node_step loc_inv _ (fun x => node_ok g' lim' o (JObj x)) Hstep st0 f H0 Hn') as [H1 H2].
  pose proof (on_array_member_other k_nodes node_step st0 f) as Hother.
  destruct (on_array_member k_nodes node_step st0 f) as [[fr' loc'] f']. cbn [fst snd] in *.
  assert (Hnodes : match olookup k_nodes f' with Some (JArr l) => forallb (node_ok g' lim' o) l | _ => true end = true).
  { unfold member_all in H2. destruct (olookup k_nodes f') as [[| | | |l|]|]; try reflexivity.
    erewrite forallb_ext_in; [exact H2|]. intro x. apply node_ok_lift. }
  assert (Hlang : language_ok lang f' = true).
  { unfold language_ok. rewrite Hother by key_neq. exact Hl. }
  unfold body_ok. destruct loc' as [l2|].
  - rewrite language_ok_oset by key_neq. rewrite Hlang. rewrite olookup_oset_same.
    rewrite (olookup_oset_other k_localization k_nodes) by key_neq.
    unfold loc_inv in H1. cbn [snd option_map] in H1. rewrite H1. exact Hnodes.
  - rewrite Hlang. rewrite (Hother k_localization) by key_neq. rewrite Hloc. exact Hnodes.
Qed.

(* a node step that only loops over the actions *)
Lemma actions_step_valid : forall (g lim o g' : bool) (step : mstate -> obj -> mstate * obj),
  (forall st a, loc_inv st -> action_ok g lim o a = true ->
                loc_inv (fst (step st a)) /\ action_ok g' lim o (snd (step st a)) = true) ->
  forall st n, loc_inv st -> node_ok g lim o (JObj n) = true ->
    loc_inv (fst (on_array_member k_actions step st n))
    /\ node_ok g' lim o (JObj (snd (on_array_member k_actions step st n))) = true.
Proof.
  intros g lim o g' step Hs st n Hst Hn. cbn [node_ok] in Hn. apply andb_true_iff in Hn. destruct Hn as [Ha Hr].
  destruct (on_array_member_inv k_actions step loc_inv (action_ok g lim o) (action_ok g' lim o) Hs st n Hst) as [H1 H2].
  { unfold member_all. destruct (olookup k_actions n) as [[| | | |l|]|]; try reflexivity.
    erewrite forallb_ext_in; [exact Ha|]. intro x. destruct x; reflexivity. }
  split; [exact H1|].
  pose proof (on_array_member_other k_actions step st n k_router ltac:(key_neq)) as Hro.
  destruct (on_array_member k_actions step st n) as [st' n']. cbn [fst snd] in *.
  cbn [node_ok]. rewrite Hro, Hr, andb_true_r.
  unfold member_all in H2. destruct (olookup k_actions n') as [[| | | |l|]|]; try reflexivity.
  erewrite forallb_ext_in; [exact H2|]. intro x. destruct x; reflexivity.
Qed.

(* ---- Migrate13_1 --------------------------------------------------------------------------------------------------------- *)

Definition plain_keys : list str := [k_type; k_name; k_category; k_result_name].

(* the same action as far as validity goes, given what send_msg's template check says *)
Lemma action_ok_ext2 : forall g g' lim o a b,
  same_at plain_keys a b -> send_msg_ok g a = send_msg_ok g' b -> action_ok g lim o a = action_ok g' lim o b.
Proof.
  intros g g' lim o a b H Hs.
  assert (Ht : olookup k_type a = olookup k_type b) by (apply H; cbn; tauto).
  assert (Hn : olookup k_name a = olookup k_name b) by (apply H; cbn; tauto).
  assert (Hc : olookup k_category a = olookup k_category b) by (apply H; cbn; tauto).
  assert (Hr : olookup k_result_name a = olookup k_result_name b) by (apply H; cbn; tauto).
  unfold action_ok, is_any_type, is_type, type_of, get_str, required_field, optional_field, string_field.
  cbn [existsb]. unfold is_type, type_of, get_str.
  now rewrite Ht, Hn, Hc, Hr, Hs.
Qed.

(* the templating object replaced by one with the same template member *)
Lemma send_msg_ok_templating : forall g a t t',
  get_obj k_templating a = Some t -> olookup k_template t' = olookup k_template t ->
  send_msg_ok g (oset k_templating (JObj t') a) = send_msg_ok g a.
Proof.
  intros g a t t' Hg Ht. unfold send_msg_ok. destruct g.
  - now rewrite !olookup_oset_other by key_neq.
  - rewrite Hg. unfold get_obj. rewrite olookup_oset_same. now rewrite Ht.
Qed.

Lemma step_13_1_valid : forall g lim o st a, loc_inv st -> action_ok g lim o a = true ->
  loc_inv (fst (step_13_1 st a)) /\ action_ok g lim o (snd (step_13_1 st a)) = true.
Proof.
  intros g lim o st a Hst Ha. unfold step_13_1.
  destruct (is_type "send_msg" a) eqn:Et; [|auto].
  destruct (get_obj k_templating a) as [t|] eqn:Eg; [|auto].
  destruct (next_uuid (fst st)) as [u fr']. cbn [fst snd]. split; [exact Hst|].
  rewrite <- Ha. apply action_ok_ext2.
  - apply same_at_oset. not_key.
  - apply (send_msg_ok_templating g a t); [exact Eg|]. apply olookup_oset_other. key_neq.
Qed.

Lemma migrate_13_1_valid : forall lang g lim o tx fr f,
  body_ok lang g lim o f = true -> body_ok lang g lim o (fst (migrate_13_1 tx fr f)) = true.
Proof.
  intros lang g lim o tx fr f H. unfold migrate_13_1, for_actions.
  apply (nodes_migration_valid lang g lim o g lim); [|exact H].
  apply actions_step_valid. apply step_13_1_valid.
Qed.

(* ---- Migrate13_2 --------------------------------------------------------------------------------------------------------- *)

Lemma und_len : Nat.eqb (List.length und) 3 = true.
Proof. reflexivity. Qed.

Lemma language_replaced_valid : forall g lim o f,
  localization_ok (olookup k_localization f) = true ->
  match olookup k_nodes f with Some (JArr l) => forallb (node_ok g lim o) l | _ => true end = true ->
  body_ok true g lim o
    (let f1 := oset k_language (JStr und) f in
     match get_obj k_localization f1 with
     | Some l => oset k_localization (JObj (odel und l)) f1
     | None => f1
     end) = true.
Proof.
  intros g lim o f Hloc Hn. cbv zeta. unfold get_obj. rewrite olookup_oset_other by key_neq.
  destruct (olookup k_localization f) as [[| | | | |loc]|] eqn:Eloc; unfold body_ok, language_ok; cbn [negb orb].
  1-5,7: (rewrite olookup_oset_same, und_len; rewrite !olookup_oset_other by key_neq; rewrite Eloc, Hloc, Hn; reflexivity).
  rewrite (olookup_oset_other k_localization k_language) by key_neq. rewrite olookup_oset_same, und_len.
  rewrite olookup_oset_same. rewrite !olookup_oset_other by key_neq. rewrite Hn.
  cbn [localization_ok] in *. pose proof (all_values_odel language_translation_ok loc und Hloc) as Hd.
  unfold all_values in Hd. now rewrite Hd.
Qed.

Lemma migrate_13_2_valid : forall lang g lim o tx fr f,
  body_ok lang g lim o f = true -> body_ok true g lim o (fst (migrate_13_2 tx fr f)) = true.
Proof.
  intros lang g lim o tx fr f H. unfold migrate_13_2. cbv zeta.
  unfold body_ok in H. apply andb_true_iff in H. destruct H as [H Hn]. apply andb_true_iff in H. destruct H as [_ Hloc].
  match goal with |- context [if ?c then _ else _] => destruct c eqn:E3 end; cbn [fst].
  - unfold body_ok, language_ok. cbn [negb orb]. unfold get_str in E3.
    destruct (olookup k_language f) as [[| | |x| |]|]; try discriminate E3.
    cbv iota beta in E3. cbv iota beta. now rewrite E3, Hloc, Hn.
  - now apply language_replaced_valid.
Qed.

(* ---- Migrate13_4 --------------------------------------------------------------------------------------------------------- *)

Lemma step_13_4_valid : forall g lim o st a, loc_inv st -> action_ok g lim o a = true ->
  loc_inv (fst (step_13_4 st a)) /\ action_ok g lim o (snd (step_13_4 st a)) = true.
Proof.
  intros g lim o st a Hst Ha. unfold step_13_4.
  destruct (is_type "send_msg" a) eqn:Et; [|auto].
  destruct (get_obj k_templating a) as [t|] eqn:Eg; [|auto].
  destruct (next_uuid (fst st)) as [u fr']. cbn [fst snd]. split.
  - destruct st as [fr loc]. cbn [snd]. apply (loc_inv_map fr); [|exact Hst].
    intros lt Hlt. destruct (get_translation (object_uuid t) k_variables lt); [|exact Hlt].
    apply delete_translation_ok. now apply set_translation_ok.
  - rewrite <- Ha. apply action_ok_ext2.
    + apply same_at_oset. not_key.
    + apply (send_msg_ok_templating g a t); [exact Eg|].
      rewrite !olookup_odel_other by key_neq. apply olookup_oset_other. key_neq.
Qed.

Lemma migrate_13_4_valid : forall lang g lim o tx fr f,
  body_ok lang g lim o f = true -> body_ok lang g lim o (fst (migrate_13_4 tx fr f)) = true.
Proof.
  intros lang g lim o tx fr f H. unfold migrate_13_4, for_actions.
  apply (nodes_migration_valid lang g lim o g lim); [|exact H].
  apply actions_step_valid. apply step_13_4_valid.
Qed.

(* ---- Migrate13_5 --------------------------------------------------------------------------------------------------------- *)

Lemma language_13_5_ok : forall comps action_uuid lt,
  language_translation_ok (JObj lt) = true -> language_translation_ok (JObj (language_13_5 comps action_uuid lt)) = true.
Proof.
  intros comps action_uuid lt H. unfold language_13_5.
  set (step := fun (acc : obj * list str * bool) (c : str * list str) =>
                 let '(lt, vars, localized) := acc in
                 match get_translation (fst c) k_params lt with
                 | Some ps => (delete_translation (fst c) k_params lt, vars ++ ps, true)
                 | None => (lt, vars ++ snd c, localized)
                 end).
  assert (Hfold : forall cs acc, language_translation_ok (JObj (fst (fst acc))) = true ->
                                 language_translation_ok (JObj (fst (fst (fold_left step cs acc)))) = true).
  { induction cs as [|c cs IH]; intros [[lt0 vars0] loc0] H0; [exact H0|]. cbn [fold_left]. apply IH.
    unfold step. destruct (get_translation (fst c) k_params lt0); cbn [fst] in *; [now apply delete_translation_ok | exact H0]. }
  match goal with |- context [fold_left step comps ?acc] =>
    specialize (Hfold comps acc H); destruct (fold_left step comps acc) as [[lt1 vars] localized] end.
  cbn [fst] in Hfold. destruct localized; [now apply set_translation_ok | exact Hfold].
Qed.

Lemma action_ok_not_send_msg : forall g g' lim o a,
  is_type "send_msg" a = false -> action_ok g lim o a = action_ok g' lim o a.
Proof. intros g g' lim o a H. unfold action_ok. now rewrite H. Qed.

(* before 13.5 was applied (merged = false); afterwards the template sits on the action *)
Lemma step_13_5_valid : forall lim o st a, loc_inv st -> action_ok false lim o a = true ->
  loc_inv (fst (step_13_5 st a)) /\ action_ok true lim o (snd (step_13_5 st a)) = true.
Proof.
  intros lim o st a Hst Ha. unfold step_13_5.
  destruct (is_type "send_msg" a) eqn:Et.
  - destruct (get_obj k_templating a) as [t|] eqn:Eg.
    + cbn [fst snd]. split.
      * destruct st as [fr loc]. cbn [fst snd]. apply (loc_inv_map fr); [|exact Hst]. intros lt. apply language_13_5_ok.
      * erewrite action_ok_ext2 with (g' := false) (b := a); [exact Ha| |].
        -- eapply same_at_trans; [apply same_at_odel; not_key|].
           eapply same_at_trans; [apply same_at_oset; not_key|]. apply same_at_oset. not_key.
        -- unfold send_msg_ok. rewrite Eg.
           rewrite !olookup_odel_other by key_neq.
           rewrite olookup_oset_same. rewrite (olookup_oset_other k_template_variables k_template) by key_neq.
           rewrite olookup_oset_same. rewrite string_array_strings, andb_true_r.
           destruct (olookup k_template t); reflexivity.
    + split; [exact Hst|]. cbn [snd]. erewrite action_ok_ext2 with (g' := false) (b := a); [exact Ha|apply same_at_refl|].
      unfold send_msg_ok. now rewrite Eg.
  - split; [exact Hst|]. cbn [snd]. now rewrite (action_ok_not_send_msg true false).
Qed.

Lemma migrate_13_5_valid : forall lang lim o tx fr f,
  body_ok lang false lim o f = true -> body_ok lang true lim o (fst (migrate_13_5 tx fr f)) = true.
Proof.
  intros lang lim o tx fr f H. unfold migrate_13_5, for_actions.
  apply (nodes_migration_valid lang false lim o true lim); [|exact H].
  apply actions_step_valid. apply step_13_5_valid.
Qed.

(* ---- Migrate13_6 --------------------------------------------------------------------------------------------------------- *)

Lemma limit_member_field : forall k max o,
  string_field k (limit_member k max o)
  = match string_field k o with
    | FText x => FText (if max <? utf8_len x then truncate x max else x)
    | FBad => FBad
    end.
Proof.
  intros k max o. unfold limit_member, string_field, get_str.
  assert (H0 : max <? utf8_len [] = false) by (apply N.ltb_ge; cbn; lia).
  destruct (olookup k o) as [[| | |x| |]|] eqn:E; rewrite ?E, ?H0; try reflexivity.
  destruct (max <? utf8_len x); [now rewrite olookup_oset_same | now rewrite E].
Qed.

Lemma limit_member_same : forall ks k max o, ~ In k ks -> same_at ks (limit_member k max o) o.
Proof.
  intros ks k max o Hk. unfold limit_member. destruct (get_str k o) as [v|]; [|apply same_at_refl].
  destruct (max <? utf8_len v); [now apply same_at_oset | apply same_at_refl].
Qed.

Lemma limit_member_other : forall k k' max o, k' <> k -> olookup k' (limit_member k max o) = olookup k' o.
Proof.
  intros k k' max o H. apply (limit_member_same [k'] k max o); [|now left]. intros [E|[]]. congruence.
Qed.

Lemma string_field_other : forall k k' max o, k' <> k -> string_field k' (limit_member k max o) = string_field k' o.
Proof. intros k k' max o H. unfold string_field. now rewrite limit_member_other. Qed.

Lemma chars_ascii_len : forall x, forallb result_name_char x = true -> utf8_len x = rune_len x.
Proof.
  unfold utf8_len, rune_len. induction x as [|c x IH]; intro H; [reflexivity|].
  cbn [forallb] in H. apply andb_true_iff in H. destruct H as [Hc Hx]. cbn [fold_right List.length]. rewrite (IH Hx).
  assert (utf8_width c = 1); [|lia]. unfold utf8_width, result_name_char in *. destruct (c <? 128) eqn:E; [reflexivity|]. lia.
Qed.

(* a result name that was acceptable before the limit is within it after limit_member *)
Lemma limited_result_name : forall x,
  result_name_ok false x = true ->
  result_name_ok true (if max_result_name <? utf8_len x then truncate x max_result_name else x) = true.
Proof.
  intros x H. unfold result_name_ok in *. cbn [negb orb] in *. rewrite andb_true_r in H.
  apply andb_true_iff in H. destruct H as [Hne Hc].
  destruct (max_result_name <? utf8_len x) eqn:E.
  - rewrite (truncate_nonempty x max_result_name Hne) by (unfold max_result_name; lia).
    rewrite (forallb_truncate result_name_char x max_result_name Hc).
    pose proof (truncate_length x max_result_name). cbn [andb]. lia.
  - rewrite Hne, Hc. pose proof (rune_len_le_utf8_len x). cbn [andb]. lia.
Qed.

Lemma limited_category : forall x,
  category_chars_ok x = true ->
  let y := if max_category_name <? utf8_len x then truncate x max_category_name else x in
  category_chars_ok y = true /\ rune_len y <= max_category_name.
Proof.
  intros x Hc. cbv zeta. destruct (max_category_name <? utf8_len x) eqn:E.
  - split; [now apply forallb_truncate | apply truncate_length].
  - split; [exact Hc|]. pose proof (rune_len_le_utf8_len x). lia.
Qed.

Lemma action_13_6_valid : forall g o st a, loc_inv st -> action_ok g false o a = true ->
  loc_inv (fst (action_13_6 st a)) /\ action_ok g true o (snd (action_13_6 st a)) = true.
Proof.
  intros g o st a Hst Ha. unfold action_13_6. destruct (is_type "set_run_result" a) eqn:Et; cbn [fst snd]; (split; [exact Hst|]).
  - unfold action_ok in *. rewrite Et in Ha.
    assert (Et' : is_type "set_run_result" (limit_member k_category max_category_name (limit_member k_name max_result_name a)) = true).
    { unfold is_type, type_of, get_str in *. now rewrite !limit_member_other by key_neq. }
    rewrite Et'. apply andb_true_iff in Ha. destruct Ha as [Hn Hc]. apply andb_true_iff. split.
    + unfold required_field in *. rewrite string_field_other by key_neq. rewrite limit_member_field.
      destruct (string_field k_name a) as [|x]; [discriminate|]. now apply limited_result_name.
    + unfold optional_field in *. rewrite limit_member_field. rewrite string_field_other by key_neq.
      destruct (string_field k_category a) as [|x]; [discriminate|].
      destruct x as [|c x]; [reflexivity|].
      unfold result_category_ok in Hc. cbn [nonempty andb negb orb] in Hc. rewrite andb_true_r in Hc.
      destruct (limited_category (c :: x) Hc) as [H1 H2].
      destruct (if max_category_name <? utf8_len (c :: x) then truncate (c :: x) max_category_name else c :: x) as [|c' y] eqn:Ey;
        [reflexivity|].
      unfold result_category_ok. cbn [nonempty andb negb orb]. rewrite H1. cbn [andb]. lia.
  - rewrite <- Ha. unfold action_ok. rewrite Et. reflexivity.
Qed.

Lemma router_13_6_valid : forall st r, loc_inv st -> router_ok false r = true ->
  loc_inv (fst (router_13_6 st r)) /\ router_ok true (snd (router_13_6 st r)) = true.
Proof.
  intros st r Hst Hr. unfold router_13_6.
  unfold router_ok in Hr. apply andb_true_iff in Hr. destruct Hr as [Hn Hc].
  set (r1 := limit_member k_result_name max_result_name r).
  assert (Hn1 : optional_field (result_name_ok true) k_result_name r1 = true).
  { unfold optional_field, r1 in *. rewrite limit_member_field. destruct (string_field k_result_name r) as [|x]; [discriminate|].
    destruct x as [|c x]; [reflexivity|].
    pose proof (limited_result_name (c :: x) Hn) as H.
    destruct (if max_result_name <? utf8_len (c :: x) then truncate (c :: x) max_result_name else c :: x); [reflexivity | exact H]. }
  assert (Hc1 : member_all k_categories (fun c => category_ok false (JObj c)) r1 = true).
  { unfold member_all, r1. rewrite limit_member_other by key_neq.
    destruct (olookup k_categories r) as [[| | | |l|]|]; try reflexivity.
    erewrite forallb_ext_in; [exact Hc|]. intro x. destruct x; reflexivity. }
  destruct (on_array_member_inv k_categories (fun (st : mstate) c => (st, limit_member k_name max_category_name c)) loc_inv
              (fun c => category_ok false (JObj c)) (fun c => category_ok true (JObj c))) with (st := st) (o := r1) as [H1 H2];
    try assumption.
  { intros st0 c Hst0 Hc0. cbn [fst snd]. split; [exact Hst0|]. cbn [category_ok] in *. rewrite limit_member_field.
    destruct (string_field k_name c) as [|x]; [discriminate|]. cbn [negb orb].
    destruct (max_category_name <? utf8_len x) eqn:E; [apply N.leb_le, truncate_length|].
    pose proof (rune_len_le_utf8_len x). lia. }
  split; [exact H1|].
  pose proof (on_array_member_other k_categories (fun (st : mstate) c => (st, limit_member k_name max_category_name c)) st r1) as Ho.
  destruct (on_array_member k_categories (fun (st : mstate) c => (st, limit_member k_name max_category_name c)) st r1) as [st' r2].
  cbn [fst snd] in *. unfold router_ok. apply andb_true_iff. split.
  - unfold optional_field, string_field in *. rewrite Ho by key_neq. exact Hn1.
  - unfold member_all in H2. destruct (olookup k_categories r2) as [[| | | |l|]|]; try reflexivity.
    erewrite forallb_ext_in; [exact H2|]. intro x. destruct x; reflexivity.
Qed.

(* a node step that loops over the actions and then visits the router *)
Lemma actions_router_step_valid : forall (g lim o g' lim' : bool) (fa fr : mstate -> obj -> mstate * obj),
  (forall st a, loc_inv st -> action_ok g lim o a = true ->
                loc_inv (fst (fa st a)) /\ action_ok g' lim' o (snd (fa st a)) = true) ->
  (forall st r, loc_inv st -> router_ok lim r = true ->
                loc_inv (fst (fr st r)) /\ router_ok lim' (snd (fr st r)) = true) ->
  forall st n, loc_inv st -> node_ok g lim o (JObj n) = true ->
    loc_inv (fst (let '(st1, n1) := on_array_member k_actions fa st n in on_object_member k_router fr st1 n1))
    /\ node_ok g' lim' o (JObj (snd (let '(st1, n1) := on_array_member k_actions fa st n in on_object_member k_router fr st1 n1))) = true.
Proof.
  intros g lim o g' lim' fa fr Ha Hr st n Hst Hn. cbn [node_ok] in Hn. apply andb_true_iff in Hn. destruct Hn as [Hna Hnr].
  destruct (on_array_member_inv k_actions fa loc_inv (action_ok g lim o) (action_ok g' lim' o) Ha st n Hst) as [H1 H2].
  { unfold member_all. destruct (olookup k_actions n) as [[| | | |l|]|]; try reflexivity.
    erewrite forallb_ext_in; [exact Hna|]. intro x. destruct x; reflexivity. }
  pose proof (on_array_member_other k_actions fa st n k_router ltac:(key_neq)) as Hro.
  destruct (on_array_member k_actions fa st n) as [st1 n1]. cbn [fst snd] in *.
  assert (Hacts : match olookup k_actions n1 with
                  | Some (JArr l) => forallb (fun a => match a with JObj a => action_ok g' lim' o a | _ => true end) l
                  | _ => true end = true).
  { unfold member_all in H2. destruct (olookup k_actions n1) as [[| | | |l|]|]; try reflexivity.
    erewrite forallb_ext_in; [exact H2|]. intro x. destruct x; reflexivity. }
  unfold on_object_member. rewrite Hro. destruct (olookup k_router n) as [[| | | | |r]|] eqn:Er;
    cbn [fst snd node_ok]; try (rewrite Hro, Hacts; auto).
  destruct (Hr st1 r H1 Hnr) as [H3 H4].
  destruct (fr st1 r) as [st2 r']. cbn [fst snd] in *. split; [exact H3|].
  rewrite olookup_oset_same, H4, andb_true_r. now rewrite olookup_oset_other by key_neq.
Qed.

Lemma migrate_13_6_valid : forall lang g o tx fr f,
  body_ok lang g false o f = true -> body_ok lang g true o (fst (migrate_13_6 tx fr f)) = true.
Proof.
  intros lang g o tx fr f H. unfold migrate_13_6.
  apply (nodes_migration_valid lang g false o g true); [|exact H].
  unfold node_13_6. apply actions_router_step_valid; [apply action_13_6_valid | apply router_13_6_valid].
Qed.

(* ---- Migrate13_3: what jsonpath.visit leaves alone -------------------------------------------------------------------------- *)

Definition lok (loc : option obj) : Prop := localization_ok (option_map JObj loc) = true.

Section Visit.
  Variable tx : str -> str.

  Definition value_step (rem : list str) (container : json) (key : option str) (loc0 : option obj) (v : json)
    : option obj * json :=
    match rem with
    | [] => txl tx loc0 container key v
    | _ => visit tx rem loc0 v
    end.

  Definition obj_entry (sel : str) (rem : list str) (container : json) (loc0 : option obj) (kv : str * json)
    : option obj * (str * json) :=
    let '(k, v) := kv in
    if str_eqb k sel || str_eqb sel star
    then let '(loc', v') := value_step rem container (Some k) loc0 v in (loc', (k, v'))
    else (loc0, kv).

  Lemma visit_obj : forall sel rem loc o,
    visit tx (sel :: rem) loc (JObj o)
    = let '(loc', o') := map_st (obj_entry sel rem (JObj o)) loc o in (loc', JObj o').
  Proof. intros sel rem loc o. destruct rem; reflexivity. Qed.

  Definition arr_elem (sel : str) (rem : list str) (container : json) (acc : N * option obj * list json) (v : json)
    : N * option obj * list json :=
    let '(i, loc0, out) := acc in
    if (match parse_number sel with Some n => n =? i | None => false end) || str_eqb sel star
    then let '(loc', v') := value_step rem container None loc0 v in (i + 1, loc', out ++ [v'])
    else (i + 1, loc0, out ++ [v]).

  Lemma visit_arr : forall sel rem loc l,
    visit tx (sel :: rem) loc (JArr l)
    = let '(_, loc', l') := fold_left (arr_elem sel rem (JArr l)) l (0, loc, []) in (loc', JArr l').
  Proof. intros sel rem loc l. destruct rem; reflexivity. Qed.

  (* the localization stays well-formed *)
  Lemma rewrite_translations_lok : forall uuid prop loc, lok loc -> lok (option_map (rewrite_translations tx uuid prop) loc).
  Proof.
    intros uuid prop loc H. unfold lok in *. destruct loc as [l|]; [|exact H]. cbn [option_map] in *.
    unfold rewrite_translations. apply for_languages_ok; [|exact H].
    intros lt Hlt. destruct (get_translation uuid prop lt); [now apply set_translation_ok | exact Hlt].
  Qed.

  Lemma txl_lok : forall loc container key val, lok loc -> lok (fst (txl tx loc container key val)).
  Proof.
    intros loc container key val H. unfold txl. cbn [fst].
    destruct container; try exact H. destruct key as [prop|]; [|exact H].
    destruct (nonempty (object_uuid kv) && nonempty prop); [now apply rewrite_translations_lok | exact H].
  Qed.

  Lemma visit_lok : forall path loc j, lok loc -> lok (fst (visit tx path loc j)).
  Proof.
    induction path as [|sel rem IH]; intros loc j H; [exact H|].
    assert (Hv : forall container key loc0 v, lok loc0 -> lok (fst (value_step rem container key loc0 v))).
    { intros container key loc0 v H0. unfold value_step. destruct rem; [now apply txl_lok | now apply IH]. }
    destruct j as [| | | |l|o]; try exact H.
    - rewrite visit_arr.
      assert (Hf : forall l0 acc, lok (snd (fst acc)) -> lok (snd (fst (fold_left (arr_elem sel rem (JArr l)) l0 acc)))).
      { induction l0 as [|v l0 IHl]; intros [[i loc0] out] H0; [exact H0|]. cbn [fold_left]. apply IHl.
        unfold arr_elem. destruct (_ || _); [|exact H0].
        specialize (Hv (JArr l) None loc0 v H0). destruct (value_step rem (JArr l) None loc0 v). exact Hv. }
      specialize (Hf l (0, loc, []) H). destruct (fold_left (arr_elem sel rem (JArr l)) l (0, loc, [])) as [[i loc'] l'].
      exact Hf.
    - rewrite visit_obj.
      destruct (map_st_inv (obj_entry sel rem (JObj o)) lok (fun _ => True) (fun _ => True)) with (l := o) (st := loc) as [H1 _].
      + intros loc0 [k v] H0 _. split; [|exact I]. unfold obj_entry. destruct (_ || _); [|exact H0].
        specialize (Hv (JObj o) (Some k) loc0 v H0). destruct (value_step rem (JObj o) (Some k) loc0 v). exact Hv.
      + exact H.
      + apply Forall_forall. intros; exact I.
      + destruct (map_st (obj_entry sel rem (JObj o)) loc o). exact H1.
  Qed.

  (* the result is an object exactly when the input is *)
  Definition is_object (j : json) : bool := match j with JObj _ => true | _ => false end.

  Lemma txl_is_object : forall loc container key val, is_object (snd (txl tx loc container key val)) = is_object val.
  Proof. intros. unfold txl. cbn [snd]. destruct val; reflexivity. Qed.

  Lemma visit_is_object : forall path loc j, is_object (snd (visit tx path loc j)) = is_object j.
  Proof.
    intros path loc j. destruct path as [|sel rem]; [reflexivity|]. destruct j as [| | | |l|o]; try reflexivity.
    - rewrite visit_arr. destruct (fold_left _ l _) as [[i loc'] l']. reflexivity.
    - rewrite visit_obj. destruct (map_st _ loc o). reflexivity.
  Qed.

  (* members other than the selected one stay *)
  Lemma visit_obj_other : forall sel rem loc o k,
    str_eqb sel star = false -> str_eqb k sel = false ->
    forall o', snd (visit tx (sel :: rem) loc (JObj o)) = JObj o' -> olookup k o' = olookup k o.
  Proof.
    intros sel rem loc o k Hstar Hk o' E. rewrite visit_obj in E.
    assert (Hm : forall l loc0, olookup k (snd (map_st (obj_entry sel rem (JObj o)) loc0 l)) = olookup k l).
    { induction l as [|[k0 v0] l IHl]; intro loc0; [reflexivity|]. cbn [map_st].
      destruct (obj_entry sel rem (JObj o) loc0 (k0, v0)) as [loc1 kv1] eqn:Ee.
      specialize (IHl loc1). destruct (map_st (obj_entry sel rem (JObj o)) loc1 l) as [loc2 r]. cbn [snd] in *.
      unfold obj_entry in Ee. rewrite Hstar, orb_false_r in Ee.
      destruct (str_eqb k0 sel) eqn:E0.
      - destruct (value_step rem (JObj o) (Some k0) loc0 v0) as [loc' v']. inversion Ee; subst.
        cbn [olookup]. apply str_eqb_eq in E0. subst k0. rewrite Hk. exact IHl.
      - inversion Ee; subst. cbn [olookup]. now rewrite IHl. }
    specialize (Hm o loc). destruct (map_st (obj_entry sel rem (JObj o)) loc o) as [loc' o'']. cbn [snd] in *.
    inversion E; subst. exact Hm.
  Qed.

  (* the selected member: gone if it was not there, otherwise what the rest of the path makes of it *)
  Lemma visit_obj_at : forall sel rem loc o,
    str_eqb sel star = false ->
    forall o', snd (visit tx (sel :: rem) loc (JObj o)) = JObj o' ->
    match olookup sel o with
    | None => olookup sel o' = None
    | Some v => exists loc0, olookup sel o' = Some (snd (value_step rem (JObj o) (Some sel) loc0 v))
    end.
  Proof.
    intros sel rem loc o Hstar o' E. rewrite visit_obj in E.
    assert (Hm : forall l loc0,
               match olookup sel l with
               | None => olookup sel (snd (map_st (obj_entry sel rem (JObj o)) loc0 l)) = None
               | Some v => exists loc1, olookup sel (snd (map_st (obj_entry sel rem (JObj o)) loc0 l))
                                        = Some (snd (value_step rem (JObj o) (Some sel) loc1 v))
               end).
    { induction l as [|[k0 v0] l IHl]; intro loc0; [reflexivity|]. cbn [map_st].
      destruct (obj_entry sel rem (JObj o) loc0 (k0, v0)) as [loc1 kv1] eqn:Ee.
      specialize (IHl loc1). destruct (map_st (obj_entry sel rem (JObj o)) loc1 l) as [loc2 r]. cbn [snd] in *.
      unfold obj_entry in Ee. rewrite Hstar, orb_false_r in Ee. cbn [olookup].
      rewrite (str_eqb_sym sel k0). destruct (str_eqb k0 sel) eqn:E0.
      - apply str_eqb_eq in E0. subst k0.
        destruct (value_step rem (JObj o) (Some sel) loc0 v0) as [loc' v'] eqn:Ev. inversion Ee; subst.
        cbn [olookup]. rewrite str_eqb_refl. exists loc0. now rewrite Ev.
      - inversion Ee; subst. cbn [olookup]. rewrite (str_eqb_sym sel k0), E0. exact IHl. }
    specialize (Hm o loc). destruct (map_st (obj_entry sel rem (JObj o)) loc o) as [loc' o'']. cbn [snd] in *.
    inversion E; subst. exact Hm.
  Qed.
End Visit.

Lemma rewrite_orphans_lok : forall tx loc o p, lok loc -> lok (rewrite_orphans tx loc o p).
Proof.
  intros tx loc o p H. unfold rewrite_orphans.
  destruct (split_last_dot _) as [[parent member]|]; [|exact H]. destruct (str_eqb member star); [exact H|].
  match goal with |- lok (fold_left ?g ?cs loc) => generalize cs end.
  intro cs. revert loc H. induction cs as [|c cs IH]; intros loc H; [exact H|]. cbn [fold_left]. apply IH.
  destruct c; try exact H. destruct (negb _ && _); [now apply rewrite_translations_lok | exact H].
Qed.

Lemma rewrite_path_lok : forall tx loc o p, lok (fst (rewrite_templates tx loc o p)) -> lok (fst (rewrite_path tx loc o p)).
Proof.
  intros tx loc o p H. unfold rewrite_path. destruct (rewrite_templates tx loc o p) as [loc1 o1]. cbn [fst] in *.
  now apply rewrite_orphans_lok.
Qed.

(* ---- Migrate13_3: the catalogue's paths stay clear of what validity looks at --------------------------------------------- *)

Definition protected0 : list str := [k_type; k_category; k_result_name; k_template; k_template_variables].

Definition steps_of (p : string) : option (list str) := parse_path (dollar ++ trim_suffix star_suffix (s p)).

Definition action_steps_ok (row_type : str) (steps : list str) : bool :=
  match steps with
  | [] => true
  | sel :: rem =>
      negb (str_eqb sel star) && negb (mem_str sel protected0)
      && (negb (str_eqb sel k_name) || negb (str_eqb row_type (s "set_run_result")))
      && (negb (str_eqb sel k_templating)
          || match rem with r1 :: _ => negb (str_eqb r1 star) && negb (str_eqb r1 k_template) | [] => false end)
  end.

Definition router_steps_ok (steps : list str) : bool :=
  match steps with
  | [] => true
  | sel :: _ => negb (str_eqb sel star) && negb (str_eqb sel k_result_name) && negb (str_eqb sel k_categories)
  end.

Definition rows_ok (chk : str -> list str -> bool) (tab : list (string * list string)) : bool :=
  forallb (fun row : string * list string =>
             forallb (fun p => match steps_of p with Some st => chk (s (fst row)) st | None => false end) (snd row)) tab.

(* finite obligation over the generated catalogue: no path starts at (or, below templating, touches) a member that
   valid_current looks at *)
Definition catalog_frame : bool :=
  rows_ok action_steps_ok catalog_actions && rows_ok (fun _ => router_steps_ok) catalog_routers.

Lemma catalog_frame_true : catalog_frame = true.
Proof. vm_compute. reflexivity. Qed.

Lemma catalog_paths_row : forall tab t p chk,
  rows_ok chk tab = true -> In p (catalog_paths tab t) ->
  match steps_of p with Some st => chk t st = true | None => True end.
Proof.
  intros tab t p chk H Hp. induction tab as [|[k ps] tab IH]; [contradiction|].
  cbn [rows_ok forallb fst snd] in H. apply andb_true_iff in H. destruct H as [H1 H2].
  cbn [catalog_paths] in Hp. destruct (str_eqb (s k) t) eqn:E.
  - apply str_eqb_eq in E. subst t. rewrite forallb_forall in H1. specialize (H1 p Hp).
    destruct (steps_of p); [exact H1 | discriminate H1].
  - now apply IH.
Qed.

Definition templating_rel (a' a : obj) : Prop :=
  match get_obj k_templating a with
  | Some t0 => exists t', get_obj k_templating a' = Some t' /\ olookup k_template t' = olookup k_template t0
  | None => get_obj k_templating a' = None
  end.

Definition action_rel (srr : bool) (a' a : obj) : Prop :=
  same_at protected0 a' a /\ (srr = true -> olookup k_name a' = olookup k_name a) /\ templating_rel a' a.

Lemma action_rel_refl : forall srr a, action_rel srr a a.
Proof.
  intros srr a. split; [apply same_at_refl|]. split; [reflexivity|]. unfold templating_rel.
  destruct (get_obj k_templating a) as [t0|]; [eauto | reflexivity].
Qed.

Lemma action_rel_trans : forall srr a b c, action_rel srr a b -> action_rel srr b c -> action_rel srr a c.
Proof.
  intros srr a b c [H1 [H2 H3]] [H4 [H5 H6]]. split; [eapply same_at_trans; eassumption|]. split.
  - intro E. now rewrite H2, H5.
  - unfold templating_rel in *. destruct (get_obj k_templating c) as [t0|].
    + destruct H6 as [t1 [E1 E2]]. rewrite E1 in H3. destruct H3 as [t2 [E3 E4]]. exists t2. split; [exact E3 | congruence].
    + rewrite H6 in H3. exact H3.
Qed.

Lemma mem_str_false : forall x l k, mem_str x l = false -> In k l -> str_eqb k x = false.
Proof.
  intros x l k H Hk. destruct (str_eqb k x) eqn:E; [|reflexivity]. apply str_eqb_eq in E. subst k.
  unfold mem_str in H. assert (existsb (str_eqb x) l = true); [|congruence].
  apply existsb_exists. exists x. split; [exact Hk | apply str_eqb_refl].
Qed.

Lemma is_type_same : forall t a' a, olookup k_type a' = olookup k_type a -> is_type t a' = is_type t a.
Proof. intros t a' a H. unfold is_type, type_of, get_str. now rewrite H. Qed.

Lemma action_ok_ext3 : forall g lim o a' a,
  same_at [k_type; k_category; k_result_name] a' a ->
  (is_type "set_run_result" a = true -> olookup k_name a' = olookup k_name a) ->
  send_msg_ok g a' = send_msg_ok g a -> action_ok g lim o a' = action_ok g lim o a.
Proof.
  intros g lim o a' a Hs Hn Hsm.
  assert (Ht : olookup k_type a' = olookup k_type a) by (apply Hs; cbn; tauto).
  assert (Hc : olookup k_category a' = olookup k_category a) by (apply Hs; cbn; tauto).
  assert (Hr : olookup k_result_name a' = olookup k_result_name a) by (apply Hs; cbn; tauto).
  unfold action_ok, is_any_type. cbn [existsb]. rewrite !(is_type_same _ a' a Ht), Hsm.
  unfold required_field, optional_field, string_field. rewrite Hc, Hr.
  destruct (is_type "set_run_result" a); [now rewrite (Hn eq_refl) | reflexivity].
Qed.

Section Rewrite13_3.
  Variable tx : str -> str.

  Lemma rewrite_templates_action : forall (srr : bool) loc a p,
    lok loc ->
    match steps_of p with Some st => action_steps_ok (if srr then s "set_run_result" else ([] : str)) st = true | None => True end ->
    lok (fst (rewrite_templates tx loc a p)) /\ action_rel srr (snd (rewrite_templates tx loc a p)) a.
  Proof.
    intros srr loc a p Hl Hp. unfold rewrite_templates. fold (steps_of p).
    destruct (steps_of p) as [steps|]; [|split; [exact Hl | apply action_rel_refl]].
    pose proof (visit_lok tx steps loc (JObj a) Hl) as Hlok.
    pose proof (visit_is_object tx steps loc (JObj a)) as Hobj.
    destruct steps as [|sel rem].
    { cbn [visit fst snd]. split; [exact Hl | apply action_rel_refl]. }
    destruct (visit tx (sel :: rem) loc (JObj a)) as [loc' j'] eqn:Ev. cbn [fst snd] in *.
    destruct j' as [| | | | |o']; try discriminate Hobj. cbn [fst snd]. split; [exact Hlok|].
    assert (Ev' : snd (visit tx (sel :: rem) loc (JObj a)) = JObj o') by now rewrite Ev.
    cbn [action_steps_ok] in Hp. apply andb_true_iff in Hp. destruct Hp as [Hp Ht]. apply andb_true_iff in Hp.
    destruct Hp as [Hp Hn]. apply andb_true_iff in Hp. destruct Hp as [Hstar Hprot].
    apply negb_true_iff in Hstar, Hprot.
    split; [|split].
    - intros k Hk. apply (visit_obj_other tx sel rem loc a k Hstar); [|exact Ev'].
      now apply (mem_str_false sel protected0).
    - intro E. subst srr. apply (visit_obj_other tx sel rem loc a k_name Hstar); [|exact Ev'].
      apply orb_true_iff in Hn. destruct Hn as [Hn|Hn]; apply negb_true_iff in Hn.
      + now rewrite str_eqb_sym.
      + now rewrite str_eqb_refl in Hn.
    - unfold templating_rel. destruct (str_eqb sel k_templating) eqn:Es.
      + apply str_eqb_eq in Es. subst sel. cbn [negb orb] in Ht.
        destruct rem as [|r1 rem']; [discriminate|]. apply andb_true_iff in Ht. destruct Ht as [Hr1 Hr2].
        apply negb_true_iff in Hr1, Hr2.
        pose proof (visit_obj_at tx k_templating (r1 :: rem') loc a Hstar o' Ev') as Hat.
        unfold get_obj. destruct (olookup k_templating a) as [v|]; [|now rewrite Hat].
        destruct Hat as [loc0 Hat]. rewrite Hat. unfold value_step.
        pose proof (visit_is_object tx (r1 :: rem') loc0 v) as Hio.
        destruct v as [| | | | |t0].
        1-5: (destruct (snd (visit tx (r1 :: rem') loc0 _)); try reflexivity; discriminate Hio).
        destruct (snd (visit tx (r1 :: rem') loc0 (JObj t0))) as [| | | | |t'] eqn:Et; try discriminate Hio.
        exists t'. split; [reflexivity|].
        apply (visit_obj_other tx r1 rem' loc0 t0 k_template Hr1); [|exact Et]. now rewrite str_eqb_sym.
      + assert (El : olookup k_templating o' = olookup k_templating a).
        { apply (visit_obj_other tx sel rem loc a k_templating Hstar); [|exact Ev']. now rewrite str_eqb_sym. }
        unfold get_obj. rewrite El. destruct (olookup k_templating a) as [[| | | | |t0]|]; try reflexivity. eauto.
  Qed.

  Lemma rewrite_all_action : forall g lim o st a, loc_inv st -> action_ok g lim o a = true ->
    loc_inv (fst (rewrite_all tx catalog_actions st a)) /\ action_ok g lim o (snd (rewrite_all tx catalog_actions st a)) = true.
  Proof.
    intros g lim o st a Hst Ha. unfold rewrite_all.
    set (srr := is_type "set_run_result" a).
    assert (Hpaths : forall p, In p (catalog_paths catalog_actions (type_of a)) ->
              match steps_of p with Some st => action_steps_ok (if srr then s "set_run_result" else ([] : str)) st = true | None => True end).
    { intros p Hp. pose proof catalog_frame_true as Hc. unfold catalog_frame in Hc. apply andb_true_iff in Hc. destruct Hc as [Hc _].
      pose proof (catalog_paths_row catalog_actions (type_of a) p action_steps_ok Hc Hp) as H.
      destruct (steps_of p) as [steps|]; [|exact I]. unfold srr, is_type. destruct (str_eqb (type_of a) (s "set_run_result")) eqn:E.
      - apply str_eqb_eq in E. now rewrite <- E.
      - destruct steps as [|sel rem]; [reflexivity|]. cbn [action_steps_ok] in *.
        apply andb_true_iff in H. destruct H as [H Ht]. apply andb_true_iff in H. destruct H as [H _].
        rewrite H, Ht. cbn. now rewrite orb_true_r. }
    assert (Hfold : forall ps acc, (forall p, In p ps -> In p (catalog_paths catalog_actions (type_of a))) ->
              lok (fst acc) -> action_rel srr (snd acc) a ->
              lok (fst (fold_left (fun (acc : option obj * obj) p => rewrite_path tx (fst acc) (snd acc) p) ps acc))
              /\ action_rel srr (snd (fold_left (fun (acc : option obj * obj) p => rewrite_path tx (fst acc) (snd acc) p) ps acc)) a).
    { induction ps as [|p ps IH]; intros [loc0 a0] Hin Hl Hr; [auto|]. cbn [fold_left fst snd] in *.
      destruct (rewrite_templates_action srr loc0 a0 p Hl (Hpaths p (Hin p (or_introl eq_refl)))) as [H1 H2].
      apply IH; [intros q Hq; apply Hin; now right | now apply rewrite_path_lok
                | rewrite rewrite_path_snd; eapply action_rel_trans; eassumption]. }
    destruct (Hfold (catalog_paths catalog_actions (type_of a)) (snd st, a)) as [H1 H2];
      [auto | exact Hst | apply action_rel_refl |].
    destruct (fold_left _ (catalog_paths catalog_actions (type_of a)) (snd st, a)) as [loc' a']. cbn [fst snd] in *.
    split; [exact H1|]. destruct H2 as [Hs [Hn Ht]].
    (* the validity of the action is a function of what action_rel keeps *)
    rewrite (action_ok_ext3 g lim o a' a); [exact Ha| | |].
    - intros k Hk. apply Hs. cbn in *. tauto.
    - exact Hn.
    - assert (Htpl : olookup k_template a' = olookup k_template a) by (apply Hs; cbn; tauto).
      assert (Hvar : olookup k_template_variables a' = olookup k_template_variables a) by (apply Hs; cbn; tauto).
      unfold send_msg_ok. destruct g; [now rewrite Htpl, Hvar|].
      unfold templating_rel in Ht. destruct (get_obj k_templating a) as [t0|].
      + destruct Ht as [t' [E1 E2]]. now rewrite E1, E2.
      + now rewrite Ht, Htpl, Hvar.
  Qed.
End Rewrite13_3.

Section Router13_3.
  Variable tx : str -> str.

  Definition router_keys : list str := [k_result_name; k_categories].

  Lemma router_ok_ext : forall lim r' r, same_at router_keys r' r -> router_ok lim r' = router_ok lim r.
  Proof.
    intros lim r' r H.
    assert (H1 : olookup k_result_name r' = olookup k_result_name r) by (apply H; cbn; tauto).
    assert (H2 : olookup k_categories r' = olookup k_categories r) by (apply H; cbn; tauto).
    unfold router_ok, optional_field, string_field. now rewrite H1, H2.
  Qed.

  Lemma rewrite_templates_router : forall loc r p,
    lok loc -> match steps_of p with Some st => router_steps_ok st = true | None => True end ->
    lok (fst (rewrite_templates tx loc r p)) /\ same_at router_keys (snd (rewrite_templates tx loc r p)) r.
  Proof.
    intros loc r p Hl Hp. unfold rewrite_templates. fold (steps_of p).
    destruct (steps_of p) as [steps|]; [|split; [exact Hl | apply same_at_refl]].
    pose proof (visit_lok tx steps loc (JObj r) Hl) as Hlok.
    pose proof (visit_is_object tx steps loc (JObj r)) as Hobj.
    destruct steps as [|sel rem].
    { cbn [visit fst snd]. split; [exact Hl | apply same_at_refl]. }
    destruct (visit tx (sel :: rem) loc (JObj r)) as [loc' j'] eqn:Ev. cbn [fst snd] in *.
    destruct j' as [| | | | |o']; try discriminate Hobj. cbn [fst snd]. split; [exact Hlok|].
    assert (Ev' : snd (visit tx (sel :: rem) loc (JObj r)) = JObj o') by now rewrite Ev.
    cbn [router_steps_ok] in Hp. apply andb_true_iff in Hp. destruct Hp as [Hp H3]. apply andb_true_iff in Hp.
    destruct Hp as [Hstar H2]. apply negb_true_iff in Hstar, H2, H3.
    intros k [<-|[<-|[]]]; apply (visit_obj_other tx sel rem loc r _ Hstar); try exact Ev'; now rewrite str_eqb_sym.
  Qed.

  Lemma rewrite_all_router : forall lim st r, loc_inv st -> router_ok lim r = true ->
    loc_inv (fst (rewrite_all tx catalog_routers st r)) /\ router_ok lim (snd (rewrite_all tx catalog_routers st r)) = true.
  Proof.
    intros lim st r Hst Hr. unfold rewrite_all.
    assert (Hpaths : forall p, In p (catalog_paths catalog_routers (type_of r)) ->
              match steps_of p with Some st => router_steps_ok st = true | None => True end).
    { intros p Hp. pose proof catalog_frame_true as Hc. unfold catalog_frame in Hc. apply andb_true_iff in Hc. destruct Hc as [_ Hc].
      exact (catalog_paths_row catalog_routers (type_of r) p (fun _ => router_steps_ok) Hc Hp). }
    assert (Hfold : forall ps acc, (forall p, In p ps -> In p (catalog_paths catalog_routers (type_of r))) ->
              lok (fst acc) -> same_at router_keys (snd acc) r ->
              lok (fst (fold_left (fun (acc : option obj * obj) p => rewrite_path tx (fst acc) (snd acc) p) ps acc))
              /\ same_at router_keys (snd (fold_left (fun (acc : option obj * obj) p => rewrite_path tx (fst acc) (snd acc) p) ps acc)) r).
    { induction ps as [|p ps IH]; intros [loc0 r0] Hin Hl Hs; [auto|]. cbn [fold_left fst snd] in *.
      destruct (rewrite_templates_router loc0 r0 p Hl (Hpaths p (Hin p (or_introl eq_refl)))) as [H1 H2].
      apply IH; [intros q Hq; apply Hin; now right | now apply rewrite_path_lok
                | rewrite rewrite_path_snd; eapply same_at_trans; eassumption]. }
    destruct (Hfold (catalog_paths catalog_routers (type_of r)) (snd st, r)) as [H1 H2];
      [auto | exact Hst | apply same_at_refl |].
    destruct (fold_left _ (catalog_paths catalog_routers (type_of r)) (snd st, r)) as [loc' r']. cbn [fst snd] in *.
    split; [exact H1|]. now rewrite (router_ok_ext lim r' r H2).
  Qed.

  Lemma migrate_13_3_valid : forall lang g lim o fr f,
    body_ok lang g lim o f = true -> body_ok lang g lim o (fst (migrate_13_3 tx fr f)) = true.
  Proof.
    intros lang g lim o fr f H. unfold migrate_13_3.
    apply (nodes_migration_valid lang g lim o g lim); [|exact H].
    unfold node_13_3. apply actions_router_step_valid; [apply rewrite_all_action | apply rewrite_all_router].
  Qed.
End Router13_3.

(* ---- the chain: which requirement each registered function establishes ---------------------------------------------------- *)

Local Open Scope string_scope.
(* flags = (13.2 applied, 13.5 applied, 13.6 applied); None: the function may not run in that state *)
Definition flags_after (name : string) (fl : bool * bool * bool) : option (bool * bool * bool) :=
  let '(l, g, lim) := fl in
  if String.eqb name "Migrate13_1" then Some fl
  else if String.eqb name "Migrate13_2" then Some (true, g, lim)
  else if String.eqb name "Migrate13_3" then Some fl
  else if String.eqb name "Migrate13_4" then Some fl
  else if String.eqb name "Migrate13_5" then (if g then None else Some (l, true, lim))
  else if String.eqb name "Migrate13_6" then (if lim then None else Some (l, g, true))
  else None.
Local Close Scope string_scope.

Fixpoint run_flags (names : list string) (fl : bool * bool * bool) : option (bool * bool * bool) :=
  match names with
  | [] => Some fl
  | n :: rest => match flags_after n fl with Some fl' => run_flags rest fl' | None => None end
  end.

Definition body_ok_fl (fl : bool * bool * bool) (o : bool) (f : obj) : bool :=
  let '(l, g, lim) := fl in body_ok l g lim o f.

Lemma body_ok_stamp : forall l g lim o v f, body_ok l g lim o (oset k_spec_version v f) = body_ok l g lim o f.
Proof.
  intros l g lim o v f. unfold body_ok. rewrite language_ok_oset by key_neq. now rewrite !olookup_oset_other by key_neq.
Qed.

Lemma step_flags : forall name m fl fl' o tx fr f,
  migration_of_name name = Some m -> flags_after name fl = Some fl' ->
  body_ok_fl fl o f = true -> body_ok_fl fl' o (fst (m tx fr f)) = true.
Proof.
  intros name m [[l g] lim] fl' o tx fr f Hm Hf H. unfold migration_of_name in Hm. unfold flags_after in Hf. cbn [body_ok_fl] in H.
  destruct (String.eqb name "Migrate13_1"); [inversion Hm; inversion Hf; subst; now apply migrate_13_1_valid|].
  destruct (String.eqb name "Migrate13_2"); [inversion Hm; inversion Hf; subst; now apply (migrate_13_2_valid l)|].
  destruct (String.eqb name "Migrate13_3"); [inversion Hm; inversion Hf; subst; now apply migrate_13_3_valid|].
  destruct (String.eqb name "Migrate13_4"); [inversion Hm; inversion Hf; subst; now apply migrate_13_4_valid|].
  destruct (String.eqb name "Migrate13_5").
  { destruct g; [discriminate|]. inversion Hm; inversion Hf; subst. now apply migrate_13_5_valid. }
  destruct (String.eqb name "Migrate13_6"); [|discriminate].
  destruct lim; [discriminate|]. inversion Hm; inversion Hf; subst. now apply migrate_13_6_valid.
Qed.

Lemma apply_versions_flags : forall tx steps fl fl' o fr f j' fr',
  run_flags (map snd steps) fl = Some fl' -> body_ok_fl fl o f = true ->
  apply_versions tx steps fr f = (MOut j', fr') ->
  exists f', j' = JObj f' /\ body_ok_fl fl' o f' = true.
Proof.
  intros tx steps. induction steps as [|[v name] rest IH]; intros fl fl' o fr f j' fr' Hr H Ha.
  - cbn in Hr, Ha. inversion Hr; inversion Ha; subst. eauto.
  - cbn [map snd run_flags] in Hr. cbn [apply_versions] in Ha.
    destruct (migration_of_name name) as [m|] eqn:Em; [|discriminate].
    destruct (flags_after name fl) as [fl1|] eqn:Ef; [|discriminate].
    pose proof (step_flags name m fl fl1 o tx fr f Em Ef H) as H1.
    destruct (m tx fr f) as [f1 fr1]. cbn [fst] in H1.
    apply (IH fl1 fl' o fr1 (oset k_spec_version (JStr (version_text v)) f1) j' fr' Hr); [|exact Ha].
    destruct fl1 as [[l1 g1] lim1]. cbn [body_ok_fl] in *. now rewrite body_ok_stamp.
Qed.

Lemma vle_negb_vlt : forall a b, vle a b = negb (vlt b a).
Proof.
  intros a b. destruct (vlt b a) eqn:E; cbn [negb].
  - destruct (vle a b) eqn:E2; [|reflexivity]. apply vlt_true in E. apply vle_true in E2. contradiction.
  - now apply vlt_false_vle.
Qed.

(* finite obligation over the generated table, for every source version at once: the functions selected for
   MigrateToLatest, in their order, take the requirements that hold at the source version to all of them *)
Lemma latest_flags : forall from,
  run_flags (map snd (select_versions registered from None)) (vle v13_2 from, vle v13_5 from, vle v13_6 from)
  = Some (true, true, true).
Proof.
  intro from. rewrite !vle_negb_vlt. unfold select_versions, registered, v13_2, v13_5, v13_6. cbn [filter fst].
  destruct (vlt from (13, 6, 0)); destruct (vlt from (13, 5, 0)); destruct (vlt from (13, 4, 0));
    destruct (vlt from (13, 3, 0)); destruct (vlt from (13, 2, 0)); destruct (vlt from (13, 1, 0)); vm_compute; reflexivity.
Qed.

(* ---- valid at its version  ->  loads at the current version after MigrateToLatest ----------------------------------------- *)

Lemma valid_after : forall tx j fr j' fr',
  valid_source_with true j = true ->
  migrate_to_latest tx j fr = (MOut j', fr') ->
  valid_current j' = true.
Proof.
  intros tx j fr j' fr' Hv Hm. pose proof Hm as Hs. unfold migrate_to_latest in Hs. apply stamped in Hs.
  destruct Hs as [from [v [Hh [Hh' [_ [_ Hcur]]]]]]. subst v.
  unfold valid_source_with in Hv. rewrite Hh in Hv. destruct (header_is_object _ _ Hh) as [f ->].
  unfold migrate_to_latest, migrate_to, migrate_with in Hm. rewrite Hh in Hm.
  destruct (select_versions registered from None) as [|s0 steps] eqn:Es; [discriminate|].
  pose proof (latest_flags from) as Hf. rewrite Es in Hf.
  unfold valid_body_at in Hv. cbn [orb] in Hv.
  destruct (apply_versions_flags tx (s0 :: steps) _ _ true fr f j' fr' Hf Hv Hm) as [f' [-> Hb]].
  unfold valid_current. rewrite Hh'. cbn [body_ok_fl] in Hb. rewrite Hb, vle_refl, andb_true_r.
  apply N.leb_refl.
Qed.

(* ---- witnesses ------------------------------------------------------------------------------------------------------------ *)

Definition u (x : string) : json := JStr (s x).

(* a 13.0 definition with a templated send_msg, an over-long set_run_result name and an over-long category *)
Definition example_13_0 : json :=
  JObj [(s "uuid", u "25a2d8b2-ae7c-4fed-964a-506fb8c3f0c0"); (s "name", u "T"); (s "spec_version", u "13.0.0");
        (s "language", u "base"); (s "type", u "messaging");
        (s "nodes", JArr [JObj [
           (s "uuid", u "32bc60ad-5c86-465e-a6b8-049c44ecce49");
           (s "actions", JArr [
              JObj [(s "uuid", u "9d9290a7-3713-4c22-8821-4af0a64c0821"); (s "type", u "send_msg"); (s "text", u "hi @webhook");
                    (s "templating", JObj [(s "template", JObj [(s "uuid", u "3ce100b7-a734-4b4e-891b-350b1279ade2"); (s "name", u "revive")]);
                                           (s "variables", JArr [u "@webhook.name"])])];
              JObj [(s "uuid", u "9d9290a7-3713-4c22-8821-4af0a64c0822"); (s "type", u "set_run_result");
                    (s "name", u "My result name That is too long for goflow why do people do this to me");
                    (s "category", u "Once again this too long why people why just use something short")]]);
           (s "exits", JArr [JObj [(s "uuid", u "2d481ce6-efcf-4898-a825-f76208e32f2a")]])]])].

(* the hypotheses of valid_after can be met, and the migration does run *)
Example valid_after_applies :
  valid_source_with true example_13_0 = true
  /\ match fst (migrate_to_latest (fun x => x) example_13_0 [s "f1"; s "f2"]) with MOut _ => True | _ => False end.
Proof. split; [vm_compute; reflexivity | vm_compute; exact I]. Qed.

(* F12: a 13.5 definition whose call_webhook has a result_name of 70 characters *)
Definition example_f12 : json :=
  JObj [(s "uuid", u "25a2d8b2-ae7c-4fed-964a-506fb8c3f0c0"); (s "name", u "T"); (s "spec_version", u "13.5.0");
        (s "language", u "eng"); (s "type", u "messaging");
        (s "nodes", JArr [JObj [
           (s "uuid", u "32bc60ad-5c86-465e-a6b8-049c44ecce49");
           (s "actions", JArr [
              JObj [(s "uuid", u "9d9290a7-3713-4c22-8821-4af0a64c0821"); (s "type", u "call_webhook"); (s "method", u "GET");
                    (s "url", u "http://x.io");
                    (s "result_name", u "Names should be catchy and short pleaseeeeeeeeeeeeeeeeeeeeeeeeeeeeeeeeeee")]]);
           (s "exits", JArr [JObj [(s "uuid", u "2d481ce6-efcf-4898-a825-f76208e32f2a")]])]])].

(* without the extra hypothesis the statement is false of the code as it is: valid at 13.5, not loadable after *)
Lemma valid_after_refuted :
  exists j, valid_source j = true
    /\ match fst (migrate_to_latest (fun x => x) j []) with MOut j' => valid_current j' = false | _ => False end.
Proof. exists example_f12. split; vm_compute; reflexivity. Qed.

(* the hypotheses of the other theorems of props/C16.v can be met (closed computations) *)
Definition example_current : json :=
  JObj [(s "uuid", u "25a2d8b2-ae7c-4fed-964a-506fb8c3f0c0"); (s "name", u "T"); (s "spec_version", u "13.6.0");
        (s "language", u "eng"); (s "type", u "messaging"); (s "nodes", JArr [])].

Example untouched_applies :
  header_version example_current = Some current_spec_version /\ vle current_spec_version current_spec_version = true
  /\ valid_current example_current = true.
Proof. vm_compute. auto. Qed.

Example stepwise_applies :
  match fst (migrate_to (fun x => x) example_13_0 (Some (13, 2, 0)) [s "f1"; s "f2"]) with MOut _ => True | _ => False end
  /\ vle (13, 2, 0) (13, 4, 0) = true.
Proof. split; [vm_compute; exact I | reflexivity]. Qed.
