(* GroupsProofs.v — facts about the re-evaluation of query based groups (model/Modifiers.v: reeval_loop,
   reevaluate_query_groups, reevaluate_groups, ensure_query_groups) and the SPECIFICATION side of property C06:
   [Consistent E c] = "the contact belongs to a query-based group exactly when it is active and the group's
   query matches" ([qualifies] is the model of Group.CheckQueryBasedMembership = active && query matches). *)
From Coq Require Import List NArith Bool Lia Setoid.
From Verif Require Import model.Contact model.Modifiers proofs.ModifiersBase.
Import ListNotations.
Open Scope N_scope.

(* ---- specification ------------------------------------------------------------------------------------ *)
(* stored membership is a set of groups the assets know *)
Definition wf_contact (E : menv) (c : contact) : Prop :=
  NoDup (c_groups c) /\ incl (c_groups c) (all_groups E).

Definition Consistent (E : menv) (c : contact) : Prop :=
  forall g, In g (all_groups E) -> uses_query E g = true ->
            (In g (c_groups c) <-> qualifies E g c = true).

Definition NoStaticIfInactive (E : menv) (c : contact) : Prop :=
  is_active c = false -> forall g, In g (c_groups c) -> uses_query E g = true.

(* the groups-changed events, in order, applied to a membership list *)
Definition group_events_sum (evs : list event) (gs : list N) : list N :=
  fold_left (fun gs e => match e with
                         | EGroupsChanged a r => fold_left remove_group r (fold_left add_group a gs)
                         | EContactRefreshed c' => c_groups c'
                         | _ => gs
                         end) evs gs.

Lemma qualifies_groups : forall E g c gs, qualifies E g (with_groups c gs) = qualifies E g c.
Proof. intros E g [n l s z t u gr f k] gs. reflexivity. Qed.

Lemma qualifies_inactive : forall E g c, is_active c = false -> qualifies E g c = false.
Proof. intros E g c H. unfold qualifies. rewrite H. reflexivity. Qed.

(* ---- folds of add/remove ------------------------------------------------------------------------------- *)
Lemma fold_remove_other : forall g removed A, ~ In g removed ->
  (In g (fold_left remove_group removed A) <-> In g A).
Proof.
  induction removed as [|r removed IH]; cbn [fold_left]; intros A Hn; [tauto|].
  rewrite IH by (intro H; apply Hn; right; exact H).
  unfold remove_group. apply gremove_other. intro e. apply Hn. left. symmetry. exact e.
Qed.

Lemma fold_remove_snoc : forall g removed A, ~ In g removed ->
  fold_left remove_group removed (A ++ [g]) = fold_left remove_group removed A ++ [g].
Proof.
  induction removed as [|r removed IH]; cbn [fold_left]; intros A Hn; [reflexivity|].
  assert (Hs : remove_group (A ++ [g]) r = remove_group A r ++ [g]).
  { unfold remove_group. apply gremove_snoc_other. intro e. apply Hn. left. symmetry. exact e. }
  rewrite Hs. apply IH. intro H. apply Hn. right. exact H.
Qed.

Lemma fold_remove_self : forall l, fold_left remove_group l l = [].
Proof.
  induction l as [|x l IH]; [reflexivity|].
  change (fold_left remove_group l (gremove x (x :: l)) = []). cbn [gremove]. rewrite N.eqb_refl. exact IH.
Qed.

Lemma fold_left_snoc : forall (A B : Type) (f : A -> B -> A) l x a, fold_left f (l ++ [x]) a = f (fold_left f l a) x.
Proof. intros A B f l x a. rewrite fold_left_app. reflexivity. Qed.

(* ---- the loop of ReevaluateQueryBasedGroups ---------------------------------------------------------- *)
Section Loop.
Variable E : menv.
Variable c : contact.

(* the reported added/removed lists, replayed (all additions, then all removals) over the membership the loop
   started from, give the membership the loop ends with — for ANY starting list, duplicates included *)
Lemma reeval_loop_replay : forall todo base cur added removed cur' added' removed',
  (forall g, In g added -> qualifies E g c = true) ->
  (forall g, In g removed -> qualifies E g c = false) ->
  cur = fold_left remove_group removed (fold_left add_group added base) ->
  reeval_loop E c todo cur added removed = (cur', added', removed') ->
  cur' = fold_left remove_group removed' (fold_left add_group added' base)
  /\ (forall g, In g added' -> qualifies E g c = true)
  /\ (forall g, In g removed' -> qualifies E g c = false).
Proof.
  induction todo as [|h todo IH]; cbn; intros base cur added removed cur' added' removed' Ha Hr Hc H.
  - inversion H; subst. auto.
  - destruct (uses_query E h); cbn in H; [|eapply IH; eassumption].
    destruct (qualifies E h c) eqn:Hq.
    + destruct (gmem h cur) eqn:Hm; [eapply IH; eassumption|].
      eapply IH; [ | exact Hr | | exact H].
      * intros g Hg. apply in_app_iff in Hg. destruct Hg as [Hg|[Hg|[]]]; [apply Ha; exact Hg | subst; exact Hq].
      * assert (Hnr : ~ In h removed) by (intro Hin; apply Hr in Hin; congruence).
        rewrite fold_left_snoc. apply gmem_false in Hm. rewrite Hc in Hm.
        rewrite fold_remove_other in Hm by exact Hnr.
        unfold add_group at 1. rewrite (proj2 (gmem_false _ _) Hm).
        rewrite fold_remove_snoc by exact Hnr. rewrite <- Hc. reflexivity.
    + destruct (gmem h cur) eqn:Hm; [|eapply IH; eassumption].
      eapply IH; [exact Ha | | | exact H].
      * intros g Hg. apply in_app_iff in Hg. destruct Hg as [Hg|[Hg|[]]]; [apply Hr; exact Hg | subst; exact Hq].
      * rewrite fold_left_snoc. rewrite <- Hc. reflexivity.
Qed.

(* membership after the loop, and exactly which groups are reported *)
Ltac split_g h g todo :=
  destruct (N.eq_dec h g) as [e|ne];
  [ subst g;
    assert (Hhh : (h = h) <-> True) by (split; auto); rewrite ?Hhh; clear Hhh;
    destruct (in_dec N.eq_dec h todo)
  | assert (Hhg : (h = g \/ In g todo) <-> In g todo)
      by (split; [intros [?|?]; [congruence|assumption] | auto]);
    assert (Hhg2 : (h = g) <-> False) by (split; [exact ne | intros []]);
    rewrite ?Hhg, ?Hhg2; clear Hhg Hhg2 ].

Lemma reeval_loop_spec : forall todo cur added removed cur' added' removed',
  NoDup cur ->
  reeval_loop E c todo cur added removed = (cur', added', removed') ->
  NoDup cur'
  /\ (forall g, In g cur' <-> ((uses_query E g = true /\ In g todo) /\ qualifies E g c = true)
                             \/ (~ (uses_query E g = true /\ In g todo) /\ In g cur))
  /\ (forall g, In g added' <-> In g added
                               \/ (uses_query E g = true /\ In g todo /\ qualifies E g c = true /\ ~ In g cur))
  /\ (forall g, In g removed' <-> In g removed
                                 \/ (uses_query E g = true /\ In g todo /\ qualifies E g c = false /\ In g cur)).
Proof.
  induction todo as [|h todo IH]; cbn [reeval_loop In]; intros cur added removed cur' added' removed' Hnd H.
  - inversion H; subst. split; [exact Hnd|]. repeat split; intros; tauto.
  - destruct (uses_query E h) eqn:Hu; cbn [negb] in H.
    2:{ destruct (IH _ _ _ _ _ _ Hnd H) as [N1 [S1 [S2 S3]]]. split; [exact N1|].
        split; [|split]; intro g; [rewrite S1 | rewrite S2 | rewrite S3];
          (split_g h g todo; solve [intuition (try congruence)]). }
    destruct (qualifies E h c) eqn:Hq.
    + destruct (gmem h cur) eqn:Hm.
      * apply gmem_In in Hm. destruct (IH _ _ _ _ _ _ Hnd H) as [N1 [S1 [S2 S3]]]. split; [exact N1|].
        split; [|split]; intro g; [rewrite S1 | rewrite S2 | rewrite S3];
          (split_g h g todo; solve [intuition (try congruence)]).
      * apply gmem_false in Hm.
        assert (Hnd1 : NoDup (cur ++ [h])) by (apply nodup_snoc; assumption).
        destruct (IH _ _ _ _ _ _ Hnd1 H) as [N1 [S1 [S2 S3]]]. split; [exact N1|].
        split; [|split]; intro g; [rewrite S1 | rewrite S2 | rewrite S3]; rewrite ?in_app_iff; cbn [In];
          (split_g h g todo; solve [intuition (try congruence)]).
    + destruct (gmem h cur) eqn:Hm.
      * apply gmem_In in Hm.
        assert (Hnd1 : NoDup (gremove h cur)) by (apply gremove_nodup; exact Hnd).
        assert (Hnot : ~ In h (gremove h cur)) by (apply gremove_nodup_notin; exact Hnd).
        destruct (IH _ _ _ _ _ _ Hnd1 H) as [N1 [S1 [S2 S3]]]. split; [exact N1|].
        split; [|split]; intro g; [rewrite S1 | rewrite S2 | rewrite S3]; rewrite ?in_app_iff; cbn [In];
          (split_g h g todo;
           rewrite ?(gremove_other h g cur) by (intro; apply ne; congruence); solve [intuition (try congruence)]).
      * apply gmem_false in Hm. destruct (IH _ _ _ _ _ _ Hnd H) as [N1 [S1 [S2 S3]]]. split; [exact N1|].
        split; [|split]; intro g; [rewrite S1 | rewrite S2 | rewrite S3];
          (split_g h g todo; solve [intuition (try congruence)]).
Qed.

End Loop.

(* ---- ReevaluateQueryBasedGroups as a whole -------------------------------------------------------------- *)
Section Top.
Variable E : menv.

Lemma filter_all : forall (A : Type) (p : A -> bool) l, (forall x, In x l -> p x = true) -> filter p l = l.
Proof.
  induction l as [|x l IH]; cbn; intro H; [reflexivity|].
  rewrite (H x (or_introl eq_refl)). f_equal. apply IH. intros y Hy. apply H. right. exact Hy.
Qed.

Lemma sum_groups_event : forall added removed gs,
  group_events_sum (groups_event added removed) gs
  = fold_left remove_group removed (fold_left add_group added gs).
Proof. intros [|a added] [|r removed] gs; reflexivity. Qed.

(* One call of ReevaluateQueryBasedGroups, from any stored membership without duplicates:
   - afterwards membership of every query based group the assets know equals "active and the query matches";
   - [added] / [removed] are exactly the groups whose membership was wrong (the symmetric difference);
   - no other membership changes; and the reported lists replay to the new membership. *)
Lemma reevaluate_query_groups_spec : forall c cur added removed,
  NoDup (c_groups c) ->
  reevaluate_query_groups E c = (cur, added, removed) ->
  NoDup cur
  /\ Consistent E (with_groups c cur)
  /\ (forall g, In g added <-> (In g (all_groups E) /\ uses_query E g = true)
                              /\ qualifies E g c = true /\ ~ In g (c_groups c))
  /\ (forall g, In g removed <-> (In g (all_groups E) /\ uses_query E g = true)
                                /\ qualifies E g c = false /\ In g (c_groups c))
  /\ (forall g, ~ (In g (all_groups E) /\ uses_query E g = true) -> (In g cur <-> In g (c_groups c)))
  /\ cur = fold_left remove_group removed (fold_left add_group added (c_groups c)).
Proof.
  intros c cur added removed Hnd H. unfold reevaluate_query_groups in H.
  destruct (reeval_loop_spec E c _ _ _ _ _ _ _ Hnd H) as [N1 [S1 [S2 S3]]].
  destruct (reeval_loop_replay E c _ (c_groups c) _ _ _ _ _ _
              (fun g (F : In g []) => match F with end) (fun g (F : In g []) => match F with end) eq_refl H)
    as [R1 _].
  split; [exact N1|]. split; [|split; [|split; [|split]]].
  - intros g Hall Hu. cbn [c_groups with_groups]. rewrite qualifies_groups, S1.
    destruct (qualifies E g c); intuition congruence.
  - intro g. rewrite S2. cbn [In]. intuition.
  - intro g. rewrite S3. cbn [In]. intuition.
  - intros g Hn. rewrite S1. intuition.
  - exact R1.
Qed.

(* modifiers.ReevaluateGroups: additionally a non-active contact leaves all its groups *)
Lemma reevaluate_groups_spec : forall c c' evs,
  wf_contact E c ->
  reevaluate_groups E c = (c', evs) ->
  c' = with_groups c (c_groups c')
  /\ wf_contact E c'
  /\ Consistent E c'
  /\ (is_active c = false -> c_groups c' = [])
  /\ group_events_sum evs (c_groups c) = c_groups c'
  /\ (is_active c = true ->
      forall g, ~ (In g (all_groups E) /\ uses_query E g = true) -> (In g (c_groups c') <-> In g (c_groups c)))
  /\ (evs = [] /\ c_groups c' = c_groups c \/ exists a r, evs = [EGroupsChanged a r]).
Proof.
  intros c c' evs [Hnd Hincl] H. unfold reevaluate_groups in H.
  destruct (reevaluate_query_groups E c) as [[cur added] removed] eqn:HR.
  destruct (reevaluate_query_groups_spec c cur added removed Hnd HR) as [N1 [C1 [SA [SR [St R1]]]]].
  assert (Hcur_incl : incl cur (all_groups E)).
  { intros g Hg. destruct (in_dec N.eq_dec g (all_groups E)) as [Hi|Hni]; [exact Hi|].
    apply Hincl. apply St; [intros [Hi _]; exact (Hni Hi) | exact Hg]. }
  destruct (is_active c) eqn:Hact; cbn [negb] in H; inversion H; subst c' evs; cbn [c_groups with_groups].
  - split; [destruct c; reflexivity|]. split; [split; assumption|]. split; [exact C1|].
    split; [discriminate|]. split; [rewrite sum_groups_event; symmetry; exact R1|]. split; [intros _; exact St|].
    destruct added as [|a added]; [destruct removed as [|r removed]|]; cbn [groups_event].
    + left. split; [reflexivity | exact R1].
    + right. eexists; eexists; reflexivity.
    + right. eexists; eexists; reflexivity.
  - (* every group left after the loop is static *)
    assert (Hstatic : forall g, In g cur -> negb (uses_query E g) = true).
    { intros g Hg. destruct (uses_query E g) eqn:Hu; [|reflexivity]. exfalso.
      assert (Hall : In g (all_groups E)) by (apply Hcur_incl; exact Hg).
      specialize (C1 g Hall Hu). cbn [c_groups with_groups] in C1. rewrite qualifies_groups in C1.
      apply C1 in Hg. rewrite qualifies_inactive in Hg by exact Hact. discriminate. }
    split; [destruct c; reflexivity|]. split; [split; [constructor | intros g []]|].
    split; [intros g Hall Hu; cbn [c_groups with_groups]; rewrite qualifies_groups, qualifies_inactive by exact Hact;
            split; [intros [] | discriminate]|].
    split; [reflexivity|]. split.
    + rewrite sum_groups_event, fold_left_app, <- R1, (filter_all _ _ cur Hstatic). apply fold_remove_self.
    + split; [discriminate|].
      destruct added as [|a added]; [destruct (removed ++ filter (fun g => negb (uses_query E g)) cur) as [|r rs] eqn:Hrm|];
        cbn [groups_event].
      * left. split; [reflexivity|]. apply app_eq_nil in Hrm. destruct Hrm as [Hr0 Hf0]. subst removed.
        rewrite (filter_all _ _ cur Hstatic) in Hf0. subst cur. cbn in R1. exact R1.
      * right. eexists; eexists; reflexivity.
      * right. eexists; eexists; reflexivity.
Qed.

End Top.
