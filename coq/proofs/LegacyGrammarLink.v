(* LegacyGrammarLink.v — C17: the precedence ladder and the operator spellings that model/LegacySyntax.v
   hard-codes for Excellent3 (prec, neg_prec, op_text; written by hand from antlr/Excellent3.g4) agree with the table
   coq/gen/GrammarE3.v that translators/g4ex3.py regenerates from the .g4 on every run (the table the Excellent3
   parser model of C11/C12, model/ExParser.v, computes its precedences from).  A reordering of the alternatives
   of `expression` or a changed operator token in Excellent3.g4 breaks these obligations. *)
From Coq Require Import List NArith Bool Arith.
From Verif Require Import model.LegacyTy model.LegacySyntax.
From Verif Require model.ExSyntax gen.GrammarE3 model.ExParser.
Import ListNotations.
Open Scope N_scope.

Module X := ExSyntax.

Definition kind_of (o : binop) : X.kind :=
  match o with
  | OExp => X.EXPONENT | OMul => X.TIMES | ODiv => X.DIVIDE | OAdd => X.PLUS | OSub => X.MINUS
  | OLte => X.LTE | OLt => X.LT | OGte => X.GTE | OGt => X.GT | OEq => X.EQ | ONeq => X.NEQ | OAmp => X.AMPERSAND
  end.

Definition all_ops : list binop := [OExp; OMul; ODiv; OAdd; OSub; OLte; OLt; OGte; OGt; OEq; ONeq; OAmp].

(* precedence the generated-table parser model gives to a binary operator *)
Definition rank (o : binop) : option nat := option_map fst (ExParser.binop_of (kind_of o)).

(* same order: o1 binds at most as tight as o2 in the hand-written ladder iff it does in the generated table;
   the prefix minus binds tighter than every binary operator in both *)
Definition ladder_agrees : bool :=
  forallb (fun o1 =>
    forallb (fun o2 =>
      match rank o1, rank o2 with
      | Some r1, Some r2 => Bool.eqb (Nat.leb (prec o1) (prec o2)) (Nat.leb r1 r2)
      | _, _ => false
      end) all_ops) all_ops
  && match ExParser.prefix_lookup GrammarE3.expr_alts (length GrammarE3.expr_alts) X.MINUS with
     | Some rn => forallb (fun o => match rank o with Some r => Nat.ltb r rn && Nat.ltb (prec o) neg_prec | None => false end) all_ops
     | None => false
     end.

Lemma ladder_agrees_ok : ladder_agrees = true.
Proof. vm_compute. reflexivity. Qed.

(* the lexer rules of the generated table spell every operator as op_text does *)
Definition spelling_agrees : bool :=
  forallb (fun o =>
    existsb (fun r => X.kind_eqb (fst r) (kind_of o) &&
                      match snd r with X.SLit s => text_eqb s (op_text o) | _ => false end) GrammarE3.lexer_rules) all_ops.

Lemma spelling_agrees_ok : spelling_agrees = true.
Proof. vm_compute. reflexivity. Qed.
