(* ExC11.v — the statements of props/C11.v in their final argument order, assembled from ExPrintProofs.v,
   ExRoundtrip.v, ExTokok.v. *)
From Coq Require Import List NArith Bool Arith Lia.
From Verif Require Import lib.Quote model.ExSyntax model.ExLexer model.ExParser model.ExPrinter gen.GrammarE3
  model.ExScanner model.ExRefactor model.ExTemplate
  proofs.QuoteProofs proofs.ExPrintProofs proofs.ExLexerProofs proofs.ExRoundtrip proofs.ExTokok
  proofs.ExScannerProofs proofs.ExRefactorProofs proofs.ExRender proofs.ExParserTotal proofs.ExGlue proofs.ExTreeWf proofs.ExTokName.
Import ListNotations.
Open Scope N_scope.

(* printing is a fixed point after one round *)
Theorem print_fixpoint_stmt : forall (lower : N -> N) (printable : N -> bool) e,
  (forall c, lower (lower c) = lower c) ->
  print lower printable (norm lower e) = print lower printable e
  /\ norm lower (norm lower e) = norm lower e.
Proof. intros lower printable e H. split; [apply print_norm; exact H|apply norm_idem; exact H]. Qed.

(* Lemma A and the token-level round trip for everything the lexer and parser accept *)
Theorem reparse_tokens_stmt : forall (lower : N -> N) (printable : N -> bool) inp ts t,
  printable 10 = false -> valid_codepoints inp ->
  lex inp = LOk ts -> parse_tokens ts = POk t ->
  alike ts (ptoks lower printable t)
  /\ parse_tokens (ptoks lower printable t) = POk (norm lower t).
Proof.
  intros lower printable inp ts t Hnl Hv HL HP.
  apply (reparse_tokens lower printable Hnl ts t); [|exact HP]. eapply lex_tokok; eassumption.
Qed.

(* the hypotheses are satisfiable and the statement is not vacuous:  - Foo.Bar ^ 2 * f(x, "a\\") [ 01.50 ]  *)
Example reparse_tokens_witness :
  let lower := fun c => if (65 <=? c) && (c <=? 90) then c + 32 else c in
  let printable := fun c => (32 <=? c) && (c <? 127) in
  let inp := [45; 32; 70; 111; 111; 46; 66; 97; 114; 32; 94; 32; 50; 32; 42; 32; 102; 40; 120; 44; 32; 34; 97; 92; 92; 34; 41;
              32; 91; 32; 48; 49; 46; 53; 48; 32; 93] in
  printable 10 = false /\ valid_codepoints inp /\ (forall c, lower (lower c) = lower c) /\
  exists ts t, lex inp = LOk ts /\ parse_tokens ts = POk t /\ norm lower t <> t.
Proof.
  cbv zeta. split; [reflexivity|]. split; [repeat constructor|]. split.
  { intros c. destruct ((65 <=? c) && (c <=? 90)) eqn:E; [|rewrite E; reflexivity].
    replace ((65 <=? c + 32) && (c + 32 <=? 90)) with false by lia. reflexivity. }
  eexists. eexists. split; [vm_compute; reflexivity|]. split; [vm_compute; reflexivity|]. vm_compute. discriminate.
Qed.

(* refactor.Template with a transformation that reports "unchanged" returns the template verbatim *)
Theorem identity_verbatim_stmt : forall (isln : N -> bool) (lower : N -> N) (printable : N -> bool) tops s,
  isln 0 = false -> isln 46 = false -> nulfree s ->
  exists errs inside,
    refactor_template isln lower printable (fun _ => None) tops s = Ok (s, errs, inside).
Proof. intros isln lower printable tops s H0 Hd Hn. exact (refactor_unchanged_verbatim isln lower H0 Hd printable tops s Hn). Qed.

(* ContextRefRename changes exactly the matching free references *)
Theorem rename_exact_stmt : forall (is_from : ExSyntax.text -> bool) (to : ExSyntax.text) e,
  frefs is_from (rename is_from to e) = map (fun n => if is_from n then to else n) (frefs is_from e)
  /\ brefs is_from (rename is_from to e) = brefs is_from e
  /\ erase (rename is_from to e) = erase e
  /\ (existsb is_from (frefs is_from e) = false -> rename is_from to e = e).
Proof.
  intros is_from to e. destruct (rename_exact is_from to e) as (H1 & H2 & H3).
  split; [exact H1|]. split; [exact H2|]. split; [exact H3|].
  intros H. apply rename_no_match; exact H.
Qed.

(* the normalised tree evaluates like the original (fragment of model/ExTemplate.v) *)
Theorem eval_preserved_stmt : forall (lower : N -> N) ctx e,
  (forall c, lower (lower c) = lower c) ->
  eval_frag lower ctx (norm lower e) = eval_frag lower ctx e.
Proof. intros lower ctx e H. apply eval_frag_norm. exact H. Qed.

(* ---------------------------------------------------------------------------------------------- *)
(* the round trip on text: print, lex, parse *)

Theorem roundtrip_stmt : forall (lower : N -> N) (printable : N -> bool) inp ts t,
  printable 10 = false -> (forall c, lower (lower c) = lower c) -> valid_codepoints inp ->
  lex inp = LOk ts -> parse_tokens ts = POk t ->
  glue_free lower printable t = true ->
  exists ts', lex (print lower printable t) = LOk ts'
              /\ parse_tokens ts' = POk (norm lower t)
              /\ print lower printable (norm lower t) = print lower printable t.
Proof.
  intros lower printable inp ts t Hnl Hid Hv HL HP HG.
  exists (ptoks lower printable t). split; [apply lex_print; exact HG|].
  split; [apply (reparse_tokens_stmt lower printable inp ts t Hnl Hv HL HP)|apply print_norm; exact Hid].
Qed.

Definition w_lower (c : N) : N :=
  if (65 <=? c) && (c <=? 90) then c + 32 else if c =? 0x13A0 then 0xAB70 else c.
Definition w_printable (c : N) : bool := (32 <=? c) && (c <? 127).

Lemma w_lower_idem c : w_lower (w_lower c) = w_lower c.
Proof.
  unfold w_lower. destruct ((65 <=? c) && (c <=? 90)) eqn:E.
  - replace ((65 <=? c + 32) && (c + 32 <=? 90)) with false by lia. replace (c + 32 =? 5024) with false by lia. reflexivity.
  - destruct (c =? 5024) eqn:E2.
    + reflexivity.
    + rewrite E, E2. reflexivity.
Qed.

(* witnesses, computed once *)
Definition r_inp1 : ExSyntax.text := [0x13A0].
Definition r_inp2 : ExSyntax.text := [34; 97; 92; 120; 53; 99; 34; 32; 38; 32; 34; 98; 34].
Definition toks_or_nil (r : lresult) : list token := match r with LOk ts => ts | _ => [] end.
Definition tree_or_null (r : presult) : expr := match r with POk t => t | _ => ENull end.
Definition r_ts1 : list token := Eval vm_compute in toks_or_nil (lex r_inp1).
Definition r_t1 : expr := Eval vm_compute in tree_or_null (parse_tokens r_ts1).
Definition r_ts1' : list token := Eval vm_compute in toks_or_nil (lex (print w_lower w_printable r_t1)).
Definition r_ts2 : list token := Eval vm_compute in toks_or_nil (lex r_inp2).
Definition r_t2 : expr := Eval vm_compute in tree_or_null (parse_tokens r_ts2).
Definition r_ts2' : list token := Eval vm_compute in toks_or_nil (lex (print w_lower w_printable r_t2)).

(* the side condition cannot be dropped: a name whose lower-case form leaves the grammar's letter set (Cherokee
   U+13A0 -> U+AB70), and a text literal whose value ends in a backslash before a later quote (the source
   "a\x5c" & "b") — the printed text of a parseable expression does not parse *)
Theorem roundtrip_refuted :
  exists (lower : N -> N) (printable : N -> bool) inp1 inp2,
    printable 10 = false /\ (forall c, lower (lower c) = lower c) /\ valid_codepoints inp1 /\ valid_codepoints inp2 /\
    (exists ts t, lex inp1 = LOk ts /\ parse_tokens ts = POk t /\
       exists ts', lex (print lower printable t) = LOk ts' /\ parse_tokens ts' = PSyntax) /\
    (exists ts t, lex inp2 = LOk ts /\ parse_tokens ts = POk t /\
       exists ts', lex (print lower printable t) = LOk ts' /\ parse_tokens ts' = PSyntax).
Proof.
  exists w_lower, w_printable, r_inp1, r_inp2.
  split; [reflexivity|]. split; [exact w_lower_idem|]. split; [repeat constructor|]. split; [repeat constructor|].
  split.
  - exists r_ts1, r_t1. split; [vm_compute; reflexivity|]. split; [vm_compute; reflexivity|].
    exists r_ts1'. split; vm_compute; reflexivity.
  - exists r_ts2, r_t2. split; [vm_compute; reflexivity|]. split; [vm_compute; reflexivity|].
    exists r_ts2'. split; vm_compute; reflexivity.
Qed.

(* the side condition holds on ordinary expressions:  - Foo.Bar ^ 2 * f(x, "a\\") [ 01.50 ]  and  foo.1 .2  *)
Definition g_inp1 : ExSyntax.text :=
  [45; 32; 70; 111; 111; 46; 66; 97; 114; 32; 94; 32; 50; 32; 42; 32; 102; 40; 120; 44; 32; 34; 97; 92; 92; 34; 41;
   32; 91; 32; 48; 49; 46; 53; 48; 32; 93].
Definition g_inp2 : ExSyntax.text := [102; 111; 111; 46; 49; 32; 46; 50].
Definition g_ts1 : list token := Eval vm_compute in toks_or_nil (lex g_inp1).
Definition g_t1 : expr := Eval vm_compute in tree_or_null (parse_tokens g_ts1).
Definition g_ts2 : list token := Eval vm_compute in toks_or_nil (lex g_inp2).
Definition g_t2 : expr := Eval vm_compute in tree_or_null (parse_tokens g_ts2).

Example glue_free_witness :
  lex g_inp1 = LOk g_ts1 /\ parse_tokens g_ts1 = POk g_t1 /\ glue_free w_lower w_printable g_t1 = true
  /\ lex g_inp2 = LOk g_ts2 /\ parse_tokens g_ts2 = POk g_t2 /\ glue_free w_lower w_printable g_t2 = true
  /\ g_t2 = EDot (EDot (ECtxRef [102; 111; 111]) [49]) [50].
Proof. repeat split; vm_compute; reflexivity. Qed.

(* the parser model is total: its fuel never runs out; a token list is accepted (POk), rejected (PSyntax = Parse
   returns an error) or contains a text literal outside the code-point model (POutside) *)
Theorem parse_total_stmt : forall ts,
  (exists t, parse_tokens ts = POk t) \/ parse_tokens ts = PSyntax \/ parse_tokens ts = POutside.
Proof.
  intros ts. pose proof (parse_tokens_no_fuel ts) as H. destruct (parse_tokens ts) as [t| | |]; eauto. congruence.
Qed.

(* the renamed tree, printed: its tokens are parsed back to the normalised renamed tree; and if its printed text is
   glue-free (e.g. the new name is a NAME lexeme and no keyword), lexing and parsing the text refactor.Template writes
   for the expression yields it too *)
Theorem rename_reparse_stmt : forall (lower : N -> N) (printable : N -> bool) (is_from : ExSyntax.text -> bool) (to : ExSyntax.text) inp ts t,
  printable 10 = false -> valid_codepoints inp ->
  lex inp = LOk ts -> parse_tokens ts = POk t ->
  parse_tokens (ptoks lower printable (rename is_from to t)) = POk (norm lower (rename is_from to t))
  /\ (glue_free lower printable (rename is_from to t) = true ->
      exists ts', lex (print lower printable (rename is_from to t)) = LOk ts'
                  /\ parse_tokens ts' = POk (norm lower (rename is_from to t))).
Proof.
  intros lower printable is_from to inp ts t Hnl Hv HL HP.
  assert (Hok : Forall tokok ts) by (eapply lex_tokok; eassumption).
  destruct (reparse_renamed lower printable Hnl is_from to ts t Hok HP) as [_ H2].
  split; [exact H2|]. intros HG. exists (ptoks lower printable (rename is_from to t)).
  split; [apply lex_print; exact HG|exact H2].
Qed.

(* the round trip on text with the side condition on the SOURCE tree *)
Theorem roundtrip_source_stmt : forall (lower : N -> N) (printable : N -> bool) inp ts t,
  printable 10 = false -> (forall c, lower (lower c) = lower c) -> valid_codepoints inp ->
  lex inp = LOk ts -> parse_tokens ts = POk t ->
  refs_ok lower t = true -> texts_ok t = true ->
  exists ts', lex (print lower printable t) = LOk ts'
              /\ parse_tokens ts' = POk (norm lower t)
              /\ print lower printable (norm lower t) = print lower printable t.
Proof.
  intros lower printable inp ts t Hnl Hid Hv HL HP Hn Ht.
  apply (roundtrip_stmt lower printable inp ts t Hnl Hid Hv HL HP).
  apply glue_free_char; [exact Hnl|exact (parsed_shape inp ts t Hv HL HP)| |exact Ht].
  apply names_ok_split; [exact Hn|exact (parsed_src inp ts t Hv HL HP)].
Qed.

(* the two conditions hold on ordinary expressions (non-ASCII name, anonymous function, numeric lookups, every
   literal form) and fail exactly on the two refutation witnesses *)
(* the source: foreach applied to a name with a non-ASCII capital and two numeric lookups, and an anonymous function
   of X and y whose body concatenates upper(X), a text literal containing a quote, and the number 1.50, compared with true *)
Definition s_inp : ExSyntax.text :=
  [102; 111; 114; 101; 97; 99; 104; 40; 201; 97; 46; 49; 32; 46; 50; 44; 32; 40; 88; 44; 32; 121; 41; 32; 61; 62; 32;
   117; 112; 112; 101; 114; 40; 88; 41; 32; 38; 32; 34; 113; 92; 34; 34; 32; 38; 32; 49; 46; 53; 48; 32; 61; 32; 116; 114; 117; 101; 41].
Definition s_lower (c : N) : N := if (65 <=? c) && (c <=? 90) then c + 32 else if c =? 201 then 233 else if c =? 0x13A0 then 0xAB70 else c.
Definition s_ts : list token := Eval vm_compute in toks_or_nil (lex s_inp).
Definition s_t : expr := Eval vm_compute in tree_or_null (parse_tokens s_ts).

Example source_conditions_witness :
  lex s_inp = LOk s_ts /\ parse_tokens s_ts = POk s_t /\ s_t <> ENull
  /\ refs_ok s_lower s_t = true /\ texts_ok s_t = true
  /\ refs_ok s_lower r_t1 = false       (* the Cherokee name *)
  /\ texts_ok r_t2 = false.             (* the value ending in a backslash *)
Proof. repeat split; try (vm_compute; reflexivity). vm_compute. discriminate. Qed.

(* ---------------------------------------------------------------------------------------------- *)
(* ContextRefRename as a whole (proofs/ExAvoid.v): the renaming of c11_rename_exact, preceded by the step that keeps a
   renamed reference from being captured by a parameter named like the replacement *)
From Verif Require Import proofs.ExAvoid.

Theorem rename_tx_stmt : forall (lower : N -> N) (from to : ExSyntax.text) e,
  let isf := is_from lower from in
  let e1 := avoid lower from to (target_names lower to) (used_names lower e) e in
  (existsb isf (frefs isf e) = false -> rename_tx lower from to e = None)
  /\ (existsb isf (frefs isf e) = true -> rename_tx lower from to e = Some (rename isf to e1))
  /\ ((forall m, In m (target_names lower to) -> captures lower from m false e = false) -> e1 = e).
Proof.
  intros lower from to e isf e1. unfold rename_tx, rename_full. fold isf. fold e1.
  split; [intros ->; reflexivity|]. split; [intros ->; reflexivity|].
  intros H. apply avoid_id. exact H.
Qed.

Theorem rename_avoids_capture_stmt : forall (lower : N -> N) (from to : ExSyntax.text) e,
  (forall c, lower (lower c) = lower c) -> lower 95 = 95 ->
  forall m, In m (target_names lower to) ->
    captures lower from m false (avoid lower from to (target_names lower to) (used_names lower e) e) = false.
Proof. intros lower from to e H1 H2. exact (rename_full_no_capture lower H1 H2 from to e). Qed.

(* the input of hunt finding C11/1:  foreach(array(1, 2), (bar) => foo & bar)  with foo renamed to bar: the parameter
   would capture the renamed reference; it becomes bar_ and the tree prints as
   foreach(array(1, 2), (bar_) => bar & bar_) *)
Definition c_inp : ExSyntax.text :=
  [102; 111; 114; 101; 97; 99; 104; 40; 97; 114; 114; 97; 121; 40; 49; 44; 32; 50; 41; 44; 32; 40; 98; 97; 114; 41; 32; 61; 62; 32;
   102; 111; 111; 32; 38; 32; 98; 97; 114; 41].
Definition c_t : expr := Eval vm_compute in tree_or_null (parse_tokens (toks_or_nil (lex c_inp))).
Definition c_out : ExSyntax.text :=
  [102; 111; 114; 101; 97; 99; 104; 40; 97; 114; 114; 97; 121; 40; 49; 44; 32; 50; 41; 44; 32; 40; 98; 97; 114; 95; 41; 32; 61; 62; 32;
   98; 97; 114; 32; 38; 32; 98; 97; 114; 95; 41].

Example rename_capture_witness :
  c_t <> ENull
  /\ captures s_lower [102; 111; 111] [98; 97; 114] false c_t = true
  /\ option_map (print s_lower (fun _ => true)) (rename_tx s_lower [102; 111; 111] [98; 97; 114] c_t) = Some c_out.
Proof. split; [vm_compute; discriminate|]. split; vm_compute; reflexivity. Qed.

(* parameters are never merged (second hunt, finding C11/2) *)
Theorem rename_keeps_parameters_stmt : forall (lower : N -> N) (from to : ExSyntax.text) e,
  (forall c, lower (lower c) = lower c) -> lower 95 = 95 ->
  distinct_params e = true ->
  distinct_params (avoid lower from to (target_names lower to) (used_names lower e) e) = true.
Proof. intros lower from to e H1 H2. exact (rename_full_distinct lower H1 H2 from to e). Qed.

(* its input:  ((Bar, bar) => foo & bar)("1", "2")  with foo renamed to bar gives
   ((Bar_, bar_) => bar & bar_)("1", "2") : two parameters before, two after *)
Definition d_inp : ExSyntax.text := [40; 40; 66; 97; 114; 44; 32; 98; 97; 114; 41; 32; 61; 62; 32; 102; 111; 111; 32; 38; 32; 98; 97; 114; 41; 40; 34; 49; 34; 44; 32; 34; 50; 34; 41].
Definition d_t : expr := Eval vm_compute in tree_or_null (parse_tokens (toks_or_nil (lex d_inp))).
Definition d_out : ExSyntax.text := [40; 40; 66; 97; 114; 95; 44; 32; 98; 97; 114; 95; 41; 32; 61; 62; 32; 98; 97; 114; 32; 38; 32; 98; 97; 114; 95; 41; 40; 34; 49; 34; 44; 32; 34; 50; 34; 41].

Example rename_case_variant_witness :
  d_t <> ENull /\ distinct_params d_t = true
  /\ option_map (print s_lower (fun _ => true)) (rename_tx s_lower [102; 111; 111] [98; 97; 114] d_t) = Some d_out.
Proof. split; [vm_compute; discriminate|]. split; vm_compute; reflexivity. Qed.

(* what refactor.expression returns without an error is the source itself or text the parser accepts (second hunt,
   finding C11/1: the printed result of a transformation is read back) *)
Theorem refactor_output_parses_stmt : forall (lower : N -> N) (printable : N -> bool) (tx : expr -> option expr) src s,
  refactor_expression lower printable tx src = ROk s ->
  s = src \/ exists ts t, lex s = LOk ts /\ parse_tokens ts = POk t.
Proof.
  intros lower printable tx src s. unfold refactor_expression.
  destruct (lex src) as [ts0| |]; try discriminate. destruct (parse_tokens ts0) as [e| | |]; try discriminate.
  destruct (tx e) as [e'|]; [|intros H; inversion H; left; reflexivity].
  destruct (lex (print lower printable e')) as [ts'| |] eqn:EL; try discriminate.
  destruct (parse_tokens ts') as [t| | |] eqn:EP; try discriminate.
  intros H. inversion H; subst. right. exists ts', t. split; assumption.
Qed.

(* ---------------------------------------------------------------------------------------------- *)
(* the WHOLE rename pipeline (proofs/ExRenameFull.v): what ContextRefRename leaves, rename (avoid t) with the alpha steps
   of the capture-avoiding step included, printed: its tokens are kind by kind the tokens of the source and parse back
   to the normalised tree; and if the printed text is glue-free, lexing and parsing the text gives it too *)
From Verif Require Import proofs.ExRenameFull.

Theorem rename_full_reparse_stmt : forall (lower : N -> N) (printable : N -> bool) (from to : ExSyntax.text) inp ts t,
  printable 10 = false -> valid_codepoints inp ->
  lex inp = LOk ts -> parse_tokens ts = POk t ->
  let r := rename_full lower from to t in
  alike ts (ptoks lower printable r)
  /\ parse_tokens (ptoks lower printable r) = POk (norm lower r)
  /\ (glue_free lower printable r = true ->
      exists ts', lex (print lower printable r) = LOk ts' /\ parse_tokens ts' = POk (norm lower r)).
Proof.
  intros lower printable from to inp ts t Hnl Hv HL HP r.
  assert (Hok : Forall tokok ts) by (eapply lex_tokok; eassumption).
  destruct (reparse_rename_full lower printable from to ts t Hnl Hok HP) as [H1 H2]. fold r in H1, H2.
  split; [exact H1|]. split; [exact H2|]. intros HG. exists (ptoks lower printable r).
  split; [apply lex_print; exact HG|exact H2].
Qed.

(* no spurious error: for an accepted source with a free reference named like `from`, refactor.expression with the
   rename transformation returns the printed renamed tree - not an error, not "outside" - whenever that text is
   glue-free (the read-back step of refactor_expression succeeds) *)
Theorem rename_no_spurious_error_stmt : forall (lower : N -> N) (printable : N -> bool) (from to : ExSyntax.text) inp ts t,
  printable 10 = false -> valid_codepoints inp ->
  lex inp = LOk ts -> parse_tokens ts = POk t ->
  existsb (is_from lower from) (frefs (is_from lower from) t) = true ->
  glue_free lower printable (rename_full lower from to t) = true ->
  refactor_expression lower printable (rename_tx lower from to) inp = ROk (print lower printable (rename_full lower from to t)).
Proof.
  intros lower printable from to inp ts t Hnl Hv HL HP Hex HG.
  destruct (rename_full_reparse_stmt lower printable from to inp ts t Hnl Hv HL HP) as (_ & _ & H3).
  destruct (H3 HG) as (ts' & HL' & HP').
  unfold refactor_expression. rewrite HL, HP. unfold rename_tx. rewrite Hex. cbv zeta. rewrite HL', HP'. reflexivity.
Qed.

(* ... with the side conditions on the SOURCE and on the new name (proofs/ExRenameGlue.v): the conditions of
   c11_roundtrip_source on the source tree, the new name a NAME lexeme and no keyword (pname_ok of its lower case), and
   the names the replacement refers to likewise (for a replacement that is a NAME this is the same condition) *)
From Verif Require Import proofs.ExRenameGlue.

Theorem rename_full_source_stmt : forall (lower : N -> N) (printable : N -> bool) (from to : ExSyntax.text) inp ts t,
  printable 10 = false -> (forall c, lower (lower c) = lower c) -> lower 95 = 95 -> valid_codepoints inp ->
  lex inp = LOk ts -> parse_tokens ts = POk t ->
  refs_ok lower t = true -> texts_ok t = true ->
  pname_ok (map lower to) = true -> (forall n, In n (target_names lower to) -> pname_ok n = true) ->
  let r := rename_full lower from to t in
  exists ts', lex (print lower printable r) = LOk ts' /\ parse_tokens ts' = POk (norm lower r) /\ alike ts ts'.
Proof.
  intros lower printable from to inp ts t Hnl Hid Hus Hv HL HP Hr Ht Hto Hpn r.
  destruct (rename_full_reparse_stmt lower printable from to inp ts t Hnl Hv HL HP) as (H1 & H2 & H3). fold r in H1, H2, H3.
  assert (HG : glue_free lower printable r = true).
  { apply rename_full_glue_free; try assumption; [exact (parsed_shape inp ts t Hv HL HP)|].
    apply names_ok_split; [exact Hr|exact (parsed_src inp ts t Hv HL HP)]. }
  exists (ptoks lower printable r). split; [apply lex_print; exact HG|]. split; [exact H2|exact H1].
Qed.

Theorem rename_no_spurious_error_source_stmt : forall (lower : N -> N) (printable : N -> bool) (from to : ExSyntax.text) inp ts t,
  printable 10 = false -> (forall c, lower (lower c) = lower c) -> lower 95 = 95 -> valid_codepoints inp ->
  lex inp = LOk ts -> parse_tokens ts = POk t ->
  refs_ok lower t = true -> texts_ok t = true ->
  pname_ok (map lower to) = true -> (forall n, In n (target_names lower to) -> pname_ok n = true) ->
  existsb (is_from lower from) (frefs (is_from lower from) t) = true ->
  refactor_expression lower printable (rename_tx lower from to) inp = ROk (print lower printable (rename_full lower from to t)).
Proof.
  intros lower printable from to inp ts t Hnl Hid Hus Hv HL HP Hr Ht Hto Hpn Hex.
  apply (rename_no_spurious_error_stmt lower printable from to inp ts t Hnl Hv HL HP Hex).
  apply rename_full_glue_free; try assumption; [exact (parsed_shape inp ts t Hv HL HP)|].
  apply names_ok_split; [exact Hr|exact (parsed_src inp ts t Hv HL HP)].
Qed.

(* the conditions are satisfiable where the alpha step fires: the input of hunt finding C11/1 (c_t, foo renamed to bar) *)
Example rename_full_source_witness :
  refs_ok s_lower c_t = true /\ texts_ok c_t = true /\ pname_ok (map s_lower [98; 97; 114]) = true
  /\ target_names s_lower [98; 97; 114] = [[98; 97; 114]]
  /\ existsb (is_from s_lower [102; 111; 111]) (frefs (is_from s_lower [102; 111; 111]) c_t) = true
  /\ rename_full s_lower [102; 111; 111] [98; 97; 114] c_t <> rename (is_from s_lower [102; 111; 111]) [98; 97; 114] c_t.
Proof. repeat split; try (vm_compute; reflexivity). vm_compute. discriminate. Qed.
