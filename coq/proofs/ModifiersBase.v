(* ModifiersBase.v — basic facts about the data structures of model/Contact.v and model/Modifiers.v
   (boolean equalities, group lists, field maps) and the SPECIFICATION side of property C03: the caller's
   replay of contact events, written from the property sentence ("replaying the emitted events in order over
   the contact as it was before (name, language, status, timezone, URNs, fields, groups, ticket; last-seen from
   the received message) reproduces exactly the contact afterwards"), not from the code. *)
From Coq Require Import List NArith Bool Lia.
From Verif Require Import model.Contact model.Modifiers.
Import ListNotations.
Open Scope N_scope.

(* ---- boolean equalities decide equality -------------------------------------------------------------- *)
Lemma text_eqb_eq : forall a b, text_eqb a b = true <-> a = b.
Proof.
  induction a as [|x a IH]; destruct b as [|y b]; cbn; split; intro H; try congruence; try discriminate.
  - apply andb_true_iff in H. destruct H as [H1 H2]. apply N.eqb_eq in H1. apply IH in H2. congruence.
  - inversion H; subst. apply andb_true_iff. split; [apply N.eqb_refl | apply IH; reflexivity].
Qed.

Lemma listN_eqb_eq : forall a b, listN_eqb a b = true <-> a = b.
Proof. exact text_eqb_eq. Qed.

Lemma text_eqb_refl : forall a, text_eqb a a = true.
Proof. intro a. apply text_eqb_eq. reflexivity. Qed.

Lemma listN_eqb_refl : forall a, listN_eqb a a = true.
Proof. intro a. apply listN_eqb_eq. reflexivity. Qed.

Lemma optN_eqb_eq : forall a b, optN_eqb a b = true <-> a = b.
Proof.
  destruct a, b; cbn; split; intro H; try congruence; try discriminate.
  - apply N.eqb_eq in H. congruence.
  - inversion H. apply N.eqb_refl.
Qed.

Lemma status_eqb_eq : forall a b, status_eqb a b = true <-> a = b.
Proof. destruct a, b; cbn; split; intro H; congruence || discriminate. Qed.

Lemma fvalue_eqb_eq : forall a b, fvalue_eqb a b = true <-> a = b.
Proof.
  intros [t1 d1 n1 s1 i1 w1] [t2 d2 n2 s2 i2 w2]. unfold fvalue_eqb. cbn. split.
  - intro H. rewrite !andb_true_iff in H. destruct H as [[[[[Ht Hd] Hn] Hs] Hi] Hw].
    apply text_eqb_eq in Ht. apply optN_eqb_eq in Hd. apply optN_eqb_eq in Hn.
    apply text_eqb_eq in Hs. apply text_eqb_eq in Hi. apply text_eqb_eq in Hw. congruence.
  - intro H. inversion H; subst. rewrite !text_eqb_refl.
    rewrite (proj2 (optN_eqb_eq d2 d2) eq_refl), (proj2 (optN_eqb_eq n2 n2) eq_refl). reflexivity.
Qed.

Lemma ofvalue_eqb_eq : forall a b, ofvalue_eqb a b = true <-> a = b.
Proof.
  destruct a as [a|], b as [b|]; cbn; split; intro H; try congruence; try discriminate.
  - apply fvalue_eqb_eq in H. congruence.
  - inversion H. apply fvalue_eqb_eq. reflexivity.
Qed.

(* ---- group lists ----------------------------------------------------------------------------------- *)
Lemma gmem_In : forall g gs, gmem g gs = true <-> In g gs.
Proof.
  intros g gs. unfold gmem. rewrite existsb_exists. split.
  - intros [x [Hx He]]. apply N.eqb_eq in He. subst. exact Hx.
  - intro H. exists g. split; [exact H | apply N.eqb_refl].
Qed.

Lemma gmem_false : forall g gs, gmem g gs = false <-> ~ In g gs.
Proof.
  intros g gs. rewrite <- gmem_In. destruct (gmem g gs); split; intro H; congruence || (exfalso; apply H; reflexivity).
Qed.

Lemma gremove_notin : forall g gs, ~ In g gs -> gremove g gs = gs.
Proof.
  induction gs as [|x gs IH]; cbn; intro H; [reflexivity|].
  destruct (N.eqb_spec x g) as [e|ne]; [exfalso; apply H; left; exact e|].
  f_equal. apply IH. intro Hin. apply H. right. exact Hin.
Qed.

Lemma gremove_subset : forall g h gs, In h (gremove g gs) -> In h gs.
Proof.
  induction gs as [|x gs IH]; cbn; intro H; [exact H|].
  destruct (N.eqb x g); [right; exact H|]. destruct H as [H|H]; [left; exact H | right; apply IH; exact H].
Qed.

Lemma gremove_other : forall g h gs, h <> g -> (In h (gremove g gs) <-> In h gs).
Proof.
  intros g h gs Hne. split; [apply gremove_subset|].
  induction gs as [|x gs IH]; cbn; intro H; [exact H|].
  destruct (N.eqb_spec x g) as [e|ne].
  - destruct H as [H|H]; [congruence | exact H].
  - destruct H as [H|H]; [left; exact H | right; apply IH; exact H].
Qed.

Lemma gremove_nodup_notin : forall g gs, NoDup gs -> ~ In g (gremove g gs).
Proof.
  induction gs as [|x gs IH]; cbn; intros Hnd H; [exact H|].
  inversion Hnd as [|? ? Hx Hnd']; subst.
  destruct (N.eqb_spec x g) as [e|ne]; [subst; apply Hx; exact H|].
  destruct H as [H|H]; [congruence | apply IH; assumption].
Qed.

Lemma gremove_nodup : forall g gs, NoDup gs -> NoDup (gremove g gs).
Proof.
  induction gs as [|x gs IH]; cbn; intro Hnd; [constructor|].
  inversion Hnd as [|? ? Hx Hnd']; subst.
  destruct (N.eqb x g); [exact Hnd'|]. constructor; [|apply IH; exact Hnd'].
  intro H. apply Hx. eapply gremove_subset. exact H.
Qed.

Lemma nodup_snoc : forall (g : N) gs, NoDup gs -> ~ In g gs -> NoDup (gs ++ [g]).
Proof.
  induction gs as [|x gs IH]; cbn; intros Hnd Hn; [constructor; [intros []|constructor]|].
  inversion Hnd as [|? ? Hx Hnd']; subst. constructor.
  - rewrite in_app_iff. cbn. intros [H|[H|[]]]; [apply Hx; exact H | apply Hn; left; symmetry; exact H].
  - apply IH; [exact Hnd' | intro H; apply Hn; right; exact H].
Qed.

(* removing g commutes with appending another group *)
Lemma gremove_snoc_other : forall g h gs, h <> g -> gremove g (gs ++ [h]) = gremove g gs ++ [h].
Proof.
  induction gs as [|x gs IH]; cbn; intro Hne.
  - destruct (N.eqb_spec h g); [congruence | reflexivity].
  - destruct (N.eqb x g); [reflexivity|]. cbn. f_equal. apply IH. exact Hne.
Qed.

(* ---- the caller's replay (specification) ------------------------------------------------------------- *)
Definition add_group (gs : list N) (g : N) : list N := if gmem g gs then gs else gs ++ [g].
Definition remove_group (gs : list N) (g : N) : list N := gremove g gs.
Definition bare_urn (u : N) : curn := {| cu_urn := u; cu_chan := None |}.

Definition apply_event (c : contact) (e : event) : contact :=
  match e with
  | ENameChanged n => with_name c n
  | ELanguageChanged l => with_lang c l
  | EStatusChanged s => with_status c s
  | ETimezoneChanged tz => with_tz c tz
  | EURNsChanged raw => with_urns c (map bare_urn raw)
  | EGroupsChanged added removed =>
      with_groups c (fold_left remove_group removed (fold_left add_group added (c_groups c)))
  | EFieldChanged f v => with_fields c (fset f v (c_fields c))
  | ETicketOpened t _ => with_ticket c (Some t)
  | EContactRefreshed c' => c'
  | EMsgReceived seen => with_last_seen c (Some seen)
  | EError => c
  end.

Definition replay (evs : list event) (c : contact) : contact := fold_left apply_event evs c.

(* events that announce a change of the contact *)
Definition is_change_event (e : event) : bool :=
  match e with
  | EError | EMsgReceived _ => false
  | _ => true
  end.
Definition has_change_event (evs : list event) : bool := existsb is_change_event evs.

(* what a caller can see of a contact: everything but the channel pointers, fields as a map *)
Definition same_contact (a b : contact) : Prop :=
  c_name a = c_name b /\ c_lang a = c_lang b /\ c_status a = c_status b /\ c_tz a = c_tz b
  /\ c_last_seen a = c_last_seen b /\ raw_urns (c_urns a) = raw_urns (c_urns b)
  /\ c_groups a = c_groups b /\ (forall k, fget k (c_fields a) = fget k (c_fields b))
  /\ c_ticket a = c_ticket b.

Lemma erase_urns_raw : forall us, map erase_urn us = map bare_urn (raw_urns us).
Proof. intro us. unfold raw_urns. rewrite map_map. reflexivity. Qed.

Lemma raw_bare : forall l, raw_urns (map bare_urn l) = l.
Proof. intro l. unfold raw_urns. rewrite map_map. cbn. apply map_id. Qed.

Lemma erase_eq_iff_raw : forall c us us', raw_urns us = raw_urns us' -> erase (with_urns c us) = erase (with_urns c us').
Proof. intros c us us' H. unfold erase. cbn. rewrite !erase_urns_raw, H. reflexivity. Qed.

Lemma erase_same : forall a b, erase a = erase b -> same_contact a b.
Proof.
  intros [n1 l1 s1 z1 t1 u1 g1 f1 k1] [n2 l2 s2 z2 t2 u2 g2 f2 k2]. unfold erase, with_urns. cbn. intro H.
  inversion H as [[Hn Hl Hs Hz Ht Hu Hg Hf Hk]]. subst. unfold same_contact. cbn.
  repeat split; try reflexivity.
  rewrite !erase_urns_raw in Hu. apply (f_equal raw_urns) in Hu. rewrite !raw_bare in Hu. exact Hu.
Qed.

Lemma erase_idem : forall c, erase (erase c) = erase c.
Proof.
  intros [n l s z t u g f k]. unfold erase, with_urns. cbn. f_equal. rewrite map_map.
  apply map_ext. intro a. reflexivity.
Qed.

(* the replay only depends on what is visible *)
Lemma apply_event_erase : forall c d e, erase c = erase d -> erase (apply_event c e) = erase (apply_event d e).
Proof.
  intros [n1 l1 s1 z1 t1 u1 g1 f1 k1] [n2 l2 s2 z2 t2 u2 g2 f2 k2] e H.
  unfold erase, with_urns in H. cbn in H. inversion H as [[Hn Hl Hs Hz Ht Hu Hg Hf Hk]]. subst.
  destruct e; unfold erase, with_urns; cbn; try rewrite Hu; reflexivity.
Qed.

Lemma replay_erase : forall evs c d, erase c = erase d -> erase (replay evs c) = erase (replay evs d).
Proof.
  induction evs as [|e evs IH]; cbn; intros c d H; [exact H|].
  apply IH. apply apply_event_erase. exact H.
Qed.

Lemma replay_app : forall a b c, replay (a ++ b) c = replay b (replay a c).
Proof. intros a b c. unfold replay. apply fold_left_app. Qed.

Lemma replay_errors : forall evs c, Forall (fun e => e = EError) evs -> replay evs c = c.
Proof.
  induction evs as [|e evs IH]; cbn; intros c H; [reflexivity|].
  inversion H as [|? ? He Hr]; subst. cbn. apply IH. exact Hr.
Qed.

Lemma has_change_app : forall a b, has_change_event (a ++ b) = has_change_event a || has_change_event b.
Proof. intros a b. unfold has_change_event. apply existsb_app. Qed.

Lemma has_change_errors : forall evs, Forall (fun e => e = EError) evs -> has_change_event evs = false.
Proof.
  induction evs as [|e evs IH]; cbn; intro H; [reflexivity|].
  inversion H as [|? ? He Hr]; subst. cbn. apply IH. exact Hr.
Qed.

(* ---- field maps ---------------------------------------------------------------------------------------- *)
Lemma fget_fdel_same : forall k fs, fget k (fdel k fs) = None.
Proof.
  induction fs as [|[k' v] fs IH]; cbn; [reflexivity|].
  destruct (N.eqb_spec k' k) as [e|ne]; cbn; [exact IH|].
  destruct (N.eqb_spec k' k); [congruence | exact IH].
Qed.

Lemma fget_fdel_other : forall k j fs, j <> k -> fget j (fdel k fs) = fget j fs.
Proof.
  induction fs as [|[k' v] fs IH]; cbn; intro Hne; [reflexivity|].
  destruct (N.eqb_spec k' k) as [e|ne]; cbn.
  - subst. destruct (N.eqb_spec k j); [congruence | apply IH; exact Hne].
  - destruct (N.eqb k' j); [reflexivity | apply IH; exact Hne].
Qed.

Lemma fget_app : forall k a b, fget k (a ++ b) = match fget k a with Some v => Some v | None => fget k b end.
Proof.
  induction a as [|[k' v] a IH]; cbn; intro b; [reflexivity|].
  destruct (N.eqb k' k); [reflexivity | apply IH].
Qed.

(* what is stored after Set: nothing for a nil value or an empty text *)
Definition stored (v : option fvalue) : option fvalue :=
  match v with
  | Some x => match v_text x with [] => None | _ => Some x end
  | None => None
  end.

Lemma fget_fset_same : forall k v fs, fget k (fset k v fs) = stored v.
Proof.
  intros k v fs. unfold fset, stored. destruct v as [x|]; [|apply fget_fdel_same].
  destruct (v_text x); [apply fget_fdel_same|].
  rewrite fget_app, fget_fdel_same. cbn. rewrite N.eqb_refl. reflexivity.
Qed.

Lemma fget_fset_other : forall k j v fs, j <> k -> fget j (fset k v fs) = fget j fs.
Proof.
  intros k j v fs Hne. unfold fset. destruct v as [x|]; [|apply fget_fdel_other; exact Hne].
  destruct (v_text x); [apply fget_fdel_other; exact Hne|].
  rewrite fget_app, fget_fdel_other by exact Hne. destruct (fget j fs); [reflexivity|].
  cbn. destruct (N.eqb_spec k j); [congruence | reflexivity].
Qed.
