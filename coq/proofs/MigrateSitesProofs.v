(* MigrateSitesProofs.v -- the finite obligations of the rejection clause, discharged by computation over the generated
   site table (gen/AssertSites.v); re-checked whenever the table changes. *)
From Coq Require Import List Bool String.
From Verif Require Import gen.AssertSites model.MigrateSites.

Lemma assert_sites_total_true : assert_sites_total = true.
Proof. vm_compute. reflexivity. Qed.

Lemma migrations_asserts_checked_true : migrations_asserts_checked = true.
Proof. vm_compute. reflexivity. Qed.

Lemma sites_cover_packages_true : sites_cover_packages = true.
Proof. vm_compute. reflexivity. Qed.

(* the obligation, unfolded: every site has a safe form or is an accepted one *)
Lemma every_site_total : forall x, In x assert_sites -> form_safe (s_form x) = true \/ site_accepted x = true.
Proof.
  intros x Hx. pose proof assert_sites_total_true as H. unfold assert_sites_total in H.
  rewrite forallb_forall in H. specialize (H x Hx). unfold site_total in H. now apply orb_true_iff in H.
Qed.
