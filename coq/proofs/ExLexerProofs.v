(* ExLexerProofs.v — facts about the lexer model (model/ExLexer.v over the rule table gen/GrammarE3.v, which is
   regenerated from the .g4 on every run, so every lemma that computes on [lexer_rules] is re-checked against
   the grammar as it is now): fuel irrelevance, the step equation, and how a quoted literal is lexed. *)
From Coq Require Import List NArith Bool Arith Lia.
From Verif Require Import lib.Quote model.ExSyntax model.ExLexer gen.GrammarE3 proofs.QuoteProofs.
Import ListNotations.
Open Scope N_scope.

(* ---------------------------------------------------------------------------------------------- *)
(* only rules whose shape can start with the first character matter *)

Definition first_ok (sh : shape) (c : N) : bool :=
  match sh with
  | SLit (a :: _) => a =? c
  | SLit [] => true
  | SCi (a :: _) => (a =? c) || (a =? c + 32)
  | SCi [] => true
  | SText => c =? 34
  | SDigits => is_digit c
  | SDecimal => is_digit c
  | SName => name_start c
  | SWs cs => existsb (N.eqb c) cs
  | SAny => true
  end.

Lemma first_ok_sound sh c x : first_ok sh c = false ->
  match match_shape sh (c :: x) with Some (S _) => False | _ => True end.
Proof.
  destruct sh as [s|s| | | | |cs|]; cbn [first_ok match_shape]; intros H.
  - destruct s as [|a s]; [discriminate|]. cbn [m_lit]. rewrite H. exact I.
  - destruct s as [|a s]; [discriminate|]. cbn [m_ci]. rewrite H. exact I.
  - cbn [m_text]. rewrite H. exact I.
  - unfold m_digits. cbn [span_len]. rewrite H. exact I.
  - unfold m_decimal. cbn [span_len]. rewrite H. exact I.
  - cbn [m_name]. rewrite H. exact I.
  - unfold m_ws. cbn [span_len]. rewrite H. exact I.
  - discriminate.
Qed.

Lemma best_rule_filter c x : forall rules best,
  best_rule rules (c :: x) best = best_rule (filter (fun r => first_ok (snd r) c) rules) (c :: x) best.
Proof.
  induction rules as [|[k sh] r IH]; intros best; [reflexivity|].
  cbn [filter snd]. destruct (first_ok sh c) eqn:E.
  - cbn [best_rule]. apply IH.
  - cbn [best_rule]. pose proof (first_ok_sound sh c x E) as Hs.
    destruct (match_shape sh (c :: x)) as [[|n]|]; [apply IH|contradiction|apply IH].
Qed.

(* ---------------------------------------------------------------------------------------------- *)
(* fuel *)

Lemma best_rule_pos : forall rules inp best k sh n,
  (forall k' sh' n', best = Some (k', sh', n') -> (1 <= n')%nat) ->
  best_rule rules inp best = Some (k, sh, n) -> (1 <= n)%nat.
Proof.
  induction rules as [|[k0 sh0] r IH]; intros inp best k sh n Hb H.
  - cbn in H. eapply Hb; eauto.
  - cbn [best_rule] in H. eapply IH; [|exact H].
    intros k' sh' n' E. destruct (match_shape sh0 inp) as [[|m]|]; [eapply Hb; eauto| |eapply Hb; eauto].
    destruct best as [[[k1 s1] m1]|].
    + destruct (Nat.ltb m1 (S m)); [inversion E; lia|eapply Hb; eauto].
    + inversion E; lia.
Qed.

Lemma best_rule_nil : forall rules best,
  (forall k' sh' n', best = Some (k', sh', n') -> (n' <= 0)%nat) ->
  forall k' sh' n', best_rule rules [] best = Some (k', sh', n') -> (n' <= 0)%nat.
Proof.
  induction rules as [|[k0 sh0] r IH]; intros best Hb k1 s1 n1 H1; [eapply Hb; eauto|].
  cbn [best_rule] in H1. eapply IH; [|exact H1]. intros k2 s2 n2 E2.
  assert (Hm : match_shape sh0 [] = None \/ match_shape sh0 [] = Some O).
  { destruct sh0 as [s|s| | | | |cs|]; cbn; auto; destruct s; auto. }
  destruct Hm as [Hm|Hm]; rewrite Hm in E2; eapply Hb; eauto.
Qed.

Lemma lex_one_shorter inp k skip lexeme rest :
  lex_one inp = Some (k, skip, lexeme, rest) -> (length rest < length inp)%nat /\ inp = lexeme ++ rest.
Proof.
  unfold lex_one, lex_one_with. destruct (best_rule lexer_rules inp None) as [[[k' sh] n]|] eqn:E; [|discriminate].
  intros H; inversion H; subst.
  assert (Hpos : (1 <= n)%nat) by (eapply best_rule_pos; [|exact E]; intros; discriminate).
  split; [|symmetry; apply firstn_skipn].
  destruct inp as [|c inp]; [|rewrite skipn_length; cbn [length]; lia].
  exfalso. assert ((n <= 0)%nat) by (eapply best_rule_nil; [|exact E]; intros; discriminate). lia.
Qed.

Lemma lex_loop_fuel : forall f inp, (length inp <= f)%nat -> lex_loop f inp = lex_loop (length inp) inp.
Proof.
  induction f as [f IH] using lt_wf_ind. intros inp Hf.
  destruct inp as [|c inp]; [destruct f; reflexivity|].
  destruct f as [|f]; [cbn in Hf; lia|]. cbn [length lex_loop].
  destruct (lex_one (c :: inp)) as [[[[k skip] lexeme] rest]|] eqn:E; [|reflexivity].
  apply lex_one_shorter in E. destruct E as [E _]. cbn [length] in *.
  rewrite (IH f ltac:(lia) rest ltac:(lia)). rewrite (IH (length inp) ltac:(lia) rest ltac:(lia)). reflexivity.
Qed.

(* the step equation of the lexer *)
Lemma lex_step c inp :
  lex (c :: inp) =
  match lex_one (c :: inp) with
  | None => LNoRule
  | Some (k, skip, lexeme, rest) =>
      match lex rest with
      | LOk ts => LOk (if skip then ts else {| tk := k; tx := lexeme |} :: ts)
      | r => r
      end
  end.
Proof.
  unfold lex. cbn [length lex_loop].
  destruct (lex_one (c :: inp)) as [[[[k skip] lexeme] rest]|] eqn:E; [|reflexivity].
  apply lex_one_shorter in E. destruct E as [E _]. cbn [length] in E.
  rewrite (lex_loop_fuel (length inp) rest ltac:(lia)). reflexivity.
Qed.

Lemma lex_nil : lex [] = LOk [].
Proof. reflexivity. Qed.

(* ---------------------------------------------------------------------------------------------- *)
(* TEXT *)

(* through a body in which every quote is preceded by a backslash the scan continues *)
Lemma text_scan_through : forall body prev n best tail, quotes_preceded prev body = true ->
  exists best', text_scan prev n best (body ++ tail) = text_scan (last body prev) (n + length body) best' tail.
Proof.
  induction body as [|c body IH]; intros prev n best tail H.
  - exists best. cbn. rewrite Nat.add_0_r. reflexivity.
  - cbn [quotes_preceded] in H. apply andb_prop in H. destruct H as [H1 H2].
    cbn [app text_scan]. rewrite last_cons. cbn [length]. rewrite <- Nat.add_succ_comm.
    destruct (c =? 34) eqn:E.
    + cbn [negb orb] in H1. rewrite H1. apply IH. exact H2.
    + apply IH. exact H2.
Qed.

(* a literal at the end of the input is one TEXT token, whatever its last character *)
Lemma m_text_quoted_end body : quotes_preceded 34 body = true ->
  m_text (34 :: body ++ [34]) = Some (S (S (length body))).
Proof.
  intros H. cbn [m_text]. change (34 =? 34) with true. cbv iota.
  destruct (text_scan_through body 34 1 None [34] H) as [best' ->].
  cbn [text_scan]. change (34 =? 34) with true. cbv iota.
  destruct (last body 34 =? 92); reflexivity.
Qed.

(* a literal followed by more input ends at its closing quote provided that quote is not preceded by a backslash *)
Lemma m_text_quoted body tail : quotes_preceded 34 body = true -> (last body 34 =? 92) = false ->
  m_text (34 :: body ++ 34 :: tail) = Some (S (S (length body))).
Proof.
  intros H Hl. cbn [m_text]. change (34 =? 34) with true. cbv iota.
  destruct (text_scan_through body 34 1 None (34 :: tail) H) as [best' ->].
  cbn [text_scan]. change (34 =? 34) with true. cbv iota. rewrite Hl. reflexivity.
Qed.

Lemma best_text x n : m_text (34 :: x) = Some (S n) ->
  best_rule lexer_rules (34 :: x) None = Some (TEXT, SText, S n).
Proof.
  intros H. rewrite best_rule_filter.
  change (filter (fun r => first_ok (snd r) 34) lexer_rules) with [(TEXT, SText); (ERROR, SAny)].
  cbn [best_rule match_shape]. rewrite H. cbn [m_any]. destruct n; reflexivity.
Qed.

Lemma firstn_app_exact {A} (a b : list A) : firstn (length a) (a ++ b) = a.
Proof. rewrite firstn_app, Nat.sub_diag, firstn_all. cbn. apply app_nil_r. Qed.

Lemma skipn_app_exact {A} (a b : list A) : skipn (length a) (a ++ b) = b.
Proof. rewrite skipn_app, Nat.sub_diag, skipn_all. reflexivity. Qed.

Lemma lex_one_quoted_end p s :
  lex_one (quote p s) = Some (TEXT, false, quote p s, []).
Proof.
  unfold lex_one, lex_one_with, quote.
  rewrite (best_text _ _ (m_text_quoted_end _ (quote_body_quotes_preceded p s 34))).
  cbn [is_skip].
  replace (S (S (length (quote_body p s)))) with (length (34 :: quote_body p s ++ [34]))
    by (cbn [length]; rewrite app_length; cbn; lia).
  rewrite firstn_all, skipn_all. reflexivity.
Qed.

Lemma lex_one_quoted p s tail : ends_bs s = false ->
  lex_one (quote p s ++ tail) = Some (TEXT, false, quote p s, tail).
Proof.
  intros Hb. unfold lex_one, lex_one_with, quote. cbn [app]. rewrite <- app_assoc. cbn [app].
  assert (Hl : (last (quote_body p s) 34 =? 92) = false).
  { rewrite last_ends_bs by discriminate. rewrite quote_body_ends_bs. exact Hb. }
  rewrite (best_text _ _ (m_text_quoted _ tail (quote_body_quotes_preceded p s 34) Hl)).
  cbn [is_skip].
  replace (S (S (length (quote_body p s)))) with (length (34 :: quote_body p s ++ [34]))
    by (cbn [length]; rewrite app_length; cbn; lia).
  change (34 :: quote_body p s ++ 34 :: tail) with ((34 :: quote_body p s) ++ 34 :: tail).
  replace ((34 :: quote_body p s) ++ 34 :: tail) with ((34 :: quote_body p s ++ [34]) ++ tail)
    by (cbn [app]; rewrite <- app_assoc; reflexivity).
  rewrite firstn_app_exact, skipn_app_exact. reflexivity.
Qed.

Theorem lex_quoted p s : lex (quote p s) = LOk [{| tk := TEXT; tx := quote p s |}].
Proof.
  unfold quote at 1. rewrite lex_step. fold (quote p s). rewrite lex_one_quoted_end, lex_nil. reflexivity.
Qed.

(* single-character tokens used between literals *)
Lemma lex_one_amp x : lex_one (38 :: x) = Some (AMPERSAND, false, [38], x).
Proof.
  unfold lex_one, lex_one_with. rewrite best_rule_filter.
  change (filter (fun r => first_ok (snd r) 38) lexer_rules) with [(AMPERSAND, SLit [38]); (ERROR, SAny)].
  reflexivity.
Qed.

Lemma lex_one_space c x : existsb (N.eqb c) [32; 9; 10; 13] = false ->
  lex_one (32 :: c :: x) = Some (WS, true, [32], c :: x).
Proof.
  intros Hc. unfold lex_one, lex_one_with. rewrite best_rule_filter.
  change (filter (fun r => first_ok (snd r) 32) lexer_rules) with [(WS, SWs [32; 9; 10; 13]); (ERROR, SAny)].
  cbn [best_rule match_shape]. unfold m_ws. cbn [span_len]. rewrite Hc. reflexivity.
Qed.

(* literal & literal *)
Theorem lex_quoted_pair p s t : ends_bs s = false ->
  lex (quote p s ++ [32; 38; 32] ++ quote p t) =
  LOk [{| tk := TEXT; tx := quote p s |}; {| tk := AMPERSAND; tx := [38] |}; {| tk := TEXT; tx := quote p t |}].
Proof.
  intros Hb. unfold quote at 1. cbn [app]. rewrite lex_step.
  change (34 :: (quote_body p s ++ [34]) ++ 32 :: 38 :: 32 :: quote p t)
    with (quote p s ++ 32 :: 38 :: 32 :: quote p t).
  rewrite (lex_one_quoted p s _ Hb).
  rewrite lex_step, lex_one_space by reflexivity.
  rewrite lex_step, lex_one_amp.
  unfold quote at 1. rewrite lex_step, lex_one_space by reflexivity.
  fold (quote p t). rewrite lex_quoted. reflexivity.
Qed.

(* ---------------------------------------------------------------------------------------------- *)
(* strconv.Unquote of valid code points yields valid code points (lib/Quote.v) *)

Lemma valid_small v : v < 128 -> valid_cp v = true.
Proof. unfold valid_cp. intros H. lia. Qed.

Lemma read_hex_suffix n : forall v s v' t, read_hex n v s = Some (v', t) -> exists pre, s = pre ++ t.
Proof.
  induction n as [|n IH]; intros v s v' t H; cbn [read_hex] in H.
  - inversion H; subst. exists []. reflexivity.
  - destruct s as [|c s']; [discriminate|]. destruct (unhex c); [|discriminate].
    destruct (IH _ _ _ _ H) as [pre ->]. exists (c :: pre). reflexivity.
Qed.

Lemma valid_suffix pre t : valid_codepoints (pre ++ t) -> valid_codepoints t.
Proof. unfold valid_codepoints. intros H. apply Forall_app in H. tauto. Qed.

Lemma unquote_char_valid s v mb t : valid_codepoints s -> unquote_char s = UC v mb t ->
  valid_codepoints t /\ ((v <? 128) || mb = true -> valid_cp v = true).
Proof.
  intros Hs H. unfold unquote_char in H. destruct s as [|c s1]; [discriminate|].
  inversion Hs as [|? ? Hc Hs1]; subst.
  destruct (c =? 34); [discriminate|].
  destruct (128 <=? c); [inversion H; subst; auto|].
  destruct (negb (c =? 92)); [inversion H; subst; auto|].
  destruct s1 as [|e s2]; [discriminate|]. inversion Hs1 as [|? ? He Hs2]; subst.
  repeat match type of H with
  | (if ?b then UC ?x false s2 else _) = _ =>
      destruct b; [inversion H; subst; split; [exact Hs2|intros _; reflexivity]|]
  end.
  destruct (e =? 120).
  { destruct (read_hex 2 0 s2) as [[v' t']|] eqn:E; [|discriminate]. inversion H; subst.
    destruct (read_hex_suffix _ _ _ _ _ E) as [pre ->]. split; [eapply valid_suffix; exact Hs2|].
    intros Hv. rewrite orb_false_r in Hv. apply valid_small. lia. }
  destruct (e =? 117).
  { destruct (read_hex 4 0 s2) as [[v' t']|] eqn:E; [|discriminate].
    destruct (valid_cp v') eqn:Ev; [|discriminate]. inversion H; subst.
    destruct (read_hex_suffix _ _ _ _ _ E) as [pre ->]. split; [eapply valid_suffix; exact Hs2|auto]. }
  destruct (e =? 85).
  { destruct (read_hex 8 0 s2) as [[v' t']|] eqn:E; [|discriminate].
    destruct (valid_cp v') eqn:Ev; [|discriminate]. inversion H; subst.
    destruct (read_hex_suffix _ _ _ _ _ E) as [pre ->]. split; [eapply valid_suffix; exact Hs2|auto]. }
  destruct (octdig e) as [d0|].
  { destruct s2 as [|c1 [|c2 t']]; try discriminate.
    destruct (octdig c1) as [d1|]; [|discriminate]. destruct (octdig c2) as [d2|]; [|discriminate].
    destruct (255 <? (d0 * 8 + d1) * 8 + d2); [discriminate|]. inversion H; subst.
    split; [inversion Hs2 as [|? ? ? Hx]; inversion Hx; assumption|].
    intros Hv. rewrite orb_false_r in Hv. apply valid_small. lia. }
  destruct (e =? 92); [inversion H; subst; split; [exact Hs2|intros _; reflexivity]|].
  destruct (e =? 34); [inversion H; subst; split; [exact Hs2|intros _; reflexivity]|].
  discriminate.
Qed.

Lemma unquote_loop_valid : forall fuel inp acc raw r, valid_codepoints inp -> valid_codepoints acc ->
  unquote_loop fuel inp acc raw = UOk r -> valid_codepoints r.
Proof.
  induction fuel as [|f IH]; intros inp acc raw r Hi Ha H; [discriminate|].
  cbn [unquote_loop] in H. destruct inp as [|c rest]; [discriminate|].
  destruct (c =? 34).
  { destruct rest; [|discriminate]. destruct raw; [discriminate|]. inversion H; subst.
    unfold valid_codepoints. apply Forall_rev. exact Ha. }
  destruct (c =? 10); [discriminate|].
  destruct (unquote_char (c :: rest)) as [v mb tail|] eqn:E; [|discriminate].
  destruct (unquote_char_valid _ _ _ _ Hi E) as [Ht Hv].
  destruct ((v <? 128) || mb) eqn:Eb.
  - apply (IH _ _ _ _ Ht) in H; [exact H|]. constructor; [apply Hv; reflexivity|exact Ha].
  - apply (IH _ _ _ _ Ht Ha) in H. exact H.
Qed.

Lemma unquote_valid s r : valid_codepoints s -> unquote s = UOk r -> valid_codepoints r.
Proof.
  intros Hs H. unfold unquote in H. destruct s as [|q [|c rest]]; try discriminate.
  destruct (q =? 34).
  - inversion Hs as [|? ? _ Hr]; subst. eapply unquote_loop_valid; [exact Hr|constructor|exact H].
  - destruct ((q =? 39) || (q =? 96)); discriminate.
Qed.
