(* FlowCacheProofs.v -- property C09: the flow cache is transparent (model/FlowCache.v). *)
From Coq Require Import List Arith Bool Lia.
From Verif Require Import model.FlowCache.
Import ListNotations.

(* every cached entry is what the source has under that key *)
Definition cache_ok (src : source) (c : cache) : Prop :=
  forall k d, cached c k = Some d -> exists a, by_uuid src k = Some a /\ a_def a = d.

Lemma by_uuid_uuid : forall src u a, by_uuid src u = Some a -> a_uuid a = u.
Proof.
  induction src as [|x r IH]; intros u a H; simpl in H. discriminate.
  destruct (Nat.eqb (a_uuid x) u) eqn:E. inversion H; subst. apply Nat.eqb_eq. exact E. apply IH. exact H.
Qed.

(* the source is consistent when its assets have pairwise different uuids: the asset a name means is the asset its uuid means *)
Lemma by_name_by_uuid : forall src n a,
  NoDup (map a_uuid src) -> by_name src n = Some a -> by_uuid src (a_uuid a) = Some a.
Proof.
  induction src as [|x r IH]; intros n a Hnd H; simpl in *. discriminate.
  inversion Hnd as [|? ? Hnot Hnd']; subst.
  destruct (Nat.eqb (a_name x) n) eqn:En.
  - inversion H; subst. rewrite Nat.eqb_refl. reflexivity.
  - destruct (Nat.eqb (a_uuid x) (a_uuid a)) eqn:Eu.
    + exfalso. apply Nat.eqb_eq in Eu. apply Hnot. rewrite Eu.
      assert (Hin : In a r).
      { clear - H. induction r as [|y t IHt]; simpl in H. discriminate.
        destruct (Nat.eqb (a_name y) n). inversion H. left. reflexivity. right. apply IHt. exact H. }
      apply in_map. exact Hin.
    + apply (IH n a Hnd' H).
Qed.

Lemma cached_cons : forall c k d k', cached ((k, d) :: c) k' = if Nat.eqb k k' then Some d else cached c k'.
Proof. reflexivity. Qed.

Lemma get_ok : forall src c u, cache_ok src c -> cache_ok src (fst (get src c u)).
Proof.
  intros src c u Hok. unfold get. destruct (cached c u) eqn:Ec; simpl. exact Hok.
  destruct (by_uuid src u) as [a|] eqn:Eb; simpl. 2: exact Hok.
  intros k d H. rewrite cached_cons in H. destruct (Nat.eqb u k) eqn:E.
  - apply Nat.eqb_eq in E. subst k. inversion H; subst. exists a. split. exact Eb. reflexivity.
  - apply Hok. exact H.
Qed.

Lemma find_ok : forall src c n, NoDup (map a_uuid src) -> cache_ok src c -> cache_ok src (fst (find src c n)).
Proof.
  intros src c n Hnd Hok. unfold find. destruct (by_name src n) as [a|] eqn:En; simpl. 2: exact Hok.
  destruct (cached c (a_uuid a)) eqn:Ec; simpl. exact Hok.
  intros k d H. rewrite cached_cons in H. destruct (Nat.eqb (a_uuid a) k) eqn:E.
  - apply Nat.eqb_eq in E. subst k. inversion H; subst. exists a. split. eapply by_name_by_uuid; eassumption. reflexivity.
  - apply Hok. exact H.
Qed.

Lemma after_ok : forall src ops, NoDup (map a_uuid src) -> cache_ok src (after src ops).
Proof.
  intros src ops Hnd. unfold after.
  assert (H : forall c, cache_ok src c -> cache_ok src (fold_left (fun c o => fst (do_op src c o)) ops c)).
  { induction ops as [|o r IH]; intros c Hc; simpl. exact Hc.
    apply IH. destruct o; simpl. apply get_ok. exact Hc. apply find_ok; assumption. }
  apply H. intros k d Hk. discriminate.
Qed.

(* CACHE TRANSPARENCY: whatever look-ups other sessions performed before (any number, any order), a look-up by uuid or
   by name answers what it answers from a cold cache *)
Theorem cache_transparent : forall src ops o,
  NoDup (map a_uuid src) ->
  snd (do_op src (after src ops) o) = snd (do_op src [] o).
Proof.
  intros src ops o Hnd. pose proof (after_ok src ops Hnd) as Hok.
  destruct o as [u|n]; simpl.
  - unfold get. simpl. destruct (cached (after src ops) u) as [d|] eqn:Ec.
    + destruct (Hok u d Ec) as [a [Ha Hd]]. rewrite Ha. simpl. f_equal. symmetry. exact Hd.
    + destruct (by_uuid src u); reflexivity.
  - unfold find. simpl. destruct (by_name src n) as [a|] eqn:En. 2: reflexivity.
    destruct (cached (after src ops) (a_uuid a)) as [d|] eqn:Ec.
    + destruct (Hok (a_uuid a) d Ec) as [a' [Ha Hd]]. simpl.
      rewrite (by_name_by_uuid src n a Hnd En) in Ha. inversion Ha; subst. reflexivity.
    + reflexivity.
Qed.

(* ... and the answer is the source's *)
Theorem cold_answers : forall src u n,
  snd (get src [] u) = option_map a_def (by_uuid src u) /\ snd (find src [] n) = option_map a_def (by_name src n).
Proof.
  intros src u n. unfold get, find. simpl. split.
  - destruct (by_uuid src u); reflexivity.
  - destruct (by_name src n); reflexivity.
Qed.

(* the code before the fix was not transparent.  f1: asset 1 carries the definition uuid 2, which is also asset 2: after
   another session loaded 1, a session asking for 2 gets 1's definition *)
Definition src_f1 : source :=
  [ {| a_uuid := 1; a_name := 10; a_def := {| d_uuid := 2; d_name := 10; d_body := 100 |} |};
    {| a_uuid := 2; a_name := 11; a_def := {| d_uuid := 2; d_name := 11; d_body := 200 |} |} ].

Theorem get_keyed_by_inner_uuid_refuted :
  exists src ops u, NoDup (map a_uuid src) /\
    snd (do_op_old src (after_old src ops) (LGet u)) <> snd (do_op_old src [] (LGet u)).
Proof.
  exists src_f1, [LGet 1], 2. split.
  - vm_compute. repeat (constructor; [simpl; intuition discriminate|]). constructor.
  - vm_compute. discriminate.
Qed.

(* f2: two flows whose names fold to the same name: from a cold cache the name means the first asset of the source,
   after another session loaded the second one it means that one *)
Definition src_f2 : source :=
  [ {| a_uuid := 3; a_name := 20; a_def := {| d_uuid := 3; d_name := 20; d_body := 300 |} |};
    {| a_uuid := 4; a_name := 20; a_def := {| d_uuid := 4; d_name := 20; d_body := 400 |} |} ].

Theorem find_cache_first_refuted :
  exists src ops n, NoDup (map a_uuid src) /\
    snd (do_op_old src (after_old src ops) (LFind n)) <> snd (do_op_old src [] (LFind n)).
Proof.
  exists src_f2, [LGet 4], 20. split.
  - vm_compute. repeat (constructor; [simpl; intuition discriminate|]). constructor.
  - vm_compute. discriminate.
Qed.

(* with both cached the old FindByName followed the order in which the map was visited *)
Theorem find_cache_first_map_order_refuted :
  exists src (c1 c2 : cache) n,
    (forall k, cached c1 k = cached c2 k) /\ snd (find_old src c1 n) <> snd (find_old src c2 n).
Proof.
  exists src_f2,
    [(3, {| d_uuid := 3; d_name := 20; d_body := 300 |}); (4, {| d_uuid := 4; d_name := 20; d_body := 400 |})],
    [(4, {| d_uuid := 4; d_name := 20; d_body := 400 |}); (3, {| d_uuid := 3; d_name := 20; d_body := 300 |})], 20.
  split.
  - intro k. unfold cached. destruct (Nat.eqb 3 k) eqn:E3; destruct (Nat.eqb 4 k) eqn:E4; try reflexivity.
    apply Nat.eqb_eq in E3. apply Nat.eqb_eq in E4. lia.
  - vm_compute. discriminate.
Qed.

(* the hypothesis of the theorem is needed: a source that lists one uuid twice (with different names) is not consistent *)
Theorem duplicate_asset_uuid_refuted :
  exists src ops u, snd (do_op src (after src ops) (LGet u)) <> snd (do_op src [] (LGet u)).
Proof.
  exists [ {| a_uuid := 5; a_name := 30; a_def := {| d_uuid := 5; d_name := 30; d_body := 500 |} |};
           {| a_uuid := 5; a_name := 31; a_def := {| d_uuid := 5; d_name := 31; d_body := 501 |} |} ], [LFind 31], 5.
  vm_compute. discriminate.
Qed.

(* ---- C08, hunt2 f1: migration on first load draws from the session's UUID source ---- *)

(* when the flow a session ENTERS needs no UUIDs to be read (whatever the other flows of the source need), what the
   session gets does not depend on what is cached *)
Theorem enter_flow_cache_independent : forall draws src ops u ctr,
  NoDup (map a_uuid src) ->
  (forall a, by_uuid src u = Some a -> draws (a_def a) = 0) ->
  enter_flow draws src (after src ops) u ctr = enter_flow draws src [] u ctr.
Proof.
  intros draws src ops u ctr Hnd H0. unfold enter_flow.
  pose proof (cache_transparent src ops (LGet u) Hnd) as Ht. simpl in Ht. rewrite Ht.
  destruct (snd (get src [] u)) as [d|] eqn:Eg. 2: reflexivity.
  assert (Hd : draws d = 0).
  { unfold get in Eg. simpl in Eg. destruct (by_uuid src u) as [a|] eqn:Eb; simpl in Eg. 2: discriminate.
    inversion Eg; subst. apply H0. reflexivity. }
  simpl. rewrite Hd. rewrite Nat.add_0_r. destruct (cached (after src ops) u); reflexivity.
Qed.

(* the hypothesis is the negation of the finding and nothing more: when the entered flow exists, is not cached yet and
   its migration draws, the warm answer differs from the cold one *)
Theorem enter_flow_differs_iff_draws : forall draws src ops u ctr a,
  NoDup (map a_uuid src) -> by_uuid src u = Some a -> cached (after src ops) u <> None ->
  (enter_flow draws src (after src ops) u ctr = enter_flow draws src [] u ctr <-> draws (a_def a) = 0).
Proof.
  intros draws src ops u ctr a Hnd Hb Hc. split.
  - unfold enter_flow. pose proof (cache_transparent src ops (LGet u) Hnd) as Ht. simpl in Ht. rewrite Ht.
    unfold get at 1 2. simpl. rewrite Hb. simpl.
    destruct (cached (after src ops) u) as [d|]. 2: contradiction Hc; reflexivity.
    intro H. inversion H. lia.
  - intro H. apply enter_flow_cache_independent. exact Hnd. intros a' Ha'. rewrite Hb in Ha'. inversion Ha'; subst. exact H.
Qed.

(* ... and with ONE definition that does (a flow stored below the current spec version), it does: after any other
   look-up of that flow the child run gets another UUID than from the cold cache *)
Theorem lazy_migration_draws_refuted :
  exists draws src ops u ctr, NoDup (map a_uuid src) /\
    enter_flow draws src (after src ops) u ctr <> enter_flow draws src [] u ctr.
Proof.
  exists (fun _ => 2), [{| a_uuid := 7; a_name := 1; a_def := {| d_uuid := 7; d_name := 1; d_body := 0 |} |}], [LGet 7], 7, 100.
  split.
  - constructor. intros []. constructor.
  - vm_compute. discriminate.
Qed.
