(* LangProofs.v — specification of the documented language fallback, written from the property
   statement (not from the code), and the proofs that the model in Lang.v meets it. *)

From Coq Require Import List NArith Bool Lia PeanoNat.
From Verif Require Import model.Lang.
Import ListNotations.
Open Scope N_scope.

(* ---- the specification, from the sentence of C18 ------------------------------------------- *)

(* "has a non-empty translation for the item": a stored array that is neither [] nor [""] *)
Definition stored_nonempty (ts : list text) : Prop := ts <> [] /\ ts <> [[]].

Definition has_translation (tr : translations) (l : lang) : Prop :=
  exists ts, lookup tr l = Some ts /\ stored_nonempty ts.

(* "the contact's language if it is one of the environment's allowed languages, then the
   environment's default language, then the flow's base language" *)
Definition candidates (contact_lang : lang) (allowed : list lang) (base : lang) : list lang :=
  (if negb (N.eqb contact_lang nil_lang) && lang_in contact_lang allowed then [contact_lang] else [])
    ++ (match allowed with [] => [] | d :: _ => if N.eqb d nil_lang then [] else [d] end)
    ++ [base].

(* "the first of these that is the base language or has a non-empty translation wins" *)
Definition wins (base : lang) (tr : translations) (l : lang) : Prop :=
  l = base \/ has_translation tr l.

(* what the winner yields: the base text for the base language, the stored translation otherwise *)
Definition yields (base : lang) (native : list text) (tr : translations) (w : lang) (out : list text) : Prop :=
  (w = base /\ out = native) \/ (w <> base /\ lookup tr w = Some out /\ stored_nonempty out).

Definition spec_pick (contact_lang : lang) (allowed : list lang) (base : lang)
           (native : list text) (tr : translations) (out : list text) (used : lang) : Prop :=
  exists pre post,
    candidates contact_lang allowed base = pre ++ used :: post
    /\ Forall (fun l => ~ wins base tr l) pre
    /\ wins base tr used
    /\ yields base native tr used out.

(* ---- lemmas ---------------------------------------------------------------------------------- *)

Lemma item_translation_nil_iff tr l :
  item_translation tr l = [] <-> ~ has_translation tr l.
Proof.
  unfold item_translation, has_translation, stored_nonempty.
  destruct (lookup tr l) as [ts|] eqn:E.
  - destruct ts as [|t [|t' ts']].
    + split; [|reflexivity]. intros _ [ts [H [H1 _]]]. inversion H; subst. apply H1; reflexivity.
    + destruct t as [|c t]; cbn.
      * split; [|reflexivity]. intros _ [ts [H [_ H2]]]. inversion H; subst. apply H2; reflexivity.
      * split; [discriminate|]. intros H; exfalso; apply H. eexists; split; [reflexivity|].
        split; discriminate.
    + split; [discriminate|]. intros H; exfalso; apply H. eexists; split; [reflexivity|].
      split; discriminate.
  - split; [|reflexivity]. intros _ [ts [H _]]; discriminate.
Qed.

Lemma item_translation_some tr l ts :
  item_translation tr l = ts -> ts <> [] -> lookup tr l = Some ts /\ stored_nonempty ts.
Proof.
  unfold item_translation, stored_nonempty.
  destruct (lookup tr l) as [ss|]; [|intros <- H; exfalso; apply H; reflexivity].
  destruct ss as [|t [|t' ss']].
  - intros <- H; exfalso; apply H; reflexivity.
  - destruct t as [|c t]; cbn; [intros <- H; exfalso; apply H; reflexivity|].
    intros <- _. repeat split; discriminate.
  - intros <- _. repeat split; discriminate.
Qed.

(* get_text_in finds the first winner of langs ++ [base] *)
Lemma get_text_in_spec langs base native tr :
  exists pre post used out,
    get_text_in langs base native tr = (out, used)
    /\ langs ++ [base] = pre ++ used :: post
    /\ Forall (fun l => ~ wins base tr l) pre
    /\ wins base tr used
    /\ yields base native tr used out.
Proof.
  induction langs as [|l rest IH]; cbn [get_text_in].
  - exists [], [], base, native.
    split; [reflexivity|]. split; [reflexivity|]. split; [constructor|].
    split; [left; reflexivity | left; split; reflexivity].
  - destruct (N.eqb_spec l base) as [->|Hne].
    + exists [], (rest ++ [base]), base, native.
      split; [reflexivity|]. split; [reflexivity|]. split; [constructor|].
      split; [left; reflexivity | left; split; reflexivity].
    + destruct (item_translation tr l) as [|t ts] eqn:E.
      * destruct IH as (pre & post & used & out & Hg & Hc & Hf & Hw & Hy).
        exists (l :: pre), post, used, out.
        split; [exact Hg|]. split; [cbn; rewrite Hc; reflexivity|].
        split; [|split; assumption].
        constructor; [|exact Hf]. intros [H|H]; [contradiction|].
        apply item_translation_nil_iff in E. contradiction.
      * assert (Hs : lookup tr l = Some (t :: ts) /\ stored_nonempty (t :: ts))
          by (apply item_translation_some; [exact E | discriminate]).
        exists [], (rest ++ [base]), l, (t :: ts).
        split; [reflexivity|]. split; [reflexivity|]. split; [constructor|].
        split.
        -- right. exists (t :: ts). exact Hs.
        -- right. destruct Hs as [Hs1 Hs2]. split; [exact Hne|]. split; assumption.
Qed.

(* the code's language list and the statement's candidate list coincide, except that the code drops
   a default language equal to the contact language (which cannot change the first winner) *)
Lemma get_languages_candidates cl allowed base :
  get_languages cl allowed base = candidates cl allowed base
  \/ exists d, candidates cl allowed base = [d; d; base] /\ get_languages cl allowed base = [d; base].
Proof.
  unfold get_languages, candidates, merged_default, env_default.
  destruct (negb (cl =? nil_lang) && lang_in cl allowed) eqn:Hc.
  - apply andb_true_iff in Hc. destruct Hc as [Hn Hin].
    rewrite negb_true_iff in Hn. rewrite Hn. cbn [app].
    destruct allowed as [|d rest]; [cbn in Hin; discriminate|].
    destruct (N.eqb_spec d nil_lang) as [Hd|Hd]; cbn [negb andb app].
    + left; reflexivity.
    + destruct (N.eqb_spec d cl) as [->|Hdc]; cbn [negb app].
      * right. exists cl. split; reflexivity.
      * left; reflexivity.
  - destruct allowed as [|d rest]; cbn [app].
    + cbn. left; reflexivity.
    + destruct (N.eqb_spec d nil_lang) as [Hd|Hd]; cbn [negb andb app].
      * left; reflexivity.
      * rewrite N.eqb_refl. cbn. left; reflexivity.
Qed.

Lemma get_text_spec cl allowed base native tr :
  let '(out, used) := get_text cl allowed base native tr in
  spec_pick cl allowed base native tr out used.
Proof.
  unfold get_text.
  destruct (get_text_in_spec
              (removelast (get_languages cl allowed base)) base native tr)
    as (pre & post & used & out & Hg & Hc & Hf & Hw & Hy).
  assert (Hlast : get_languages cl allowed base = removelast (get_languages cl allowed base) ++ [base]).
  { unfold get_languages.
    rewrite !app_assoc. rewrite removelast_last. reflexivity. }
  (* get_text_in over langs = rl ++ [base] behaves like get_text_in rl (base always wins) *)
  assert (Hsame : forall rl, get_text_in (rl ++ [base]) base native tr = get_text_in rl base native tr).
  { induction rl as [|l rl IH]; cbn [app get_text_in].
    - rewrite N.eqb_refl. reflexivity.
    - destruct (l =? base); [reflexivity|].
      destruct (item_translation tr l); [apply IH | reflexivity]. }
  rewrite Hlast, Hsame, Hg.
  rewrite <- Hlast in Hc.
  destruct (get_languages_candidates cl allowed base) as [Heq | (d & Hcand & Hlangs)].
  - exists pre, post. rewrite <- Heq. auto.
  - rewrite Hlangs in Hc. unfold spec_pick. rewrite Hcand.
    destruct pre as [|p pre].
    + inversion Hc; subst. exists [], [used; base]. repeat split; auto.
    + inversion Hc as [[Hp Hrest]]. subst p.
      inversion Hf as [|? ? Hnd Hf']; subst.
      exists (d :: d :: pre), post. repeat split; auto.
      cbn. rewrite Hrest. reflexivity.
Qed.

(* a winning value on the single-text path is never an empty array, so GetText's textArray[0] is safe *)
Lemma get_text_single_nonempty cl allowed base native tr :
  fst (get_text cl allowed base [native] tr) <> [].
Proof.
  pose proof (get_text_spec cl allowed base [native] tr) as H.
  destruct (get_text cl allowed base [native] tr) as [out used]. cbn.
  destruct H as (pre & post & _ & _ & _ & Hy).
  destruct Hy as [[_ ->] | (_ & _ & [Hne _])]; [discriminate | exact Hne].
Qed.

(* independence: each property of a message is resolved from its own base value and translations *)
Lemma evaluate_message_independent cl allowed base m :
  o_text (evaluate_message cl allowed base m)
    = hd [] (fst (get_text cl allowed base [m_text m] (tr_text m)))
  /\ o_atts (evaluate_message cl allowed base m)
    = fst (get_text cl allowed base (m_atts m) (tr_atts m))
  /\ o_qrs (evaluate_message cl allowed base m)
    = fst (get_text cl allowed base (m_qrs m) (tr_qrs m)).
Proof.
  unfold evaluate_message, evaluate_message_gen.
  destruct (get_text cl allowed base [m_text m] (tr_text m)) as [a la].
  destruct (get_text cl allowed base (m_atts m) (tr_atts m)) as [b lb].
  destruct (get_text cl allowed base (m_qrs m) (tr_qrs m)) as [c lc].
  cbn. auto.
Qed.

(* the language reported for the message *)
Lemma evaluate_message_locale cl allowed base m :
  let o := evaluate_message cl allowed base m in
  (o_text o <> [] -> o_lang o = snd (get_text cl allowed base [m_text m] (tr_text m)))
  /\ (o_text o = [] -> o_atts o <> [] ->
      o_lang o = snd (get_text cl allowed base (m_atts m) (tr_atts m)))
  /\ (o_text o = [] -> o_atts o = [] -> o_qrs o <> [] ->
      o_lang o = snd (get_text cl allowed base (m_qrs m) (tr_qrs m)))
  /\ (o_text o = [] -> o_atts o = [] -> o_qrs o = [] -> o_lang o = nil_lang).
Proof.
  unfold evaluate_message, evaluate_message_gen, pick_lang.
  destruct (get_text cl allowed base [m_text m] (tr_text m)) as [a la].
  destruct (get_text cl allowed base (m_atts m) (tr_atts m)) as [b lb].
  destruct (get_text cl allowed base (m_qrs m) (tr_qrs m)) as [c lc].
  cbn.
  destruct (hd [] a) as [|x xs]; cbn.
  - split; [congruence|].
    destruct b as [|b0 b']; destruct c as [|c0 c']; repeat split; intros; congruence.
  - repeat split; intros; congruence.
Qed.

(* router case arguments: same chain; a translation of a different length than the base is ignored *)
Lemma case_arguments_spec cl allowed base args tr :
  let '(out, used) := get_text cl allowed base args tr in
  spec_pick cl allowed base args tr out used
  /\ case_arguments cl allowed base args tr
     = if Nat.eqb (length out) (length args) then out else args.
Proof.
  pose proof (get_text_spec cl allowed base args tr) as H.
  unfold case_arguments.
  destruct (get_text cl allowed base args tr) as [out used].
  split; [exact H | reflexivity].
Qed.

(* non-vacuity: a configuration in which the contact's language wins, one in which the default wins
   and one in which the base text is the fallback *)
Example pick_contact_language :
  get_text 2 [1; 2] 3 [[104]] [(2, [[105]]); (1, [[106]])] = ([[105]], 2).
Proof. reflexivity. Qed.
Example pick_default_language :
  get_text 9 [1; 2] 3 [[104]] [(2, [[105]]); (1, [[106]])] = ([[106]], 1).
Proof. reflexivity. Qed.
Example pick_base_fallback :
  get_text 2 [1; 2] 3 [[104]] [(2, [[]]); (1, [])] = ([[104]], 3).
Proof. reflexivity. Qed.

(* ---- single-text accessor, category names, set_run_result ------------------------------------------------- *)

(* run.GetText: the first element of what the chain picks for the singleton base value *)
Lemma get_text1_spec cl allowed base native tr :
  exists out used,
    spec_pick cl allowed base [native] tr out used
    /\ out <> []
    /\ get_text1 cl allowed base native tr = (hd [] out, used).
Proof.
  unfold get_text1.
  pose proof (get_text_spec cl allowed base [native] tr) as H.
  pose proof (get_text_single_nonempty cl allowed base native tr) as Hne.
  destruct (get_text cl allowed base [native] tr) as [out used]. cbn in Hne.
  exists out, used. repeat split; assumption.
Qed.

(* routeToCategory: the localized category name is GetText(category, "name", "") *)
Lemma category_localized_spec cl allowed base tr :
  exists out used,
    spec_pick cl allowed base [[]] tr out used
    /\ category_localized cl allowed base tr = hd [] out.
Proof.
  unfold category_localized.
  destruct (get_text1_spec cl allowed base [] tr) as (out & used & Hs & _ & He).
  exists out, used. rewrite He. split; [exact Hs | reflexivity].
Qed.

Lemma text_eqb_eq a b : text_eqb a b = true <-> a = b.
Proof.
  revert b; induction a as [|x a IH]; destruct b as [|y b]; cbn; try (split; congruence).
  rewrite andb_true_iff, N.eqb_eq, IH. split; [intros [-> ->]; reflexivity | intros H; inversion H; auto].
Qed.

(* SetRunResultAction: the chain's choice for the category, reported as "" when it is the category itself *)
Lemma set_run_result_category_spec cl allowed base category tr :
  exists out used,
    spec_pick cl allowed base [category] tr out used
    /\ (hd [] out = category -> set_run_result_category_localized cl allowed base category tr = [])
    /\ (hd [] out <> category -> set_run_result_category_localized cl allowed base category tr = hd [] out).
Proof.
  unfold set_run_result_category_localized.
  destruct (get_text1_spec cl allowed base category tr) as (out & used & Hs & _ & He).
  exists out, used. rewrite He. cbn [fst]. split; [exact Hs|].
  destruct (text_eqb (hd [] out) category) eqn:E.
  - apply text_eqb_eq in E. split; [reflexivity | intros H; contradiction].
  - split; [|reflexivity]. intros H. apply text_eqb_eq in H. congruence.
Qed.

(* ---- independence as non-interference ---------------------------------------------------------------------- *)

(* the text a message gets depends only on its base text and the translations of its text; likewise the
   attachments and the quick replies: two messages that agree on one property get the same value for it,
   whatever they hold in the other two *)
Lemma evaluate_message_noninterference cl allowed base m m' :
  (m_text m = m_text m' -> tr_text m = tr_text m' ->
   o_text (evaluate_message cl allowed base m) = o_text (evaluate_message cl allowed base m'))
  /\ (m_atts m = m_atts m' -> tr_atts m = tr_atts m' ->
   o_atts (evaluate_message cl allowed base m) = o_atts (evaluate_message cl allowed base m'))
  /\ (m_qrs m = m_qrs m' -> tr_qrs m = tr_qrs m' ->
   o_qrs (evaluate_message cl allowed base m) = o_qrs (evaluate_message cl allowed base m')).
Proof.
  destruct (evaluate_message_independent cl allowed base m) as (H1 & H2 & H3).
  destruct (evaluate_message_independent cl allowed base m') as (H1' & H2' & H3').
  rewrite H1, H2, H3, H1', H2', H3'.
  repeat split; intros -> ->; reflexivity.
Qed.

(* ---- explicit language lists: send_broadcast ---------------------------------------------------------------- *)

Lemma evaluate_message_in_independent langs base m :
  o_text (evaluate_message_in langs base m) = hd [] (fst (get_text_in langs base [m_text m] (tr_text m)))
  /\ o_atts (evaluate_message_in langs base m) = fst (get_text_in langs base (m_atts m) (tr_atts m))
  /\ o_qrs (evaluate_message_in langs base m) = fst (get_text_in langs base (m_qrs m) (tr_qrs m)).
Proof.
  unfold evaluate_message_in, evaluate_message_in_gen.
  destruct (get_text_in langs base [m_text m] (tr_text m)) as [a la].
  destruct (get_text_in langs base (m_atts m) (tr_atts m)) as [b lb].
  destruct (get_text_in langs base (m_qrs m) (tr_qrs m)) as [c lc].
  cbn. auto.
Qed.

(* the value a broadcast holds for one property in language l: the base value for the base language, the stored
   translation when l has a non-empty one, the base value otherwise *)
Lemma get_text_in_pair l base native tr :
  (l = base -> get_text_in [l; base] base native tr = (native, base))
  /\ (l <> base -> forall ts, lookup tr l = Some ts -> stored_nonempty ts ->
      get_text_in [l; base] base native tr = (ts, l))
  /\ (l <> base -> ~ has_translation tr l -> get_text_in [l; base] base native tr = (native, base)).
Proof.
  cbn [get_text_in]. rewrite N.eqb_refl.
  repeat split.
  - intros ->. rewrite N.eqb_refl. reflexivity.
  - intros Hne ts Hl Hs. destruct (N.eqb_spec l base) as [E|_]; [contradiction|].
    destruct (item_translation tr l) as [|t ts'] eqn:E.
    + apply item_translation_nil_iff in E. exfalso. apply E. exists ts. split; assumption.
    + assert (Hx : lookup tr l = Some (t :: ts') /\ stored_nonempty (t :: ts'))
        by (apply item_translation_some; [exact E | discriminate]).
      destruct Hx as [Hx _]. rewrite Hl in Hx. inversion Hx; subst. reflexivity.
  - intros Hne Hno. destruct (N.eqb_spec l base) as [E|_]; [contradiction|].
    apply item_translation_nil_iff in Hno. rewrite Hno. reflexivity.
Qed.

Lemma broadcast_translations_spec base loc_langs m l o :
  In (l, o) (broadcast_translations base loc_langs m) ->
  In l (base :: loc_langs)
  /\ o_text o = hd [] (fst (get_text_in [l; base] base [m_text m] (tr_text m)))
  /\ o_atts o = fst (get_text_in [l; base] base (m_atts m) (tr_atts m))
  /\ o_qrs o = fst (get_text_in [l; base] base (m_qrs m) (tr_qrs m)).
Proof.
  unfold broadcast_translations, broadcast_translations_gen. intros H. apply in_map_iff in H.
  destruct H as (l' & He & Hin). inversion He; subst.
  split; [exact Hin|]. apply evaluate_message_in_independent.
Qed.

(* ---- more non-vacuity ---------------------------------------------------------------------------------------- *)

(* a text translation ["", "x"] counts as a non-empty translation: it wins, the text is empty, and the message
   reports the language of its attachments (the quirk next to the [""] rule) *)
Example empty_first_text_translation_wins :
  let m := {| m_text := [104]; m_atts := [[97]]; m_qrs := [];
              tr_text := [(2, [[]; [120]])]; tr_atts := []; tr_qrs := [] |} in
  let o := evaluate_message 2 [2] 1 m in
  o_text o = [] /\ o_atts o = [[97]] /\ o_lang o = 1.
Proof. cbn. repeat split. Qed.

(* text-less message: the attachments' language is reported, then the quick replies' *)
Example locale_falls_through :
  o_lang (evaluate_message 2 [2] 1 {| m_text := []; m_atts := [[97]]; m_qrs := [[98]];
                                     tr_text := []; tr_atts := [(2, [[99]])]; tr_qrs := [] |}) = 2
  /\ o_lang (evaluate_message 2 [2] 1 {| m_text := []; m_atts := []; m_qrs := [[98]];
                                        tr_text := []; tr_atts := []; tr_qrs := [(2, [[99]])] |}) = 2.
Proof. split; reflexivity. Qed.

(* a translation of the case arguments with another length than the base is ignored *)
Example case_arguments_wrong_length :
  case_arguments 2 [2] 1 [[49]; [50]] [(2, [[51]])] = [[49]; [50]]
  /\ case_arguments 2 [2] 1 [[49]; [50]] [(2, [[51]; [52]])] = [[51]; [52]].
Proof. split; reflexivity. Qed.

(* contact language = environment default: the candidate list of the statement is [d; d; base] *)
Example contact_language_is_default :
  candidates 2 [2; 3] 1 = [2; 2; 1] /\ get_languages 2 [2; 3] 1 = [2; 1]
  /\ get_text 2 [2; 3] 1 [[104]] [(3, [[105]])] = ([[104]], 1).
Proof. repeat split. Qed.

(* a broadcast: base content for the base language, the translation where there is one, base otherwise *)
Example broadcast_example :
  map (fun e => (fst e, o_text (snd e)))
      (broadcast_translations 1 [2; 3] {| m_text := [104]; m_atts := []; m_qrs := [];
                                         tr_text := [(2, [[105]]); (3, [[]])]; tr_atts := []; tr_qrs := [] |})
  = [(1, [104]); (2, [105]); (3, [104])].
Proof. reflexivity. Qed.

(* ---- send_email, say_msg, play_audio ---------------------------------------------------------------------- *)

Lemma text_empty_iff t : text_empty t = true <-> t = [].
Proof. destruct t; cbn; split; intros H; try reflexivity; discriminate. Qed.

Lemma text_empty_false_iff t : text_empty t = false <-> t <> [].
Proof. destruct t; cbn; split; intros H; try reflexivity; try discriminate. exfalso; apply H; reflexivity. Qed.

(* an email carries the evaluation of the chain's choice for its subject and for its body (each resolved on its
   own); it is skipped exactly when one of the two is empty as evaluated *)
Lemma send_email_gen_spec ev_s ev_b cl allowed base subject body trs trb :
  exists outs useds outb usedb,
    spec_pick cl allowed base [subject] trs outs useds
    /\ spec_pick cl allowed base [body] trb outb usedb
    /\ ((ev_s (hd [] outs) = [] \/ ev_b (hd [] outb) = []) ->
        send_email_texts_gen ev_s ev_b cl allowed base subject body trs trb = None)
    /\ (ev_s (hd [] outs) <> [] -> ev_b (hd [] outb) <> [] ->
        send_email_texts_gen ev_s ev_b cl allowed base subject body trs trb
        = Some (ev_s (hd [] outs), ev_b (hd [] outb))).
Proof.
  unfold send_email_texts_gen.
  destruct (get_text1_spec cl allowed base subject trs) as (outs & useds & Hs & _ & Es).
  destruct (get_text1_spec cl allowed base body trb) as (outb & usedb & Hb & _ & Eb).
  exists outs, useds, outb, usedb. rewrite Es, Eb. cbn [fst].
  split; [exact Hs|]. split; [exact Hb|]. split.
  - intros [H|H]; rewrite H; cbn; [reflexivity|].
    destruct (text_empty (ev_s (hd [] outs))); reflexivity.
  - intros H1 H2. apply text_empty_false_iff in H1. apply text_empty_false_iff in H2.
    rewrite H1, H2. reflexivity.
Qed.

Lemma send_email_spec cl allowed base subject body trs trb :
  exists outs useds outb usedb,
    spec_pick cl allowed base [subject] trs outs useds
    /\ spec_pick cl allowed base [body] trb outb usedb
    /\ ((hd [] outs = [] \/ hd [] outb = []) ->
        send_email_texts cl allowed base subject body trs trb = None)
    /\ (hd [] outs <> [] -> hd [] outb <> [] ->
        send_email_texts cl allowed base subject body trs trb = Some (hd [] outs, hd [] outb)).
Proof. exact (send_email_gen_spec (fun t => t) (fun t => t) cl allowed base subject body trs trb). Qed.

(* say_msg, for any evaluation [ev] of the localized text and any rule [keep] about which audio URLs fit into an
   attachment: text and audio URL are each the chain's choice; the message is skipped exactly when the evaluated text
   and the kept audio URL are both empty; the language it reports is the one used for its TEXT, and for a message
   without text the one used for its audio URL (its attachment) *)
Lemma say_msg_gen_spec ev keep cl allowed base txt audio trt tra :
  exists outt usedt outa useda,
    spec_pick cl allowed base [txt] trt outt usedt
    /\ spec_pick cl allowed base [audio] tra outa useda
    /\ (ev (hd [] outt) = [] -> keep (hd [] outa) = [] ->
        say_msg_out_gen ev keep cl allowed base txt audio trt tra = None)
    /\ (ev (hd [] outt) <> [] ->
        say_msg_out_gen ev keep cl allowed base txt audio trt tra
        = Some {| i_text := ev (hd [] outt); i_audio := keep (hd [] outa); i_lang := usedt |})
    /\ (ev (hd [] outt) = [] -> keep (hd [] outa) <> [] ->
        say_msg_out_gen ev keep cl allowed base txt audio trt tra
        = Some {| i_text := []; i_audio := keep (hd [] outa); i_lang := useda |}).
Proof.
  unfold say_msg_out_gen.
  destruct (get_text1_spec cl allowed base txt trt) as (outt & usedt & Ht & _ & Et).
  destruct (get_text1_spec cl allowed base audio tra) as (outa & useda & Ha & _ & Ea).
  exists outt, usedt, outa, useda. rewrite Et, Ea.
  split; [exact Ht|]. split; [exact Ha|]. repeat split.
  - intros H1 H2. rewrite H1, H2. reflexivity.
  - intros H. apply text_empty_false_iff in H. rewrite H. reflexivity.
  - intros H1 H2. rewrite H1. apply text_empty_false_iff in H2. rewrite H2. reflexivity.
Qed.

Lemma say_msg_spec cl allowed base txt audio trt tra :
  exists outt usedt outa useda,
    spec_pick cl allowed base [txt] trt outt usedt
    /\ spec_pick cl allowed base [audio] tra outa useda
    /\ (hd [] outt = [] -> hd [] outa = [] ->
        say_msg_out cl allowed base txt audio trt tra = None)
    /\ (hd [] outt <> [] ->
        say_msg_out cl allowed base txt audio trt tra
        = Some {| i_text := hd [] outt; i_audio := hd [] outa; i_lang := usedt |})
    /\ (hd [] outt = [] -> hd [] outa <> [] ->
        say_msg_out cl allowed base txt audio trt tra
        = Some {| i_text := []; i_audio := hd [] outa; i_lang := useda |}).
Proof. exact (say_msg_gen_spec (fun t => t) (fun a => a) cl allowed base txt audio trt tra). Qed.

(* play_audio, for any evaluation [ev] and attachment rule [keep]: a text-less message whose only attachment is the
   (evaluated, kept) chain's choice for the audio URL, reporting the language of that choice; skipped exactly when
   nothing is left of it *)
Lemma play_audio_gen_spec ev keep cl allowed base audio tra :
  exists out used,
    spec_pick cl allowed base [audio] tra out used
    /\ (keep (ev (hd [] out)) = [] -> play_audio_out_gen ev keep cl allowed base audio tra = None)
    /\ (keep (ev (hd [] out)) <> [] ->
        play_audio_out_gen ev keep cl allowed base audio tra
        = Some {| i_text := []; i_audio := keep (ev (hd [] out)); i_lang := used |}).
Proof.
  unfold play_audio_out_gen.
  destruct (get_text1_spec cl allowed base audio tra) as (out & used & Hs & _ & E).
  exists out, used. rewrite E. split; [exact Hs|]. split.
  - intros H. rewrite H. reflexivity.
  - intros H. apply text_empty_false_iff in H. rewrite H. reflexivity.
Qed.

Lemma play_audio_spec cl allowed base audio tra :
  exists out used,
    spec_pick cl allowed base [audio] tra out used
    /\ (hd [] out = [] -> play_audio_out cl allowed base audio tra = None)
    /\ (hd [] out <> [] ->
        play_audio_out cl allowed base audio tra
        = Some {| i_text := []; i_audio := hd [] out; i_lang := used |}).
Proof. exact (play_audio_gen_spec (fun t => t) (fun a => a) cl allowed base audio tra). Qed.

(* non-vacuity: a translated subject with an untranslated body; a say_msg whose text comes from one language and
   whose audio from another (the locale follows the text); a play_audio in the contact's language; the skips *)
Example send_email_example :
  send_email_texts 2 [2] 1 [115] [98] [(2, [[116]])] [] = Some ([116], [98])
  /\ send_email_texts 2 [2] 1 [115] [98] [(2, [[]; [116]])] [] = None.
Proof. split; reflexivity. Qed.

Example say_msg_example :
  say_msg_out 3 [3; 2] 1 [115] [] [] [(3, [[97]])]
    = Some {| i_text := [115]; i_audio := [97]; i_lang := 1 |}
  /\ say_msg_out 3 [3; 2] 1 [115] [] [(3, [[]; [120]])] [] = None
  /\ say_msg_out 2 [3; 2] 1 [115] [] [(2, [[]; [120]])] [(3, [[97]])]
     = Some {| i_text := []; i_audio := [97]; i_lang := 3 |}
  /\ play_audio_out 3 [3; 2] 1 [112] [(3, [[113]])] = Some {| i_text := []; i_audio := [113]; i_lang := 3 |}
  /\ play_audio_out 3 [3; 2] 1 [112] [(3, [[]; [113]])] = None.
Proof. repeat split. Qed.


(* ---- evaluated messages: the reported language is decided on the EVALUATED parts ---------------------------- *)

(* for any evaluation of the localized values: each part is the evaluation of its own chain choice *)
Lemma evaluate_message_gen_independent ev_text ev_atts ev_qrs cl allowed base m :
  let o := evaluate_message_gen ev_text ev_atts ev_qrs cl allowed base m in
  o_text o = ev_text (hd [] (fst (get_text cl allowed base [m_text m] (tr_text m))))
  /\ o_atts o = ev_atts (fst (get_text cl allowed base (m_atts m) (tr_atts m)))
  /\ o_qrs o = ev_qrs (fst (get_text cl allowed base (m_qrs m) (tr_qrs m))).
Proof.
  unfold evaluate_message_gen.
  destruct (get_text cl allowed base [m_text m] (tr_text m)) as [a la].
  destruct (get_text cl allowed base (m_atts m) (tr_atts m)) as [b lb].
  destruct (get_text cl allowed base (m_qrs m) (tr_qrs m)) as [c lc].
  cbn. auto.
Qed.

(* ... and the language reported names the language used for the text of the message as created; for a message
   created without text, its attachments' language, then its quick replies' *)
Lemma evaluate_message_gen_locale ev_text ev_atts ev_qrs cl allowed base m :
  let o := evaluate_message_gen ev_text ev_atts ev_qrs cl allowed base m in
  (o_text o <> [] -> o_lang o = snd (get_text cl allowed base [m_text m] (tr_text m)))
  /\ (o_text o = [] -> o_atts o <> [] ->
      o_lang o = snd (get_text cl allowed base (m_atts m) (tr_atts m)))
  /\ (o_text o = [] -> o_atts o = [] -> o_qrs o <> [] ->
      o_lang o = snd (get_text cl allowed base (m_qrs m) (tr_qrs m)))
  /\ (o_text o = [] -> o_atts o = [] -> o_qrs o = [] -> o_lang o = nil_lang).
Proof.
  unfold evaluate_message_gen, pick_lang.
  destruct (get_text cl allowed base [m_text m] (tr_text m)) as [a la].
  destruct (get_text cl allowed base (m_atts m) (tr_atts m)) as [b lb].
  destruct (get_text cl allowed base (m_qrs m) (tr_qrs m)) as [c lc].
  cbn.
  destruct (ev_text (hd [] a)) as [|x xs]; cbn.
  - split; [congruence|].
    destruct (ev_atts b) as [|b0 b']; destruct (ev_qrs c) as [|c0 c']; repeat split; intros; congruence.
  - repeat split; intros; congruence.
Qed.

(* a text that evaluates to "" next to translated attachments: the message is text-less and reports the
   attachments' language (before the repair of base.go the language of the unevaluated text was reported) *)
Example evaluated_empty_text_reports_attachment_language :
  let m := {| m_text := [64; 120]; m_atts := [[97]]; m_qrs := [];
              tr_text := []; tr_atts := [(2, [[98]])]; tr_qrs := [] |} in
  let o := evaluate_message_gen (fun _ => []) (fun l => l) (fun l => l) 2 [2] 1 m in
  o_text o = [] /\ o_atts o = [[98]] /\ o_lang o = 2.
Proof. cbn. repeat split. Qed.

(* ---- template variables ---------------------------------------------------------------------------------- *)

Lemma pad_to_length n l : length (pad_to n l) = n.
Proof. revert l; induction n as [|n IH]; intros l; cbn; [reflexivity|]. destruct l; cbn; rewrite IH; reflexivity. Qed.

Lemma pad_to_nth n l i : (i < n)%nat -> nth i (pad_to n l) [] = nth i l [].
Proof.
  revert l i; induction n as [|n IH]; intros l i Hi; [inversion Hi|].
  destruct l as [|x l]; destruct i as [|i]; cbn; try reflexivity.
  - rewrite IH by lia. destruct i; reflexivity.
  - apply IH. lia.
Qed.

Lemma pad_to_map_nth (ev : text -> text) n (l : list text) i : (i < n)%nat -> (i < length l)%nat ->
  nth i (pad_to n (map ev l)) [] = ev (nth i l []).
Proof.
  intros Hi Hl. rewrite pad_to_nth by exact Hi.
  rewrite (nth_indep (map ev l) (@nil N) (ev (@nil N))) by (rewrite map_length; exact Hl).
  apply map_nth.
Qed.

(* the variables a templated message is built with are the evaluations of the chain's choice for the action's
   template variables, one by one (padded with "" / cut to the number of variables the template translation has) *)
Lemma template_variables_gen_spec ev cl allowed base n vars tr :
  exists out used,
    spec_pick cl allowed base vars tr out used
    /\ length (template_variables_gen ev cl allowed base n vars tr) = n
    /\ (forall i, (i < n)%nat -> (i < length out)%nat ->
          nth i (template_variables_gen ev cl allowed base n vars tr) [] = ev (nth i out []))
    /\ (forall i, (i < n)%nat -> (length out <= i)%nat ->
          nth i (template_variables_gen ev cl allowed base n vars tr) [] = []).
Proof.
  unfold template_variables_gen.
  pose proof (get_text_spec cl allowed base vars tr) as H.
  destruct (get_text cl allowed base vars tr) as [out used]. cbn [fst].
  exists out, used. split; [exact H|]. split; [apply pad_to_length|]. split.
  - intros i Hi Hl. apply pad_to_map_nth; assumption.
  - intros i Hi Hl. rewrite pad_to_nth by exact Hi. apply nth_overflow. rewrite map_length. exact Hl.
Qed.

Lemma template_variables_spec cl allowed base n vars tr :
  exists out used,
    spec_pick cl allowed base vars tr out used
    /\ length (template_variables cl allowed base n vars tr) = n
    /\ forall i, (i < n)%nat -> nth i (template_variables cl allowed base n vars tr) [] = nth i out [].
Proof.
  unfold template_variables, template_variables_gen.
  pose proof (get_text_spec cl allowed base vars tr) as H.
  destruct (get_text cl allowed base vars tr) as [out used]. cbn [fst].
  exists out, used. split; [exact H|]. rewrite map_id. split; [apply pad_to_length|].
  intros i Hi. apply pad_to_nth; exact Hi.
Qed.

Example template_variables_example :
  template_variables 3 [3] 1 2 [[118; 49]; [118; 50]] [(3, [[110]; [111]])] = [[110]; [111]]
  /\ template_variables 2 [2] 1 2 [[118; 49]; [118; 50]] [(3, [[110]; [111]])] = [[118; 49]; [118; 50]]
  /\ template_variables 3 [3] 1 2 [[118; 49]; [118; 50]] [(3, [[110]])] = [[110]; []].
Proof. repeat split. Qed.

(* ---- BroadcastTranslations.ForContact ------------------------------------------------------------------- *)

(* without any localization a recipient gets the base content *)
Lemma for_contact_no_localization rl allowed base m :
  let o := for_contact rl allowed base (broadcast_translations base [] m) in
  o_text o = m_text m /\ o_atts o = m_atts m /\ o_qrs o = m_qrs m.
Proof.
  unfold broadcast_translations, broadcast_translations_gen, for_contact, for_contact_langs.
  cbn [map]. unfold evaluate_message_in_gen. cbn [get_text_in]. rewrite N.eqb_refl. cbn [hd].
  set (e := {| o_text := m_text m; o_atts := m_atts m; o_qrs := m_qrs m;
               o_lang := pick_lang (m_text m) (m_atts m) (m_qrs m) base base base |}).
  assert (Hl : forall l, lookup_bc [(base, e)] l = if N.eqb l base then Some e else None)
    by (intros l; cbn; reflexivity).
  assert (Hm : forall acc, o_text acc = [] \/ o_text acc = m_text m ->
                           o_atts acc = [] \/ o_atts acc = m_atts m ->
                           o_qrs acc = [] \/ o_qrs acc = m_qrs m ->
                           let r := fc_merge acc base e in
                           o_text r = m_text m /\ o_atts r = m_atts m /\ o_qrs r = m_qrs m).
  { intros acc [Ht|Ht] [Ha|Ha] [Hq|Hq]; unfold fc_merge; cbn; rewrite Ht, Ha, Hq; subst e; cbn;
      repeat split; try reflexivity;
      try (destruct (m_text m); reflexivity); try (destruct (m_atts m); reflexivity);
      try (destruct (m_qrs m); reflexivity). }
  (* every chain ends in the base language, whose entry supplies whatever is still missing; an entry looked up
     for any other language does not exist *)
  assert (Hstep : forall acc l,
            (o_text acc = [] \/ o_text acc = m_text m) -> (o_atts acc = [] \/ o_atts acc = m_atts m) ->
            (o_qrs acc = [] \/ o_qrs acc = m_qrs m) ->
            let r := match lookup_bc [(base, e)] l with None => acc | Some t => fc_merge acc l t end in
            (o_text r = [] \/ o_text r = m_text m) /\ (o_atts r = [] \/ o_atts r = m_atts m)
            /\ (o_qrs r = [] \/ o_qrs r = m_qrs m)).
  { intros acc l Ht Ha Hq. rewrite Hl. destruct (N.eqb_spec l base) as [->|_]; [|auto].
    destruct (Hm acc Ht Ha Hq) as (A & B & C). cbn in A, B, C. cbn. rewrite A, B, C. auto. }
  set (z := {| o_text := []; o_atts := []; o_qrs := []; o_lang := nil_lang |}).
  assert (Hz : (o_text z = [] \/ o_text z = m_text m) /\ (o_atts z = [] \/ o_atts z = m_atts m)
               /\ (o_qrs z = [] \/ o_qrs z = m_qrs m)) by (cbn; auto).
  destruct (negb (N.eqb rl nil_lang) && lang_in rl allowed); cbn [app fold_left].
  - destruct Hz as (A & B & C). destruct (Hstep z rl A B C) as (A1 & B1 & C1).
    set (a1 := match lookup_bc [(base, e)] rl with None => z | Some t => fc_merge z rl t end) in *.
    destruct (Hstep a1 (env_default allowed) A1 B1 C1) as (A2 & B2 & C2).
    set (a2 := match lookup_bc [(base, e)] (env_default allowed) with None => a1 | Some t => fc_merge a1 (env_default allowed) t end) in *.
    rewrite Hl, N.eqb_refl. apply Hm; assumption.
  - destruct Hz as (A & B & C).
    destruct (Hstep z (env_default allowed) A B C) as (A2 & B2 & C2).
    set (a2 := match lookup_bc [(base, e)] (env_default allowed) with None => z | Some t => fc_merge z (env_default allowed) t end) in *.
    rewrite Hl, N.eqb_refl. apply Hm; assumption.
Qed.

(* ... but with a partially translated language the recipient's content is NOT what the fallback chain prescribes:
   environment [spa; kin; eng], base eng, kin has only its quick replies translated, spa has the text.  The event's
   entry for kin is filled with the BASE text, which ForContact then takes for a kin recipient ("Hello", reported
   as kin), while the chain (and a send_msg to the same contact) gives the spa text. *)
Lemma for_contact_refuted :
  exists rl allowed base loc_langs m,
    let o := for_contact rl allowed base (broadcast_translations base loc_langs m) in
    let w := evaluate_message rl allowed base m in
    o_text o <> o_text w /\ o_lang o <> o_lang w /\ o_qrs o = o_qrs w.
Proof.
  exists 4, [3; 4; 1], 1, [3; 4],
    {| m_text := [72]; m_atts := []; m_qrs := [[121]];
       tr_text := [(3, [[104]])]; tr_atts := []; tr_qrs := [(3, [[115]]); (4, [[107]])] |}.
  vm_compute. repeat split; discriminate.
Qed.

(* ---- router case arguments against the statement (which knows no length rule) --------------------------------- *)

(* when the chain's choice has as many arguments as the base, it is what the router compares *)
Lemma case_arguments_partial cl allowed base args tr :
  length (fst (get_text cl allowed base args tr)) = length args ->
  case_arguments cl allowed base args tr = fst (get_text cl allowed base args tr).
Proof.
  unfold case_arguments. destruct (get_text cl allowed base args tr) as [out used]. cbn [fst].
  intros H. rewrite H, Nat.eqb_refl. reflexivity.
Qed.

(* ... but a translation of another length is replaced by the BASE arguments: neither the chain's choice (fra) nor
   the next language of the chain that has a translation (spa, the environment default) is compared *)
Lemma case_arguments_refuted :
  exists cl allowed base args tr,
    case_arguments cl allowed base args tr <> fst (get_text cl allowed base args tr)
    /\ case_arguments cl allowed base args tr = args
    /\ item_translation tr (env_default allowed) <> [].
Proof.
  exists 2, [3; 2], 1, [[121]], [(2, [[111]; [117]]); (3, [[115]])].
  vm_compute. repeat split; discriminate.
Qed.

(* ---- ForContact: the part that holds -------------------------------------------------------------------------- *)

Lemma lookup_bc_map (f : lang -> msg_out) ls l :
  lookup_bc (map (fun x => (x, f x)) ls) l = if lang_in l ls then Some (f l) else None.
Proof.
  unfold lang_in. induction ls as [|x ls IH]; cbn; [reflexivity|].
  rewrite IH. destruct (existsb (N.eqb l) ls).
  - rewrite Bool.orb_true_r. reflexivity.
  - rewrite Bool.orb_false_r. destruct (N.eqb_spec l x) as [->|_]; reflexivity.
Qed.

Lemma fc_merge_full acc l t :
  o_text acc <> [] -> o_atts acc <> [] -> o_qrs acc <> [] -> fc_merge acc l t = acc.
Proof.
  destruct acc as [tx at_ qr lg]. cbn. intros Ht Ha Hq. unfold fc_merge. cbn.
  destruct tx as [|c tx]; [contradiction|]. destruct at_ as [|a at_]; [contradiction|].
  destruct qr as [|q qr]; [contradiction|]. reflexivity.
Qed.

Lemma get_text_in_head l rest base native tr t ts :
  l <> base -> item_translation tr l = t :: ts ->
  get_text_in (l :: rest) base native tr = (t :: ts, l).
Proof.
  intros Hne Hit. cbn [get_text_in]. destruct (N.eqb_spec l base) as [E|_]; [contradiction|].
  rewrite Hit. reflexivity.
Qed.

(* a recipient whose language is allowed and is COMPLETELY translated (a non-empty translation of each of the three
   parts, the text's first element not empty) gets from the broadcast exactly what the fallback chain gives that
   contact, language included — the known finding needs a language of the chain that is only PARTLY translated *)
Lemma for_contact_complete_language rl allowed base loc_langs m t ts a as_ q qs :
  rl <> nil_lang -> lang_in rl allowed = true -> rl <> base -> lang_in rl loc_langs = true ->
  item_translation (tr_text m) rl = t :: ts -> t <> [] ->
  item_translation (tr_atts m) rl = a :: as_ ->
  item_translation (tr_qrs m) rl = q :: qs ->
  let o := for_contact rl allowed base (broadcast_translations base loc_langs m) in
  let w := evaluate_message rl allowed base m in
  o_text o = t /\ o_text w = t /\ o_atts o = o_atts w /\ o_qrs o = o_qrs w /\ o_lang o = rl /\ o_lang w = rl.
Proof.
  intros Hnil Hal Hnb Hloc Ht Htne Ha Hq.
  (* the chain of the statement *)
  assert (Hw : evaluate_message rl allowed base m
               = {| o_text := t; o_atts := a :: as_; o_qrs := q :: qs; o_lang := rl |}).
  { unfold evaluate_message, evaluate_message_gen, get_text, get_languages, merged_default.
    destruct (N.eqb_spec rl nil_lang) as [E|_]; [contradiction|]. cbn [negb andb]. rewrite Hal.
    destruct (N.eqb_spec rl nil_lang) as [E|_]; [contradiction|]. cbn [app].
    rewrite (get_text_in_head rl _ base [m_text m] (tr_text m) t ts Hnb Ht).
    rewrite (get_text_in_head rl _ base (m_atts m) (tr_atts m) a as_ Hnb Ha).
    rewrite (get_text_in_head rl _ base (m_qrs m) (tr_qrs m) q qs Hnb Hq).
    cbn [hd]. unfold pick_lang. destruct t as [|c t']; [contradiction|]. reflexivity. }
  (* what the event holds for rl, and what ForContact makes of it *)
  assert (He : evaluate_message_in [rl; base] base m
               = {| o_text := t; o_atts := a :: as_; o_qrs := q :: qs; o_lang := rl |}).
  { unfold evaluate_message_in, evaluate_message_in_gen.
    rewrite (get_text_in_head rl _ base [m_text m] (tr_text m) t ts Hnb Ht).
    rewrite (get_text_in_head rl _ base (m_atts m) (tr_atts m) a as_ Hnb Ha).
    rewrite (get_text_in_head rl _ base (m_qrs m) (tr_qrs m) q qs Hnb Hq).
    cbn [hd]. unfold pick_lang. destruct t as [|c t']; [contradiction|]. reflexivity. }
  assert (Ho : for_contact rl allowed base (broadcast_translations base loc_langs m)
               = {| o_text := t; o_atts := a :: as_; o_qrs := q :: qs; o_lang := rl |}).
  { unfold for_contact, for_contact_langs, broadcast_translations, broadcast_translations_gen.
    destruct (N.eqb_spec rl nil_lang) as [E|_]; [contradiction|]. cbn [negb andb]. rewrite Hal.
    cbn [app fold_left].
    change (fun l => (l, evaluate_message_in_gen (fun t0 => t0) (fun l0 => l0) (fun l0 => l0) [l; base] base m))
      with (fun l => (l, evaluate_message_in [l; base] base m)).
    rewrite !lookup_bc_map.
    assert (Hin : lang_in rl (base :: loc_langs) = true).
    { unfold lang_in in *. cbn. rewrite Hloc. apply Bool.orb_true_r. }
    rewrite Hin, He.
    set (full := fc_merge {| o_text := []; o_atts := []; o_qrs := []; o_lang := nil_lang |} rl
                          {| o_text := t; o_atts := a :: as_; o_qrs := q :: qs; o_lang := rl |}).
    assert (Hfull : full = {| o_text := t; o_atts := a :: as_; o_qrs := q :: qs; o_lang := rl |}).
    { unfold full, fc_merge. cbn. destruct t as [|c t']; [contradiction|]. reflexivity. }
    rewrite Hfull.
    assert (Hkeep : forall l (x : option msg_out),
              match x with None => {| o_text := t; o_atts := a :: as_; o_qrs := q :: qs; o_lang := rl |}
                         | Some e => fc_merge {| o_text := t; o_atts := a :: as_; o_qrs := q :: qs; o_lang := rl |} l e end
              = {| o_text := t; o_atts := a :: as_; o_qrs := q :: qs; o_lang := rl |}).
    { intros l [e|]; [|reflexivity]. apply fc_merge_full; cbn; [exact Htne | discriminate | discriminate]. }
    rewrite (Hkeep (env_default allowed)). rewrite (Hkeep base). reflexivity. }
  cbn zeta. rewrite Ho, Hw. cbn. repeat split; reflexivity.
Qed.

(* witnesses for the other known ForContact classes: attachments and quick replies of a partly translated language
   are filled with the base values and shadow the default language's; a content without text reports no language *)
Example for_contact_attachments_and_quick_replies_witness :
  let m := {| m_text := [72]; m_atts := [[98]]; m_qrs := [[121]];
              tr_text := [(3, [[104]]); (4, [[107]])]; tr_atts := [(3, [[99]])]; tr_qrs := [(3, [[115]])] |} in
  let o := for_contact 4 [3; 4; 1] 1 (broadcast_translations 1 [3; 4] m) in
  let w := evaluate_message 4 [3; 4; 1] 1 m in
  o_atts o = [[98]] /\ o_atts w = [[99]] /\ o_qrs o = [[121]] /\ o_qrs w = [[115]] /\ o_text o = o_text w.
Proof. vm_compute. repeat split. Qed.

Example for_contact_textless_locale_witness :
  let m := {| m_text := []; m_atts := [[98]]; m_qrs := [];
              tr_text := []; tr_atts := [(3, [[99]])]; tr_qrs := [] |} in
  let o := for_contact 3 [3; 1] 1 (broadcast_translations 1 [3] m) in
  let w := evaluate_message 3 [3; 1] 1 m in
  o_text o = [] /\ o_atts o = [[99]] /\ o_lang o = nil_lang /\ o_lang w = 3.
Proof. vm_compute. repeat split. Qed.

(* router case arguments are evaluated one by one after they were chosen *)
Definition case_arguments_gen (ev : text -> text) (contact_lang : lang) (allowed : list lang) (base : lang)
           (args : list text) (tr : translations) : list text :=
  map ev (case_arguments contact_lang allowed base args tr).

Lemma case_arguments_gen_spec ev cl allowed base args tr :
  length (fst (get_text cl allowed base args tr)) = length args ->
  case_arguments_gen ev cl allowed base args tr = map ev (fst (get_text cl allowed base args tr)).
Proof. intros H. unfold case_arguments_gen. rewrite (case_arguments_partial _ _ _ _ _ H). reflexivity. Qed.
