(* proofs/CqlTemplateProofs.v — a value substituted into a template with the escaping: the text BEFORE the value lexes
   to its own tokens whatever the value and the rest are (given a certificate computed from the prefix alone), the
   value is one STRING token, and the parser — which never looks at the text of a STRING token — builds the same
   tree for every value. *)
From Coq Require Import List Arith NArith Bool Lia.
From Verif Require Import lib.Quote lib.RegexLM proofs.QuoteProofs model.CqlSyntax gen.GrammarCQL
  model.CqlPrinter model.CqlParser proofs.CqlQuoteProofs proofs.CqlRegexProofs proofs.CqlLexProofs
  proofs.CqlLexPrintProofs proofs.CqlParserProofs proofs.CqlRoundTripProofs.
Import ListNotations.
Close Scope N_scope.

(* ---- the prefix ---------------------------------------------------------------------------------------------- *)

(* Lexing of the prefix r when the next character after it is c, decided without looking beyond c: at every token
   boundary every rule has died before or at c and the chosen token ends inside r.  None = no such certificate
   (e.g. the prefix leaves a quote open). *)
Fixpoint lex_before (fuel : nat) (c : N) (r : list N) : option (list token) :=
  match r with
  | [] => Some []
  | _ :: _ =>
      match fuel with
      | O => None
      | S f =>
          if forallb (fun ru => dies (r_re ru) (r ++ [c])) lexer_rules then
            match pick lexer_rules (r ++ [c]) None with
            | Some (ru, n) =>
                if Nat.leb n (length r) then
                  match lex_before f c (skipn n r) with
                  | Some ts => Some (if r_skip ru then ts else (r_kind ru, firstn n r) :: ts)
                  | None => None
                  end
                else None
            | None => None
            end
          else None
      end
  end.

Lemma cql_lex_step : forall s ru n, s <> [] -> pick lexer_rules s None = Some (ru, n) ->
  cql_lex s =
  match cql_lex (skipn n s) with
  | LexOk ts => LexOk (if r_skip ru then ts else (r_kind ru, firstn n s) :: ts)
  | o => o
  end.
Proof. intros s ru n Hs P. exact (lex_step lexer_rules s ru n Hs P). Qed.

Theorem lex_prefix : forall f c pre tp, lex_before f c pre = Some tp ->
  forall x, cql_lex (pre ++ c :: x) = pushl tp (cql_lex (c :: x)).
Proof.
  induction f as [|f IH]; intros c pre tp H x.
  - destruct pre; [|discriminate]. inversion H. cbn [app]. rewrite pushl_nil. reflexivity.
  - destruct pre as [|a r]; [inversion H; cbn [app]; rewrite pushl_nil; reflexivity|].
    cbn [lex_before] in H.
    destruct (forallb (fun ru => dies (r_re ru) ((a :: r) ++ [c])) lexer_rules) eqn:D; [|discriminate].
    destruct (pick lexer_rules ((a :: r) ++ [c]) None) as [[ru n]|] eqn:P; [|discriminate].
    destruct (Nat.leb n (length (a :: r))) eqn:L; [|discriminate]. apply Nat.leb_le in L.
    destruct (lex_before f c (skipn n (a :: r))) as [ts|] eqn:R; [|discriminate]. inversion H; subst tp. clear H.
    assert (P' : pick lexer_rules ((a :: r) ++ c :: x) None = Some (ru, n)).
    { replace ((a :: r) ++ c :: x) with (((a :: r) ++ [c]) ++ x) by (rewrite <- app_assoc; reflexivity).
      rewrite pick_dies by exact D. exact P. }
    assert (Hne : (a :: r) ++ c :: x <> []) by discriminate.
    rewrite (cql_lex_step _ ru n Hne P').
    rewrite skipn_app, firstn_app.
    replace (n - length (a :: r)) with 0 by lia. cbn [skipn firstn]. rewrite app_nil_r.
    rewrite (IH c _ ts R x).
    destruct (r_skip ru); destruct (cql_lex (c :: x)); reflexivity.
Qed.

(* the escaped value after such a prefix *)
Theorem lex_template : forall p pre tp, lex_before (length pre) 34%N pre = Some tp ->
  forall v rest,
  cql_lex (pre ++ quote_value p v ++ rest) = pushl (tp ++ [(STRING, quote_value p v)]) (cql_lex rest).
Proof.
  intros p pre tp H v rest.
  destruct (quote_value_shape p v) as (body & E & _).
  assert (E' : quote_value p v ++ rest = 34%N :: (body ++ [34%N]) ++ rest) by (rewrite E; reflexivity).
  rewrite E'. rewrite (lex_prefix _ _ _ _ H). rewrite <- E'. rewrite lex_quoted_value.
  rewrite pushl_app. destruct (cql_lex rest); reflexivity.
Qed.

(* templates: `name = `, a nested one, and one that leaves a quote open (no certificate: the next quote would close it) *)
Definition tpl1 : list N := [110; 97; 109; 101; 32; 61; 32]%N.
Definition tpl2 : list N :=
  [40; 102; 105; 101; 108; 100; 115; 46; 97; 103; 101; 32; 62; 32; 49; 48; 32; 79; 82; 32; 110; 97; 109; 101; 32; 33; 61; 32]%N.
Definition tpl_open : list N := [110; 97; 109; 101; 32; 61; 32; 34; 120; 32]%N.

Example lex_before_examples :
  lex_before (length tpl1) 34%N tpl1 = Some [(PROPERTY, [110; 97; 109; 101]%N); (COMPARATOR, [61%N])]
  /\ lex_before (length tpl2) 34%N tpl2
     = Some [(LPAREN, [40%N]); (PROPERTY, [102; 105; 101; 108; 100; 115; 46; 97; 103; 101]%N); (COMPARATOR, [62%N]);
             (PROPERTY, [49; 48]%N); (OR, [79; 82]%N); (PROPERTY, [110; 97; 109; 101]%N); (COMPARATOR, [33; 61]%N)]
  /\ lex_before (length tpl_open) 34%N tpl_open = None.
Proof. repeat split; vm_compute; reflexivity. Qed.

(* ---- the parser does not read STRING tokens -------------------------------------------------------------------- *)

Definition tok_sim (t1 t2 : token) : Prop := t1 = t2 \/ (fst t1 = STRING /\ fst t2 = STRING).

(* the same parse tree up to the text of STRING literals *)
Inductive ast_sim : ast -> ast -> Prop :=
| sim_cond : forall pr c l1 l2, tok_sim l1 l2 -> ast_sim (ACond pr c l1) (ACond pr c l2)
| sim_impl : forall l1 l2, tok_sim l1 l2 -> ast_sim (AImplicit l1) (AImplicit l2)
| sim_bin : forall b a1 a2 b1 b2, ast_sim a1 a2 -> ast_sim b1 b2 -> ast_sim (ABin b a1 b1) (ABin b a2 b2).

Definition pres_sim (r1 r2 : pres ast) : Prop :=
  match r1, r2 with
  | PFuel, PFuel => True
  | PErr, PErr => True
  | POk a1 t1, POk a2 t2 => ast_sim a1 a2 /\ Forall2 tok_sim t1 t2
  | _, _ => False
  end.

Lemma tok_sim_kind k1 t1 k2 t2 : tok_sim (k1, t1) (k2, t2) -> k1 = k2.
Proof. intros [E|[E1 E2]]; [inversion E; reflexivity|]. cbn [fst] in *. congruence. Qed.

Lemma tok_sim_text k1 t1 k2 t2 : tok_sim (k1, t1) (k2, t2) -> k1 <> STRING -> t1 = t2.
Proof. intros [E|[E1 E2]] H; [inversion E; reflexivity|]. cbn [fst] in *. congruence. Qed.

Lemma tok_sim_refl t : tok_sim t t.
Proof. left. reflexivity. Qed.

Lemma primary_sim : forall f,
  (forall p ts1 ts2, Forall2 tok_sim ts1 ts2 -> pres_sim (parse_expr f p ts1) (parse_expr f p ts2)) ->
  forall ts1 ts2, Forall2 tok_sim ts1 ts2 -> pres_sim (primary f ts1) (primary f ts2).
Proof.
  intros f IHe ts1 ts2 H. unfold primary.
  destruct H as [|[k1 t1] [k2 t2] r1 r2 Ht Hr]; [exact I|].
  pose proof (tok_sim_kind _ _ _ _ Ht) as Ek. subst k2.
  destruct (tkind_eqb k1 LPAREN) eqn:E1.
  - specialize (IHe 0 r1 r2 Hr).
    destruct (parse_expr f 0 r1) as [| |e1 q1]; destruct (parse_expr f 0 r2) as [| |e2 q2]; cbn [pres_sim] in IHe; try contradiction; try exact I.
    destruct IHe as [He Hq]. destruct Hq as [|[k3 t3] [k4 t4] q1' q2' Hk Hq']; [exact I|].
    pose proof (tok_sim_kind _ _ _ _ Hk) as Ek. subst k4.
    destruct (tkind_eqb k3 RPAREN); [split; assumption|exact I].
  - destruct (tkind_eqb k1 PROPERTY) eqn:E2.
    + assert (k1 = PROPERTY) by (destruct k1; simpl in E2; congruence). subst k1.
      assert (Et : t1 = t2) by (eapply tok_sim_text; [exact Ht|discriminate]). subst t2.
      destruct Hr as [|[k3 t3] [k4 t4] q1 q2 Hk Hq]; [split; [constructor; apply tok_sim_refl|constructor]|].
      pose proof (tok_sim_kind _ _ _ _ Hk) as Ek. subst k4.
      destruct (tkind_eqb k3 COMPARATOR) eqn:E3.
      * assert (k3 = COMPARATOR) by (destruct k3; simpl in E3; congruence). subst k3.
        assert (Et : t3 = t4) by (eapply tok_sim_text; [exact Hk|discriminate]). subst t4.
        destruct Hq as [|[k5 t5] [k6 t6] q1' q2' Hk5 Hq']; [exact I|].
        pose proof (tok_sim_kind _ _ _ _ Hk5) as Ek. subst k6.
        destruct (is_lit k5); [|exact I]. split; [constructor; exact Hk5|exact Hq'].
      * split; [constructor; apply tok_sim_refl|]. constructor; assumption.
    + destruct (is_lit k1); [|exact I]. split; [constructor; exact Ht|exact Hr].
Qed.

Lemma parse_sim : forall f,
  (forall p ts1 ts2, Forall2 tok_sim ts1 ts2 -> pres_sim (parse_expr f p ts1) (parse_expr f p ts2))
  /\ (forall p l1 l2 ts1 ts2, ast_sim l1 l2 -> Forall2 tok_sim ts1 ts2 ->
      pres_sim (parse_loop f p l1 ts1) (parse_loop f p l2 ts2)).
Proof.
  induction f as [|f [IHe IHl]]; [split; intros; exact I|].
  split.
  - intros p ts1 ts2 H. rewrite !parse_expr_S.
    pose proof (primary_sim f IHe ts1 ts2 H) as HP.
    destruct (primary f ts1) as [| |e1 r1]; destruct (primary f ts2) as [| |e2 r2]; cbn [pres_sim] in HP; try contradiction; try exact I.
    destruct HP as [He Hr]. apply IHl; assumption.
  - intros p l1 l2 ts1 ts2 Hl H. rewrite !parse_loop_S.
    destruct H as [|[k1 t1] [k2 t2] r1 r2 Ht Hr]; [split; [exact Hl|constructor]|].
    pose proof (tok_sim_kind _ _ _ _ Ht) as Ek. subst k2.
    assert (Hts : Forall2 tok_sim ((k1, t1) :: r1) ((k1, t2) :: r2)) by (constructor; assumption).
    assert (Hstep : forall pp b q1 q2, Forall2 tok_sim q1 q2 ->
              pres_sim (match parse_expr f pp q1 with POk e r => parse_loop f p (ABin b l1 e) r | other => other end)
                       (match parse_expr f pp q2 with POk e r => parse_loop f p (ABin b l2 e) r | other => other end)).
    { intros pp b q1 q2 Hq. specialize (IHe pp q1 q2 Hq).
      destruct (parse_expr f pp q1) as [| |e1 x1]; destruct (parse_expr f pp q2) as [| |e2 x2]; cbn [pres_sim] in IHe; try contradiction; try exact I.
      destruct IHe as [He Hx]. apply IHl; [constructor; assumption|exact Hx]. }
    destruct (tkind_eqb k1 AND).
    { destruct (Nat.leb p prec_and); [apply Hstep; exact Hr|split; assumption]. }
    destruct (tkind_eqb k1 OR).
    { destruct (Nat.leb p prec_or); [apply Hstep; exact Hr|split; assumption]. }
    destruct (starts_primary k1); [|split; assumption].
    destruct (Nat.leb p prec_juxt); [apply Hstep; exact Hts|split; assumption].
Qed.

Theorem parse_tokens_sim : forall ts1 ts2, Forall2 tok_sim ts1 ts2 -> pres_sim (parse_tokens ts1) (parse_tokens ts2).
Proof.
  intros ts1 ts2 H. unfold parse_tokens.
  assert (L : length ts1 = length ts2) by (induction H; cbn [length]; congruence).
  rewrite <- L. destruct (parse_sim (4 * length ts1 + 4)) as [He _]. specialize (He 0 ts1 ts2 H).
  destruct (parse_expr (4 * length ts1 + 4) 0 ts1) as [| |e1 r1]; destruct (parse_expr (4 * length ts1 + 4) 0 ts2) as [| |e2 r2];
    cbn [pres_sim] in He; try contradiction; try exact I.
  destruct He as [He Hr]. destruct Hr; [split; [exact He|constructor]|exact I].
Qed.

Lemma Forall2_sim_refl : forall ts, Forall2 tok_sim ts ts.
Proof. induction ts; constructor; [apply tok_sim_refl|assumption]. Qed.

(* Whatever values are substituted into one slot of a template (prefix with a certificate, any remaining text),
   the two token streams differ in the text of that one STRING token only and the parser returns the same outcome:
   a syntax error for both, or parse trees equal up to the text of that literal — same conditions, same properties,
   same operators, same boolean structure. *)
Theorem template_structure : forall p pre tp, lex_before (length pre) 34%N pre = Some tp ->
  forall v1 v2 rest,
  match cql_lex rest with
  | LexOk tr =>
      cql_lex (pre ++ quote_value p v1 ++ rest) = LexOk (tp ++ (STRING, quote_value p v1) :: tr)
      /\ cql_lex (pre ++ quote_value p v2 ++ rest) = LexOk (tp ++ (STRING, quote_value p v2) :: tr)
      /\ pres_sim (parse_tokens (tp ++ (STRING, quote_value p v1) :: tr)) (parse_tokens (tp ++ (STRING, quote_value p v2) :: tr))
  | other => cql_lex (pre ++ quote_value p v1 ++ rest) = other /\ cql_lex (pre ++ quote_value p v2 ++ rest) = other
  end.
Proof.
  intros p pre tp H v1 v2 rest.
  rewrite !(lex_template p pre tp H).
  destruct (cql_lex rest) as [tr| |]; cbn [pushl]; try (split; reflexivity).
  rewrite <- !app_assoc. cbn [app]. split; [reflexivity|]. split; [reflexivity|].
  apply parse_tokens_sim. apply Forall2_app; [apply Forall2_sim_refl|].
  constructor; [right; split; reflexivity|apply Forall2_sim_refl].
Qed.

(* the visitor: property type, key and operator of an explicit condition do not depend on the literal's value *)
Lemma visit_condition_shape : forall e pr c, exists pt key o, forall v, fst (visit_condition e pr c v) = Cond pt key o v.
Proof.
  intros e pr c. unfold visit_condition.
  destruct (split_dot (lower e pr)) as [p0 [p1|]].
  - destruct (text_eqb p0 k_fields); [eexists _, _, _; intros; reflexivity|].
    destruct (text_eqb p0 k_urns); eexists _, _, _; intros; reflexivity.
  - destruct (is_attribute (lower e pr)); [eexists _, _, _; intros; reflexivity|].
    destruct (pe_valid_scheme e (lower e pr)); eexists _, _, _; intros; reflexivity.
Qed.

(* The theorems above are about the WHOLE escaped value.  A cut anywhere inside it (what truncating an evaluated
   template to a maximum length did before fix "evaluated contact queries are not truncated") loses the closing
   quote: for the value  a QUOTE OR id = 1 xxxx  the text  name = QUOTE a BACKSLASH QUOTE OR id = 1 xx  lexes to a
   STRING holding a backslash, then OR, id, =, 1, xx — the rest of the value has become query text. *)
Example truncation_breaks_quoting :
  let p := fun c => ((32 <=? c) && (c <? 127))%N in
  let v := [97; 34; 32; 79; 82; 32; 105; 100; 32; 61; 32; 49; 32; 120; 120; 120; 120]%N in
  cql_lex (tpl1 ++ firstn 18 (quote_value p v))
  = LexOk [(PROPERTY, [110; 97; 109; 101]%N); (COMPARATOR, [61%N]); (STRING, [34; 97; 92; 34]%N); (OR, [79; 82]%N);
           (PROPERTY, [105; 100]%N); (COMPARATOR, [61%N]); (PROPERTY, [49%N]); (PROPERTY, [120; 120; 120]%N)]
  /\ cql_lex (tpl1 ++ quote_value p v) = LexOk [(PROPERTY, [110; 97; 109; 101]%N); (COMPARATOR, [61%N]); (STRING, quote_value p v)].
Proof. split; vm_compute; reflexivity. Qed.

(* ---- the two steps around the parser ------------------------------------------------------------------------------ *)

(* before the lexer: a text that contains a double quote is never taken for a phone number, so ParseQuery's
   preprocessing only trims it — in particular every template instance with an escaped value *)
Lemma in_trim_left c s : In c s -> is_space c = false -> In c (trim_left s).
Proof.
  induction s as [|x s IH]; intros H Hc; [contradiction|]. cbn [trim_left].
  destruct (is_space x) eqn:E; [|exact H]. destruct H as [->|H]; [congruence|auto].
Qed.

Lemma in_trim c s : In c s -> is_space c = false -> In c (trim s).
Proof.
  intros H Hc. unfold trim. apply in_rev. rewrite rev_involutive. apply in_trim_left; [|exact Hc].
  apply in_rev. rewrite rev_involutive. apply in_trim_left; assumption.
Qed.

Lemma only_phone_nonphone c t : In c t -> phone_char c = false -> c <> 43%N -> only_phone t = false.
Proof.
  intros H Hc H43. apply in_split in H. destruct H as (a & b & ->).
  destruct a as [|x a]; [|apply only_phone_false; [discriminate|exact Hc]].
  cbn [app]. unfold only_phone. replace (N.eqb c 43) with false by (symmetry; apply N.eqb_neq; exact H43).
  cbn [forallb]. rewrite Hc. reflexivity.
Qed.

Theorem preprocess_quoted : forall e s, In 34%N s -> preprocess e s = trim s.
Proof.
  intros e s H. unfold preprocess. destruct (pe_redact e); [reflexivity|].
  rewrite (only_phone_nonphone 34%N (trim (trim s))); [reflexivity| |reflexivity|discriminate].
  apply in_trim; [|reflexivity]. apply in_trim; [exact H|reflexivity].
Qed.

(* after the parser: a literal in IMPLICIT position always becomes exactly one condition — but WHICH property and
   operator is chosen by the value (name ~ / name = by its tokens, tel ~ for phone-like digits, a URN condition for
   scheme:path, id = n for a number under URN redaction), by design of implicit conditions *)
Theorem visit_implicit_one_condition : forall e v, exists pt key o v', visit_implicit e v = Cond pt key o v'.
Proof.
  intros e v. unfold visit_implicit.
  destruct (pe_redact e).
  - destruct (atoi v); eexists _, _, _, _; reflexivity.
  - destruct (pe_urn e v) as [[sc pth]|]; [destruct (pe_valid_scheme e sc)|]; try (eexists _, _, _, _; reflexivity);
      destruct (implicit_phone v); eexists _, _, _, _; reflexivity.
Qed.

Example implicit_value_chooses_condition :
  visit_implicit (env_example true ascii_lower) [53%N] = Cond PAttr AttributeID OpEqual [53%N]
  /\ visit_implicit (env_example false ascii_lower) [53%N] = Cond PAttr AttributeName OpEqual [53%N]
  /\ visit_implicit (env_example false ascii_lower) [49; 50; 51; 52; 53]%N = Cond PURN k_tel OpContains [49; 50; 51; 52; 53]%N.
Proof. repeat split; vm_compute; reflexivity. Qed.
