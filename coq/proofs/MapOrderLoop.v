(* MapOrderLoop.v -- the loop-body theorem of property C08: a `range` body made only of the statement kinds that
   model/MapOrder.v's `stmt_safe` accepts (writes and deletes keyed by the loop key, appends to slices that are
   sorted afterwards, integer and boolean accumulation, constant flags) leaves the same state behind for every
   order in which the runtime visits the map.  The statement kinds it rejects are shown order-dependent by
   witnesses.  This is what gives `effect_safe` (the classification of gen/MapRangeSites.v) its meaning. *)
From Coq Require Import List String NArith ZArith Bool Permutation Lia RelationClasses Morphisms.
From Verif Require Import model.MapOrder proofs.MapOrderProofs.
Import ListNotations.

Section LoopFacts.
  Variables K V I : Type.
  Variable keq : K -> K -> bool.
  Variable ieq : I -> I -> bool.
  Hypothesis keq_spec : forall a b, keq a b = true <-> a = b.
  Hypothesis ieq_spec : forall a b, ieq a b = true -> a = b.

  Notation cell := (cell K I).
  Notation stmt := (stmt K V I).

  (* maps are observed through lookups, slices (sorted before use) as multisets, scalars as values *)
  Definition cell_equiv (c1 c2 : cell) : Prop :=
    match c1, c2 with
    | CMap m1, CMap m2 => map_equiv keq m1 m2
    | CList l1, CList l2 => Permutation l1 l2
    | CInt a, CInt b => a = b
    | COr a, COr b => a = b
    | CAnd a, CAnd b => a = b
    | CFlag a, CFlag b => a = b
    | _, _ => False
    end.

  Definition state_equiv (s1 s2 : list cell) : Prop := Forall2 cell_equiv s1 s2.

  Instance cell_equiv_refl : Reflexive cell_equiv.
  Proof. intros [m|l|z|b|b|o]; simpl; try reflexivity. Qed.

  Instance cell_equiv_sym : Symmetric cell_equiv.
  Proof.
    intros [m1|l1|z1|b1|b1|o1] [m2|l2|z2|b2|b2|o2]; simpl; intro H; try contradiction; try (symmetry; exact H).
  Qed.

  Instance cell_equiv_trans : Transitive cell_equiv.
  Proof.
    intros [m1|l1|z1|b1|b1|o1] [m2|l2|z2|b2|b2|o2] [m3|l3|z3|b3|b3|o3]; simpl; intros H1 H2;
      try contradiction; try (etransitivity; eassumption).
  Qed.

  Instance state_equiv_Equivalence : Equivalence state_equiv.
  Proof.
    split.
    - intro s. induction s; constructor. reflexivity. assumption.
    - intros s1 s2 H. induction H; constructor. symmetry; assumption. assumption.
    - intros s1 s2 s3 H1. revert s3. induction H1; intros s3 H2; inversion H2; subst; constructor.
      etransitivity; eassumption. apply IHForall2. assumption.
  Qed.

  Lemma apply_stmt_cong : forall (s : stmt) k v c c',
    cell_equiv c c' -> cell_equiv (apply_stmt K V I keq s k v c) (apply_stmt K V I keq s k v c').
  Proof.
    intros s k v c c' H.
    destruct s; destruct c; destruct c'; simpl in *; try contradiction; try exact H;
      repeat match goal with |- context [if ?b then _ else _] => destruct b end; simpl; try exact H; subst; try reflexivity.
    - apply upsert_cong. exact keq_spec. exact H.
    - apply remove_key_cong. exact keq_spec. exact H.
    - apply Permutation_app_tail. exact H.
    - rewrite (H k). apply upsert_cong. exact keq_spec. exact H.
    - apply upsert_cong. exact keq_spec. exact H.
  Qed.

  Lemma upd_cong : forall i f st st',
    (forall c c', cell_equiv c c' -> cell_equiv (f c) (f c')) ->
    state_equiv st st' -> state_equiv (upd K I i f st) (upd K I i f st').
  Proof.
    intros i f st st' Hf H. revert i. induction H as [|c c' t t' Hc Ht IH]; intro i; simpl.
    - constructor.
    - destruct i; constructor; try assumption. apply Hf. exact Hc. apply IH.
  Qed.

  Lemma upd_upd_neq : forall i j f g (st : list cell), i <> j ->
    upd K I i f (upd K I j g st) = upd K I j g (upd K I i f st).
  Proof.
    intros i j f g st. revert i j. induction st as [|c t IH]; intros i j Hne; simpl. reflexivity.
    destruct i; destruct j; simpl; try reflexivity. contradiction. f_equal. apply IH. intro E. apply Hne. f_equal. exact E.
  Qed.

  Lemma upd_upd_same : forall i f g (st : list cell),
    upd K I i f (upd K I i g st) = upd K I i (fun c => f (g c)) st.
  Proof.
    intros i f g st. revert i. induction st as [|c t IH]; intro i; simpl. reflexivity.
    destruct i; simpl. reflexivity. f_equal. apply IH.
  Qed.

  Lemma upd_ext_equiv : forall i f g (st : list cell),
    (forall c, cell_equiv (f c) (g c)) -> state_equiv (upd K I i f st) (upd K I i g st).
  Proof.
    intros i f g st H. revert i. induction st as [|c t IH]; intro i; simpl. constructor.
    destruct i; constructor. apply H. reflexivity. reflexivity. apply IH.
  Qed.

  Lemma exec_stmt_cong : forall k v (s : stmt) st st',
    state_equiv st st' -> state_equiv (exec_stmt K V I keq k v st s) (exec_stmt K V I keq k v st' s).
  Proof.
    intros k v s st st' H. unfold exec_stmt. apply upd_cong. intros c c'. apply apply_stmt_cong. exact H.
  Qed.

  Lemma exec_stmts_cong : forall k v (body : list stmt) st st',
    state_equiv st st' ->
    state_equiv (fold_left (exec_stmt K V I keq k v) body st) (fold_left (exec_stmt K V I keq k v) body st').
  Proof.
    intros k v body. induction body as [|s t IH]; intros st st' H; simpl. exact H.
    apply IH. apply exec_stmt_cong. exact H.
  Qed.

  (* two accepted statements, executed for two different keys, commute on the cell they share *)
  Lemma cell_comm : forall (s1 s2 : stmt) k1 v1 k2 v2 c,
    stmt_safe K V I s1 = true -> stmt_safe K V I s2 = true ->
    stmt_dst K V I s1 = stmt_dst K V I s2 -> flags_agree K V I keq ieq s1 s2 = true ->
    k1 <> k2 ->
    cell_equiv (apply_stmt K V I keq s2 k2 v2 (apply_stmt K V I keq s1 k1 v1 c))
               (apply_stmt K V I keq s1 k1 v1 (apply_stmt K V I keq s2 k2 v2 c)).
  Proof.
    intros s1 s2 k1 v1 k2 v2 c H1 H2 Hd Hagree Hne.
    assert (Hne' : k2 <> k1) by (intro E; apply Hne; symmetry; exact E).
    destruct s1; try discriminate; destruct s2; try discriminate; simpl in Hd; subst;
      simpl in Hagree; rewrite ?Nat.eqb_refl in Hagree; simpl in Hagree; try discriminate;
      destruct c; simpl;
      repeat match goal with |- context [if ?b then _ else _] => destruct b eqn:? end; simpl; try reflexivity;
      repeat match goal with
             | H : keq _ _ = true |- _ => apply keq_spec in H
             end; subst; try contradiction.
    - (* write, write *) apply upsert_comm. exact keq_spec. exact Hne.
    - (* write, delete *) apply upsert_remove_comm. exact keq_spec. exact Hne.
    - (* write, update *)
      rewrite (lookup_upsert keq keq_spec), (keq_neq keq keq_spec k2 k1 Hne'). apply upsert_comm. exact keq_spec. exact Hne.
    - (* delete, write *) symmetry. apply upsert_remove_comm. exact keq_spec. exact Hne'.
    - (* delete, delete *) apply remove_remove_comm. exact keq_spec.
    - (* delete, update *)
      rewrite (lookup_remove_key keq keq_spec), (keq_neq keq keq_spec k2 k1 Hne'). symmetry. apply upsert_remove_comm. exact keq_spec. exact Hne'.
    - (* append, append *)
      rewrite <- !app_assoc. apply Permutation_app_head. apply perm_swap.
    - (* int, int *) lia.
    - (* or, or *) destruct b; destruct (g k1 v1); destruct (g0 k2 v2); reflexivity.
    - (* and, and *) destruct b; destruct (g k1 v1); destruct (g0 k2 v2); reflexivity.
    - (* flag, flag *) apply ieq_spec in Hagree. subst. reflexivity.
    - (* update, write *)
      rewrite (lookup_upsert keq keq_spec), (keq_neq keq keq_spec k1 k2 Hne). apply upsert_comm. exact keq_spec. exact Hne.
    - (* update, delete *)
      rewrite (lookup_remove_key keq keq_spec), (keq_neq keq keq_spec k1 k2 Hne). apply upsert_remove_comm. exact keq_spec. exact Hne.
    - (* update, update *)
      rewrite !(lookup_upsert keq keq_spec), (keq_neq keq keq_spec k2 k1 Hne'), (keq_neq keq keq_spec k1 k2 Hne).
      apply upsert_comm. exact keq_spec. exact Hne.
  Qed.

  Definition stmts_compatible (s1 s2 : stmt) : Prop :=
    stmt_safe K V I s1 = true /\ stmt_safe K V I s2 = true /\
    (stmt_dst K V I s1 = stmt_dst K V I s2 -> flags_agree K V I keq ieq s1 s2 = true).

  Lemma exec_stmt_comm : forall (s1 s2 : stmt) k1 v1 k2 v2 st,
    stmts_compatible s1 s2 -> k1 <> k2 ->
    state_equiv (exec_stmt K V I keq k2 v2 (exec_stmt K V I keq k1 v1 st s1) s2)
                (exec_stmt K V I keq k1 v1 (exec_stmt K V I keq k2 v2 st s2) s1).
  Proof.
    intros s1 s2 k1 v1 k2 v2 st [H1 [H2 Hf]] Hne. unfold exec_stmt.
    destruct (Nat.eq_dec (stmt_dst K V I s1) (stmt_dst K V I s2)) as [E|E].
    - rewrite E. rewrite !upd_upd_same. apply upd_ext_equiv. intro c.
      apply cell_comm; try assumption. apply Hf. exact E.
    - rewrite upd_upd_neq. reflexivity. intro E'. apply E. symmetry. exact E'.
  Qed.

  (* one statement for key k1 against a whole body for key k2 *)
  Lemma exec_one_many_comm : forall (s1 : stmt) (body : list stmt) k1 v1 k2 v2 st,
    (forall s2, In s2 body -> stmts_compatible s1 s2) -> k1 <> k2 ->
    state_equiv (fold_left (exec_stmt K V I keq k2 v2) body (exec_stmt K V I keq k1 v1 st s1))
                (exec_stmt K V I keq k1 v1 (fold_left (exec_stmt K V I keq k2 v2) body st) s1).
  Proof.
    intros s1 body k1 v1 k2 v2. induction body as [|s2 t IH]; intros st Hc Hne; simpl. reflexivity.
    etransitivity.
    - apply exec_stmts_cong. apply exec_stmt_comm. apply Hc. left; reflexivity. exact Hne.
    - apply IH. intros s Hs. apply Hc. right; exact Hs. exact Hne.
  Qed.

  Lemma exec_many_many_comm : forall (body1 body2 : list stmt) k1 v1 k2 v2 st,
    (forall s1 s2, In s1 body1 -> In s2 body2 -> stmts_compatible s1 s2) -> k1 <> k2 ->
    state_equiv (fold_left (exec_stmt K V I keq k2 v2) body2 (fold_left (exec_stmt K V I keq k1 v1) body1 st))
                (fold_left (exec_stmt K V I keq k1 v1) body1 (fold_left (exec_stmt K V I keq k2 v2) body2 st)).
  Proof.
    intros body1 body2 k1 v1 k2 v2. induction body1 as [|s1 t IH]; intros st Hc Hne; simpl. reflexivity.
    etransitivity.
    - apply IH. intros a b Ha Hb. apply Hc. right; exact Ha. exact Hb. exact Hne.
    - apply exec_stmts_cong. apply exec_one_many_comm. intros s2 Hs2. apply Hc. left; reflexivity. exact Hs2. exact Hne.
  Qed.

  Lemma body_safe_compatible : forall (body : list stmt),
    body_safe K V I keq ieq body = true -> forall s1 s2, In s1 body -> In s2 body -> stmts_compatible s1 s2.
  Proof.
    intros body H s1 s2 H1 H2. unfold body_safe in H. apply andb_true_iff in H. destruct H as [Hs Hf].
    rewrite forallb_forall in Hs. rewrite forallb_forall in Hf.
    split. apply Hs; exact H1. split. apply Hs; exact H2.
    intros _. specialize (Hf s1 H1). rewrite forallb_forall in Hf. apply Hf. exact H2.
  Qed.

  (* THE LOOP-BODY THEOREM.  For every body of accepted statements, every initial state and every two visiting
     orders of the same map, the loop ends in equivalent states. *)
  Theorem safe_body_perm_invariant : forall (body : list stmt) (st : list cell) (l1 l2 : list (K * V)),
    body_safe K V I keq ieq body = true ->
    NoDup (map fst l1) -> Permutation l1 l2 ->
    state_equiv (run_loop K V I keq body st l1) (run_loop K V I keq body st l2).
  Proof.
    intros body st l1 l2 Hsafe Hnd Hp. unfold run_loop.
    apply (fold_left_perm_nodup state_equiv (exec_body K V I keq body)).
    - exact state_equiv_Equivalence.
    - intros s s' x H. unfold exec_body. apply exec_stmts_cong. exact H.
    - intros s [k1 v1] [k2 v2] Hne. unfold exec_body. simpl in *.
      apply exec_many_many_comm. intros a b Ha Hb. apply (body_safe_compatible body); assumption. exact Hne.
    - exact Hp.
    - exact Hnd.
  Qed.

  (* what the rest of the function sees: a slice that is sorted (total order separating its items) after the loop
     is the same list, a map answers every lookup the same, scalars are equal *)
  Definition observe (leb : I -> I -> bool) (c : cell) : cell :=
    match c with CList l => CList (isort leb l) | _ => c end.

  Lemma observe_equal : forall leb c1 c2,
    (forall a b, leb a b = true \/ leb b a = true) ->
    (forall a b c, leb a b = true -> leb b c = true -> leb a c = true) ->
    (forall a b, leb a b = true -> leb b a = true -> a = b) ->
    cell_equiv c1 c2 ->
    match observe leb c1, observe leb c2 with
    | CMap m1, CMap m2 => forall k, lookup keq k m1 = lookup keq k m2
    | o1, o2 => o1 = o2
    end.
  Proof.
    intros leb c1 c2 Htot Htr Hanti H.
    destruct c1; destruct c2; simpl in *; try contradiction; subst; try reflexivity.
    - exact H.
    - f_equal. apply isort_perm_invariant; try assumption. intros x y _ _. apply Hanti.
  Qed.
End LoopFacts.

(* ------------------------------------------------------------------------------------------------ *)
(* the hypotheses are satisfiable and the theorem is not vacuous: a body that writes a map by the key, appends
   to a slice and counts, run on a two-entry map in both orders *)
Definition demo_body : list (stmt N N N) :=
  [SMapWriteKey 0 (fun _ _ => true) (fun k v => (k + v)%N);
   SAppend 1 (fun _ v => N.ltb 0 v) (fun k _ => k);
   SAccumInt 2 (fun _ v => Z.of_N v);
   SFlagSet 3 (fun _ v => N.eqb v 20) 1%N].

Example demo_body_safe : body_safe N N N N.eqb N.eqb demo_body = true.
Proof. reflexivity. Qed.

Example demo_body_orders :
  run_loop N N N N.eqb demo_body [CMap []; CList []; CInt 0; CFlag None] [(1, 10); (2, 20)]%N
    = [CMap [(1, 11); (2, 22)]; CList [1; 2]; CInt 30; CFlag (Some 1)]%N
  /\ run_loop N N N N.eqb demo_body [CMap []; CList []; CInt 0; CFlag None] [(2, 20); (1, 10)]%N
    = [CMap [(2, 22); (1, 11)]; CList [2; 1]; CInt 30; CFlag (Some 1)]%N.
Proof. split; reflexivity. Qed.

(* the rejected kinds are order-dependent: last-writer-wins assignment ... *)
Theorem assign_outer_refuted :
  exists (body : list (stmt N N N)) (l1 l2 : list (N * N)),
    NoDup (map fst l1) /\ Permutation l1 l2 /\
    run_loop N N N N.eqb body [CFlag None] l1 <> run_loop N N N N.eqb body [CFlag None] l2.
Proof.
  exists [SAssign 0 (fun _ _ => true) (fun k _ => k)], [(1, 10); (2, 20)]%N, [(2, 20); (1, 10)]%N.
  split; [|split].
  - simpl. constructor. intros [H|[]]. discriminate. constructor. intros []. constructor.
  - apply perm_swap.
  - vm_compute. discriminate.
Qed.

(* ... a map write through a computed key on which two entries collide ... *)
Theorem map_write_other_refuted :
  exists (body : list (stmt N N N)) (l1 l2 : list (N * N)),
    NoDup (map fst l1) /\ Permutation l1 l2 /\
    (exists k, match run_loop N N N N.eqb body [CMap []] l1, run_loop N N N N.eqb body [CMap []] l2 with
               | [CMap m1], [CMap m2] => lookup N.eqb k m1 <> lookup N.eqb k m2
               | _, _ => False
               end).
Proof.
  exists [SMapWriteOther 0 (fun _ _ => 0%N) (fun _ v => v)], [(1, 10); (2, 20)]%N, [(2, 20); (1, 10)]%N.
  split; [|split].
  - simpl. constructor. intros [H|[]]. discriminate. constructor. intros []. constructor.
  - apply perm_swap.
  - exists 0%N. vm_compute. discriminate.
Qed.

(* ... an append to a slice that is not sorted afterwards (the theorem only gives a permutation) ... *)
Theorem append_unsorted_refuted :
  exists (body : list (stmt N N N)) (l1 l2 : list (N * N)),
    body_safe N N N N.eqb N.eqb body = true /\ NoDup (map fst l1) /\ Permutation l1 l2 /\
    run_loop N N N N.eqb body [CList []] l1 <> run_loop N N N N.eqb body [CList []] l2.
Proof.
  exists [SAppend 0 (fun _ _ => true) (fun k _ => k)], [(1, 10); (2, 20)]%N, [(2, 20); (1, 10)]%N.
  split; [|split; [|split]].
  - reflexivity.
  - simpl. constructor. intros [H|[]]. discriminate. constructor. intros []. constructor.
  - apply perm_swap.
  - vm_compute. discriminate.
Qed.

(* ... and two different constants assigned to one flag *)
Theorem flag_two_constants_refuted :
  exists (body : list (stmt N N N)) (l1 l2 : list (N * N)),
    forallb (stmt_safe N N N) body = true /\ NoDup (map fst l1) /\ Permutation l1 l2 /\
    run_loop N N N N.eqb body [CFlag None] l1 <> run_loop N N N N.eqb body [CFlag None] l2.
Proof.
  exists [SFlagSet 0 (fun k _ => N.eqb k 1) 7%N; SFlagSet 0 (fun k _ => N.eqb k 2) 8%N],
         [(1, 10); (2, 20)]%N, [(2, 20); (1, 10)]%N.
  split; [|split; [|split]].
  - reflexivity.
  - simpl. constructor. intros [H|[]]. discriminate. constructor. intros []. constructor.
  - apply perm_swap.
  - vm_compute. discriminate.
Qed.

(* the descriptor the translator computes for an accepted body is accepted by `effect_safe`, and the descriptor
   of a body containing a rejected statement is not *)
Theorem safe_stmt_effect_safe : forall (K V I : Type) (s : stmt K V I),
  stmt_safe K V I s = true -> (forall d c g, s <> SAssignAtKey d c g) ->
  effect_safe (effect_of_stmt K V I (fun _ => true) s) = true.
Proof.
  intros K V I s H Hn. destruct s; try discriminate; try reflexivity. exfalso. eapply Hn. reflexivity.
Qed.

(* the key guard is invisible to the translator: such a loop looks like a last-writer-wins assignment and must be a
   reviewed exception (reason RKeyGuardedAssign) *)
Theorem key_guarded_assign_needs_exception : forall (K V I : Type) sorted d c (g : K -> V -> I),
  effect_safe (effect_of_stmt K V I sorted (SAssignAtKey d c g)) = false.
Proof. reflexivity. Qed.

Theorem unsafe_stmt_effect_unsafe : forall (K V I : Type) sorted (s : stmt K V I),
  stmt_safe K V I s = false -> effect_safe (effect_of_stmt K V I sorted s) = false.
Proof. intros K V I sorted s H. destruct s; try discriminate; reflexivity. Qed.

Theorem unsorted_append_effect_unsafe : forall (K V I : Type) d q (g : K -> V -> I),
  effect_safe (effect_of_stmt K V I (fun _ => false) (SAppend d q g)) = false.
Proof. reflexivity. Qed.
