(* ExTokok.v — the tokens the lexer model produces from valid code points are well-formed in the sense of
   proofs/ExRoundtrip.v (tokok): an INTEGER is a non-empty run of digits, a NAME is not, and the value of a
   TEXT token consists of valid code points. *)
From Coq Require Import List NArith Bool Arith Lia.
From Verif Require Import lib.Quote model.ExSyntax model.ExLexer model.ExParser gen.GrammarE3
  proofs.QuoteProofs proofs.ExLexerProofs proofs.ExRoundtrip.
Import ListNotations.
Open Scope N_scope.

Lemma best_rule_in : forall rules inp best k sh n, best_rule rules inp best = Some (k, sh, n) ->
  best = Some (k, sh, n) \/ (In (k, sh) rules /\ match_shape sh inp = Some n).
Proof.
  induction rules as [|[k0 sh0] r IH]; intros inp best k sh n H; [left; exact H|].
  cbn [best_rule] in H. apply IH in H. destruct H as [H|[H1 H2]]; [|right; split; [right; exact H1|exact H2]].
  destruct (match_shape sh0 inp) as [[|m]|] eqn:E; [left; exact H| |left; exact H].
  destruct best as [[[k1 s1] m1]|].
  - destruct (Nat.ltb m1 (S m)); [|left; exact H]. inversion H; subst. right. split; [left; reflexivity|exact E].
  - inversion H; subst. right. split; [left; reflexivity|exact E].
Qed.

Definition is_SDigits (sh : shape) : bool := match sh with SDigits => true | _ => false end.
Definition is_SName (sh : shape) : bool := match sh with SName => true | _ => false end.

Lemma rule_integer sh : In (INTEGER, sh) lexer_rules -> sh = SDigits.
Proof.
  intros H.
  assert (Hall : forallb (fun r => negb (kind_eqb (fst r) INTEGER) || is_SDigits (snd r)) lexer_rules = true)
    by (vm_compute; reflexivity).
  rewrite forallb_forall in Hall. specialize (Hall _ H). cbn [fst snd] in Hall.
  change (kind_eqb INTEGER INTEGER) with true in Hall. cbn [negb orb] in Hall. destruct sh; try discriminate; reflexivity.
Qed.

Lemma rule_name sh : In (NAME, sh) lexer_rules -> sh = SName.
Proof.
  intros H.
  assert (Hall : forallb (fun r => negb (kind_eqb (fst r) NAME) || is_SName (snd r)) lexer_rules = true)
    by (vm_compute; reflexivity).
  rewrite forallb_forall in Hall. specialize (Hall _ H). cbn [fst snd] in Hall.
  change (kind_eqb NAME NAME) with true in Hall. cbn [negb orb] in Hall. destruct sh; try discriminate; reflexivity.
Qed.

Lemma span_firstn_all f : forall l, forallb f (firstn (span_len f l) l) = true.
Proof.
  induction l as [|c l IH]; [reflexivity|]. cbn [span_len]. destruct (f c) eqn:E; [|reflexivity].
  cbn [firstn forallb]. rewrite E, IH. reflexivity.
Qed.

Lemma digits_tok inp n : m_digits inp = Some n -> all_digits (firstn n inp) = true.
Proof.
  unfold m_digits. destruct (span_len is_digit inp) as [|m] eqn:E; [discriminate|]. intros H; inversion H; subst.
  unfold all_digits. rewrite <- E, span_firstn_all. destruct inp as [|c l]; [discriminate|].
  rewrite E. reflexivity.
Qed.

Lemma name_start_not_digit c : name_start c = true -> is_digit c = false.
Proof.
  intros H. destruct (is_digit c) eqn:E; [|reflexivity]. exfalso. unfold is_digit in E.
  assert (Hc : c = 48 \/ c = 49 \/ c = 50 \/ c = 51 \/ c = 52 \/ c = 53 \/ c = 54 \/ c = 55 \/ c = 56 \/ c = 57) by lia.
  repeat (destruct Hc as [-> | Hc]; [vm_compute in H; discriminate|]). subst. vm_compute in H. discriminate.
Qed.

Lemma name_tok inp n : m_name inp = Some n -> all_digits (firstn n inp) = false.
Proof.
  unfold m_name. destruct inp as [|c r]; [discriminate|]. destruct (name_start c) eqn:E; [|discriminate].
  intros H; inversion H; subst. unfold all_digits. cbn [firstn forallb]. rewrite (name_start_not_digit c E). reflexivity.
Qed.

Lemma valid_firstn n s : valid_codepoints s -> valid_codepoints (firstn n s).
Proof.
  intros H. rewrite <- (firstn_skipn n s) in H. unfold valid_codepoints in *. apply Forall_app in H. tauto.
Qed.

Lemma valid_skipn n s : valid_codepoints s -> valid_codepoints (skipn n s).
Proof.
  intros H. rewrite <- (firstn_skipn n s) in H. unfold valid_codepoints in *. apply Forall_app in H. tauto.
Qed.

Lemma valid_removelast s : valid_codepoints s -> valid_codepoints (removelast s).
Proof.
  unfold valid_codepoints. induction 1 as [|c l Hc Hl IH]; [constructor|]. cbn [removelast].
  destruct l; [constructor|]. constructor; assumption.
Qed.

Lemma text_value_valid s : valid_codepoints s ->
  valid_codepoints (match text_value s with Some v => v | None => [] end).
Proof.
  intros H. unfold text_value. destruct (unquote s) as [r| | |] eqn:E; try constructor.
  - eapply unquote_valid; eassumption.
  - unfold strip_quotes. apply valid_removelast. destruct s; [constructor|]. inversion H; assumption.
Qed.

(* stated for an arbitrary rule list so that the kernel never unfolds the grammar table while checking it *)
Lemma lex_one_gen (rules : list (kind * shape)) inp k skip lexeme rest :
  lex_one_with rules inp = Some (k, skip, lexeme, rest) ->
  exists sh n, In (k, sh) rules /\ match_shape sh inp = Some n /\ lexeme = firstn n inp /\ rest = skipn n inp.
Proof.
  unfold lex_one_with. intros H.
  destruct (best_rule rules inp None) as [[[k' sh] n]|] eqn:E; [|discriminate]. inversion H; subst.
  apply best_rule_in in E. destruct E as [E|[Hin Hm]]; [discriminate|].
  exists sh, n. auto.
Qed.

Lemma lex_one_unfold inp : lex_one inp = lex_one_with lexer_rules inp.
Proof. reflexivity. Qed.

Lemma rule_tokok inp k sh n : valid_codepoints inp -> In (k, sh) lexer_rules -> match_shape sh inp = Some n ->
  tokok {| tk := k; tx := firstn n inp |}.
Proof.
  intros Hv Hin Hm.
  unfold tokok. cbn [tk tx]. split; [|split].
  - intros ->. rewrite (rule_integer _ Hin) in Hm. apply digits_tok. exact Hm.
  - intros ->. rewrite (rule_name _ Hin) in Hm. apply name_tok. exact Hm.
  - intros _. apply text_value_valid. apply valid_firstn. exact Hv.
Qed.

Lemma lex_one_tokok inp k skip lexeme rest : valid_codepoints inp ->
  lex_one inp = Some (k, skip, lexeme, rest) ->
  tokok {| tk := k; tx := lexeme |} /\ valid_codepoints rest.
Proof.
  intros Hv H. rewrite lex_one_unfold in H. apply lex_one_gen in H. destruct H as (sh & n & Hin & Hm & -> & ->).
  split; [|apply valid_skipn; exact Hv]. eapply rule_tokok; eassumption.
Qed.

Lemma lex_cons_inv c inp ts : lex (c :: inp) = LOk ts ->
  exists k skip lexeme rest ts', lex_one (c :: inp) = Some (k, skip, lexeme, rest) /\ lex rest = LOk ts'
    /\ ts = (if skip then ts' else {| tk := k; tx := lexeme |} :: ts').
Proof.
  rewrite lex_step.
  destruct (lex_one (c :: inp)) as [[[[k skip] lexeme] rest]|]; [|discriminate].
  destruct (lex rest) as [ts'| |] eqn:E2; try discriminate.
  intros H. inversion H; subst. exists k, skip, lexeme, rest, ts'.
  split; [reflexivity|]. split; [exact E2|reflexivity].
Qed.

Theorem lex_tokok : forall inp ts, valid_codepoints inp -> lex inp = LOk ts -> Forall tokok ts.
Proof.
  intros inp. remember (length inp) as len eqn:Hlen. revert inp Hlen.
  induction len as [len IH] using lt_wf_ind. intros inp Hlen ts Hv H.
  destruct inp as [|c inp']; [inversion H; constructor|].
  apply lex_cons_inv in H. destruct H as (k & skip & lexeme & rest & ts' & E & E2 & ->).
  destruct (lex_one_tokok _ _ _ _ _ Hv E) as [Ht Hr].
  destruct (lex_one_shorter _ _ _ _ _ E) as [Hs _].
  assert (Hts' : Forall tokok ts') by (apply (IH (length rest) ltac:(subst len; exact Hs) rest eq_refl ts' Hr E2)).
  destruct skip; [exact Hts'|constructor; assumption].
Qed.
