(* ExScanPrinted.v — C12, sentence 3 for printer output: the template scanner closes exactly the text
   Expression.String() writes (so refactor.Template's "@(" ++ printed ++ ")" is cut out again as it was written), and
   the lexer reads that same text as the printed tokens.  Scanner side: needs only that printed names contain no quote
   or parenthesis (names_ok) — values ending in a backslash are fine for the scanner; lexer side: proofs/ExGlue.v. *)
From Coq Require Import List NArith Bool Arith Lia.
From Verif Require Import lib.Quote model.ExSyntax model.ExLexer model.ExParser model.ExPrinter model.ExScanner gen.GrammarE3
  proofs.QuoteProofs proofs.ExLexerProofs proofs.ExPrintProofs proofs.ExRoundtrip proofs.ExRender proofs.ExGlue
  proofs.ExScannerProofs.
Import ListNotations.
Open Scope N_scope.

Definition pre_list (l : text) (x : text * nat * text) : text * nat * text := let '(o, p, k) := x in (l ++ o, p, k).

(* the scanner, inside an expression at depth >= 1, reads l and is back in the same state *)
Definition passes (l : text) : Prop :=
  forall p X, (1 <= p)%nat -> p_expr MNorm p (l ++ X) = pre_list l (p_expr MNorm p X).

Definition plainc (c : N) : Prop := c <> r_quote /\ c <> r_lparen /\ c <> r_rparen.

Lemma passes_nil : passes [].
Proof. intros p X _. cbn [app]. destruct (p_expr MNorm p X) as [[o q] k]. reflexivity. Qed.

Lemma passes_plain l : Forall plainc l -> passes l.
Proof. intros H p X _. rewrite (p_expr_plain l p X H). reflexivity. Qed.

Lemma passes_app a b : passes a -> passes b -> passes (a ++ b).
Proof.
  intros Ha Hb p X Hp. rewrite <- app_assoc, (Ha p _ Hp), (Hb p X Hp).
  destruct (p_expr MNorm p X) as [[o q] k]. cbn [pre_list]. rewrite <- app_assoc. reflexivity.
Qed.

Lemma passes_paren a : passes a -> passes (r_lparen :: a ++ [r_rparen]).
Proof.
  intros Ha p X Hp. cbn [app p_expr]. change (r_lparen =? r_quote) with false. change (r_lparen =? r_lparen) with true. cbv iota.
  rewrite <- app_assoc. rewrite (Ha (S p) _ ltac:(lia)). cbn [app p_expr].
  change (r_rparen =? r_quote) with false. change (r_rparen =? r_lparen) with false. change (r_rparen =? r_rparen) with true.
  cbv iota. cbn [Nat.pred]. destruct p as [|p']; [lia|]. cbn [Nat.eqb].
  destruct (p_expr MNorm (S p') X) as [[o q] k]. cbn [pre pre_list app]. rewrite <- app_assoc. reflexivity.
Qed.

Lemma passes_quoted printable v : printable 10 = false -> passes (quote printable v).
Proof.
  intros Hnl p X _. unfold quote. cbn [app p_expr]. change (34 =? r_quote) with true. cbv iota.
  rewrite <- app_assoc. cbn [app]. change 34 with r_quote at 2.
  rewrite lit_mode by (apply quote_body_scan; exact Hnl).
  destruct (p_expr MNorm p X) as [[o q] k]. cbn [pre pre_list app]. rewrite <- app_assoc. reflexivity.
Qed.

(* characters of names and numbers are plain *)
Lemma name_char_plain c : name_char c = true -> plainc c.
Proof.
  intros H. unfold plainc, r_quote, r_lparen, r_rparen.
  repeat split; intros ->; vm_compute in H; discriminate.
Qed.

Lemma pname_plain n : pname_ok n = true -> Forall plainc n.
Proof.
  unfold pname_ok, name_lexeme. intros H. apply andb_prop in H. destruct H as [H _].
  destruct n as [|c n']; [constructor|]. apply andb_prop in H. destruct H as [H1 H2].
  constructor; [apply name_char_plain, name_start_char; exact H1|].
  apply Forall_forall. intros x Hx. rewrite forallb_forall in H2. apply name_char_plain, H2, Hx.
Qed.

Lemma digits_plain n : all_digits n = true -> Forall plainc n.
Proof.
  intros H. apply all_digits_forall in H. apply Forall_forall. intros x Hx. rewrite forallb_forall in H.
  apply name_char_plain, digit_name_char, H, Hx.
Qed.

Lemma plain_lit l : Forall plainc l -> passes l.
Proof. apply passes_plain. Qed.

Section Printed.
Variable lower : N -> N.
Variable printable : N -> bool.
Hypothesis printable_nl : printable 10 = false.

Notation pitems := (pitems lower printable).
Notation pitems_list := (pitems_list lower printable).

Ltac plain_closed := apply passes_plain; repeat constructor; unfold plainc, r_quote, r_lparen, r_rparen; repeat split; discriminate.

Lemma passes_names a : forallb pname_ok a = true -> passes (render (names_items a)).
Proof.
  induction a as [|n [|n2 r] IH]; intros H; [apply passes_nil| |].
  - cbn [forallb] in H. apply andb_prop in H. destruct H as [H _].
    cbn [names_items render render_item T tx tokc]. rewrite app_nil_r. apply passes_plain, pname_plain. exact H.
  - cbn [forallb] in H. apply andb_prop in H. destruct H as [H1 H2].
    change (names_items (n :: n2 :: r)) with (T (tokc NAME n) :: T COMMAt :: Sp :: names_items (n2 :: r)).
    cbn [render render_item T tx tokc COMMAt]. apply passes_app; [apply passes_plain, pname_plain; exact H1|].
    apply passes_app; [plain_closed|]. apply passes_app; [plain_closed|]. apply IH. exact H2.
Qed.

Theorem passes_printed : forall e, shape_ok e = true -> names_ok lower e = true -> passes (render (pitems e)).
Proof.
  induction e as [n|c l IHc|c l IHc IHl|f ps IHf IHps|a b IHb|o a b IHa IHb|a IHa|a IHa|v|l|b|] using expr_ind';
    intros Hs Hn; cbn [shape_ok names_ok] in *.
  - cbn [ExRender.pitems render render_item T tx tokc]. rewrite app_nil_r. apply passes_plain, pname_plain. exact Hn.
  - apply andb_prop in Hs. destruct Hs as [_ Hs]. apply andb_prop in Hn. destruct Hn as [Hn Hl].
    cbn [ExRender.pitems]. rewrite !render_app. apply passes_app; [apply IHc; assumption|]. apply passes_app.
    + rewrite render_dot. unfold dot_sep. destruct (is_digits l && ends_numeric (print lower printable c)); plain_closed.
    + cbn [render render_item T]. rewrite app_nil_r. unfold lookup_tok. destruct (all_digits l) eqn:Ed; cbn [tx tokc].
      * apply passes_plain, digits_plain. exact Ed.
      * cbn [orb] in Hl. apply passes_plain, pname_plain. exact Hl.
  - apply andb_prop in Hs. destruct Hs as [Hs Hsl]. apply andb_prop in Hs. destruct Hs as [_ Hs].
    apply andb_prop in Hn. destruct Hn as [Hn Hnl].
    cbn [ExRender.pitems]. rewrite !render_app. apply passes_app; [apply IHc; assumption|].
    apply passes_app; [plain_closed|]. apply passes_app; [apply IHl; assumption|plain_closed].
  - apply andb_prop in Hs. destruct Hs as [Hs Hsp]. apply andb_prop in Hs. destruct Hs as [_ Hs].
    apply andb_prop in Hn. destruct Hn as [Hn Hnp].
    rewrite pitems_call, !render_app. apply passes_app; [apply IHf; assumption|].
    change (render [T LP] ++ render (pitems_list ps) ++ render [T RP]) with (r_lparen :: render (pitems_list ps) ++ [r_rparen]).
    apply passes_paren.
    (* the parameter list *)
    clear IHf Hs Hn. induction IHps as [|x r Hx Hr IH]; [apply passes_nil|].
    cbn [forallb] in Hsp, Hnp. apply andb_prop in Hsp. apply andb_prop in Hnp. destruct Hsp as [S1 S2]. destruct Hnp as [N1 N2].
    destruct r as [|y r'].
    + cbn [ExRender.pitems_list]. apply Hx; assumption.
    + change (pitems_list (x :: y :: r')) with (pitems x ++ T COMMAt :: Sp :: pitems_list (y :: r')).
      rewrite render_app. apply passes_app; [apply Hx; assumption|].
      cbn [render render_item T tx COMMAt tokc]. apply passes_app; [plain_closed|]. apply passes_app; [plain_closed|].
      apply IH; assumption.
  - apply andb_prop in Hs. destruct Hs as [_ Hs]. apply andb_prop in Hn. destruct Hn as [Hna Hn].
    cbn [ExRender.pitems]. rewrite !render_app.
    replace (render [T LP] ++ render (names_items a) ++ render [T RP; Sp; T ARROWt; Sp] ++ render (pitems b))
      with ((r_lparen :: render (names_items a) ++ [r_rparen]) ++ [32; 61; 62; 32] ++ render (pitems b))
      by (cbn [app]; rewrite <- app_assoc; reflexivity).
    apply passes_app; [apply passes_paren, passes_names; exact Hna|].
    apply passes_app; [plain_closed|apply IHb; assumption].
  - apply andb_prop in Hs. destruct Hs as [S1 S2]. apply andb_prop in Hn. destruct Hn as [N1 N2].
    cbn [ExRender.pitems]. rewrite !render_app. apply passes_app; [apply IHa; assumption|].
    change (render [Sp; T (op_tok o); Sp]) with ([32] ++ op_symbol o ++ [32]).
    apply passes_app; [apply passes_app; [plain_closed|apply passes_app; [destruct o; plain_closed|plain_closed]]|apply IHb; assumption].
  - cbn [ExRender.pitems]. change (render (T MINUSt :: pitems a)) with ([45] ++ render (pitems a)).
    apply passes_app; [plain_closed|apply IHa; assumption].
  - cbn [ExRender.pitems]. change (render (T LP :: pitems a ++ [T RP])) with (r_lparen :: render (pitems a ++ [T RP])).
    rewrite render_app. change (render [T RP]) with [r_rparen].
    apply passes_paren, IHa; assumption.
  - cbn [ExRender.pitems render render_item T tx tokc]. rewrite app_nil_r. apply passes_quoted. exact printable_nl.
  - cbn [ExRender.pitems render render_item T]. rewrite app_nil_r. unfold num_tok. cbn [tx tokc].
    destruct (num_render_lexeme l Hs) as [[Hd _]|(ip & fp & E & Hi & Hf & _)].
    + apply passes_plain, digits_plain. exact Hd.
    + rewrite E. apply passes_app; [apply passes_plain, digits_plain; exact Hi|].
      change (46 :: fp) with ([46] ++ fp). apply passes_app; [plain_closed|apply passes_plain, digits_plain; exact Hf].
  - destruct b; cbn [ExRender.pitems render render_item T tx tokc]; plain_closed.
  - cbn [ExRender.pitems render render_item T tx tokc]. plain_closed.
Qed.

(* the scanner closes exactly the printed expression *)
Theorem printed_closed e : shape_ok e = true -> names_ok lower e = true -> closed_expr (print lower printable e).
Proof.
  intros Hs Hn rest. rewrite <- (render_pitems lower printable e).
  rewrite (passes_printed e Hs Hn 1%nat (r_rparen :: rest) ltac:(lia)).
  cbn [p_expr]. change (r_rparen =? r_quote) with false. change (r_rparen =? r_lparen) with false.
  change (r_rparen =? r_rparen) with true. cbn [Nat.pred Nat.eqb pre_list]. rewrite app_nil_r. reflexivity.
Qed.

End Printed.
