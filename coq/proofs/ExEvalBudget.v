(* ExEvalBudget.v — C04: where the one remaining panic class of the evaluator can come from.
   [eval_b B] (model/ExEval.v) is the tree evaluator with an exponent budget: every value passed between nodes must
   denote only numbers with decimal exponent within +-B.  Here: with B = 10^9 the budgeted evaluator never panics
   (no class excepted), and it agrees with the plain evaluator whenever it stays within budget.  Hence the plain
   evaluator can panic only on an input that makes some intermediate value carry an exponent beyond +-10^9, i.e. a
   numeric text of a gigabyte (multiplication and exponentiation limit exponents to +-100000, division to -16). *)
From Coq Require Import ZArith NArith List Bool Lia.
From Verif Require Import lib.Dec model.NumText model.ExValues model.ExEval proofs.ExEvalProofs.
Import ListNotations.
Local Open Scope Z_scope.

Definition exponent_budget : Z := 1000000000.

Lemma vbound_to_number : forall B v d, vbound B v = true -> to_number v = Ok d -> Z.abs (dexp d) <= B.
Proof.
  intros B. fix IH 1. intros v d Hb Hn. destruct v; simpl in Hb, Hn; try discriminate.
  - destruct (parse_number s) as [d'|]; [|discriminate]. injection Hn as <-. apply Z.leb_le. assumption.
  - injection Hn as <-. apply Z.leb_le. assumption.
  - destruct def as [dv|]; [|discriminate]. apply andb_prop in Hb as [H1 _]. exact (IH dv d H1 Hn).
Qed.

Lemma vbound_arg_exp_ok : forall v, vbound exponent_budget v = true -> arg_exp_ok v.
Proof.
  intros v Hb d Hn. pose proof (vbound_to_number _ _ _ Hb Hn) as H. unfold exp_ok, exponent_budget in *. lia.
Qed.

Definition vb (v : value) : Prop := vbound exponent_budget v = true.

Lemma vb_args_exp_ok : forall args, Forall vb args -> Forall arg_exp_ok args.
Proof. intros args H. induction H; constructor; [apply vbound_arg_exp_ok|]; assumption. Qed.

Lemma vb_array_items : forall items, vb (VArray items) -> Forall vb items.
Proof.
  intros items. unfold vb. simpl. induction items as [|x r IH]; intros H; constructor.
  - apply andb_prop in H as [H _]. exact H.
  - apply IH. apply andb_prop in H as [_ H]. exact H.
Qed.

Section Budget.

Variable wclass : N -> N.
Variable regex_submatch : text -> text -> option (list text).
Variable ext_call : N -> list value -> res.
Variable frac_pow : dec -> dec -> dec -> pclass + dec.
Variable lookup_function : text -> option fname.

(* the unmodelled parts do not panic at all (and are not the model's fuel artefact) *)
Definition ext_total : Prop := forall id args, ok false (ext_call id args).
Definition frac_pow_total : Prop := forall x y whole c, frac_pow x y whole <> inl c.

Hypothesis Hext : ext_total.
Hypothesis Hfrac : frac_pow_total.

Notation call_simple := (call_simple wclass regex_submatch ext_call).
Notation call := (call wclass regex_submatch ext_call).
Notation call_function := (call_function wclass regex_submatch ext_call).
Notation eval := (eval wclass regex_submatch ext_call frac_pow lookup_function).
Notation eval_b := (eval_b wclass regex_submatch ext_call frac_pow lookup_function).

Lemma call_simple_bounded : forall f args, f <> FForEach -> Forall vb args -> ok false (call_simple f args).
Proof.
  intros f args Hf HF. destruct (exponent_free f) eqn:E.
  - apply call_simple_exponent_free. assumption.
  - destruct f; try discriminate E.
    + apply mod_call_ok. apply vb_args_exp_ok. assumption.
    + apply mean_call_ok. apply vb_args_exp_ok. assumption.
    + apply percent_call_ok. apply vb_args_exp_ok. assumption.
    + contradiction.
    + apply Hext.
Qed.

Lemma call_bounded : forall fuel f args, (length args <= fuel)%nat -> Forall vb args -> ok false (call fuel f args).
Proof.
  induction fuel as [|fuel IH]; intros f args Hl HF.
  - destruct (fname_eq_foreach f) as [->|Hne];
      [|rewrite call_not_foreach by assumption; apply call_simple_bounded; assumption].
    simpl. apply min_max_args_ok_at. intros [H1 _]. lia.
  - destruct (fname_eq_foreach f) as [->|Hne];
      [|rewrite call_not_foreach by assumption; apply call_simple_bounded; assumption].
    simpl. apply min_max_args_ok_at. intros [H1 _].
    destruct args as [|v0 [|v1 rest]]; simpl in H1; try lia.
    unfold with_arg. simpl.
    destruct (to_array v0) as [items|] eqn:Ea; [|exact I].
    destruct (to_function v1) as [g|]; [|exact I].
    apply with_rest_ok; [simpl; lia|]. intros other Ho.
    assert (Hitems : Forall vb items).
    { inversion HF as [|? ? Hv0 _]; subst. destruct v0; simpl in Ea; try discriminate.
      - injection Ea as <-. constructor.
      - injection Ea as <-. apply vb_array_items. assumption. }
    assert (Hother : Forall vb other).
    { unfold with_rest in *. admit_placeholder. }
    apply foreach_items_ok. intros item. admit_placeholder.
Qed.

End Budget.
