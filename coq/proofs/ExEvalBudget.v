(* ExEvalBudget.v — C04: where the one remaining panic class of the evaluator can come from.
   [eval_b B] (model/ExEval.v) is the tree evaluator with an exponent budget: every value passed between nodes must
   denote only numbers with decimal exponent within +-B.  Here: with B = 10^9 the budgeted evaluator never panics
   (no class excepted), and it agrees with the plain evaluator whenever it stays within budget.  Hence the plain
   evaluator can panic only on an input that makes some intermediate value carry an exponent beyond +-10^9, i.e. a
   numeric text of a gigabyte (multiplication and exponentiation limit exponents to +-100000, division to -16). *)
From Coq Require Import ZArith NArith List Bool Lia.
From Verif Require Import lib.Dec model.NumText model.ExValues model.ExEval proofs.ExEvalProofs.
Import ListNotations.
Local Open Scope Z_scope.

Definition exponent_budget : Z := 1000000000.

Arguments within : simpl never.
Arguments bind_b : simpl never.

Lemma vbound_to_number : forall B v d, vbound B v = true -> to_number v = Ok d -> Z.abs (dexp d) <= B.
Proof.
  intros B. fix IH 1. intros v d Hb Hn. destruct v; simpl in Hb, Hn; try discriminate.
  - destruct (parse_number s) as [d'|]; [|discriminate]. injection Hn as <-. apply Z.leb_le. assumption.
  - injection Hn as <-. apply Z.leb_le. assumption.
  - destruct def as [dv|]; [|discriminate]. apply andb_prop in Hb as [H1 _]. exact (IH dv d H1 Hn).
Qed.

Lemma vbound_arg_exp_ok : forall v, vbound exponent_budget v = true -> arg_exp_ok v.
Proof.
  intros v Hb d Hn. pose proof (vbound_to_number _ _ _ Hb Hn) as H. unfold exp_ok, exponent_budget in *. lia.
Qed.

Definition vb (v : value) : Prop := vbound exponent_budget v = true.

Lemma vb_args_exp_ok : forall args, Forall vb args -> Forall arg_exp_ok args.
Proof. intros args H. induction H; constructor; [apply vbound_arg_exp_ok|]; assumption. Qed.

Lemma vb_array_items : forall items, vb (VArray items) -> Forall vb items.
Proof.
  intros items. unfold vb. simpl. induction items as [|x r IH]; intros H; constructor.
  - apply andb_prop in H as [H _]. exact H.
  - apply IH. apply andb_prop in H as [_ H]. exact H.
Qed.

Section Budget.

Variable wclass : N -> N.
Variable regex_submatch : text -> text -> option (list text).
Variable ext_call : N -> list value -> res.
Variable frac_pow : dec -> dec -> dec -> pclass + dec.
Variable lookup_function : text -> option fname.

(* the unmodelled parts do not panic at all (and are not the model's fuel artefact) *)
Definition ext_total : Prop := forall id args, ok false (ext_call id args).
Definition frac_pow_total : Prop := forall x y whole c, frac_pow x y whole <> inl c.

Hypothesis Hext : ext_total.
Hypothesis Hfrac : frac_pow_total.

Notation call_simple := (call_simple wclass regex_submatch ext_call).
Notation call := (call wclass regex_submatch ext_call).
Notation call_function := (call_function wclass regex_submatch ext_call).
Notation eval := (eval wclass regex_submatch ext_call frac_pow lookup_function).
Notation eval_b := (eval_b wclass regex_submatch ext_call frac_pow lookup_function).

Lemma call_simple_bounded : forall f args, f <> FForEach -> Forall vb args -> ok false (call_simple f args).
Proof.
  intros f args Hf HF. destruct (exponent_free f) eqn:E.
  - apply call_simple_exponent_free. assumption.
  - destruct f; try discriminate E.
    + apply mod_call_ok. apply vb_args_exp_ok. assumption.
    + apply mean_call_ok. apply vb_args_exp_ok. assumption.
    + apply percent_call_ok. apply vb_args_exp_ok. assumption.
    + contradiction.
    + apply Hext.
Qed.

Lemma call_bounded : forall fuel f args, (length args <= fuel)%nat -> Forall vb args -> ok false (call fuel f args).
Proof.
  induction fuel as [|fuel IH]; intros f args Hl HF.
  - destruct (fname_eq_foreach f) as [->|Hne];
      [|rewrite call_not_foreach by assumption; apply call_simple_bounded; assumption].
    simpl. apply min_max_args_ok_at. intros [H1 _]. lia.
  - destruct (fname_eq_foreach f) as [->|Hne];
      [|rewrite call_not_foreach by assumption; apply call_simple_bounded; assumption].
    simpl. apply min_max_args_ok_at. intros [H1 _].
    destruct args as [|v0 [|v1 rest]]; simpl in H1; try lia.
    unfold with_arg. simpl.
    destruct (to_array v0) as [items|] eqn:Ea; [|exact I].
    destruct (to_function v1) as [g|]; [|exact I].
    rewrite with_rest_skipn by (simpl; lia). simpl skipn.
    inversion HF as [|? ? Hv0 HF1]; subst. inversion HF1 as [|? ? Hv1 Hrest]; subst.
    assert (Hitems : Forall vb items).
    { destruct v0; simpl in Ea; try discriminate.
      - injection Ea as <-. constructor.
      - injection Ea as <-. apply vb_array_items. assumption. }
    apply foreach_items_in_ok. intros item Hin. apply IH; [simpl in *; lia|].
    constructor; [|assumption]. rewrite Forall_forall in Hitems. apply Hitems. assumption.
Qed.

Lemma eval_binop_bounded : forall op x y, vb x -> vb y -> ok false (eval_binop frac_pow op x y).
Proof.
  intros op x y Hx Hy. destruct op; try (apply eval_binop_no_panic; discriminate).
  - apply divide_full; apply vbound_arg_exp_ok; assumption.
  - simpl. unfold numerical_binary.
    destruct (to_number x) as [n1|]; [|exact I]. destruct (to_number y) as [n2|]; [|exact I].
    unfold pow_body. cbv zeta.
    destruct (exponent_out_of_range (dexp (dec_canonical n1) * dec_trunc (dec_canonical n2))) eqn:E; [exact I|].
    destruct (_ && _); [exact I|]. destruct (_ && _); [exact I|]. apply dec_pow_ok; [|assumption].
    intros _ whole. destruct (frac_pow _ _ whole) as [c|] eqn:Ef; [|exact I]. exfalso. exact (Hfrac _ _ _ _ Ef).
Qed.

(* the budgeted evaluator: never a panic, never out of fuel; and every value it returns is within budget *)
Definition good (r : option res) : Prop :=
  match r with
  | None => True
  | Some (Ret v) => vb v
  | Some _ => False
  end.

Lemma within_good : forall r, ok false r -> good (within exponent_budget r).
Proof.
  intros [v|c|] H; unfold within; simpl in *; try contradiction.
  - destruct (vbound exponent_budget v) eqn:E; simpl; [exact E|exact I].
  - destruct c; contradiction || discriminate.
Qed.

Lemma bind_b_good : forall r k, good r -> (forall v, vb v -> good (k v)) -> good (bind_b exponent_budget r k).
Proof. intros [[v|c|]|] k H Hk; unfold bind_b; simpl in *; try contradiction; auto. Qed.

Theorem eval_b_good : forall ctx e, good (eval_b exponent_budget ctx e).
Proof.
  intros ctx e. induction e using expr_ind_nested; simpl.
  - apply within_good. exact I.
  - apply within_good. destruct (scope_get lookup_function ctx n); exact I.
  - apply bind_b_good; [assumption|]. intros cv Hc. apply within_good.
    destruct (is_err cv); [exact I|apply resolve_lookup_ok].
  - apply bind_b_good; [assumption|]. intros cv Hc. destruct (is_err cv); [exact Hc|].
    apply bind_b_good; [assumption|]. intros lv Hl. apply within_good.
    destruct (is_err lv); [exact I|apply resolve_lookup_ok].
  - apply bind_b_good; [assumption|]. intros fv Hf. destruct (is_err fv); [exact Hf|].
    destruct fv; try reflexivity.
    assert (Hacc : Forall vb (@nil value)) by constructor. revert Hacc.
    generalize (@nil value). induction H as [|p r Hp Hr IHr]; intros acc Hacc.
    + apply within_good. unfold ExEval.call_function. apply call_bounded; [lia|].
      apply Forall_rev. assumption.
    + apply bind_b_good; [assumption|]. intros pv Hpv. apply IHr. constructor; assumption.
  - apply bind_b_good; [assumption|]. intros v Hv. apply within_good. apply eval_neg_ok.
  - apply bind_b_good; [assumption|]. intros av Ha. apply bind_b_good; [assumption|]. intros bv Hb.
    apply within_good. apply eval_binop_bounded; assumption.
Qed.

End Budget.

(* within budget the two evaluators are the same *)
Section Agree.

Variable wclass : N -> N.
Variable regex_submatch : text -> text -> option (list text).
Variable ext_call : N -> list value -> res.
Variable frac_pow : dec -> dec -> dec -> pclass + dec.
Variable lookup_function : text -> option fname.
Notation eval := (eval wclass regex_submatch ext_call frac_pow lookup_function).
Notation eval_b := (eval_b wclass regex_submatch ext_call frac_pow lookup_function).

Lemma within_some : forall B r r', within B r = Some r' -> r = r'.
Proof.
  intros B r r' H. unfold within in H. destruct r as [v|c|].
  - destruct (vbound B v); [|discriminate]. congruence.
  - congruence.
  - congruence.
Qed.

Lemma bind_b_some : forall B ro k r r0 k0,
  bind_b B ro k = Some r -> (forall x, ro = Some x -> r0 = x) -> (forall v x, k v = Some x -> k0 v = x) ->
  bind r0 k0 = r.
Proof.
  intros B ro k r r0 k0 H Hr Hk. destruct ro as [[v|c|]|]; unfold bind_b in H; simpl in H; try discriminate.
  - rewrite (Hr _ eq_refl). simpl. apply (Hk _ _ H).
  - rewrite (Hr _ eq_refl). injection H as <-. reflexivity.
  - rewrite (Hr _ eq_refl). injection H as <-. reflexivity.
Qed.

Theorem eval_b_agrees : forall B ctx e r, eval_b B ctx e = Some r -> eval ctx e = r.
Proof.
  intros B ctx e. induction e using expr_ind_nested; intros r Hr; simpl in *.
  - apply within_some in Hr. assumption.
  - apply within_some in Hr. assumption.
  - eapply bind_b_some; [exact Hr|exact IHe|]. intros v x Hx. cbv beta in *. apply within_some in Hx. assumption.
  - eapply bind_b_some; [exact Hr|exact IHe1|]. intros v x Hx. cbv beta in *.
    destruct (is_err v); [congruence|].
    eapply bind_b_some; [exact Hx|exact IHe2|]. intros v' x' Hx'. cbv beta in *. apply within_some in Hx'. assumption.
  - eapply bind_b_some; [exact Hr|exact IHe|]. intros fv x Hx. cbv beta in *.
    destruct (is_err fv); [congruence|].
    destruct fv; try congruence.
    clear Hr. revert x Hx. generalize (@nil value). induction H as [|p ps Hp Hps IHps]; intros acc x Hx.
    + apply within_some in Hx. assumption.
    + eapply bind_b_some; [exact Hx|exact Hp|]. intros pv x' Hx'. cbv beta in Hx' |- *. eapply IHps. exact Hx'.
  - eapply bind_b_some; [exact Hr|exact IHe|]. intros v x Hx. cbv beta in *. apply within_some in Hx. assumption.
  - eapply bind_b_some; [exact Hr|exact IHe1|]. intros av x Hx. cbv beta in *.
    eapply bind_b_some; [exact Hx|exact IHe2|]. intros bv x' Hx'. cbv beta in *. apply within_some in Hx'. assumption.
Qed.

(* the statement: a panic (of ANY class) of the evaluator means the exponent budget was exceeded *)
Theorem eval_panic_exceeds_budget :
  ext_total ext_call -> frac_pow_total frac_pow ->
  forall ctx e, (exists c, eval ctx e = Panic c) \/ eval ctx e = NoFuel -> eval_b exponent_budget ctx e = None.
Proof.
  intros Hext Hfrac ctx e Hp.
  pose proof (eval_b_good wclass regex_submatch ext_call frac_pow lookup_function Hext Hfrac ctx e) as Hg.
  destruct (eval_b exponent_budget ctx e) as [r|] eqn:E; [|reflexivity]. exfalso.
  apply eval_b_agrees in E. rewrite E in Hp. destruct r as [v|c|]; simpl in Hg; try contradiction.
  destruct Hp as [[c Hc]|Hc]; discriminate.
Qed.

End Agree.

(* the budget is not vacuous: ordinary evaluations stay within it *)
Example budget_not_vacuous :
  eval_b (fun _ => 0%N) (fun _ _ => None) (fun _ _ => NoFuel) (fun _ _ _ => inr (Dec 0 0)) (fun _ => None)
         exponent_budget [] (EBin ODiv (ELit (VNum (Dec 1 0))) (ELit (VNum (Dec 3 0))))
  = Some (Ret (VNum (Dec 3333333333333333 (-16)))).
Proof. vm_compute. reflexivity. Qed.

Example budget_hypotheses_satisfiable :
  exists (ext : N -> list value -> res) (fp : dec -> dec -> dec -> pclass + dec), ext_total ext /\ frac_pow_total fp.
Proof.
  exists (fun _ _ => Ret VNil), (fun _ _ _ => inr (Dec 0 0)). split; [intros id args; exact I|intros x y w c H; discriminate].
Qed.
