(* ExEvalBudget.v — C04: where the one remaining panic class of the evaluator can come from.
   [eval_b B] (model/ExEval.v) is the tree evaluator with an exponent budget: every value passed between nodes must
   denote only numbers with decimal exponent within +-B.  Here: with B = 10^9 the budgeted evaluator never panics
   (no class excepted), and it agrees with the plain evaluator whenever it stays within budget.  Hence the plain
   evaluator can panic only on an input that makes some intermediate value carry an exponent beyond +-10^9, i.e. a
   numeric text of a gigabyte (multiplication and exponentiation limit exponents to +-100000, division to -16). *)
From Coq Require Import ZArith NArith List Bool Lia.
From Verif Require Import lib.Dec model.NumText model.ExValues model.ExEval proofs.ExEvalProofs.
Import ListNotations.
Local Open Scope Z_scope.

Definition exponent_budget : Z := 1000000000.

Arguments within : simpl never.
Arguments bind_b : simpl never.

Lemma vbound_to_number : forall B v d, vbound B v = true -> to_number v = Ok d -> Z.abs (dexp d) <= B.
Proof.
  intros B. fix IH 1. intros v d Hb Hn. destruct v; simpl in Hb, Hn; try discriminate.
  - destruct (parse_number s) as [d'|]; [|discriminate]. injection Hn as <-. apply Z.leb_le. assumption.
  - injection Hn as <-. apply Z.leb_le. assumption.
  - destruct def as [dv|]; [|discriminate]. apply andb_prop in Hb as [H1 _]. exact (IH dv d H1 Hn).
Qed.

Lemma vbound_arg_exp_ok : forall v, vbound exponent_budget v = true -> arg_exp_ok v.
Proof.
  intros v Hb d Hn. pose proof (vbound_to_number _ _ _ Hb Hn) as H. unfold exp_ok, exponent_budget in *. lia.
Qed.

Definition vb (v : value) : Prop := vbound exponent_budget v = true.

Lemma vb_args_exp_ok : forall args, Forall vb args -> Forall arg_exp_ok args.
Proof. intros args H. induction H; constructor; [apply vbound_arg_exp_ok|]; assumption. Qed.

Lemma vb_array_items : forall items, vb (VArray items) -> Forall vb items.
Proof.
  intros items. unfold vb. simpl. induction items as [|x r IH]; intros H; constructor.
  - apply andb_prop in H as [H _]. exact H.
  - apply IH. apply andb_prop in H as [_ H]. exact H.
Qed.

Section Budget.

Variable wclass : N -> N.
Variable regex_submatch : text -> text -> option (list text).
Variable ext_call : N -> list value -> res.
Variable frac_pow : dec -> dec -> dec -> pclass + dec.
Variable lookup_function : text -> option fname.

(* the unmodelled parts do not panic at all (and are not the model's fuel artefact) *)
Definition ext_total : Prop := forall id args, ok false (ext_call id args).
Definition frac_pow_total : Prop := forall x y whole c, frac_pow x y whole <> inl c.

Hypothesis Hext : ext_total.
Hypothesis Hfrac : frac_pow_total.

Notation call_simple := (call_simple wclass regex_submatch ext_call).
Notation call := (call wclass regex_submatch ext_call).
Notation call_function := (call_function wclass regex_submatch ext_call).
Notation eval := (eval wclass regex_submatch ext_call frac_pow lookup_function).
Notation eval_b := (eval_b wclass regex_submatch ext_call frac_pow lookup_function).

Lemma call_simple_bounded : forall f args, f <> FForEach -> Forall vb args -> ok false (call_simple f args).
Proof.
  intros f args Hf HF. destruct (exponent_free f) eqn:E.
  - apply call_simple_exponent_free. assumption.
  - destruct f; try discriminate E.
    + apply mod_call_ok. apply vb_args_exp_ok. assumption.
    + apply mean_call_ok. apply vb_args_exp_ok. assumption.
    + apply percent_call_ok. apply vb_args_exp_ok. assumption.
    + contradiction.
    + apply Hext.
Qed.

Lemma call_bounded : forall fuel f args, (length args <= fuel)%nat -> Forall vb args -> ok false (call fuel f args).
Proof.
  induction fuel as [|fuel IH]; intros f args Hl HF.
  - destruct (fname_eq_foreach f) as [->|Hne];
      [|rewrite call_not_foreach by assumption; apply call_simple_bounded; assumption].
    simpl. apply min_max_args_ok_at. intros [H1 _]. lia.
  - destruct (fname_eq_foreach f) as [->|Hne];
      [|rewrite call_not_foreach by assumption; apply call_simple_bounded; assumption].
    simpl. apply min_max_args_ok_at. intros [H1 _].
    destruct args as [|v0 [|v1 rest]]; simpl in H1; try lia.
    unfold with_arg. simpl.
    destruct (to_array v0) as [items|] eqn:Ea; [|exact I].
    destruct (to_function v1) as [g|]; [|exact I].
    rewrite with_rest_skipn by (simpl; lia). simpl skipn.
    inversion HF as [|? ? Hv0 HF1]; subst. inversion HF1 as [|? ? Hv1 Hrest]; subst.
    assert (Hitems : Forall vb items).
    { destruct v0; simpl in Ea; try discriminate.
      - injection Ea as <-. constructor.
      - injection Ea as <-. apply vb_array_items. assumption. }
    apply foreach_items_in_ok. intros item Hin. apply IH; [simpl in *; lia|].
    constructor; [|assumption]. rewrite Forall_forall in Hitems. apply Hitems. assumption.
Qed.

Lemma eval_binop_bounded : forall op x y, vb x -> vb y -> ok false (eval_binop frac_pow op x y).
Proof.
  intros op x y Hx Hy. destruct op; try (apply eval_binop_no_panic; discriminate).
  - apply divide_full; apply vbound_arg_exp_ok; assumption.
  - simpl. unfold numerical_binary.
    destruct (to_number x) as [n1|]; [|exact I]. destruct (to_number y) as [n2|]; [|exact I].
    unfold pow_body. cbv zeta.
    destruct (exponent_out_of_range (dexp (dec_canonical n1) * dec_trunc (dec_canonical n2))) eqn:E; [exact I|].
    destruct (_ && _); [exact I|]. destruct (_ && _); [exact I|]. apply dec_pow_ok; [|assumption].
    intros _ whole. destruct (frac_pow _ _ whole) as [c|] eqn:Ef; [|exact I]. exfalso. exact (Hfrac _ _ _ _ Ef).
Qed.

(* the budgeted evaluator: never a panic, never out of fuel; and every value it returns is within budget *)
Definition good (r : option res) : Prop :=
  match r with
  | None => True
  | Some (Ret v) => vb v
  | Some _ => False
  end.

Lemma within_good : forall r, ok false r -> good (within exponent_budget r).
Proof.
  intros [v|c|] H; unfold within; simpl in *; try contradiction.
  - destruct (vbound exponent_budget v) eqn:E; simpl; [exact E|exact I].
  - destruct c; contradiction || discriminate.
Qed.

Lemma bind_b_good : forall r k, good r -> (forall v, vb v -> good (k v)) -> good (bind_b exponent_budget r k).
Proof. intros [[v|c|]|] k H Hk; unfold bind_b; simpl in *; try contradiction; auto. Qed.

Theorem eval_b_good : forall ctx e, good (eval_b exponent_budget ctx e).
Proof.
  intros ctx e. induction e using expr_ind_nested; simpl.
  - apply within_good. exact I.
  - apply within_good. destruct (scope_get lookup_function ctx n); exact I.
  - apply bind_b_good; [assumption|]. intros cv Hc. apply within_good.
    destruct (is_err cv); [exact I|apply resolve_lookup_ok].
  - apply bind_b_good; [assumption|]. intros cv Hc. destruct (is_err cv); [exact Hc|].
    apply bind_b_good; [assumption|]. intros lv Hl. apply within_good.
    destruct (is_err lv); [exact I|apply resolve_lookup_ok].
  - apply bind_b_good; [assumption|]. intros fv Hf. destruct (is_err fv); [exact Hf|].
    destruct fv; try reflexivity.
    assert (Hacc : Forall vb (@nil value)) by constructor. revert Hacc.
    generalize (@nil value). induction H as [|p r Hp Hr IHr]; intros acc Hacc.
    + apply within_good. unfold ExEval.call_function. apply call_bounded; [lia|].
      apply Forall_rev. assumption.
    + apply bind_b_good; [assumption|]. intros pv Hpv. apply IHr. constructor; assumption.
  - apply bind_b_good; [assumption|]. intros v Hv. apply within_good. apply eval_neg_ok.
  - apply bind_b_good; [assumption|]. intros av Ha. apply bind_b_good; [assumption|]. intros bv Hb.
    apply within_good. apply eval_binop_bounded; assumption.
Qed.

End Budget.

(* within budget the two evaluators are the same *)
Section Agree.

Variable wclass : N -> N.
Variable regex_submatch : text -> text -> option (list text).
Variable ext_call : N -> list value -> res.
Variable frac_pow : dec -> dec -> dec -> pclass + dec.
Variable lookup_function : text -> option fname.
Notation eval := (eval wclass regex_submatch ext_call frac_pow lookup_function).
Notation eval_b := (eval_b wclass regex_submatch ext_call frac_pow lookup_function).

Lemma within_some : forall B r r', within B r = Some r' -> r = r'.
Proof.
  intros B r r' H. unfold within in H. destruct r as [v|c|].
  - destruct (vbound B v); [|discriminate]. congruence.
  - congruence.
  - congruence.
Qed.

Lemma bind_b_some : forall B ro k r r0 k0,
  bind_b B ro k = Some r -> (forall x, ro = Some x -> r0 = x) -> (forall v x, k v = Some x -> k0 v = x) ->
  bind r0 k0 = r.
Proof.
  intros B ro k r r0 k0 H Hr Hk. destruct ro as [[v|c|]|]; unfold bind_b in H; simpl in H; try discriminate.
  - rewrite (Hr _ eq_refl). simpl. apply (Hk _ _ H).
  - rewrite (Hr _ eq_refl). injection H as <-. reflexivity.
  - rewrite (Hr _ eq_refl). injection H as <-. reflexivity.
Qed.

Theorem eval_b_agrees : forall B ctx e r, eval_b B ctx e = Some r -> eval ctx e = r.
Proof.
  intros B ctx e. induction e using expr_ind_nested; intros r Hr; simpl in *.
  - apply within_some in Hr. assumption.
  - apply within_some in Hr. assumption.
  - eapply bind_b_some; [exact Hr|exact IHe|]. intros v x Hx. cbv beta in *. apply within_some in Hx. assumption.
  - eapply bind_b_some; [exact Hr|exact IHe1|]. intros v x Hx. cbv beta in *.
    destruct (is_err v); [congruence|].
    eapply bind_b_some; [exact Hx|exact IHe2|]. intros v' x' Hx'. cbv beta in *. apply within_some in Hx'. assumption.
  - eapply bind_b_some; [exact Hr|exact IHe|]. intros fv x Hx. cbv beta in *.
    destruct (is_err fv); [congruence|].
    destruct fv; try congruence.
    clear Hr. revert x Hx. generalize (@nil value). induction H as [|p ps Hp Hps IHps]; intros acc x Hx.
    + apply within_some in Hx. assumption.
    + eapply bind_b_some; [exact Hx|exact Hp|]. intros pv x' Hx'. cbv beta in Hx' |- *. eapply IHps. exact Hx'.
  - eapply bind_b_some; [exact Hr|exact IHe|]. intros v x Hx. cbv beta in *. apply within_some in Hx. assumption.
  - eapply bind_b_some; [exact Hr|exact IHe1|]. intros av x Hx. cbv beta in *.
    eapply bind_b_some; [exact Hx|exact IHe2|]. intros bv x' Hx'. cbv beta in *. apply within_some in Hx'. assumption.
Qed.

(* the statement: a panic (of ANY class) of the evaluator means the exponent budget was exceeded *)
Theorem eval_panic_exceeds_budget :
  ext_total ext_call -> frac_pow_total frac_pow ->
  forall ctx e, (exists c, eval ctx e = Panic c) \/ eval ctx e = NoFuel -> eval_b exponent_budget ctx e = None.
Proof.
  intros Hext Hfrac ctx e Hp.
  pose proof (eval_b_good wclass regex_submatch ext_call frac_pow lookup_function Hext Hfrac ctx e) as Hg.
  destruct (eval_b exponent_budget ctx e) as [r|] eqn:E; [|reflexivity]. exfalso.
  apply eval_b_agrees in E. rewrite E in Hp. destruct r as [v|c|]; simpl in Hg; try contradiction.
  destruct Hp as [[c Hc]|Hc]; discriminate.
Qed.

End Agree.

(* the budget is not vacuous: ordinary evaluations stay within it *)
Example budget_not_vacuous :
  eval_b (fun _ => 0%N) (fun _ _ => None) (fun _ _ => NoFuel) (fun _ _ _ => inr (Dec 0 0)) (fun _ => None)
         exponent_budget [] (EBin ODiv (ELit (VNum (Dec 1 0))) (ELit (VNum (Dec 3 0))))
  = Some (Ret (VNum (Dec 3333333333333333 (-16)))).
Proof. vm_compute. reflexivity. Qed.

Example budget_hypotheses_satisfiable :
  exists (ext : N -> list value -> res) (fp : dec -> dec -> dec -> pclass + dec), ext_total ext /\ frac_pow_total fp.
Proof.
  exists (fun _ _ => Ret VNil), (fun _ _ _ => inr (Dec 0 0)). split; [intros id args; exact I|intros x y w c H; discriminate].
Qed.

(* ------------------------------------------------------------------------------------------------ *)
(* THE EXPONENT INVARIANT of the arithmetic: the operators keep every number within the exponent bound.
   [vbound B v] = every number that v denotes (as a number, a numeric text, through a default, inside a container) has
   a decimal exponent within +-B.  For B >= 100000 (maxNumberExponent) it is preserved by + - * / ^ (whole powers),
   unary minus and the comparisons: + and - give the smaller of the two exponents, * and ^ are guarded to +-100000
   on the canonical form, / and a negative power give -16.  (Not by &: that builds a TEXT, whose reading as a number is
   bounded by its length, see concat_op_within; and not by a non-integral power, whose value is not modelled.) *)

Lemma dec_div_round_exponent : forall a b p q, dec_div_round a b p = inr q -> dexp q = - p.
Proof.
  intros a b p q. unfold dec_div_round, dec_quorem. destruct (mant b =? 0); [discriminate|].
  destruct (negb (in_int32 _)); [discriminate|].
  destruct (dexp a - dexp b - - p <? 0); cbv zeta;
    match goal with |- context [dec_cmp ?u ?v] => destruct (dec_cmp u v) end;
    intros H; injection H as <-; reflexivity.
Qed.

Lemma out_of_range_false : forall e, exponent_out_of_range e = false -> Z.abs e <= max_number_exponent.
Proof. intros e H. apply exponent_in_range in H. unfold max_number_exponent. lia. Qed.

Lemma mul_body_exponent : forall x y p, mul_body x y = Ret (VNum p) -> Z.abs (dexp p) <= max_number_exponent.
Proof.
  intros x y p. unfold mul_body. cbv zeta.
  destruct (exponent_out_of_range (dexp _ + dexp _)) eqn:E; [discriminate|].
  destruct (exponent_out_of_range (num_digits _ + num_digits _)); [discriminate|].
  unfold dec_mul. destruct (in_int32 _); [|discriminate]. intros H. injection H as <-. simpl.
  apply out_of_range_false. exact E.
Qed.

Lemma pow_body_integral_exponent : forall fp x y p, dec_is_integer (dec_canonical y) = true ->
  pow_body fp x y = Ret (VNum p) -> Z.abs (dexp p) <= max_number_exponent.
Proof.
  intros fp x y p Hi. unfold pow_body. cbv zeta.
  destruct (exponent_out_of_range (dexp (dec_canonical x) * dec_trunc (dec_canonical y))) eqn:E; [discriminate|].
  destruct (_ && _); [discriminate|]. rewrite Hi. cbn [negb andb].
  unfold dec_pow. destruct (mant (dec_canonical x) =? 0); [intros H; injection H as <-; unfold max_number_exponent; simpl; lia|].
  destruct (mant (dec_canonical y) =? 0); [intros H; injection H as <-; unfold max_number_exponent; simpl; lia|].
  rewrite Hi. cbn [negb andb]. unfold dec_pow_nat.
  destruct (in_int32 _); [|discriminate].
  apply out_of_range_false in E.
  destruct (0 <=? dec_trunc (dec_canonical y)) eqn:En.
  - intros H. injection H as <-. simpl. apply Z.leb_le in En. rewrite (Z.abs_eq (dec_trunc (dec_canonical y))) by assumption. exact E.
  - destruct (dec_div_round _ _ _) as [c|q] eqn:Ed; [discriminate|]. intros H. injection H as <-.
    rewrite (dec_div_round_exponent _ _ _ _ Ed). unfold pow_precision_negative_exponent, max_number_exponent. lia.
Qed.

Lemma mul_body_shape : forall x y v, mul_body x y = Ret v -> v = VErr \/ exists p, v = VNum p.
Proof.
  intros x y v. unfold mul_body. cbv zeta.
  destruct (exponent_out_of_range (dexp _ + dexp _)); [intros H; injection H as <-; left; reflexivity|].
  destruct (exponent_out_of_range (num_digits _ + num_digits _)); [intros H; injection H as <-; left; reflexivity|].
  destruct (dec_mul _ _); [|discriminate]. intros H. injection H as <-. right. eexists. reflexivity.
Qed.

Lemma pow_body_shape : forall fp x y v, pow_body fp x y = Ret v -> v = VErr \/ exists p, v = VNum p.
Proof.
  intros fp x y v. unfold pow_body, dec_pow. cbv zeta.
  repeat (match goal with
          | |- context [if ?c then _ else _] => destruct c
          | |- context [match ?c with _ => _ end] => destruct c
          end; try discriminate; try (intros H; injection H as <-; (left; reflexivity) || (right; eexists; reflexivity))).
Qed.

Theorem arithmetic_keeps_exponent_bound : forall fp B op x y v,
  max_number_exponent <= B -> vbound B x = true -> vbound B y = true -> op <> OConcat ->
  (op = OPow -> forall n2, to_number y = Ok n2 -> dec_is_integer (dec_canonical n2) = true) ->
  eval_binop fp op x y = Ret v -> vbound B v = true.
Proof.
  intros fp B op x y v HB Hx Hy Hc Hp.
  destruct op; try contradiction; simpl; unfold textual_binary, numerical_binary, cmp_is;
    try (destruct (to_text x); [|intros H; injection H as <-; reflexivity];
         destruct (to_text y); intros H; injection H as <-; reflexivity);
    (destruct (to_number x) as [n1|] eqn:E1; [|intros H; injection H as <-; reflexivity];
     destruct (to_number y) as [n2|] eqn:E2; [|intros H; injection H as <-; reflexivity]);
    pose proof (vbound_to_number _ _ _ Hx E1) as H1; pose proof (vbound_to_number _ _ _ Hy E2) as H2;
    try (intros H; injection H as <-; reflexivity).
  - (* + *) intros H. injection H as <-. simpl. apply Z.leb_le. lia.
  - (* - *) intros H. injection H as <-. simpl. apply Z.leb_le. lia.
  - (* * *) intros H. destruct (mul_body_shape _ _ _ H) as [->|[p ->]]; [reflexivity|].
    simpl. apply Z.leb_le. pose proof (mul_body_exponent _ _ _ H). lia.
  - (* / *) destruct (dec_eqb n2 (Dec 0 0)); [intros H; injection H as <-; reflexivity|].
    unfold dec_div. destruct (dec_div_round n1 n2 division_precision) as [c|q] eqn:Ed; [discriminate|].
    intros H. injection H as <-. simpl. rewrite (dec_div_round_exponent _ _ _ _ Ed).
    apply Z.leb_le. unfold division_precision, max_number_exponent in *. lia.
  - (* ^ *) intros H. specialize (Hp eq_refl n2 eq_refl).
    destruct (pow_body_shape _ _ _ _ H) as [->|[p ->]]; [reflexivity|].
    simpl. apply Z.leb_le. pose proof (pow_body_integral_exponent _ _ _ _ Hp H). lia.
Qed.

(* ... and therefore by every TREE of these operators over bounded literals and a bounded context: the invariant of
   review finding N2 for the arithmetic fragment of the evaluator (context references, dot and index lookups, unary minus, + - * / and
   the comparisons, = and !=, ^ with a whole-number literal power; no calls and no &).  The exponent of every number such an expression evaluates to is within +-B for any B >= 100000 that the
   literals and the context respect — however deep the tree: no evaluation of this fragment builds an exponent that
   makes Decimal.Mul / QuoRem overflow, and what it costs to write the result's exponent is at most B. *)
Inductive arith : expr -> Prop :=
| ALit : forall v, arith (ELit v)
| ARef : forall n, arith (ERef n)
| ADot : forall c l, arith c -> arith (EDot c l)
| AIdx : forall c l, arith c -> arith l -> arith (EIdx c l)
| ANeg : forall a, arith a -> arith (ENeg a)
| ABin : forall op a b, op <> OConcat -> op <> OPow -> arith a -> arith b -> arith (EBin op a b)
| APow : forall a d, dec_is_integer (dec_canonical d) = true -> arith a -> arith (EBin OPow a (ELit (VNum d))).

Fixpoint literals_within (B : Z) (e : expr) : Prop :=
  match e with
  | ELit v => vbound B v = true
  | EDot c _ => literals_within B c
  | EIdx c l => literals_within B c /\ literals_within B l
  | ENeg a => literals_within B a
  | EBin _ a b => literals_within B a /\ literals_within B b
  | _ => True
  end.

Lemma obj_get_vbound : forall B props key v,
  vbound B (VObject None props) = true -> obj_get props key = Some v -> vbound B v = true.
Proof.
  intros B props key v. simpl. induction props as [|[k x] r IH]; simpl; [discriminate|].
  intros Hb. apply andb_prop in Hb as [H1 H2]. destruct (text_eqb _ _).
  - intros H. injection H as <-. exact H1.
  - apply IH. exact H2.
Qed.

Lemma vbound_array_nth : forall B items k v,
  vbound B (VArray items) = true -> nth_error items k = Some v -> vbound B v = true.
Proof.
  intros B items. simpl. induction items as [|x r IH]; intros k v Hb Hn; [destruct k; discriminate|].
  apply andb_prop in Hb as [H1 H2]. destruct k as [|k]; simpl in Hn.
  - injection Hn as <-. exact H1.
  - eapply IH; eassumption.
Qed.

Lemma obj_get_vbound_def : forall B def props key v,
  vbound B (VObject def props) = true -> obj_get props key = Some v -> vbound B v = true.
Proof.
  intros B def props key v Hb. apply (obj_get_vbound B props key v). simpl in *.
  apply andb_prop in Hb as [_ H]. exact H.
Qed.

(* a lookup gives a part of the container (or nil / an error) *)
Lemma resolve_lookup_vbound : forall B c l dot v,
  vbound B c = true -> resolve_lookup c l dot = Ret v -> vbound B v = true.
Proof.
  intros B c l dot v Hc. unfold resolve_lookup. destruct c; try (intros H; injection H as <-; reflexivity).
  - destruct (to_integer l) as [i|]; [|intros H; injection H as <-; reflexivity].
    destruct (_ || _); [intros H; injection H as <-; reflexivity|]. cbv zeta.
    unfold go_index. destruct (_ <? 0); [discriminate|].
    destruct (nth_error items _) as [w|] eqn:En; [|discriminate].
    intros H. injection H as <-. eapply vbound_array_nth; eassumption.
  - destruct (to_text l) as [p|]; [|intros H; injection H as <-; reflexivity].
    destruct (obj_get props p) as [w|] eqn:Eg.
    + intros H. injection H as <-. eapply obj_get_vbound_def; eassumption.
    + destruct dot; intros H; injection H as <-; reflexivity.
Qed.

Theorem arithmetic_tree_keeps_exponent_bound : forall wclass regex ext fp lf B ctx e v,
  max_number_exponent <= B -> vbound B (VObject None ctx) = true -> arith e -> literals_within B e ->
  eval wclass regex ext fp lf ctx e = Ret v -> vbound B v = true.
Proof.
  intros wclass regex ext fp lf B ctx e v HB Hctx Ha. revert v.
  induction Ha as [lv|n|c l Hc IHc|c l Hc IHc Hl' IHl|a Ha IH|op a b Hc Hp Ha IHa Hb IHb|a d Hi Ha IH]; intros v Hl; simpl.
  - intros H. injection H as <-. exact Hl.
  - unfold scope_get. destruct (obj_get ctx n) as [cv|] eqn:Eg.
    + intros H. injection H as <-. eapply obj_get_vbound; eassumption.
    + destruct (lf (lower n)); intros H; injection H as <-; reflexivity.
  - simpl in Hl. destruct (eval wclass regex ext fp lf ctx c) as [cv|pc|] eqn:Ec; simpl; try discriminate.
    destruct (is_err cv); [intros H; injection H as <-; exact (IHc cv Hl eq_refl)|].
    apply resolve_lookup_vbound. exact (IHc cv Hl eq_refl).
  - simpl in Hl. destruct Hl as [Hlc Hll].
    destruct (eval wclass regex ext fp lf ctx c) as [cv|pc|] eqn:Ec; simpl; try discriminate.
    destruct (is_err cv); [intros H; injection H as <-; exact (IHc cv Hlc eq_refl)|].
    destruct (eval wclass regex ext fp lf ctx l) as [lv|pc|] eqn:El; simpl; try discriminate.
    destruct (is_err lv); [intros H; injection H as <-; exact (IHl lv Hll eq_refl)|].
    apply resolve_lookup_vbound. exact (IHc cv Hlc eq_refl).
  - simpl in Hl. destruct (eval wclass regex ext fp lf ctx a) as [av|c|] eqn:Ea; simpl; try discriminate.
    unfold eval_neg. destruct (to_number av) as [n|] eqn:En; [|intros H; injection H as <-; reflexivity].
    intros H. injection H as <-. simpl. apply Z.leb_le.
    pose proof (vbound_to_number _ _ _ (IH av Hl eq_refl) En). assumption.
  - simpl in Hl. destruct Hl as [Hla Hlb].
    destruct (eval wclass regex ext fp lf ctx a) as [av|c|] eqn:Ea; simpl; try discriminate.
    destruct (eval wclass regex ext fp lf ctx b) as [bv|c|] eqn:Eb; simpl; try discriminate.
    intros H. eapply (arithmetic_keeps_exponent_bound fp B op av bv v HB (IHa av Hla eq_refl) (IHb bv Hlb eq_refl) Hc);
      [intros E; contradiction|exact H].
  - simpl in Hl. destruct Hl as [Hla Hlb].
    destruct (eval wclass regex ext fp lf ctx a) as [av|c|] eqn:Ea; simpl; try discriminate.
    intros H. eapply (arithmetic_keeps_exponent_bound fp B OPow av (VNum d) v HB (IH av Hla eq_refl) Hlb);
      [discriminate|intros _ n2 E; injection E as <-; exact Hi|exact H].
Qed.

(* ... so the arithmetic fragment over a context and literals within the exponent budget (+-10^9) NEVER panics and
   never runs out of the model's fuel — no class excepted and no hypothesis on the unmodelled functions or on the
   series part of ^ (the fragment calls neither): the statement that is only _partial for the whole evaluator. *)
Theorem arithmetic_tree_never_panics : forall wclass regex ext fp lf ctx e,
  vbound exponent_budget (VObject None ctx) = true -> arith e -> literals_within exponent_budget e ->
  ok false (eval wclass regex ext fp lf ctx e).
Proof.
  intros wclass regex ext fp lf ctx e Hctx Ha.
  assert (HB : max_number_exponent <= exponent_budget) by (unfold max_number_exponent, exponent_budget; lia).
  pose proof (fun e' v Ha' Hl' => arithmetic_tree_keeps_exponent_bound wclass regex ext fp lf exponent_budget ctx e' v HB Hctx Ha' Hl') as Hinv.
  induction Ha as [lv|n|c l Hc IHc|c l Hc IHc Hl' IHl|a Ha IH|op a b Hc Hp Ha IHa Hb IHb|a d Hi Ha IH]; intros Hl; simpl.
  - exact I.
  - destruct (scope_get lf ctx n); exact I.
  - simpl in Hl. specialize (IHc Hl). destruct (eval wclass regex ext fp lf ctx c) as [cv|pc|]; simpl; try assumption.
    destruct (is_err cv); [exact I|apply resolve_lookup_ok].
  - simpl in Hl. destruct Hl as [Hlc Hll]. specialize (IHc Hlc). specialize (IHl Hll).
    destruct (eval wclass regex ext fp lf ctx c) as [cv|pc|]; simpl; try assumption.
    destruct (is_err cv); [exact I|].
    destruct (eval wclass regex ext fp lf ctx l) as [lv|pc|]; simpl; try assumption.
    destruct (is_err lv); [exact I|apply resolve_lookup_ok].
  - simpl in Hl. specialize (IH Hl). destruct (eval wclass regex ext fp lf ctx a) as [av|pc|]; simpl; try assumption.
    apply eval_neg_ok.
  - simpl in Hl. destruct Hl as [Hla Hlb]. specialize (IHa Hla). specialize (IHb Hlb).
    pose proof (Hinv a) as Hia. pose proof (Hinv b) as Hib.
    destruct (eval wclass regex ext fp lf ctx a) as [av|pc|]; simpl; try assumption.
    destruct (eval wclass regex ext fp lf ctx b) as [bv|pc|]; simpl; try assumption.
    destruct op; try (apply eval_binop_no_panic; discriminate); try contradiction.
    apply divide_full; apply vbound_arg_exp_ok; [exact (Hia av Ha Hla eq_refl)|exact (Hib bv Hb Hlb eq_refl)].
  - simpl in Hl. destruct Hl as [Hla Hlb]. specialize (IH Hla).
    destruct (eval wclass regex ext fp lf ctx a) as [av|pc|]; simpl; try assumption.
    unfold numerical_binary. destruct (to_number av); [|exact I]. simpl. apply pow_body_integral_ok. exact Hi.
Qed.

Lemma arithmetic_tree_never_panics_statement : forall wclass regex ext fp lf ctx e,
  vbound exponent_budget (VObject None ctx) = true -> arith e -> literals_within exponent_budget e ->
  eval wclass regex ext fp lf ctx e <> NoFuel /\ forall c, eval wclass regex ext fp lf ctx e <> Panic c.
Proof.
  intros wclass regex ext fp lf ctx e H1 H2 H3.
  exact (proj1 (ok_false_iff _) (arithmetic_tree_never_panics wclass regex ext fp lf ctx e H1 H2 H3)).
Qed.

Example arithmetic_fragment_inhabited :
  arith (EBin ODiv (EBin OAdd (ERef [97%N]) (ELit (VNum (Dec 15 (-1))))) (EBin OPow (EIdx (ERef [98%N]) (ELit (VNum (Dec 0 0)))) (ELit (VNum (Dec 20 (-1))))))
  /\ literals_within exponent_budget (EBin ODiv (EBin OAdd (ERef [97%N]) (ELit (VNum (Dec 15 (-1))))) (EBin OPow (EIdx (ERef [98%N]) (ELit (VNum (Dec 0 0)))) (ELit (VNum (Dec 20 (-1))))))
  /\ vbound exponent_budget (VObject None [([97%N], VNum (Dec 7 0)); ([98%N], VArray [VNum (Dec 3 0)])]) = true.
Proof.
  split; [|split; [simpl; repeat split; reflexivity|vm_compute; reflexivity]].
  apply ABin; try discriminate.
  - apply ABin; try discriminate; constructor.
  - apply APow; [vm_compute; reflexivity|]. apply AIdx; constructor.
Qed.
